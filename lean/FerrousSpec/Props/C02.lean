/-
  C02 — expiration is exact.

  "A key given a time-to-live is visible with its value intact to every command until its deadline, and
  from the deadline on it is absent to every command of every data type, whether or not the background
  sweeper has run yet.  The TTL is removed by overwriting the key (SET, GETSET, MSET) or PERSIST, travels
  with the value on RENAME, survives in-place modifications, and a key that has no TTL (or whose TTL was
  removed or extended) is never deleted by the server on its own.  TTL/PTTL report the remaining time,
  -1 for no TTL and -2 for an absent key."

  Model: Model/Expiry.lean.  `step c` is the transliteration of the storage functions of engine.rs with
  respect to the stored deadline and the index `expiring_keys`; `sweepCollect` / `sweepDelete` are the two
  phases of the sweeper, interleavable with any storage call (`Step`, `runM`, `trace`); `Spec.step` is the
  prescribed instant-expiry store.  The facts `c : Cfg` are regenerated from the source (`Gen/Expiry.lean`,
  `codeCfg` below); `Cfg.pinned` is the tree as it was confirmed over TCP BEFORE the repairs 191d9b7 (sweeper re-check),
  3b7595a (index maintenance) and ab54c21 (central lazy expiry in `get_shard`) — an explicit quirk record the witness
  lemmas are about; `Cfg.fixed` the prescribed behaviour.  The tie theorems (`tree_is_repaired`, `code_*`) state that the
  tables regenerated from the CURRENT source have the repaired values and that the full statements hold for `codeCfg`.  The single instant `now = deadline` is left to either side.

  Statements at full strength are proved for every configuration that has the repair switch(es) they need;
  for the code as it is (`Cfg.pinned`) the negation is proved by a concrete witness and the provable part
  is named `…_partial`.  Property theorems only; helper lemmas are in Proofs/Expiry*.lean.
-/
import FerrousSpec.Proofs.ExpiryIndex
import FerrousSpec.Proofs.ExpiryTtl
import FerrousSpec.Proofs.ExpiryMulti
import FerrousSpec.Gen.Expiry
import FerrousSpec.Props.C01
set_option linter.unusedSimpArgs false
set_option linter.unusedVariables false
namespace Ferrous.C02
open Ferrous Ferrous.Exp

/-! ### Configurations -/

def pinnedLazy : List String :=
  ["exists", "get", "get_string", "hscan", "scan", "set_string_nx", "set_string_nx_ex", "sscan", "was_modified_since", "zscan"]
def pinnedReaping : List String := ["get", "get_string", "hscan", "sscan", "zscan"]

/-- The tree as confirmed on the real server before the repairs (explicit quirk record): lazy tests only in `get` (and what reads
    through it), `exists`, `set_string_nx(_ex)`, `scan`, `was_modified_since`; no index maintenance in `set_value`
    without TTL, `set_string_nx`, `rename`, the emptying deletes; no re-check in the sweeper. -/
def Cfg.pinned : Cfg :=
  { lazy := fun fn => pinnedLazy.contains fn, reaps := fun fn => pinnedReaping.contains fn, sweeperRechecks := false,
    setValueDropsStale := false, setNxDropsStale := false, renameMovesIndex := false, emptiedDropsIndex := false }

/-- The tree as the translator sees it NOW. -/
def codeCfg : Cfg :=
  { lazy := fun fn => Gen.lazyChecked.contains fn, reaps := fun fn => Gen.reaping.contains fn,
    sweeperRechecks := Gen.sweeperRechecks, setValueDropsStale := Gen.setValueDropsStale,
    setNxDropsStale := Gen.setNxDropsStale, renameMovesIndex := Gen.renameMovesIndex,
    emptiedDropsIndex := Gen.emptiedDropsIndex }

def kA : Key := [97]
def kB : Key := [98]

/-! ### Tie to the current source: the regenerated tables have the repaired values -/

/-- TABLE: the sweeper re-checks the stored deadline, the index is maintained at every site, `get_shard` tests expiry for
    every single-key function, and NO storage function looks at `data` without a lazy test. -/
theorem tree_is_repaired :
    Gen.sweeperRechecks = true ∧ Gen.setValueDropsStale = true ∧ Gen.setNxDropsStale = true ∧ Gen.renameMovesIndex = true ∧
    Gen.emptiedDropsIndex = true ∧ Gen.centralLazy = true ∧ Gen.notLazy = [] := by decide

/-- the engine functions behind the three table-driven classes of storage calls -/
def readFns : List String :=
  ["strlen", "getrange", "llen", "lrange", "lindex", "lset", "ltrim", "smembers", "sismember", "scard", "sunion", "sinter", "sdiff",
   "srandmember", "sscan", "hget", "hmget", "hgetall", "hlen", "hexists", "hkeys", "hvals", "hscan", "zscore", "zcard", "zrank", "zrange",
   "zrangebyscore", "zcount", "zscan", "xlen", "xrange", "xrevrange", "xread"]
def updateFns : List String :=
  ["incr", "incr_by", "append", "setrange", "lpush", "rpush", "sadd", "hset", "hincrby", "zadd", "zincrby", "xadd", "xadd_with_id"]
def shrinkFns : List String := ["lpop", "rpop", "ltrim", "lrem", "srem", "spop", "hdel", "zrem", "xdel", "xtrim"]
def keysFns : List String := ["keys", "get_all_keys"]

/-- a storage call that names a real engine function of its class -/
def wfOp : Op → Bool
  | .read fn _ _ => readFns.contains fn
  | .update fn _ _ _ => updateFns.contains fn
  | .shrink fn _ _ => shrinkFns.contains fn
  | .keys fn => keysFns.contains fn
  | _ => true

def wfSteps : List Step → Bool
  | [] => true
  | .op o _ :: r => wfOp o && wfSteps r
  | _ :: r => wfSteps r

/-- TABLE (current tree): every engine function of every class has a lazy test, and the ones that create keys remove what
    they find expired; hence every well-formed storage call is lazily checked and keeps the index. -/
theorem code_ops_lazy_and_keep_index (o : Op) (h : wfOp o = true) :
    lazyOp codeCfg o = true ∧ keepsIndex codeCfg o = true := by
  have hr : ∀ fn ∈ readFns, codeCfg.lazy fn = true := by decide
  have hu : ∀ fn ∈ updateFns, codeCfg.lazy fn = true ∧ codeCfg.reaps fn = true := by decide
  have hs : ∀ fn ∈ shrinkFns, codeCfg.lazy fn = true := by decide
  have hk : ∀ fn ∈ keysFns, codeCfg.lazy fn = true := by decide
  have hsv : codeCfg.setValueDropsStale = true := by decide
  have hnx : codeCfg.setNxDropsStale = true := by decide
  have hem : codeCfg.emptiedDropsIndex = true := by decide
  have hrn : codeCfg.renameMovesIndex = true := by decide
  cases o with
  | setValue k tag v ttl => exact ⟨rfl, by simp [keepsIndex, hsv]⟩
  | setNx k v ttl =>
    refine ⟨?_, by simp [keepsIndex, hnx]⟩
    cases ttl
    · exact (by decide : codeCfg.lazy "set_string_nx" = true)
    · exact (by decide : codeCfg.lazy "set_string_nx_ex" = true)
  | get k => exact ⟨(by decide : codeCfg.lazy "get" = true), rfl⟩
  | «exists» k => exact ⟨(by decide : codeCfg.lazy "exists" = true), rfl⟩
  | delete k => exact ⟨(by decide : codeCfg.lazy "delete" = true), rfl⟩
  | expire k t => exact ⟨(by decide : codeCfg.lazy "expire" = true), rfl⟩
  | persist k => exact ⟨(by decide : codeCfg.lazy "persist" = true), rfl⟩
  | ttl k => exact ⟨(by decide : codeCfg.lazy "ttl" = true), rfl⟩
  | keyType k => exact ⟨(by decide : codeCfg.lazy "key_type" = true), rfl⟩
  | read fn k tag =>
    have := hr fn (by simpa [wfOp] using h)
    exact ⟨this, rfl⟩
  | update fn k tag d =>
    have := hu fn (by simpa [wfOp] using h)
    exact ⟨this.1, by simp [keepsIndex, this.2]⟩
  | shrink fn k tag =>
    have := hs fn (by simpa [wfOp] using h)
    exact ⟨this, by simp [keepsIndex, hem]⟩
  | rename a b => exact ⟨(by decide : codeCfg.lazy "rename" = true), by simp [keepsIndex, hrn]⟩
  | keys fn =>
    have := hk fn (by simpa [wfOp] using h)
    exact ⟨this, rfl⟩
  | scan => exact ⟨(by decide : codeCfg.lazy "scan" = true), rfl⟩
  | flush => exact ⟨rfl, rfl⟩

/-! ### (1) The index agrees with the stored deadlines -/

/-- (I) is an invariant of every run — storage calls and sweeper phases in any order — of a configuration whose
    storage functions all maintain the index.  It is what makes "collect from the index" sound. -/
theorem index_agrees (c : Cfg) (hk : ∀ o, keepsIndex c o = true) (steps : List Step) (m : M)
    (h : IndexAgrees m.shard) : IndexAgrees (runM c m steps).shard := by
  induction steps generalizing m with
  | nil => exact h
  | cons st r ih =>
    simp only [runM, List.foldl_cons]
    apply ih
    cases st with
    | op o now => exact step_ia c o now m.shard (hk o) h
    | collect now => exact h
    | delete now => exact sweepDelete_ia c now m.pending m.shard h

/-- … in particular of the prescribed configuration, from the empty server. -/
theorem index_agrees_fixed (steps : List Step) : IndexAgrees (runM Cfg.fixed M.empty steps).shard := by
  apply index_agrees Cfg.fixed _ steps M.empty indexAgrees_empty
  intro o; cases o <;> simp [keepsIndex, Cfg.fixed]

/-- For ANY configuration (the code as it is included): every storage call outside the decidable exception set
    `keepsIndex c o = false` preserves (I), and so does every sweeper phase. -/
theorem index_agrees_partial (c : Cfg) (steps : List Step) (m : M) (h : IndexAgrees m.shard)
    (hk : ∀ st ∈ steps, match st with | .op o _ => keepsIndex c o = true | _ => True) :
    IndexAgrees (runM c m steps).shard := by
  induction steps generalizing m with
  | nil => exact h
  | cons st r ih =>
    simp only [runM, List.foldl_cons]
    apply ih
    · have h0 := hk st (by simp)
      cases st with
      | op o now => exact step_ia c o now m.shard h0 h
      | collect now => exact h
      | delete now => exact sweepDelete_ia c now m.pending m.shard h
    · intro st' hst; exact hk st' (List.mem_cons_of_mem _ hst)

/-- THE CURRENT TREE: (I) is an invariant of every run of well-formed storage calls and sweeper phases from the empty server. -/
theorem code_index_agrees (steps : List Step) (hw : wfSteps steps = true) : IndexAgrees (runM codeCfg M.empty steps).shard := by
  apply index_agrees_partial codeCfg steps M.empty indexAgrees_empty
  induction steps with
  | nil => intro st h; simp at h
  | cons st r ih =>
    intro st' hst
    cases st with
    | op o now =>
      simp only [wfSteps, Bool.and_eq_true] at hw
      rcases List.mem_cons.mp hst with h | h
      · subst h; exact (code_ops_lazy_and_keep_index o hw.1).2
      · exact ih hw.2 st' h
    | collect now =>
      rcases List.mem_cons.mp hst with h | h
      · subst h; trivial
      · exact ih (by simpa [wfSteps] using hw) st' h
    | delete now =>
      rcases List.mem_cons.mp hst with h | h
      · subst h; trivial
      · exact ih (by simpa [wfSteps] using hw) st' h

/-- `SET k v EX ..; SET k v2` before 3b7595a: `set_value` without a TTL left the index entry of the old value. -/
theorem index_agrees_fails_set_over_ttl :
    ∃ s, IndexAgrees s ∧ ¬ IndexAgrees (step Cfg.pinned (.setValue kA .str 2 none) 10 s).1 := by
  refine ⟨(step Cfg.pinned (.setValue kA .str 1 (some 1000)) 0 Shard.empty).1, ?_, ?_⟩
  · exact step_ia _ _ _ _ (by decide) indexAgrees_empty
  · exact not_ia _ kA 1000 (by decide) (by decide)

/-- `SET k v PX 300; (deadline passes); SET k w NX`: `set_string_nx` overwrites the expired entry and keeps its index entry. -/
theorem index_agrees_fails_setnx_over_expired :
    ∃ s, IndexAgrees s ∧ ¬ IndexAgrees (step Cfg.pinned (.setNx kA 2 none) 500 s).1 := by
  refine ⟨(step Cfg.pinned (.setValue kA .str 1 (some 300)) 0 Shard.empty).1, ?_, ?_⟩
  · exact step_ia _ _ _ _ (by decide) indexAgrees_empty
  · exact not_ia _ kA 300 (by decide) (by decide)

/-- `RENAME a b`: the index entry stays under the old name and none is made under the new one (engine.rs:2031). -/
theorem index_agrees_fails_rename :
    ∃ s, IndexAgrees s ∧ ¬ IndexAgrees (step Cfg.pinned (.rename kA kB) 10 s).1 := by
  refine ⟨(step Cfg.pinned (.setValue kA .str 1 (some 300)) 0 Shard.empty).1, ?_, ?_⟩
  · exact step_ia _ _ _ _ (by decide) indexAgrees_empty
  · exact not_ia _ kA 300 (by decide) (by decide)

/-- `RPUSH l a; PEXPIRE l 300; LPOP l`: the list is deleted because it became empty, its index entry stays
    (engine.rs:1084) — a later re-creation of `l` inherits it. -/
theorem index_agrees_fails_emptied :
    ∃ s, IndexAgrees s ∧ ¬ IndexAgrees (step Cfg.pinned (.shrink "lpop" kA .list) 20 s).1 := by
  refine ⟨(step Cfg.pinned (.expire kA 300) 10 (step Cfg.pinned (.update "rpush" kA .list 1) 0 Shard.empty).1).1, ?_, ?_⟩
  · exact step_ia _ _ _ _ (by decide) (step_ia _ _ _ _ (by decide) indexAgrees_empty)
  · exact not_ia _ kA 310 (by decide) (by decide)

/-! ### (2) The server never deletes a key whose stored deadline is absent or in the future -/

/-- NO SPURIOUS DELETE, all interleavings: with the re-check in the delete phase, along EVERY run — storage calls,
    collect phases and delete phases in any order, from any state, with any index content (no invariant needed) —
    no sweeper phase removes or alters an entry whose stored deadline is absent or has not passed. -/
theorem no_spurious_delete (c : Cfg) (hr : c.sweeperRechecks = true) (steps : List Step) (m : M) :
    SweepSafe c m steps :=
  sweepSafe_of_recheck c hr steps m

/-- THE CURRENT TREE: the translator sees the re-check in `expiration_cleanup_loop` (`Gen.sweeperRechecks`), so the full
    statement holds for the code as it is, for every run from every state. -/
theorem code_no_spurious_delete (steps : List Step) (m : M) : SweepSafe codeCfg m steps :=
  sweepSafe_of_recheck codeCfg (by decide) steps m

/-- THE CURRENT TREE: a key without TTL (or whose TTL has not elapsed) is never deleted by the server on its own. -/
theorem code_never_deleted_on_its_own (k : Key) (e : Stored) (steps : List Step) (m : M)
    (hl : lookup m.shard.data k = some e) (hq : ∀ st ∈ steps, st.avoids k = true) (ht : ∀ st ∈ steps, expired st.time e = false) :
    lookup (runM codeCfg m steps).shard.data k = some e :=
  entry_survives codeCfg (by decide) k e steps m hl hq ht

/-- … and in client terms: an entry survives, value and deadline intact, every run of sweeper phases and of calls
    about other keys for as long as its stored deadline has not passed — for ever if it has none.  ("A key that has
    no TTL, or whose TTL was removed or extended, is never deleted by the server on its own"; "visible until its deadline".) -/
theorem never_deleted_on_its_own (c : Cfg) (hr : c.sweeperRechecks = true) (k : Key) (e : Stored) (steps : List Step) (m : M)
    (hl : lookup m.shard.data k = some e)
    (hq : ∀ st ∈ steps, st.avoids k = true)
    (ht : ∀ st ∈ steps, expired st.time e = false) :
    lookup (runM c m steps).shard.data k = some e :=
  entry_survives c hr k e steps m hl hq ht

/-- The part that holds for the code as it is (any configuration): when (I) holds, an ATOMIC pass — collect immediately
    followed by delete — removes no entry whose stored deadline is absent or after `now`. -/
theorem no_spurious_delete_partial (c : Cfg) (now : Nat) (s : Shard) (h : IndexAgrees s) (hn : NodupKeys s.expiring)
    (k : Key) (e : Stored) (hl : lookup s.data k = some e) (hd : ∀ d, e.deadline = some d → now < d) :
    lookup (sweepDelete c now (sweepCollect now s) s).data k = some e :=
  atomic_sweep_safe c now s h hn k e hl hd

/-- `SET k v EX 1; SET k v2`, then a sweeper pass after one second. -/
def staleIndexRun : List Step :=
  [.op (.setValue kA .str 1 (some 1000)) 0, .op (.setValue kA .str 2 none) 10, .collect 1500, .delete 1500]

/-- The stale index entry makes the sweeper delete a key that has NO time-to-live. -/
theorem no_spurious_delete_fails_stale_index :
    ¬ SweepSafe Cfg.pinned M.empty staleIndexRun ∧
    lookup (runM Cfg.pinned M.empty (staleIndexRun.take 3)).shard.data kA = some ⟨.str, 2, none⟩ ∧
    lookup (runM Cfg.pinned M.empty staleIndexRun).shard.data kA = none := by
  refine ⟨?_, by decide, by decide⟩
  intro h
  have := h.2.2.2.1 rfl kA ⟨.str, 2, none⟩ (by decide) (by decide)
  revert this; decide

/-- The window proper: the sweeper collects at 400 ms a key whose deadline (300 ms) has passed; between collect and
    delete a client re-creates it without TTL (`windowSetRun`), or — the key being late-visible — gives it a long TTL
    (`windowExpireRun`); `windowPersistRun` is the boundary instant `now = d` (collected by `d ≤ now`, not yet expired by
    `now > d`), where PERSIST is legitimate and the key is deleted all the same. -/
def windowSetRun : List Step :=
  [.op (.setValue kA .str 1 (some 300)) 0, .collect 400, .op (.setValue kA .str 2 none) 401, .delete 402]

def windowExpireRun : List Step :=
  [.op (.setValue kA .list 1 (some 300)) 0, .collect 400, .op (.expire kA 100000) 401, .delete 402]

def windowPersistRun : List Step :=
  [.op (.setValue kA .list 1 (some 300)) 0, .collect 300, .op (.persist kA) 300, .delete 301]

/-- The collect/delete window: a key collected as expired and then overwritten without TTL, given a long TTL, or
    made persistent before the delete phase runs is deleted all the same (`data.remove(&key)` does not look at the
    stored deadline, engine.rs:2505). -/
theorem no_spurious_delete_fails_window :
    (¬ SweepSafe Cfg.pinned M.empty windowSetRun ∧ lookup (runM Cfg.pinned M.empty windowSetRun).shard.data kA = none) ∧
    (¬ SweepSafe Cfg.pinned M.empty windowExpireRun ∧ lookup (runM Cfg.pinned M.empty windowExpireRun).shard.data kA = none) ∧
    (¬ SweepSafe Cfg.pinned M.empty windowPersistRun ∧ lookup (runM Cfg.pinned M.empty windowPersistRun).shard.data kA = none) := by
  refine ⟨⟨?_, by decide⟩, ⟨?_, by decide⟩, ⟨?_, by decide⟩⟩
  · intro h
    have := h.2.2.2.1 rfl kA ⟨.str, 2, none⟩ (by decide) (by decide)
    revert this; decide
  · intro h
    have := h.2.2.2.1 rfl kA ⟨.list, 1, some 100401⟩ (by decide) (by decide)
    revert this; decide
  · intro h
    have := h.2.2.2.1 rfl kA ⟨.list, 1, none⟩ (by decide) (by decide)
    revert this; decide

/-- `RPUSH l a; PEXPIRE l 300; LPOP l; RPUSH l b` — the re-created list has no TTL and is deleted at 300 ms;
    `SET a v PX 300; RENAME a b; INCR a` — the counter created under the old name is deleted at 300 ms. -/
def emptiedRecreatedRun : List Step :=
  [.op (.update "rpush" kA .list 1) 0, .op (.expire kA 300) 1, .op (.shrink "lpop" kA .list) 2,
   .op (.update "rpush" kA .list 1) 3, .collect 1000, .delete 1000]

def renameRecreatedRun : List Step :=
  [.op (.setValue kA .str 5 (some 300)) 0, .op (.rename kA kB) 1, .op (.update "incr_by" kA .str 1) 2, .collect 1000, .delete 1000]

theorem no_spurious_delete_fails_recreated :
    (lookup (runM Cfg.pinned M.empty (emptiedRecreatedRun.take 4)).shard.data kA = some ⟨.list, 1, none⟩ ∧
     lookup (runM Cfg.pinned M.empty emptiedRecreatedRun).shard.data kA = none) ∧
    (lookup (runM Cfg.pinned M.empty (renameRecreatedRun.take 3)).shard.data kA = some ⟨.str, 1, none⟩ ∧
     lookup (runM Cfg.pinned M.empty renameRecreatedRun).shard.data kA = none) := by
  decide

/-- the same runs under the re-check keep the key (instances of `no_spurious_delete`; they show the hypothesis is
    satisfiable and the repair sufficient WITHOUT any index maintenance) -/
theorem recheck_repairs_witnesses :
    let c : Cfg := { Cfg.pinned with sweeperRechecks := true }
    lookup (runM c M.empty staleIndexRun).shard.data kA = some ⟨.str, 2, none⟩ ∧
    lookup (runM c M.empty windowSetRun).shard.data kA = some ⟨.str, 2, none⟩ ∧
    lookup (runM c M.empty windowExpireRun).shard.data kA = some ⟨.list, 1, some 100401⟩ ∧
    lookup (runM c M.empty windowPersistRun).shard.data kA = some ⟨.list, 1, none⟩ ∧
    lookup (runM c M.empty emptiedRecreatedRun).shard.data kA = some ⟨.list, 1, none⟩ ∧
    lookup (runM c M.empty renameRecreatedRun).shard.data kA = some ⟨.str, 1, none⟩ := by
  decide

/-! ### (3) Never early: until its deadline a key is visible, value intact, to every command -/

/-- For EVERY configuration (the code as it is included), every storage function and every state: a call that meets
    no expired entry under its key(s) returns exactly what the prescribed store returns and leaves the same visible
    entries — no lazy test fires before the deadline (`now > d` is false up to and including `d`). -/
theorem never_early (c : Cfg) (o : Op) (now : Nat) (s : Shard) (hn : NodupKeys s.data) (h : Clean now o s) :
    Spec.purge now (step c o now s).1.data = (Spec.step o now s.data).1 ∧
    (step c o now s).2 = (Spec.step o now s.data).2 :=
  step_refines c o now s hn (Or.inr h)

/-- … and the entry it is handed is the stored one, nothing having been removed. -/
theorem live_entry_is_seen (c : Cfg) (fn : String) (now : Nat) (s : Shard) (k : Key) (e : Stored)
    (hl : lookup s.data k = some e) (he : expired now e = false) : enter c fn now s k = (s, some e) :=
  enter_live c fn now s k e hl he

/-! ### (4) Never late: from the deadline on a key is absent to every command -/

/-- NEVER LATE, full statement: when every storage function has a lazy test, every call on every state returns what the
    instant-expiry store returns and leaves the same visible entries: an entry whose deadline has passed has no
    influence on any reply or on any later visible state, swept or not. -/
theorem never_late (c : Cfg) (hl : ∀ o, lazyOp c o = true) (o : Op) (now : Nat) (s : Shard) (hn : NodupKeys s.data) :
    Spec.purge now (step c o now s).1.data = (Spec.step o now s.data).1 ∧
    (step c o now s).2 = (Spec.step o now s.data).2 :=
  step_refines c o now s hn (Or.inl (hl o))

/-- The part that holds for the code as it is: the calls that DO have a lazy test (and the blind overwrites). -/
theorem never_late_partial (c : Cfg) (o : Op) (now : Nat) (s : Shard) (hn : NodupKeys s.data) (h : lazyOp c o = true) :
    Spec.purge now (step c o now s).1.data = (Spec.step o now s.data).1 ∧
    (step c o now s).2 = (Spec.step o now s.data).2 :=
  step_refines c o now s hn (Or.inl h)

/-- THE CURRENT TREE, never late: every well-formed storage call, on every state, returns what the instant-expiry store
    returns and leaves the same visible entries (this is a statement about `Gen.lazyChecked`: it stops checking as soon as
    one engine function loses its test). -/
theorem code_never_late (o : Op) (hw : wfOp o = true) (now : Nat) (s : Shard) (hn : NodupKeys s.data) :
    Spec.purge now (step codeCfg o now s).1.data = (Spec.step o now s.data).1 ∧
    (step codeCfg o now s).2 = (Spec.step o now s.data).2 :=
  step_refines codeCfg o now s hn (Or.inl (code_ops_lazy_and_keep_index o hw).1)

/-- ALL INTERLEAVINGS: when every storage function has a lazy test and the sweeper re-checks, every run of client calls
    interleaved in any way with collect and delete phases (times non-decreasing) returns, call by call, exactly what
    the instant-expiry store — which has no sweeper — returns.  Never early, never late and no spurious delete in one. -/
theorem fixed_refines_spec (c : Cfg) (hl : ∀ o, lazyOp c o = true) (hr : c.sweeperRechecks = true) (steps : List Step)
    (hm : monotoneFrom 0 steps = true) : trace c M.empty steps = Spec.trace [] steps :=
  run_refines c hl hr steps M.empty [] 0 nodup_nil rfl hm

/-- THE CURRENT TREE, all interleavings: every run of well-formed storage calls interleaved in any way with collect and delete
    phases (times non-decreasing) returns, call by call, exactly what the instant-expiry store returns. -/
theorem code_refines_spec (steps : List Step) (hw : wfSteps steps = true) (hm : monotoneFrom 0 steps = true) :
    trace codeCfg M.empty steps = Spec.trace [] steps := by
  apply run_refines_of codeCfg (by decide) steps M.empty [] 0 _ nodup_nil rfl hm
  clear hm
  induction steps with
  | nil => rfl
  | cons st r ih =>
    cases st with
    | op o now =>
      simp only [wfSteps, Bool.and_eq_true] at hw
      simp only [allLazy, Bool.and_eq_true]
      exact ⟨(code_ops_lazy_and_keep_index o hw.1).1, ih hw.2⟩
    | collect now => exact ih (by simpa [wfSteps] using hw)
    | delete now => exact ih (by simpa [wfSteps] using hw)

/-- the store with one expired, unswept entry used by the witnesses: `kA` of the given type, deadline 300, at time 500 -/
def late (tag : Tag) : Shard := ⟨[(kA, ⟨tag, 1, some 300⟩)], [(kA, 300)]⟩

/-- NEVER LATE is FALSE for the code as it is, one witness per class of storage function without a lazy test:
    on `RPUSH l a; PEXPIRE l 300` at 500 ms, unswept — LLEN answers 1; RPUSH appends to the dead list (2) and the
    acknowledged element is lost with it; LPOP pops from it; DEL answers 1; EXPIRE revives it; PERSIST makes it
    permanent; TYPE says list; RENAME moves it; KEYS / DBSIZE count it; `ttl` reports zero (→ PTTL 0). -/
theorem never_late_fails :
    (step Cfg.pinned (.read "llen" kA .list) 500 (late .list)).2 ≠ (Spec.step (.read "llen" kA .list) 500 (late .list).data).2 ∧
    (step Cfg.pinned (.update "rpush" kA .list 1) 500 (late .list)).2 ≠ (Spec.step (.update "rpush" kA .list 1) 500 (late .list).data).2 ∧
    (step Cfg.pinned (.update "incr_by" kA .str 1) 500 (late .str)).2 ≠ (Spec.step (.update "incr_by" kA .str 1) 500 (late .str).data).2 ∧
    (step Cfg.pinned (.shrink "lpop" kA .list) 500 (late .list)).2 ≠ (Spec.step (.shrink "lpop" kA .list) 500 (late .list).data).2 ∧
    (step Cfg.pinned (.delete kA) 500 (late .list)).2 ≠ (Spec.step (.delete kA) 500 (late .list).data).2 ∧
    (step Cfg.pinned (.expire kA 1000) 500 (late .list)).2 ≠ (Spec.step (.expire kA 1000) 500 (late .list).data).2 ∧
    (step Cfg.pinned (.persist kA) 500 (late .list)).2 ≠ (Spec.step (.persist kA) 500 (late .list).data).2 ∧
    (step Cfg.pinned (.keyType kA) 500 (late .list)).2 ≠ (Spec.step (.keyType kA) 500 (late .list).data).2 ∧
    (step Cfg.pinned (.rename kA kB) 500 (late .list)).2 ≠ (Spec.step (.rename kA kB) 500 (late .list).data).2 ∧
    (step Cfg.pinned (.keys "keys") 500 (late .list)).2 ≠ (Spec.step (.keys "keys") 500 (late .list).data).2 ∧
    (step Cfg.pinned (.keys "get_all_keys") 500 (late .list)).2 ≠ (Spec.step (.keys "get_all_keys") 500 (late .list).data).2 ∧
    (step Cfg.pinned (.ttl kA) 500 (late .list)).2 ≠ (Spec.step (.ttl kA) 500 (late .list).data).2 := by
  decide

/-- the consequences a client sees: EXPIRE on the dead key revives it (visible again to GET-like calls);
    an element pushed onto the dead list is acknowledged and then deleted with it by the next pass. -/
theorem never_late_fails_consequences :
    -- revived
    Spec.purge 600 (step Cfg.pinned (.expire kA 1000) 500 (late .list)).1.data ≠ [] ∧
    (Spec.step (.expire kA 1000) 500 (late .list).data).1 = [] ∧
    -- acknowledged write lost
    (let s1 := (step Cfg.pinned (.update "rpush" kA .list 1) 500 (late .list)).1
     lookup (sweepDelete Cfg.pinned 1000 (sweepCollect 1000 s1) s1).data kA = none) ∧
    lookup (Spec.step (.update "rpush" kA .list 1) 500 (late .list).data).1 kA = some ⟨.list, 1, none⟩ := by
  decide

/-- the functions that had NO lazy test before ab54c21, confirmed one by one over TCP with the sweeper paused (lib/c02.py
    matrix); kept as the record the witnesses `never_late_fails` stand for -/
def knownLate : List String :=
  ["append", "delete", "expire", "get_all_keys", "getrange", "hdel", "hexists", "hget", "hgetall", "hincrby", "hkeys", "hlen",
   "hmget", "hset", "hvals", "incr", "incr_by", "key_type", "keys", "lindex", "llen", "lpop", "lpush", "lrange", "lrem", "lset",
   "ltrim", "persist", "pexpire", "pttl", "rename", "rpop", "rpush", "sadd", "scard", "sdiff", "setrange", "sinter", "sismember",
   "smembers", "spop", "srandmember", "srem", "stream_create_consumer_group", "strlen", "sunion", "ttl", "xadd", "xadd_with_id",
   "xdel", "xlen", "xrange", "xread", "xrevrange", "xtrim", "zadd", "zcard", "zcount", "zincrby", "zrange", "zrangebyscore", "zrank",
   "zrem", "zscore"]

/-- TABLE (current tree): every function that was late is lazily checked now, and none looks at `data` without a test. -/
theorem late_functions_repaired : (∀ fn ∈ knownLate, fn ∈ Gen.lazyChecked) ∧ Gen.notLazy = [] := by decide

/-- TABLE: the functions that had a lazy test still have it, and the sweeper still collects from the index. -/
theorem lazy_core_kept : (∀ fn ∈ pinnedLazy, fn ∈ Gen.lazyChecked) ∧ (∀ fn ∈ pinnedReaping, fn ∈ Gen.reaping) ∧
    Gen.sweeperCollectsFromIndex = true ∧ Gen.snapshotReadsThroughGet = true := by decide

/-- TABLE: the comparison operators the model uses are the code's: `is_expired` is `now > d`, `ttl` tests `d > now`. -/
theorem comparison_operators_match : Gen.expiredIsStrict = true ∧ Gen.ttlComparesStrict = true := by decide

/-! ### (5) Who removes, moves and keeps the time-to-live (on STORED deadlines; every configuration) -/

/-- SET, GETSET, MSET (and SETNX on an absent key) store the new value WITHOUT a deadline, whatever was there. -/
theorem ttl_cleared_by_overwrite (c : Cfg) (now : Nat) (s : Shard) (k : Key) (n : Nat) :
    lookup (cmd c { name := "SET", k := k, n := n } now s).1.data k = some ⟨.str, n, none⟩ ∧
    lookup (cmd c { name := "MSET", k := k, n := n } now s).1.data k = some ⟨.str, n, none⟩ ∧
    (∀ e, lookup s.data k = some e → e.tag = .str → expired now e = false →
      (cmd c { name := "GETSET", k := k, n := n } now s).2 = .num e.val ∧
      lookup (cmd c { name := "GETSET", k := k, n := n } now s).1.data k = some ⟨.str, n, none⟩) := by
  refine ⟨by simp [cmd, cmdWith, step, lookup_insert_self], by simp [cmd, cmdWith, step, lookup_insert_self], ?_⟩
  intro e hl ht he
  obtain ⟨tag, val, d⟩ := e
  simp only [] at ht; subst ht
  simp [cmd, cmdWith, step, enter_live c _ now s k _ hl he, lookup_insert_self]

/-- … and with the index maintained (`setValueDropsStale`) no index entry is left behind either. -/
theorem overwrite_drops_index (c : Cfg) (h : c.setValueDropsStale = true) (now : Nat) (s : Shard) (k : Key) (tag : Tag) (n : Nat) :
    lookup (step c (.setValue k tag n none) now s).1.expiring k = none := by
  simp [step, h, lookup_erase_self]

/-- PERSIST on a visible key with a deadline removes the deadline and nothing else. -/
theorem ttl_cleared_by_persist (c : Cfg) (now : Nat) (s : Shard) (k : Key) (e : Stored) (d : Nat)
    (hl : lookup s.data k = some e) (hd : e.deadline = some d) (he : expired now e = false) :
    (step c (.persist k) now s).2 = .bool true ∧
    lookup (step c (.persist k) now s).1.data k = some { e with deadline := none } ∧
    lookup (step c (.persist k) now s).1.expiring k = none := by
  simp [step, enter_live c _ now s k e hl he, hd, lookup_insert_self, lookup_erase_self]

/-- RENAME moves the stored entry — type, value AND deadline — to the new name; the old name is gone. -/
theorem ttl_travels_on_rename (c : Cfg) (now : Nat) (s : Shard) (a b : Key) (e : Stored) (hab : a ≠ b)
    (hl : lookup s.data a = some e) (he : expired now e = false) :
    (step c (.rename a b) now s).2 = .bool true ∧
    lookup (step c (.rename a b) now s).1.data b = some e ∧
    lookup (step c (.rename a b) now s).1.data a = none := by
  simp [step, enter_live c _ now s a e hl he, lookup_insert_self, lookup_insert_other _ _ _ _ hab, lookup_erase_self]

/-- … and with the index maintained the index entry travels too. -/
theorem rename_moves_index (c : Cfg) (h : c.renameMovesIndex = true) (now : Nat) (s : Shard) (a b : Key) (e : Stored) (d : Nat)
    (hab : a ≠ b) (hl : lookup s.data a = some e) (hd : e.deadline = some d) (he : expired now e = false) :
    lookup (step c (.rename a b) now s).1.expiring b = some d ∧ lookup (step c (.rename a b) now s).1.expiring a = none := by
  simp [step, enter_live c _ now s a e hl he, h, hd, lookup_insert_self, lookup_insert_other _ _ _ _ hab, lookup_erase_self]

/-- In-place modifications (INCR, APPEND, SETRANGE, pushes, SADD, HSET, ZADD, XADD; pops and removals that leave the
    collection non-empty) keep the stored deadline, and the index is not touched. -/
theorem ttl_survives_in_place_update (c : Cfg) (fn : String) (now : Nat) (s : Shard) (k : Key) (e : Stored) (delta : Nat)
    (hl : lookup s.data k = some e) (he : expired now e = false) :
    lookup (step c (.update fn k e.tag delta) now s).1.data k = some { e with val := e.val + delta } ∧
    (step c (.update fn k e.tag delta) now s).1.expiring = s.expiring ∧
    (1 < e.val → lookup (step c (.shrink fn k e.tag) now s).1.data k = some { e with val := e.val - 1 } ∧
                 (step c (.shrink fn k e.tag) now s).1.expiring = s.expiring) := by
  refine ⟨by simp [step, enter_live c _ now s k e hl he, lookup_insert_self], by simp [step, enter_live c _ now s k e hl he], ?_⟩
  intro hv
  have : ¬ e.val ≤ 1 := by omega
  simp [step, enter_live c _ now s k e hl he, this, lookup_insert_self]

/-- The same facts on the command-level reference machine of C01/C03 (`KS.step`), cited from there. -/
theorem ks_ttl_rules (db : KS.Db) (now : Nat) (k v : Bytes) :
    KS.lookup (KS.cmdSet db now [k, v]).1 k = some { val := .str v, deadline := none } ∧
    (∀ a b e, KS.DbOk db → a ≠ b → KS.lookup db a = some e →
      KS.lookup (KS.cmdRename db false [a, b]).1 b = some e ∧ KS.lookup (KS.cmdRename db false [a, b]).1 a = none) ∧
    (∀ b d, KS.lookup db k = some ⟨.str b, d⟩ → b.length + v.length ≤ 536870912 →
      KS.cmdAppend db [k, v] = (KS.insert db k ⟨.str (b ++ v), d⟩, KS.nat (b.length + v.length))) ∧
    (∀ e d, KS.lookup db k = some e → e.deadline = some d →
      KS.lookup (KS.cmdPersist db [k]).1 k = some { e with deadline := none }) := by
  refine ⟨C01.set_clears_ttl db now k v, ?_, ?_, ?_⟩
  · intro a b e hdb hab h
    exact (C01.rename_moves_value_and_ttl db a b e hdb hab h).2
  · intro b d h hl
    rw [C01.append_is_concat db k b v d h, if_pos hl]
  · intro e d h hd
    simp [KS.cmdPersist, h, hd, KS.lookup_insert_self]

/-- the visibility rule of that machine (`KS.purge`: visible iff `now < d`) is this model's (`expired`: absent iff
    `d < now`) at every instant other than the deadline itself -/
theorem ks_visibility_rule_agrees (now d : Nat) (v : KS.Val) (tag : Tag) (n : Nat) (h : now ≠ d) :
    KS.alive now ⟨v, some d⟩ = !expired now ⟨tag, n, some d⟩ := by
  simp only [KS.alive, expired]
  by_cases h1 : now < d
  · have : ¬ d < now := by omega
    simp [h1, this]
  · have : d < now := by omega
    simp [h1, this]

/-! ### (6) What TTL and PTTL reply -/

/-- TTL, for every remaining time of at least one millisecond (in nanoseconds): the remaining time in seconds,
    ROUNDED UP; PTTL: the remaining whole milliseconds; −1 without deadline; −2 for an absent key. -/
theorem ttl_reply_spec (ns : Nat) (h : nsPerMs ≤ ns) :
    ttlReply (some ns) true = Spec.ttlSeconds ns ∧ 1 ≤ ttlReply (some ns) true ∧
    pttlReply (some ns) true = Spec.pttlMillis ns ∧
    ttlReply none true = -1 ∧ pttlReply none true = -1 ∧ ttlReply none false = -2 ∧ pttlReply none false = -2 :=
  ⟨ttlOfRemaining_ceil ns h, ttlOfRemaining_pos ns h, rfl, rfl, rfl, rfl, rfl⟩

/-- DEVIATION in the last millisecond: a key that is still visible (`ns > 0` left, `GET` returns it) is reported as
    absent by TTL (`as_secs() == 0 && subsec_millis() == 0 → -2`), and PTTL says 0. -/
theorem ttl_reply_fails_sub_millisecond :
    ttlReply (some 999999) true = -2 ∧ pttlReply (some 999999) true = 0 ∧ Spec.ttlSeconds 999999 = 1 ∧
    (∀ ns, ns < nsPerMs → ttlReply (some ns) true = -2) :=
  ⟨by decide, by decide, by decide, fun ns h => ttlOfRemaining_sub_ms ns h⟩

/-- Redis rounds to the NEAREST second (`(ms + 500) / 1000`); the code rounds UP: the two differ by one exactly when the
    fractional part is between 1 and 499 ms (`SET k v PX 1400; TTL k` → 2 here, 1 in Redis). -/
theorem ttl_rounds_up_not_nearest (ms : Nat) (h : 1 ≤ ms) :
    ttlOfRemaining (ms * nsPerMs) = Spec.redisTtl ms + (if 0 < ms % 1000 ∧ ms % 1000 < 500 then 1 else 0) :=
  ttl_vs_redis ms h

/-- On an expired, unswept entry the non-lazy `ttl` answers `Some(0)`: the TTL command maps it to −2 (as for an absent
    key — never late), the PTTL command to 0 (late: a key that is gone reports "0 ms left" until the sweeper removes it). -/
theorem ttl_on_expired_unswept (c : Cfg) (hz : c.lazy "ttl" = false) (now : Nat) (s : Shard) (k : Key) (e : Stored) (d : Nat)
    (hl : lookup s.data k = some e) (hd : e.deadline = some d) (he : d ≤ now) :
    (cmd c { name := "TTL", k := k } now s).2 = .int (-2) ∧ (cmd c { name := "PTTL", k := k } now s).2 = .int 0 := by
  have hsub : d - now = 0 := by omega
  constructor <;>
    simp [cmd, cmdWith, step, enter, hl, hz, hd, hsub, ttlReply, pttlReply, ttlOfRemaining, pttlOfRemaining, nsPerSec, nsPerMs]

theorem pttl_on_expired_unswept_fails :
    (cmd Cfg.pinned { name := "PTTL", k := kA } 500 (late .list)).2 = .int 0 ∧
    (Spec.cmd { name := "PTTL", k := kA } 500 (late .list).data).2 = .int (-2) := by
  decide

/-- TABLE: the if-chain of `handle_ttl` is the one transliterated in `ttlOfRemainingWith Gen.ttlLastMsFixed` — today the chain
    with the last-millisecond −2 (`ttlOfRemaining`), after the proposed repair C02_4 the chain whose first arm tests a ZERO
    duration — and `pttl` is the floor in milliseconds. -/
theorem ttl_arithmetic_matches_source :
    ((Gen.ttlLastMsFixed = false ∧
      Gen.ttlArms = ["duration.as_secs() == 0 && duration.subsec_millis() == 0 => -2",
                     "duration.as_secs() == 0 && duration.subsec_millis() > 0 => 1",
                     "nanos > 0 => (secs + 1) as i64", "else => secs as i64"]) ∨
     (Gen.ttlLastMsFixed = true ∧
      Gen.ttlArms = ["duration.is_zero() => -2", "duration.as_secs() == 0 => 1",
                     "nanos > 0 => (secs + 1) as i64", "else => secs as i64"])) ∧ Gen.pttlFloorsMillis = true := by decide

/-- with the repaired first arm the full statement holds: for EVERY positive remaining time TTL is the remaining time in
    seconds rounded up (and −2 only at zero); without it `ttlOfRemainingWith false` is the chain above. -/
theorem ttl_reply_spec_repaired (ns : Nat) (h : 0 < ns) :
    ttlOfRemainingWith true ns = Spec.ttlSeconds ns ∧ ttlOfRemainingWith true 0 = -2 ∧
    ttlOfRemainingWith false ns = ttlOfRemaining ns :=
  ⟨ttlOfRemainingWith_fixed_ceil ns h, by decide, ttlOfRemainingWith_unfixed ns⟩

/-! ### (7) One command is one step with respect to the clock -/

/-- MULTI-MEMBER WRITE, ATOMIC: a write of `n` members made as ONE storage call that has a lazy test — at ANY instant, on
    ANY state — applies wholly to the key that is visible at that instant (all `n` members join it, its deadline kept) or
    wholly to a fresh key without TTL (the key being absent or its deadline passed); never to a strict subset. -/
theorem multi_member_write_atomic (c : Cfg) (fn : String) (hl : c.lazy fn = true) (k : Key) (n now : Nat) (s : Shard)
    (hn : NodupKeys s.data) :
    (∃ e, lookup (Spec.purge now s.data) k = some e ∧ e.tag = .zset ∧
        lookup (step c (.update fn k .zset n) now s).1.data k = some { e with val := e.val + n } ∧
        (step c (.update fn k .zset n) now s).2 = .num (e.val + n)) ∨
    (lookup (Spec.purge now s.data) k = none ∧
        lookup (step c (.update fn k .zset n) now s).1.data k = some ⟨.zset, n, none⟩ ∧
        (step c (.update fn k .zset n) now s).2 = .num n) ∨
    (∃ e, lookup (Spec.purge now s.data) k = some e ∧ e.tag ≠ .zset ∧ (step c (.update fn k .zset n) now s).2 = .wrongType) := by
  have hs := enter_snd c fn now s k hn (Or.inl hl)
  rcases update_result c fn k .zset n now s with ⟨e, h1, h2, h3, h4⟩ | ⟨h1, h3, h4⟩ | ⟨e, h1, h2, h4, _⟩
  · left; exact ⟨e, by rw [← hs, h1], h2, h3, h4⟩
  · right; left; exact ⟨by rw [← hs, h1], h3, h4⟩
  · right; right; exact ⟨e, by rw [← hs, h1], h2, h4⟩

/-- … and the single-call ZADD is the prescribed store's single step (an instance of `never_late`). -/
theorem multi_member_write_refines (c : Cfg) (hl : c.lazy "zadd_many" = true) (k : Key) (times : List Nat) (s : Shard)
    (hn : NodupKeys s.data) :
    (zaddCmd c true k times s).2 = (Spec.step (.update "zadd_many" k .zset times.length) (times.headD 0) s.data).2 ∧
    Spec.purge (times.headD 0) (zaddCmd c true k times s).1.data =
      (Spec.step (.update "zadd_many" k .zset times.length) (times.headD 0) s.data).1 := by
  have := step_refines c (.update "zadd_many" k .zset times.length) (times.headD 0) s hn (Or.inl hl)
  simp only [zaddCmd, if_true]
  exact ⟨this.2, this.1⟩

/-- The part that holds for the per-member loop: when no iteration reads the clock past the deadline, every member joins
    the live key (the loop equals the single call). -/
theorem multi_member_write_partial (c : Cfg) (fn : String) (k : Key) (times : List Nat) (s : Shard) (e : Stored)
    (hl : lookup s.data k = some e) (ht : e.tag = .zset) (hv : ∀ t ∈ times, expired t e = false) :
    lookup (perMemberRun c fn k times s).1.data k = some { e with val := e.val + times.length } ∧
    (perMemberRun c fn k times s).2 = times.length :=
  perMemberRun_live c fn k times s e hl ht hv

/-- The per-member loop is NOT atomic, even with every function lazily checked: `ZADD z 0 seed; PEXPIRE z 130;
    ZADD z <4 pairs>` whose iterations run at 100, 120, 140, 160 ms answers 4, puts two members into the expiring key
    (removed with it by the third iteration's lazy test) and creates a NEW key without TTL holding the other two: neither
    the 1 + 4 members of "before the deadline" nor the 4 members of "after it". -/
theorem multi_member_write_fails_per_member :
    let s : Shard := ⟨[(kA, ⟨.zset, 1, some 130⟩)], [(kA, 130)]⟩
    (zaddCmd Cfg.fixed false kA [100, 120, 140, 160] s).2 = .num 4 ∧
    lookup (zaddCmd Cfg.fixed false kA [100, 120, 140, 160] s).1.data kA = some ⟨.zset, 2, none⟩ ∧
    lookup (zaddCmd Cfg.fixed true kA [100, 120, 140, 160] s).1.data kA = some ⟨.zset, 5, some 130⟩ ∧
    lookup (zaddCmd Cfg.fixed true kA [140, 160, 180, 200] s).1.data kA = some ⟨.zset, 4, none⟩ := by
  decide

/-- TABLE: the sorted-set write handlers are either all per-member loops over lazily checked, reaping `zadd` / `zrem`
    (today: the witness above applies) or all single storage calls `zadd_many` / `zrem_many` / `zpop`, lazily checked,
    reaping and index-maintaining (after C02_5). -/
theorem zset_handlers_match_model :
    (Gen.zsetOneCall = false ∧ (∀ fn ∈ ["zadd", "zrem", "zrange"], fn ∈ Gen.lazyChecked ∧ fn ∈ Gen.reaping)) ∨
    (Gen.zsetOneCall = true ∧ (∀ fn ∈ ["zadd_many", "zrem_many", "zpop"], fn ∈ Gen.lazyChecked ∧ fn ∈ Gen.reaping) ∧
      Gen.emptiedDropsIndex = true) := by decide

/-- THE CURRENT TREE, as soon as the translator sees the single storage calls: ZADD with any number of pairs, executed at
    any instant, is the prescribed store's single step. -/
theorem code_multi_member_atomic (h : Gen.zsetOneCall = true) (k : Key) (times : List Nat) (s : Shard) (hn : NodupKeys s.data) :
    (zaddCmd codeCfg Gen.zsetOneCall k times s).2 = (Spec.step (.update "zadd_many" k .zset times.length) (times.headD 0) s.data).2 ∧
    Spec.purge (times.headD 0) (zaddCmd codeCfg Gen.zsetOneCall k times s).1.data =
      (Spec.step (.update "zadd_many" k .zset times.length) (times.headD 0) s.data).1 := by
  have hz : Gen.zsetOneCall = true → codeCfg.lazy "zadd_many" = true := by decide
  rw [h]
  exact multi_member_write_refines codeCfg (hz h) k times s hn

/-! ### (8) One script / one transaction is one step with respect to the clock -/

/-- ONE BLOCK = ONE INSTANT: a script or a transaction whose storage calls — made at ANY real times — all read the storage
    clock frozen at its start returns, call by call, what the prescribed store returns when the whole block happens at the
    instant it starts, and leaves the same visible entries: reads, existence tests, writes that create or update, TTL
    replies and the deadlines set inside are all relative to that one instant. -/
theorem block_is_one_instant (c : Cfg) (t0 : Nat) (ops : List (Op × Nat)) (s : Shard)
    (hl : blockLazy c ops = true) (hn : NodupKeys s.data) :
    (blockRun c true t0 ops s).2 = (Spec.blockRun t0 ops s.data).2 ∧
    Spec.purge t0 (blockRun c true t0 ops s).1.data = Spec.purge t0 (Spec.blockRun t0 ops s.data).1 :=
  blockRun_frozen_refines c t0 ops s s.data hl hn rfl

/-- SAME LIVENESS THROUGHOUT: under the frozen clock two looks at a key `k` inside one block — separated by any calls that
    are not about `k`, at any real times, for any deadline of `k` — give the same answer (GET the same value or nil both
    times, EXISTS the same bit): no key expires in the middle of a script or of a transaction. -/
theorem block_same_liveness (c : Cfg) (hg : c.lazy "get" = true) (hx : c.lazy "exists" = true) (t0 : Nat) (k : Key)
    (mid : List (Op × Nat)) (s : Shard) (hn : NodupKeys s.data) (ha : blockAvoids k mid = true) :
    (step c (.get k) t0 (blockRun c true t0 mid (step c (.get k) t0 s).1).1).2 = (step c (.get k) t0 s).2 ∧
    (step c (.exists k) t0 (blockRun c true t0 mid (step c (.exists k) t0 s).1).1).2 = (step c (.exists k) t0 s).2 := by
  constructor
  · have h1 := step_refines c (.get k) t0 s hn (Or.inl hg)
    have hn1 := step_nodup c (.get k) t0 s hn
    have hf := blockRun_frozen_frame c t0 mid (step c (.get k) t0 s).1 k hn1 ha
    have h2 := step_refines c (.get k) t0 _ hf.2 (Or.inl hg)
    have hv1 : lookup (Spec.purge t0 (step c (.get k) t0 s).1.data) k = lookup (Spec.purge t0 s.data) k := by
      rw [h1.1]; simp only [Spec.step]; split <;> simp_all
    rw [h2.2, h1.2]
    simp only [Spec.step]
    rw [hf.1, hv1]
    cases lookup (Spec.purge t0 s.data) k <;> rfl
  · have h1 := step_refines c (.exists k) t0 s hn (Or.inl hx)
    have hn1 := step_nodup c (.exists k) t0 s hn
    have hf := blockRun_frozen_frame c t0 mid (step c (.exists k) t0 s).1 k hn1 ha
    have h2 := step_refines c (.exists k) t0 _ hf.2 (Or.inl hx)
    have hv1 : lookup (Spec.purge t0 (step c (.exists k) t0 s).1.data) k = lookup (Spec.purge t0 s.data) k := by
      rw [h1.1]; simp only [Spec.step]
    rw [h2.2, h1.2]
    simp only [Spec.step]
    rw [hf.1, hv1]

/-- the block of the witness: `SET lock 5 PX 200`; one script reads it at 100 ms, works, and at 500 ms tests, reads,
    APPENDs to (here: a modify-or-create of size 1) and asks the TTL of the same key -/
def lockBlock : List (Op × Nat) :=
  [(.get kA, 100), (.exists kA, 100), (.exists kA, 500), (.get kA, 500), (.update "append" kA .str 1, 500), (.ttl kA, 500)]

/-- With every call reading the clock on its own the key EXPIRES INSIDE the block, even with every function lazily
    checked: the script sees `5, 1` and then `0, nil`, its APPEND re-creates the key WITHOUT a TTL (a lock that never
    expires); under the frozen clock it sees `5, 1, 1, 5`, the APPEND modifies the live key and 100 ms are left. -/
theorem block_fails_per_call_clock :
    let s : Shard := ⟨[(kA, ⟨.str, 5, some 200⟩)], [(kA, 200)]⟩
    (blockRun Cfg.fixed false 100 lockBlock s).2 =
      [.found .str 5, .bool true, .bool false, .missing, .num 1, .remaining none] ∧
    lookup (blockRun Cfg.fixed false 100 lockBlock s).1.data kA = some ⟨.str, 1, none⟩ ∧
    (blockRun Cfg.fixed true 100 lockBlock s).2 =
      [.found .str 5, .bool true, .bool true, .found .str 5, .num 6, .remaining (some 100)] ∧
    lookup (blockRun Cfg.fixed true 100 lockBlock s).1.data kA = some ⟨.str, 6, some 200⟩ := by
  decide

/-- the well-formed calls of a block -/
def wfBlock : List (Op × Nat) → Bool
  | [] => true
  | (o, _) :: r => wfOp o && wfBlock r

/-- THE CURRENT TREE, as soon as the translator sees the frozen storage clock (`storage::clock::freeze()` in the EVAL /
    EVALSHA and EXEC paths, every expiry site reading `storage::clock::now()`): every script and every transaction of
    well-formed storage calls is one instant of the prescribed store. -/
theorem code_block_is_one_instant (h : Gen.scriptClockFrozen = true) (t0 : Nat) (ops : List (Op × Nat)) (s : Shard)
    (hw : wfBlock ops = true) (hn : NodupKeys s.data) :
    (blockRun codeCfg Gen.scriptClockFrozen t0 ops s).2 = (Spec.blockRun t0 ops s.data).2 ∧
    Spec.purge t0 (blockRun codeCfg Gen.scriptClockFrozen t0 ops s).1.data = Spec.purge t0 (Spec.blockRun t0 ops s.data).1 := by
  rw [h]
  apply block_is_one_instant codeCfg t0 ops s _ hn
  induction ops with
  | nil => rfl
  | cons p r ih =>
    obtain ⟨o, t⟩ := p
    simp only [wfBlock, Bool.and_eq_true] at hw
    simp only [blockLazy, Bool.and_eq_true]
    exact ⟨(code_ops_lazy_and_keep_index o hw.1).1, ih hw.2⟩

/-! ### Non-vacuity -/

example : ∀ o, lazyOp Cfg.fixed o = true := by intro o; cases o <;> rfl
example : Cfg.fixed.sweeperRechecks = true := rfl
example : monotoneFrom 0 staleIndexRun = true := by decide
example : trace Cfg.fixed M.empty staleIndexRun = [.unit, .unit] := by decide
example : IndexAgrees (late .list) := by
  intro k t h
  by_cases hk : kA = k
  · subst hk; exact ⟨⟨.list, 1, some 300⟩, by decide, by simp [late, lookup_cons] at h; simp [h]⟩
  · simp [late, lookup_cons, hk, lookup_nil] at h
example : NodupKeys (late .list).data ∧ NodupKeys (late .list).expiring := by unfold NodupKeys; decide
example : Clean 200 (.read "llen" kA .list) (late .list) := by
  intro e h; simp [late, lookup_cons] at h; subst h; decide
example : lazyOp Cfg.pinned (.get kA) = true ∧ lazyOp Cfg.pinned (.read "llen" kA .list) = false := by decide

end Ferrous.C02
