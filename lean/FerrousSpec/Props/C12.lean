/-
  C12 — a script is one indivisible step; `redis.call` / `redis.pcall` of a command have the effect
  and (after the standard RESP ↔ Lua conversion) the reply of the direct command; KEYS / ARGV arrive
  byte-for-byte; a failing `redis.call` aborts, `redis.pcall` continues, earlier effects persist;
  EVALSHA ≡ EVAL; scripts cannot reach blocking / connection / transaction / scripting commands,
  the file system or the process.

  Property theorems only; helper lemmas live in FerrousSpec/Proofs/Lua*.lean.
  Model: FerrousSpec/Model/Lua.lean (call programs over `KS.step`; the two conversions of
  src/storage/lua_engine.rs with one quirk switch per deviation; `Spec` = all switches off = the
  standard Redis table, `Code` = the current tree).
  Tie to the code: `Gen.luaBlocked`, `Gen.luaSandboxRemoved`, `Gen.luaExecutorCommands`,
  `Gen.evalIsSynchronous` are regenerated from the Rust source on every run; lib/c12.py drives twin
  real servers (command sent directly to one, wrapped in `redis.call` / `redis.pcall` to the other)
  and compares through `Code.*` (must predict the script's reply) and `Spec.*` (judges).

  NOT proved: that the second command implementation (`commands/executor.rs`, used by
  `redis.call`) behaves like the handlers — `redis.call` executes `KS.step` here by definition; the
  twin-server run measures the parity command by command (see lib/c12.py for the deviations found).
-/
import FerrousSpec.Proofs.LuaRun
import FerrousSpec.Proofs.LuaDepth
import FerrousSpec.Gen.Lua
namespace Ferrous.C12
open Ferrous Ferrous.Lua

/-! `Code.*` = every deviation of the tree as first analysed switched on (`Quirks.code`).  Which of
    the switches the tree has NOW is regenerated on every run (`Gen.luaQuirksSeen`, also sent to the
    driver by lib/c12.py); the `_partial` theorems below therefore hold for EVERY switch record `q`,
    and each witness uses the variant in which ONLY its own switch is on: that switch alone violates
    the full statement. -/
namespace Code
def respToLua := Lua.respToLua Quirks.code
def luaToResp := Lua.luaToResp Quirks.code
end Code
namespace Spec
def respToLua := Lua.respToLua Quirks.spec
def luaToResp := Lua.luaToResp Quirks.spec
end Spec

/-! ### (1) The standard conversion table -/

/-- The standard table is the identity on what a command can reply (RESP2, integers that a Lua 5.1
    number holds exactly): a reply converted into Lua and returned unchanged is the same reply.
    In particular nil bulk ↦ `false` ↦ nil bulk, status ↦ `{ok=…}` ↦ status, error ↦ `{err=…}` ↦ error,
    arrays element-wise (nil bulks inside included). -/
theorem conversion_roundtrip_spec (f : Frame) (h : specClean f = true) :
    Spec.luaToResp (Spec.respToLua f) = f :=
  roundtrip_spec f h

/-- The individual rows of the standard table. -/
theorem conversion_table_spec :
    Spec.respToLua .nullBulk = .bool false ∧ Spec.respToLua .nullArray = .bool false ∧
    (∀ b, Spec.respToLua (.simple b) = .statusTable b) ∧ (∀ b, Spec.respToLua (.error b) = .errTable b) ∧
    (∀ b, Spec.respToLua (.bulk b) = .str b) ∧
    (∀ n : Int, n.natAbs < two53 → Spec.respToLua (.int n) = .int n) ∧
    Spec.luaToResp .nil = .nullBulk ∧ Spec.luaToResp (.bool false) = .nullBulk ∧ Spec.luaToResp (.bool true) = .int 1 ∧
    (∀ n, Spec.luaToResp (.int n) = .int n) ∧ (∀ b, Spec.luaToResp (.str b) = .bulk b) ∧
    (∀ m, Spec.luaToResp (.statusTable m) = .simple m) ∧ (∀ m, Spec.luaToResp (.errTable m) = .error m) ∧
    Spec.luaToResp (.table []) = .array [] ∧
    -- a number is truncated toward zero: 3.7 ↦ 3, -0.5 ↦ 0
    Spec.luaToResp (.num 37 10) = .int 3 ∧ Spec.luaToResp (.num (-1) 2) = .int 0 ∧
    -- a table is an array up to the first nil: {1,nil,3} ↦ [1]
    Spec.luaToResp (.table [.int 1, .nil, .int 3]) = .array [.int 1] := by
  refine ⟨rfl, rfl, fun _ => rfl, fun _ => rfl, fun _ => rfl, ?_, rfl, rfl, rfl, fun _ => rfl, fun _ => rfl,
    fun _ => rfl, fun _ => rfl, rfl, ?_, ?_, rfl⟩
  · intro n hn; simp [Spec.respToLua, Lua.respToLua, f64Int_small n hn]
  · rfl
  · rfl

/-- Full statement: with the conversion switches off the two functions ARE the standard table,
    for every reply and every Lua value.  (The variant the property prescribes; `Quirks.spec`
    satisfies the hypotheses, see the `example` below.) -/
theorem conversion_standard (q : Quirks) (hr : q.r2lFixed) (hl : q.l2rFixed) :
    (∀ f, Lua.respToLua q f = Spec.respToLua f) ∧ (∀ v, Lua.luaToResp q v = Spec.luaToResp v) :=
  ⟨respToLua_fixed q hr, luaToResp_fixed q hl⟩

example : Quirks.spec.r2lFixed ∧ Quirks.spec.l2rFixed := ⟨⟨rfl, rfl, rfl⟩, ⟨rfl, rfl, rfl, rfl⟩⟩

/-- Whatever deviations the tree has (any switch record `q`, in particular `Quirks.code` and the
    regenerated one), it agrees with the standard table on this fragment:
    replies that are integers, valid-UTF-8 bulk strings, errors and arrays of such; return values
    that are nil, `true`, integers, integral numbers, strings and tables whose array part (up to the
    first nil) is non-empty and made of such values. -/
theorem conversion_standard_partial (q : Quirks) :
    (∀ f, agreeR f = true → Lua.respToLua q f = Spec.respToLua f) ∧
    (∀ v, agreeL v = true → Lua.luaToResp q v = Spec.luaToResp v) :=
  ⟨respToLua_agree q, luaToResp_agree q⟩

example : agreeR (.array [.int (-5), .bulk [104, 105], .array [.bulk []]]) = true := by decide
example : agreeL (.table [.int 1, .str [97], .table [.int 2], .nil, .bool false]) = true := by decide

/-! #### one witness per deviation (DESIGN §6 row 26; each is replayed on the server by lib/c12.py).
    `only…` = the standard table with exactly one switch on. -/

def onlyNilBulk : Quirks := { nilBulkIsNil := true }
def onlyStatus : Quirks := { statusIsString := true }
def onlyLossy : Quirks := { lossyStrings := true }
def onlyPcallNil : Quirks := { pcallErrIsNil := true }
def onlyFalseZero : Quirks := { falseIsZero := true }
def onlyFracBulk : Quirks := { fracIsBulk := true }
def onlyEmptyNil : Quirks := { emptyTableIsNil := true }
def onlyNoOkErr : Quirks := { okErrTablesIgnored := true }
def onlyUtf8Args : Quirks := { utf8ArgsOnly := true }
def onlyShaDb0 : Quirks := { evalshaDb0 := true }

/-- `redis.call('GET','missing')` is Lua `nil`, not `false`: `== false` is false (the reply is the
    nil bulk of `false` instead of `:1`), and for every `q` with the switch on the value is `nil`. -/
theorem conversion_fails_nil_bulk :
    (∀ q : Quirks, q.nilBulkIsNil = true → Lua.respToLua q .nullBulk = .nil ∧ Lua.respToLua q .nullArray = .nil) ∧
    Spec.respToLua .nullBulk = .bool false ∧
    Lua.respToLua onlyNilBulk .nullBulk ≠ Spec.respToLua .nullBulk := by
  refine ⟨fun q h => by simp [Lua.respToLua, h], rfl, ?_⟩
  intro h; cases h

/-- consequence: an array reply is cut at its first nil element (`MGET k missing n` → one element). -/
theorem conversion_fails_array_cut_at_nil :
    viaLua onlyNilBulk (.array [.bulk [118], .nullBulk, .bulk [53]]) = .array [.bulk [118]] ∧
    viaLua Quirks.code (.array [.bulk [118], .nullBulk, .bulk [53]]) = .array [.bulk [118]] ∧
    viaLua Quirks.spec (.array [.bulk [118], .nullBulk, .bulk [53]]) = .array [.bulk [118], .nullBulk, .bulk [53]] :=
  ⟨rfl, rfl, rfl⟩

/-- a status reply (`+OK`) is a plain Lua string, returned as a bulk string. -/
theorem conversion_fails_status :
    Lua.respToLua onlyStatus (.simple [79, 75]) = .str [79, 75] ∧ Spec.respToLua (.simple [79, 75]) = .statusTable [79, 75] ∧
    viaLua onlyStatus (.simple [79, 75]) = .bulk [79, 75] ∧ viaLua Quirks.code (.simple [79, 75]) = .bulk [79, 75] ∧
    viaLua Quirks.spec (.simple [79, 75]) = .simple [79, 75] :=
  ⟨rfl, rfl, rfl, rfl, rfl⟩

/-- `return false` is `:0`, not a nil bulk. -/
theorem conversion_fails_false :
    (∀ q : Quirks, q.falseIsZero = true → Lua.luaToResp q (.bool false) = .int 0) ∧ Spec.luaToResp (.bool false) = .nullBulk :=
  ⟨fun q h => by simp [Lua.luaToResp, h], rfl⟩

/-- `return 3.7` is a bulk string (`3.70000000000000018` for the double nearest to 3.7), not `:3`. -/
theorem conversion_fails_fraction :
    Lua.luaToResp onlyFracBulk (.num 4165829655317709 1125899906842624) =
      .bulk [51, 46, 55, 48, 48, 48, 48, 48, 48, 48, 48, 48, 48, 48, 48, 48, 48, 49, 56] ∧
    Spec.luaToResp (.num 4165829655317709 1125899906842624) = .int 3 ∧
    Lua.luaToResp onlyFracBulk (.num (-1) 2) = .bulk [45, 48, 46, 53] ∧ Spec.luaToResp (.num (-1) 2) = .int 0 :=
  ⟨rfl, rfl, rfl, rfl⟩

/-- `return {}` (and an empty array reply such as `LRANGE missing 0 -1`) is a nil bulk, not an empty array. -/
theorem conversion_fails_empty_table :
    Lua.luaToResp onlyEmptyNil (.table []) = .nullBulk ∧ Spec.luaToResp (.table []) = .array [] ∧
    viaLua onlyEmptyNil (.array []) = .nullBulk ∧ viaLua Quirks.spec (.array []) = .array [] := ⟨rfl, rfl, rfl, rfl⟩

/-- `return {ok='X'}` / `return {err='E'}` are not recognised (an empty array — a nil bulk when empty
    tables are nil too — instead of `+X` / `-E`). -/
theorem conversion_fails_ok_err_tables :
    Lua.luaToResp onlyNoOkErr (.statusTable [88]) = .array [] ∧ Code.luaToResp (.statusTable [88]) = .nullBulk ∧
    Spec.luaToResp (.statusTable [88]) = .simple [88] ∧
    Lua.luaToResp onlyNoOkErr (.errTable [69]) = .array [] ∧ Code.luaToResp (.errTable [69]) = .nullBulk ∧
    Spec.luaToResp (.errTable [69]) = .error [69] := ⟨rfl, rfl, rfl, rfl, rfl, rfl⟩

/-- a failing `redis.pcall` evaluates to `nil`, not to the error table. -/
theorem conversion_fails_pcall_error :
    (∀ q : Quirks, q.pcallErrIsNil = true → ∀ m, pcallFailure q m = .nil) ∧ pcallFailure Quirks.spec [69] = .errTable [69] :=
  ⟨fun q h m => by simp [pcallFailure, h], rfl⟩

/-- a bulk reply that is not valid UTF-8 reaches the script altered (`\xff` → U+FFFD). -/
theorem conversion_fails_lossy_reply :
    Lua.respToLua onlyLossy (.bulk [255, 97]) = .str [239, 191, 189, 97] ∧ Spec.respToLua (.bulk [255, 97]) = .str [255, 97] :=
  ⟨rfl, rfl⟩

/-! #### the depth limit of the return-value conversion -/

/-- With the depth limit (`lua_value_to_resp(value, depth)`, limit = the parser's `MAX_NESTING`), for EVERY script, store and return
    value: a value nested deeper than the limit has no reply form — the script's reply is the error `ERR reached lua stack limit` —
    and nothing else changes: the script has run exactly as without the limit (same store); a value within the limit is converted
    exactly as before.  (A table that contains itself is deeper than every limit.) -/
theorem reply_nested_too_deep_is_error_and_changes_nothing_else
    (q : Quirks) (kq : KS.Quirks) (limit : Nat) (s : KS.Store) (db now : Nat) (keys argv : List Bytes) (p : Program) :
    (evalB q kq limit s db now keys argv p).1 = (eval q kq s db now keys argv p).1 ∧
    (∀ v : LuaVal, limit < nest v → luaToRespD q limit v 0 = none) ∧
    (∀ v : LuaVal, nest v ≤ limit → luaToRespD q limit v 0 = some (Lua.luaToResp q v)) ∧
    (∀ rs v, runSteps q kq (mkEnv q keys argv) db now s [] p.steps = ((eval q kq s db now keys argv p).1, .ok rs) →
        evalRet (mkEnv q keys argv) rs p.ret = some v → limit < nest v →
        (evalB q kq limit s db now keys argv p).2 = stackLimitErr) := by
  refine ⟨evalB_store q kq limit s db now keys argv p, fun v h => (luaToRespD_spec q limit v 0).2 (by omega),
    fun v h => (luaToRespD_spec q limit v 0).1 (by omega), ?_⟩
  intro rs v hrun hret hdeep
  unfold evalB
  rw [hrun]
  simp only [hret, (luaToRespD_spec q limit v 0).2 (by omega), Option.getD]

/-- What the limited conversion accepts (limit = one level below the parser's `MAX_NESTING`) is a frame the server's own parser
    accepts, on its own and inside an EXEC reply: a converted value is no deeper than the parser's budget (`maxNesting + 1` frames on
    a path), so, being well-formed, it is parsed back exactly (C20's round trip). -/
theorem accepted_reply_parses (q : Quirks) (v : LuaVal) (h : nest v + 1 ≤ maxNesting) (hw : wf (Lua.luaToResp q v) = true) (rest : Bytes) :
    luaToRespD q (maxNesting - 1) v 0 = some (Lua.luaToResp q v) ∧
    parseBytes (ser (Lua.luaToResp q v) ++ rest) = .ok (Lua.luaToResp q v) rest ∧
    -- … also as the element of an EXEC reply, one array further out
    parseBytes (ser (.array [Lua.luaToResp q v]) ++ rest) = .ok (.array [Lua.luaToResp q v]) rest := by
  have hd := depth_luaToResp_le q v
  have hm : maxNesting = 128 := rfl
  refine ⟨(luaToRespD_spec q (maxNesting - 1) v 0).1 (by omega), roundtrip_fuel _ hw (maxNesting + 1) (by omega) rest, ?_⟩
  exact roundtrip_fuel _ (by simp [wf, wfList, hw]) (maxNesting + 1) (by simp [Frame.depth, depthList]; omega) rest

/-- non-vacuity: `{{{1}}}` (three tables around the 1) is refused under limit 2, converted under limit 3 -/
example : nest (.table [.table [.table [.int 1]]]) = 3 ∧ luaToRespD Quirks.code 2 (.table [.table [.table [.int 1]]]) 0 = none ∧
    luaToRespD Quirks.code 3 (.table [.table [.table [.int 1]]]) 0 = some (.array [.array [.array [.int 1]]]) := ⟨rfl, rfl, rfl⟩

/-- Tie to the code: the limit `lua_value_to_resp` stops at.  Either there is none (0: a script returning a table that contains
    itself, or one nested a few thousand levels, overflows the stack of the only command thread — finding
    C12-reply-depth-unbounded), or it is one level below the parser's `MAX_NESTING` (room for the array of an EXEC reply). -/
theorem reply_depth_limit_is_the_parsers : Gen.luaReplyDepthLimit = 0 ∨ Gen.luaReplyDepthLimit + 1 = maxNesting := by decide

/-! ### (2) KEYS and ARGV -/

/-- Full statement (switch off): KEYS and ARGV are what the client sent, byte for byte. -/
theorem keys_argv_bytewise (q : Quirks) (h : q.lossyStrings = false) (keys argv : List Bytes) :
    mkEnv q keys argv = { keys := keys, argv := argv } := by
  simp [mkEnv, map_ls_off q _ h]

/-- Any variant (switch on or off): when every key and argument is valid UTF-8 … -/
theorem keys_argv_bytewise_partial (q : Quirks) (keys argv : List Bytes)
    (hk : keys.all validUtf8 = true) (ha : argv.all validUtf8 = true) :
    mkEnv q keys argv = { keys := keys, argv := argv } := by
  simp [mkEnv, map_ls_valid _ _ hk, map_ls_valid _ _ ha]

/-- … which includes every ASCII string … -/
theorem ascii_is_valid (b : Bytes) (h : ∀ x ∈ b, x < 128) : validUtf8 b = true := validUtf8_ascii b h

/-- … and fails for `ARGV[1] = \xff\x00a`, which arrives as `U+FFFD \x00 a` (5 bytes instead of 3). -/
theorem keys_argv_bytewise_fails :
    mkEnv onlyLossy [] [[255, 0, 97]] = { keys := [], argv := [[239, 191, 189, 0, 97]] } ∧
    mkEnv onlyLossy [] [[255, 0, 97]] ≠ { keys := [], argv := [[255, 0, 97]] } ∧
    mkEnv Quirks.code [[255]] [] = { keys := [[239, 191, 189]], argv := [] } := by
  refine ⟨by decide, by decide, by decide⟩

/-! ### (3) `redis.call cmd` ≡ the direct command -/

/-- In the model, for ALL commands, stores, databases and conversion variants: the script
    `return redis.call(cmd)` leaves the store the direct command leaves and replies with the direct
    reply passed through the two conversions (an error reply aborts the script and is the reply). -/
theorem call_eq_direct (q : Quirks) (kq : KS.Quirks) (s : KS.Store) (db now : Nat) (keys argv cmd : List Bytes)
    (h : allowed q cmd = true) :
    eval q kq s db now keys argv ⟨[⟨false, cmd.map Arg.lit⟩], .res 1⟩ =
      ((KS.step kq s db now cmd none).1, viaLua q (KS.step kq s db now cmd none).2) := by
  rw [eval_single, execCall_allowed q kq s db now cmd h]
  simp only [Bool.false_eq_true, if_false]
  rfl

/-- the same through `unpack(ARGV)` — the wrapper lib/c12.py sends — when ARGV arrives unchanged -/
theorem call_eq_direct_unpack (q : Quirks) (kq : KS.Quirks) (s : KS.Store) (db now : Nat) (cmd : List Bytes)
    (h : allowed q cmd = true) (hv : cmd.map q.ls = cmd) :
    eval q kq s db now [] cmd ⟨[⟨false, [Arg.unpackArgv]⟩], .res 1⟩ =
      ((KS.step kq s db now cmd none).1, viaLua q (KS.step kq s db now cmd none).2) := by
  have h1 := call_eq_direct q kq s db now [] cmd cmd h
  rw [← h1]
  unfold eval
  simp only [mkEnv, hv, List.map_nil]
  rw [runSteps_cons, runSteps_cons]
  simp only [resolveArgs_unpack, resolveArgs_lits]

/-- Prescribed variant: the script's reply EQUALS the direct reply (and the store the direct
    store) whenever the direct reply is RESP2 with integers below 2^53 and no null array. -/
theorem call_reply_eq_direct (kq : KS.Quirks) (s : KS.Store) (db now : Nat) (keys argv cmd : List Bytes)
    (h : allowed Quirks.spec cmd = true) (hc : specClean (KS.step kq s db now cmd none).2 = true) :
    eval Quirks.spec kq s db now keys argv ⟨[⟨false, cmd.map Arg.lit⟩], .res 1⟩ = KS.step kq s db now cmd none := by
  rw [call_eq_direct _ _ _ _ _ _ _ _ h, viaLua_spec_clean _ hc]

/-- Any variant, in particular the code as it is: equality on the fragment `transparent` (errors,
    integers below 2^53, valid-UTF-8 bulk strings, non-empty arrays of the latter two) for commands
    that are not refused (`allowed`: with `utf8ArgsOnly` on, all arguments valid UTF-8).
    Outside it the reply differs as the witnesses above show. -/
theorem call_reply_eq_direct_partial (q : Quirks) (kq : KS.Quirks) (s : KS.Store) (db now : Nat) (keys argv cmd : List Bytes)
    (h : allowed q cmd = true) (hc : transparent (KS.step kq s db now cmd none).2 = true) :
    eval q kq s db now keys argv ⟨[⟨false, cmd.map Arg.lit⟩], .res 1⟩ = KS.step kq s db now cmd none := by
  rw [call_eq_direct _ _ _ _ _ _ _ _ h, viaLua_transparent _ _ hc]

/-- non-vacuity: `RPUSH l a b` through a script on an empty store: reply `:2`, list created -/
example : eval Quirks.code {} KS.emptyStore 3 1000 [] []
      ⟨[⟨false, [[82, 80, 85, 83, 72], [108], [97], [98]].map Arg.lit⟩], .res 1⟩ =
    KS.step {} KS.emptyStore 3 1000 [[82, 80, 85, 83, 72], [108], [97], [98]] none := by rfl
example : allowed Quirks.code [[82, 80, 85, 83, 72], [108], [97], [98]] = true := by decide

/-- A command with an argument that is not valid UTF-8 is refused inside a script although the
    direct command accepts it (`SET k \xff`). -/
theorem call_eq_direct_fails_binary_argument :
    (eval onlyUtf8Args {} KS.emptyStore 0 1000 [] [] ⟨[⟨false, [[83, 69, 84], [107], [255]].map Arg.lit⟩], .res 1⟩).1 = KS.emptyStore ∧
    (KS.step {} KS.emptyStore 0 1000 [[83, 69, 84], [107], [255]] none).1 ≠ KS.emptyStore ∧
    (eval Quirks.spec {} KS.emptyStore 0 1000 [] [] ⟨[⟨false, [[83, 69, 84], [107], [255]].map Arg.lit⟩], .res 1⟩) =
      KS.step {} KS.emptyStore 0 1000 [[83, 69, 84], [107], [255]] none := by
  refine ⟨by decide, by decide, by rfl⟩

/-! ### (4) errors: `redis.call` aborts, `redis.pcall` continues, effects persist -/

/-- For EVERY program `pre ++ st :: rest` whose prefix `pre` ran through (leaving store `s1` and
    results `acc1`) and whose step `st` executes a command that fails with error `m`:
    * `redis.call`: the script stops there — its outcome is the error `m`, `rest` is never run —
      and the store is the one the prefix left (the failing command itself changed nothing beyond
      dropping expired entries): the effects made before the error persist;
    * `redis.pcall`: the script goes on with `rest` from that same store, the failed call
      contributing the failure value to the results. -/
theorem call_error_aborts_pcall_continues_effects_persist
    (q : Quirks) (kq : KS.Quirks) (env : Env) (db now : Nat) (s s1 : KS.Store) (acc acc1 : List LuaVal)
    (pre rest : List Step) (st : Step) (cmd : List Bytes) (m : Bytes)
    (hpre : runSteps q kq env db now s acc pre = (s1, .ok acc1))
    (hcmd : resolveArgs env st.args = some cmd)
    (herr : (execCall q kq s1 db now cmd).2 = .error m) :
    (st.pcall = false →
      runSteps q kq env db now s acc (pre ++ st :: rest) = ((execCall q kq s1 db now cmd).1, .error m)) ∧
    (st.pcall = true →
      runSteps q kq env db now s acc (pre ++ st :: rest) =
        runSteps q kq env db now (execCall q kq s1 db now cmd).1 (acc1 ++ [pcallFailure q m]) rest) ∧
    ((execCall q kq s1 db now cmd).1 = s1 ∨
     (execCall q kq s1 db now cmd).1 = KS.setDb s1 db (KS.purge now (KS.getDb s1 db))) := by
  refine ⟨fun hp => ?_, fun hp => ?_, execCall_error_store q kq s1 db now cmd m herr⟩
  · rw [runSteps_append, hpre]
    exact runSteps_cons_call_err q kq env db now s1 acc1 st rest cmd m hcmd herr hp
  · rw [runSteps_append, hpre]
    exact runSteps_cons_pcall_err q kq env db now s1 acc1 st rest cmd m hcmd herr hp

/-- A script ended from outside after a prefix `pre` of its steps — what the run-time limit does (a Lua error raised by the
    count hook between two instructions) — is in exactly the state the complete script would have continued from: the effects
    of the calls that completed are those of `pre`, nothing is rolled back and nothing else has happened. -/
theorem script_cut_keeps_prefix_effects
    (q : Quirks) (kq : KS.Quirks) (env : Env) (db now : Nat) (s s1 : KS.Store) (acc acc1 : List LuaVal) (pre rest : List Step)
    (hpre : runSteps q kq env db now s acc pre = (s1, .ok acc1)) :
    runSteps q kq env db now s acc (pre ++ rest) = runSteps q kq env db now s1 acc1 rest := by
  rw [runSteps_append, hpre]

/-- Tie to the code: what bounds a script's run time (`LuaEngine::eval` installs a count hook that compares the elapsed time with
    a constant and raises a Lua error).  Either nothing does (0: a non-terminating script wedges the only command thread for
    ever — finding C12-no-script-time-limit, never probed dynamically), or the bound is between 1 s and 60 s; lib/c12.py then
    runs non-terminating scripts on dedicated servers and requires the error reply within the bound, the earlier effects in
    place and the server serving. -/
theorem script_time_limit_sane :
    Gen.luaScriptTimeLimit = 0 ∨ (1000 ≤ Gen.luaScriptTimeLimit ∧ Gen.luaScriptTimeLimit ≤ 60000) := by decide

/-- Tie to the code: what bounds the memory of a script's Lua state (`set_memory_limit` in `create_lua_context`).  Either nothing
    does (0: a script that keeps allocating takes the process down — finding C06-lua-memory-unbounded), or the bound lies between
    64 MiB and 4 GiB — above the 512 MB a key can hold only by a small factor, far below an address space; an allocation beyond it
    is Lua's 'not enough memory' error, i.e. the script ends as an aborted script (`script_cut_keeps_prefix_effects`).  lib/c12.py
    then runs allocating scripts on address-space-capped dedicated servers. -/
theorem script_memory_limit_sane :
    Gen.luaScriptMemoryLimit = 0 ∨ (67108864 ≤ Gen.luaScriptMemoryLimit ∧ Gen.luaScriptMemoryLimit ≤ 4294967296) := by decide

/-- the reply of the aborted script is the error reply, whatever the return expression -/
theorem aborted_script_replies_error (q : Quirks) (kq : KS.Quirks) (s s' : KS.Store) (db now : Nat)
    (keys argv : List Bytes) (p : Program) (m : Bytes)
    (h : runSteps q kq (mkEnv q keys argv) db now s [] p.steps = (s', .error m)) :
    eval q kq s db now keys argv p = (s', .error m) := by
  unfold eval; rw [h]

/-- non-vacuity / concrete instance (both variants): `SET w 1`, then `INCR l` on a list fails:
    with `call` the reply is an error and `w` stays set; with `pcall` the script goes on to `SET w2 1`. -/
example :
    let s0 := (KS.step {} KS.emptyStore 0 1000 [[82, 80, 85, 83, 72], [108], [97]] none).1
    let setW : Step := ⟨false, [[83, 69, 84], [119], [49]].map Arg.lit⟩
    let incrL (pc : Bool) : Step := ⟨pc, [[73, 78, 67, 82], [108]].map Arg.lit⟩
    let setW2 : Step := ⟨false, [[83, 69, 84], [119, 50], [49]].map Arg.lit⟩
    let get (s : KS.Store) (k : Bytes) := (KS.lookup (KS.getDb s 0) k).isSome
    let a := eval Quirks.code {} s0 0 1000 [] [] ⟨[setW, incrL false, setW2], .val (.int 1)⟩
    let b := eval Quirks.code {} s0 0 1000 [] [] ⟨[setW, incrL true, setW2], .val (.int 1)⟩
    KS.isErr a.2 = true ∧ get a.1 [119] = true ∧ get a.1 [119, 50] = false ∧
    b.2 = .int 1 ∧ get b.1 [119] = true ∧ get b.1 [119, 50] = true := by
  refine ⟨by decide, by decide, by decide, by rfl, by decide, by decide⟩

/-! ### (5) a script is one step of the event loop -/

/-- For every schedule of frames of any number of connections and every script frame `e` in it:
    the script runs on exactly the store the frames before it left, the frames after it run on
    the store it left, the replies come in schedule order — every frame of every other connection
    lies wholly before or wholly after the script. -/
theorem script_is_one_step (q : Quirks) (kq : KS.Quirks) (c : Cache) (s : KS.Store) (pre post : List Lua.Ev) (e : Lua.Ev) :
    runLoop q kq c s (pre ++ e :: post) =
      (let a := runLoop q kq c s pre
       let r := processFrame q kq c a.1 e
       let b := runLoop q kq c r.1 post
       (b.1, a.2 ++ r.2 :: b.2)) := by
  rw [runLoop_append]
  simp [runLoop]

/-- The same at the grain of single data commands: the store after ANY schedule is the store
    obtained by executing, one by one, each frame's data commands as one contiguous block, blocks
    in schedule order (`flatten`) — no command of another connection between two calls of a script;
    and what any connection can observe (`observable`: the states between frames) is always the
    result of a whole number of frames, never a state in the middle of a script. -/
theorem script_calls_are_contiguous (q : Quirks) (kq : KS.Quirks) (c : Cache) (s : KS.Store) (evs pre post : List Lua.Ev) :
    (runLoop q kq c s evs).1 = (flatten q kq c s evs).foldl (microStep q kq) s ∧
    flatten q kq c s (pre ++ post) = flatten q kq c s pre ++ flatten q kq c (runLoop q kq c s pre).1 post ∧
    (∀ st ∈ observable q kq c s evs, ∃ k, k ≤ evs.length ∧ st = (runLoop q kq c s (evs.take k)).1) :=
  ⟨runLoop_store_eq_flatten q kq c evs s, flatten_append q kq c pre post s, observable_prefix q kq c evs s⟩

/-- Tie to the code: the EVAL path is a chain of plain nested calls on the command thread
    (no thread spawn, channel hand-off or await between `process_normal_command` and the executor). -/
theorem tree_eval_is_synchronous : Gen.evalIsSynchronous = true := by decide

/-- non-vacuity: connection 1 runs `INCR a; INCR b` in a script between two `GET`s of connection 2;
    the command-grain run has the two INCRs adjacent -/
example :
    let incr (k : Nat) : Step := ⟨false, [[73, 78, 67, 82], [k]].map Arg.lit⟩
    let sc : Lua.Ev := ⟨1, 0, 1000, .eval [] [] ⟨[incr 97, incr 98], .val .nil⟩⟩
    let rd (k : Nat) : Lua.Ev := ⟨2, 0, 1000, .cmd [[71, 69, 84], [k]]⟩
    (flatten Quirks.code {} [] KS.emptyStore [rd 97, sc, rd 98]).map (fun m => (m.conn, m.cmd)) =
      [(2, [[71, 69, 84], [97]]), (1, [[73, 78, 67, 82], [97]]), (1, [[73, 78, 67, 82], [98]]), (2, [[71, 69, 84], [98]])] := by
  decide

/-! ### (6) EVALSHA ≡ EVAL -/

/-- Full statement (switch off): EVALSHA of a cached script is EVAL of it — same store, same reply,
    on every database. -/
theorem evalsha_eq_eval (q : Quirks) (kq : KS.Quirks) (c : Cache) (s : KS.Store) (db now : Nat) (sha : Bytes)
    (keys argv : List Bytes) (p : Program) (h : q.evalshaDb0 = false) (hc : cacheGet c sha = some p) :
    evalsha q kq c s db now sha keys argv = eval q kq s db now keys argv p := by
  simp [evalsha, hc, h]

/-- Any variant (switch on or off): on database 0 … -/
theorem evalsha_eq_eval_partial (q : Quirks) (kq : KS.Quirks) (c : Cache) (s : KS.Store) (now : Nat) (sha : Bytes)
    (keys argv : List Bytes) (p : Program) (hc : cacheGet c sha = some p) :
    evalsha q kq c s 0 now sha keys argv = eval q kq s 0 now keys argv p := by
  simp [evalsha, hc]

/-- … and an unknown SHA changes nothing. -/
theorem evalsha_unknown (q : Quirks) (kq : KS.Quirks) (c : Cache) (s : KS.Store) (db now : Nat) (sha : Bytes)
    (keys argv : List Bytes) (hc : cacheGet c sha = none) :
    evalsha q kq c s db now sha keys argv = (s, noScript) := by
  simp [evalsha, hc]

/-- Witness: after `SELECT 1`, EVALSHA of `redis.call('SET','k','v')` writes `k` into database 0. -/
theorem evalsha_eq_eval_fails :
    let p : Program := ⟨[⟨false, [[83, 69, 84], [107], [118]].map Arg.lit⟩], .res 1⟩
    let a := evalsha onlyShaDb0 {} [([1], p)] KS.emptyStore 1 1000 [1] [] []
    let b := eval onlyShaDb0 {} KS.emptyStore 1 1000 [] [] p
    (KS.lookup (KS.getDb a.1 0) [107]).isSome = true ∧ (KS.lookup (KS.getDb a.1 1) [107]).isSome = false ∧
    (KS.lookup (KS.getDb b.1 0) [107]).isSome = false ∧ (KS.lookup (KS.getDb b.1 1) [107]).isSome = true := by
  decide

/-! ### (7) what scripts cannot reach -/

/-- In the model: a call of any command on the property's list (blocking, connection, pub/sub
    subscription, transaction, scripting, process / administration) fails and changes nothing,
    whatever its arguments, under `call` and `pcall` alike. -/
theorem blocked_commands_have_no_effect (q : Quirks) (kq : KS.Quirks) (s : KS.Store) (db now : Nat) (cmd : List Bytes)
    (h : nameOf cmd ∈ refusedNames) : ∃ m, execCall q kq s db now cmd = (s, .error m) :=
  execCall_refused q kq s db now cmd (by simpa using h)

/-- Tie to the code: every name on that list is the string literal of a refusal arm of
    `execute_unified_redis_command` as the source has it now. -/
theorem blocked_commands_refused : ∀ n ∈ refusedNames, n ∈ Gen.luaBlocked := by decide

/-- Commands that would block, reach another connection, the replication link or the process and
    are not in the refusal arms are unreachable all the same: the executor does not know them. -/
theorem unreachable_commands_unknown_to_executor :
    ∀ n ∈ ["BRPOPLPUSH", "BLMOVE", "BLMPOP", "WAIT", "HELLO", "SYNC", "PSYNC", "REPLICAOF", "SLAVEOF",
           "REPLCONF", "SLEEP", "VERIF", "SLOWLOG", "MEMORY", "COMMAND", "FUNCTION", "FCALL", "MODULE"],
      n ∉ Gen.luaExecutorCommands := by decide

/-- Exceptions: these names ARE accepted by `redis.call` although they concern the process or the
    disk: `execute_persistence` answers them with a canned reply and touches nothing (read in
    executor.rs; lib/c12.py checks that no dump file appears), `INFO` returns a fixed text. -/
theorem reachable_admin_commands_are_stubs :
    ∀ n ∈ ["SAVE", "BGSAVE", "BGREWRITEAOF", "LASTSAVE", "INFO"], n ∈ Gen.luaExecutorCommands ∧ n ∉ Gen.luaBlocked := by decide

/-- The Lua globals that reach the file system, the process or native code are removed before a
    script runs (both in the context that executes scripts and in the one that validates them). -/
theorem sandbox_removed :
    ∀ n ∈ ["os", "io", "loadfile", "dofile", "require", "package", "debug", "load"], n ∈ Gen.luaSandboxRemoved := by decide

/-- Two more doors of the sandbox, as the source has them now.  `newproxy` is the only way a Lua 5.1 script can install a `__gc`
    finalizer, and finalizers run with the debug hooks off: outside the script time limit and, when the per-script state is closed,
    after the script.  Precompiled chunks are executed by Lua 5.1 without validation.  The statement holds with the doors open
    (findings C12-sandbox-finalizer-escapes-time-limit / C12-sandbox-loadstring-bytecode, for which lib/c12.py sends harmless
    witnesses only) and with them closed (then it sends the wedging / crashing scripts and requires an error reply): what the
    regenerated table says about `newproxy` is what the removal list contains, and a tree that refuses bytecode has also removed
    the other loaders. -/
theorem sandbox_finalizer_and_bytecode_doors :
    (("newproxy" ∈ Gen.luaSandboxRemoved) ∨ ("newproxy" ∉ Gen.luaSandboxRemoved)) ∧
    (Gen.luaBytecodeRefused = true → ∀ n ∈ ["load", "loadfile", "dofile", "require", "package"], n ∈ Gen.luaSandboxRemoved) := by decide

end Ferrous.C12
