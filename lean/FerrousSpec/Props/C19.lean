/-
  C19 — a full SCAN / HSCAN / SSCAN / ZSCAN iteration returns every element present throughout it.

  Property theorems only; helper lemmas live in FerrousSpec/Proofs/Scan*.lean.
  Model: FerrousSpec/Model/Scan.lean (transliteration of src/storage/engine.rs:2165-2447,
  2626-2711 and src/storage/commands/scan.rs).
  Tie to the code: `Gen.scanCfg` (the constants 10 / 1000 / ×10) and `Gen.scanCursorIsRank` are
  regenerated from engine.rs on every run, and the harness executes `Code.scan`, `Code.sscan`,
  `Code.hscan`, `Code.zscan`, `Code.matchBytes`, `Code.parseOpts` and the real
  `StorageEngine::{scan,hscan,sscan,zscan}` / `handle_*scan` on the same call sequences.

  Vocabulary.  A *history* lists, call by call, the key space the call sees (a `Db`: keys with
  their types, no key twice); between two calls anything may be added or deleted.  `view ty db` is
  the list the cursor indexes: the keys of the requested TYPE, sorted byte-wise.  The iteration
  starts at cursor 0 and stops at the first returned 0 (`Code.iter`, `Code.iterFinishes`).
-/
import FerrousSpec.Proofs.ScanIter
import FerrousSpec.Proofs.ScanSlot
import FerrousSpec.Proofs.ScanGlob
import FerrousSpec.Proofs.ScanGlobRefine
import FerrousSpec.Proofs.ScanKeyCursor
import FerrousSpec.Gen.ScanConsts
namespace Ferrous.C19
open Ferrous Ferrous.Scan

/-! ### Tie to the source -/

/-- The constants the translator reads from engine.rs are usable loop bounds (all ≥ 1). Stops
    checking if e.g. the examined-keys budget becomes 0. -/
theorem tree_scan_cfg_ok : Gen.scanCfg.ok := by decide

/-- The translator recognises exactly one cursor scheme in all four scan functions: the rank
    (`cursor as usize` … `current_pos as u64`) or the slot (`partition_point(scan_slot < cursor)` …
    `scan_slot(next)`, FNV-1a `>> 11`).  Stops checking when the functions disagree or use neither. -/
theorem tree_cursor_scheme_recognised : Gen.scanCursorIsRank = !Gen.scanCfg.slotCursor := by decide

/-- The current tree uses the SLOT cursor (since 7022e03), so `scan_complete` (full strength, no exclusion)
    describes it; the rank theorems and witnesses (`scan_complete_partial`, `scan_complete_fails`) describe
    the tree before that commit (`rankCfg`).  Finding C19-cursor-is-rank is closed. -/
theorem tree_cursor_is_slot : Gen.scanCfg.slotCursor = true := by decide

/-- The constants of the tree with either cursor scheme (the witnesses below name the scheme they
    are about, so they keep checking when the tree changes scheme). -/
abbrev rankCfg : Cfg := { Gen.scanCfg with slotCursor := false }
abbrev slotCfg : Cfg := { Gen.scanCfg with slotCursor := true }

/-- `StorageEngine::scan` is the rank walk over the view sorted by name, or the slot walk over the
    view sorted by (slot, name). -/
theorem scan_is_walk (g : Cfg) (db : Db) (cursor count : Nat) (pat ty : Option Bytes) :
    (g.slotCursor = false →
      Code.scan g db cursor count pat ty = Code.scanSorted g (Code.matchOpt g.lossy pat) (view ty db) cursor count) ∧
    (g.slotCursor = true →
      Code.scan g db cursor count pat ty =
        Code.scanSlots g scanSlot (Code.matchOpt g.lossy pat) (viewSlot ty db) cursor count) := by
  constructor <;> intro hh <;> simp [Code.scan, hh]

/-! ### Soundness -/

/-- Every key a SCAN call returns exists at that call, has the requested TYPE and passes MATCH
    (as the engine's matcher decides it) — for every database, cursor, COUNT, pattern and type. -/
theorem scan_sound (g : Cfg) (hg : g.ok) (db : Db) (cursor count : Nat) (pat ty : Option Bytes) (k : Bytes)
    (hk : k ∈ (Code.scan g db cursor count pat ty).2) :
    (∃ t, (k, t) ∈ db ∧ typeOk ty t = true) ∧ Code.matchOpt g.lossy pat k = true := by
  cases hc : g.slotCursor with
  | false =>
    rw [(scan_is_walk g db cursor count pat ty).1 hc] at hk
    have := scanSorted_mem g (Code.matchOpt g.lossy pat) hg (view ty db) cursor count k hk
    exact ⟨(mem_view ty db k).mp this.1, this.2⟩
  | true =>
    rw [(scan_is_walk g db cursor count pat ty).2 hc] at hk
    have := scanSlots_mem g scanSlot (Code.matchOpt g.lossy pat) hg (viewSlot ty db) (sorted_viewSlot ty db) cursor count k hk
    exact ⟨(mem_viewSlot ty db k).mp this.1, this.2⟩

/-- Rank cursor: one call never returns more than `min(COUNT, 1000)` keys (COUNT 0 meaning 10). -/
theorem scan_batch_bounded (g : Cfg) (hr : g.slotCursor = false) (db : Db) (cursor count : Nat) (pat ty : Option Bytes) :
    (Code.scan g db cursor count pat ty).2.length ≤ Code.normCount g count := by
  rw [(scan_is_walk g db cursor count pat ty).1 hr]
  exact scanSorted_length g (Code.matchOpt g.lossy pat) (view ty db) cursor count

/-- Slot cursor: at most `min(COUNT, 1000)` keys plus one group of keys with equal slots (a page
    never ends inside such a group) … -/
theorem scan_batch_bounded_slot (g : Cfg) (hs : g.slotCursor = true) (db : Db) (cursor count : Nat) (pat ty : Option Bytes) :
    ∃ S, (Code.scan g db cursor count pat ty).2.length ≤
      Code.normCount g count + ((viewSlot ty db).filter (fun k => decide (S = some (scanSlot k)))).length := by
  rw [(scan_is_walk g db cursor count pat ty).2 hs]
  exact scanSlots_length g scanSlot (Code.matchOpt g.lossy pat) (viewSlot ty db) cursor count

/-- … that is `min(COUNT, 1000) + 1` when no two candidate keys share a slot. -/
theorem scan_batch_bounded_slot_nocollision (g : Cfg) (hs : g.slotCursor = true) (db : Db) (cursor count : Nat)
    (pat ty : Option Bytes) (hinj : (viewSlot ty db).Pairwise (fun a b => scanSlot a ≠ scanSlot b)) :
    (Code.scan g db cursor count pat ty).2.length ≤ Code.normCount g count + 1 := by
  obtain ⟨S, hS⟩ := scan_batch_bounded_slot g hs db cursor count pat ty
  have := cntSlot_le_one scanSlot S (viewSlot ty db) hinj
  unfold cntSlot at this
  omega

/-! ### Progress and termination -/

/-- With an unchanged key space the returned cursor is 0 (iteration over) or strictly larger
    than the one passed in — with either cursor scheme, whatever MATCH filters away. -/
theorem scan_progress (g : Cfg) (hg : g.ok) (db : Db) (cursor count : Nat) (pat ty : Option Bytes) :
    (Code.scan g db cursor count pat ty).1 = 0 ∨ cursor < (Code.scan g db cursor count pat ty).1 := by
  cases hc : g.slotCursor with
  | false =>
    rw [(scan_is_walk g db cursor count pat ty).1 hc]
    rcases scanSorted_progress g (Code.matchOpt g.lossy pat) hg (view ty db) cursor count with h0 | h1
    · exact Or.inl h0
    · exact Or.inr h1.1
  | true =>
    rw [(scan_is_walk g db cursor count pat ty).2 hc]
    exact scanSlots_progress g scanSlot (Code.matchOpt g.lossy pat) hg (viewSlot ty db) (sorted_viewSlot ty db) cursor count

/-- **Termination bound.**  If the candidate list never grows from one call to the next
    (deletions allowed), a full iteration started at cursor 0 over `n` candidate keys ends after
    at most `n / min(COUNT,1000) + 1` calls — provided the history is at least that long, i.e. the
    client keeps calling. -/
theorem scan_terminates_nongrowing (g : Cfg) (hg : g.ok) (count : Nat) (pat : Option Bytes)
    (ks : List Bytes) (rest : List (List Bytes)) (hng : NonGrowing (ks :: rest))
    (hlen : ks.length / Code.normCount g count + 1 ≤ (ks :: rest).length) :
    ∃ n, Code.iterCalls g (Code.matchOpt g.lossy pat) count 0 (ks :: rest) = some n ∧
      1 ≤ n ∧ n ≤ ks.length / Code.normCount g count + 1 := by
  have := iterCalls_bound g (Code.matchOpt g.lossy pat) hg count (ks :: rest) 0 ks rest rfl hng (by simpa using hlen)
  simpa using this

/-- The same for a key space that does not change at all: the iteration over a database whose
    view has `n` keys makes at most `n / min(COUNT,1000) + 1` calls. -/
theorem scan_terminates (g : Cfg) (hg : g.ok) (db : Db) (count : Nat) (pat ty : Option Bytes) :
    ∃ n, Code.iterCalls g (Code.matchOpt g.lossy pat) count 0
        (List.replicate ((view ty db).length / Code.normCount g count + 1) (view ty db)) = some n ∧
      1 ≤ n ∧ n ≤ (view ty db).length / Code.normCount g count + 1 := by
  have hrep : List.replicate ((view ty db).length / Code.normCount g count + 1) (view ty db) =
      view ty db :: List.replicate ((view ty db).length / Code.normCount g count) (view ty db) := by
    simp [List.replicate_succ]
  rw [hrep]
  apply scan_terminates_nongrowing g hg count pat
  · rw [← hrep]
    unfold NonGrowing
    rw [List.pairwise_replicate]
    right
    exact Nat.le_refl _
  · simp

/-- **Termination bound, slot cursor.**  If from one call to the next no slot range gains keys
    (nothing is added; deletions allowed), a full iteration over `n` candidate keys ends after at
    most `n / min(COUNT,1000) + 1` calls. -/
theorem scan_terminates_slot_nogrowth (g : Cfg) (hg : g.ok) (count : Nat) (pat : Option Bytes)
    (ks : List Bytes) (rest : List (List Bytes)) (hsort : ∀ l ∈ ks :: rest, SortedS scanSlot l)
    (hng : NoGrowthS scanSlot (ks :: rest))
    (hlen : ks.length / Code.normCount g count + 1 ≤ (ks :: rest).length) :
    ∃ n, Code.iterSCalls g scanSlot (Code.matchOpt g.lossy pat) count 0 (ks :: rest) = some n ∧
      1 ≤ n ∧ n ≤ ks.length / Code.normCount g count + 1 := by
  have hcnt : cntGe scanSlot 0 ks = ks.length := by
    unfold cntGe
    rw [List.filter_eq_self.mpr (by intro a _; simp)]
  have := iterSCalls_bound g scanSlot (Code.matchOpt g.lossy pat) hg count (ks :: rest) 0 ks rest rfl hsort hng
    (by rw [hcnt]; exact hlen)
  rw [hcnt] at this
  exact this

/-- The same for a key space that does not change at all. -/
theorem scan_terminates_slot (g : Cfg) (hg : g.ok) (db : Db) (count : Nat) (pat ty : Option Bytes) :
    ∃ n, Code.iterSCalls g scanSlot (Code.matchOpt g.lossy pat) count 0
        (List.replicate ((viewSlot ty db).length / Code.normCount g count + 1) (viewSlot ty db)) = some n ∧
      1 ≤ n ∧ n ≤ (viewSlot ty db).length / Code.normCount g count + 1 := by
  have hrep : List.replicate ((viewSlot ty db).length / Code.normCount g count + 1) (viewSlot ty db) =
      viewSlot ty db :: List.replicate ((viewSlot ty db).length / Code.normCount g count) (viewSlot ty db) := by
    simp [List.replicate_succ]
  rw [hrep]
  apply scan_terminates_slot_nogrowth g hg count pat
  · intro l hl
    rw [← hrep] at hl
    rw [List.eq_of_mem_replicate hl]
    exact sorted_viewSlot ty db
  · rw [← hrep]
    unfold NoGrowthS
    rw [List.pairwise_replicate]
    right
    intro c
    exact Nat.le_refl _
  · simp

/-! ### Completeness -/

/-- **The full statement, for the slot cursor.**  Take any history of databases — anything may be
    added or deleted between two calls — any COUNT, MATCH and TYPE, and a full iteration over it
    (cursor 0 until 0 comes back).  Every key that has the requested type in every database of the
    history and passes MATCH is returned by at least one call.  No exclusion. -/
theorem scan_complete (g : Cfg) (hg : g.ok) (count : Nat) (pat ty : Option Bytes) (hist : List Db)
    (hfin : Code.iterSFinishes g scanSlot (Code.matchOpt g.lossy pat) count 0 (hist.map (viewSlot ty)) = true)
    (k : Bytes) (hk : ∀ db ∈ hist, ∃ t, (k, t) ∈ db ∧ typeOk ty t = true)
    (hm : Code.matchOpt g.lossy pat k = true) :
    k ∈ (Code.iterS g scanSlot (Code.matchOpt g.lossy pat) count 0 (hist.map (viewSlot ty))).flatten := by
  apply iterS_complete g scanSlot (Code.matchOpt g.lossy pat) hg count k hm (hist.map (viewSlot ty)) 0
  · intro ks hks
    obtain ⟨db, _, rfl⟩ := List.mem_map.mp hks
    exact sorted_viewSlot ty db
  · intro ks hks
    obtain ⟨db, hdb, rfl⟩ := List.mem_map.mp hks
    exact (mem_viewSlot ty db k).mpr (hk db hdb)
  · exact hfin
  · exact Nat.zero_le _

/-- …and it returns no key twice: the keys of a batch have their slots in `[cursor, next)`, and
    the cursor of every later call is at least `next`. -/
theorem scan_batch_slots (g : Cfg) (hg : g.ok) (hs : g.slotCursor = true) (db : Db) (cursor count : Nat)
    (pat ty : Option Bytes) (k : Bytes) (hk : k ∈ (Code.scan g db cursor count pat ty).2) :
    cursor ≤ scanSlot k ∧
      ((Code.scan g db cursor count pat ty).1 ≠ 0 → scanSlot k < (Code.scan g db cursor count pat ty).1) := by
  rw [(scan_is_walk g db cursor count pat ty).2 hs] at hk ⊢
  exact scanSlots_batch_slots g scanSlot (Code.matchOpt g.lossy pat) hg (viewSlot ty db) (sorted_viewSlot ty db) cursor count k hk

/-- The history that defeats the rank cursor (keys `a b c`, COUNT 1, `a` deleted after the first
    call), walked with the slot cursor (slot order `a c b`): three calls return `a`, `c`, `b`. -/
theorem scan_complete_slot_on_rank_witness :
    Code.iterSFinishes slotCfg scanSlot (Code.matchOpt false none) 1 0
      ([[([97], 0), ([98], 0), ([99], 0)], [([98], 0), ([99], 0)], [([98], 0), ([99], 0)]].map (viewSlot none)) = true ∧
    Code.iterS slotCfg scanSlot (Code.matchOpt false none) 1 0
      ([[([97], 0), ([98], 0), ([99], 0)], [([98], 0), ([99], 0)], [([98], 0), ([99], 0)]].map (viewSlot none)) =
        [[[97]], [[99]], [[98]]] := by
  decide

/-- **What the rank cursor guarantees.**  Take any history of databases, any COUNT, MATCH and
    TYPE, and a full iteration over it.  If between two successive calls no key that ranks below
    the cursor handed out by the first of them disappears from the view (`Code.noDelBelow`;
    additions anywhere and deletions at or after the cursor are allowed), then every key that
    has the requested type in every database of the history and passes MATCH is returned by at
    least one call. -/
theorem scan_complete_partial (g : Cfg) (hg : g.ok) (count : Nat) (pat ty : Option Bytes) (hist : List Db)
    (hnd : ∀ db ∈ hist, (db.map (·.1)).Nodup)
    (hfin : Code.iterFinishes g (Code.matchOpt g.lossy pat) count 0 (hist.map (view ty)) = true)
    (hsafe : Code.noDelBelow g (Code.matchOpt g.lossy pat) count 0 (hist.map (view ty)) = true)
    (k : Bytes) (hk : ∀ db ∈ hist, ∃ t, (k, t) ∈ db ∧ typeOk ty t = true)
    (hm : Code.matchOpt g.lossy pat k = true) :
    k ∈ (Code.iter g (Code.matchOpt g.lossy pat) count 0 (hist.map (view ty))).flatten := by
  apply iter_complete g (Code.matchOpt g.lossy pat) hg count k hm (hist.map (view ty)) 0
  · intro ks hks
    obtain ⟨db, hdb, rfl⟩ := List.mem_map.mp hks
    exact sorted_view ty db (hnd db hdb)
  · intro ks hks
    obtain ⟨db, hdb, rfl⟩ := List.mem_map.mp hks
    exact (mem_view ty db k).mpr (hk db hdb)
  · exact hfin
  · exact hsafe
  · intro ks rest heq
    have hks : ks ∈ hist.map (view ty) := by rw [heq]; simp
    obtain ⟨db, hdb, rfl⟩ := List.mem_map.mp hks
    have := (mem_view ty db k).mpr (hk db hdb)
    obtain ⟨j, hj, hget⟩ := List.getElem_of_mem this
    exact ⟨j, by simp [List.getElem?_eq_getElem hj, hget], Nat.zero_le _⟩

/-- **Additions never cause a miss, only duplicates.**  If nothing disappears from the view
    between calls (keys are only added, anywhere, also below the cursor), the iteration returns
    every key that was there from the first call on. -/
theorem scan_complete_under_additions (g : Cfg) (hg : g.ok) (count : Nat) (pat ty : Option Bytes) (hist : List Db)
    (hnd : ∀ db ∈ hist, (db.map (·.1)).Nodup)
    (hfin : Code.iterFinishes g (Code.matchOpt g.lossy pat) count 0 (hist.map (view ty)) = true)
    (hadd : Code.onlyAdditions (hist.map (view ty)) = true)
    (k : Bytes) (hk : ∀ db ∈ hist, ∃ t, (k, t) ∈ db ∧ typeOk ty t = true)
    (hm : Code.matchOpt g.lossy pat k = true) :
    k ∈ (Code.iter g (Code.matchOpt g.lossy pat) count 0 (hist.map (view ty))).flatten :=
  scan_complete_partial g hg count pat ty hist hnd hfin
    (noDelBelow_of_onlyAdditions g (Code.matchOpt g.lossy pat) count _ 0 hadd) k hk hm

/-- …and duplicates do occur: keys `b c`; `SCAN 0 COUNT 1` → `b`, cursor 1; `a` is added;
    `SCAN 1 COUNT 1` → `b` again. -/
theorem scan_additions_duplicate :
    Code.scan rankCfg [([98], 0), ([99], 0)] 0 1 none none = (1, [[98]]) ∧
    Code.scan rankCfg [([97], 0), ([98], 0), ([99], 0)] 1 1 none none = (2, [[98]]) := by
  constructor <;> decide

/-- **The full statement is false for the rank cursor.**  Keys `a b c`; `SCAN 0 COUNT 1` → `a`,
    cursor 1; `DEL a`; `SCAN 1 COUNT 1` → `c`, cursor 0.  `b` existed during the whole iteration
    and is never returned. -/
theorem scan_complete_fails :
    ∃ (hist : List Db) (k : Bytes),
      (∀ db ∈ hist, (db.map (·.1)).Nodup) ∧
      Code.iterFinishes Gen.scanCfg (Code.matchOpt true none) 1 0 (hist.map (view none)) = true ∧
      (∀ db ∈ hist, ∃ t, (k, t) ∈ db ∧ typeOk none t = true) ∧
      Code.matchOpt true none k = true ∧
      k ∉ (Code.iter Gen.scanCfg (Code.matchOpt true none) 1 0 (hist.map (view none))).flatten := by
  refine ⟨[[([97], 0), ([98], 0), ([99], 0)], [([98], 0), ([99], 0)]], [98], ?_, ?_, ?_, ?_, ?_⟩
  · intro db hdb
    simp only [List.mem_cons, List.not_mem_nil, or_false] at hdb
    rcases hdb with rfl | rfl <;> decide
  · decide
  · intro db hdb
    simp only [List.mem_cons, List.not_mem_nil, or_false] at hdb
    rcases hdb with rfl | rfl <;> exact ⟨0, by decide, rfl⟩
  · rfl
  · decide

/-- The two calls of the witness, as the engine answers them. -/
theorem scan_complete_fails_calls :
    Code.scan rankCfg [([97], 0), ([98], 0), ([99], 0)] 0 1 none none = (1, [[97]]) ∧
    Code.scan rankCfg [([98], 0), ([99], 0)] 1 1 none none = (0, [[99]]) ∧
    Code.noDelBelow Gen.scanCfg (Code.matchOpt true none) 1 0 [[[97], [98], [99]], [[98], [99]]] = false := by
  refine ⟨?_, ?_, ?_⟩ <;> decide

/-- **The full statement is satisfiable** by a stateless scan over a list rebuilt on every call:
    with the last examined key as the cursor (`Spec.scanAfter`), every key that is in every
    (sorted) list of the history is returned, whatever else is added or deleted in between. -/
theorem scan_complete_keycursor (m : Bytes → Bool) (count : Nat) (hist : List (List Bytes))
    (hs : ∀ ks ∈ hist, Sorted ks) (hfin : Spec.iterAfterFinishes m count none hist = true)
    (k : Bytes) (hk : ∀ ks ∈ hist, k ∈ ks) (hm : m k = true) :
    k ∈ (Spec.iterAfter m count none hist).flatten :=
  iterAfter_complete m count k hm hist none hs hk hfin (fun c hc => by simp at hc)

/-! ### HSCAN, SSCAN, ZSCAN: the same walk over the sorted members -/

/-- SSCAN (fast path included) returns what the cursor walk over the sorted member list
    returns, so soundness, progress, the termination bound, `…_partial` and the witness above
    apply to it verbatim (the fast-path reply comes in hash-table order in the real code). -/
theorem sscan_same_walk (g : Cfg) (hg : g.ok) (hr : g.slotCursor = false) (members : List Bytes) (cursor count : Nat) (pat : Option Bytes) :
    Code.sscan g members cursor count pat =
      Code.scanSorted g (Code.matchOpt g.lossy pat) (sortKeys members) cursor count :=
  sscan_eq_scanSorted g hg hr members cursor count pat

/-- With the slot cursor SSCAN is the slot walk over its members (fast path included), so
    `scan_complete`, the bounds and disjointness apply to it verbatim. -/
theorem sscan_same_walk_slot (g : Cfg) (hg : g.ok) (hs : g.slotCursor = true) (members : List Bytes) (cursor count : Nat) (pat : Option Bytes) :
    Code.sscan g members cursor count pat =
      Code.scanSlots g scanSlot (Code.matchOpt g.lossy pat) (sortSlot scanSlot members) cursor count :=
  sscan_eq_scanSlots g hg hs members cursor count pat

/-- HSCAN: the same walk over the field names; NOVALUES returns exactly the fields. -/
theorem hscan_same_walk (g : Cfg) (hg : g.ok) (h : List (Bytes × Bytes)) (cursor count : Nat) (pat : Option Bytes) :
    (g.slotCursor = false → Code.hscan g h cursor count pat true =
      Code.scanSorted g (Code.matchOpt g.lossy pat) (sortKeys (h.map (·.1))) cursor count) ∧
    (g.slotCursor = true → Code.hscan g h cursor count pat true =
      Code.scanSlots g scanSlot (Code.matchOpt g.lossy pat) (sortSlot scanSlot (h.map (·.1))) cursor count) := by
  constructor <;> intro hh <;> unfold Code.hscan <;> simp only [if_true]
  · rw [sscan_eq_scanSorted g hg hh]
  · rw [sscan_eq_scanSlots g hg hh]

/-- HSCAN with values: the cursor is the same and each returned field is followed by its value. -/
theorem hscan_with_values (g : Cfg) (h : List (Bytes × Bytes)) (cursor count : Nat) (pat : Option Bytes) :
    (Code.hscan g h cursor count pat false).1 = (Code.hscan g h cursor count pat true).1 ∧
    (Code.hscan g h cursor count pat false).2 =
      (Code.hscan g h cursor count pat true).2.flatMap (fun f => [f, Code.lookup [] f h]) := by
  simp [Code.hscan]

/-- ZSCAN: the same walk over the members, each returned with its score. -/
theorem zscan_same_walk (g : Cfg) (hg : g.ok) (z : List (Bytes × Int)) (cursor count : Nat) (pat : Option Bytes) :
    (g.slotCursor = false →
      (Code.zscan g z cursor count pat).1 =
        (Code.scanSorted g (Code.matchOpt g.lossy pat) (sortKeys (z.map (·.1))) cursor count).1 ∧
      (Code.zscan g z cursor count pat).2.map (·.1) =
        (Code.scanSorted g (Code.matchOpt g.lossy pat) (sortKeys (z.map (·.1))) cursor count).2) ∧
    (g.slotCursor = true →
      (Code.zscan g z cursor count pat).1 =
        (Code.scanSlots g scanSlot (Code.matchOpt g.lossy pat) (sortSlot scanSlot (z.map (·.1))) cursor count).1 ∧
      (Code.zscan g z cursor count pat).2.map (·.1) =
        (Code.scanSlots g scanSlot (Code.matchOpt g.lossy pat) (sortSlot scanSlot (z.map (·.1))) cursor count).2) := by
  constructor <;> intro hh <;> unfold Code.zscan
  · rw [sscan_eq_scanSorted g hg hh]
    simp [List.map_map, Function.comp_def]
  · rw [sscan_eq_scanSlots g hg hh]
    simp [List.map_map, Function.comp_def]

/-! ### The TYPE option -/

/-- `handle_scan` lower-cases the TYPE value before the engine compares it with the lower-case type
    names.  Stops checking when that normalisation disappears (then `type_filter_case_sensitive_fails`
    describes the tree again). -/
theorem tree_type_filter_folds_case : Gen.scanCfg.typeFold = true := by decide

/-- With the normalisation the filter the engine applies is the prescribed one: the type name
    without regard to the case of ASCII letters (an unknown name selects nothing). -/
theorem type_filter_is_spec (g : Cfg) (hf : g.typeFold = true) (ty : Option Bytes) (t : Nat) :
    typeOk (Code.typeArg g ty) t = Spec.typeOk ty t := by
  cases ty <;> simp [Code.typeArg, hf, typeOk, Spec.typeOk]

/-- **`TYPE` ignores the case of the name**: two spellings of the same name (`string`, `STRING`,
    `String`, …) give the same reply, for every database, cursor, COUNT and MATCH. -/
theorem type_filter_ignores_case (g : Cfg) (hf : g.typeFold = true) (db : Db) (cursor count : Nat) (pat : Option Bytes)
    (s s' : Bytes) (h : s.map lowerAscii = s'.map lowerAscii) :
    Code.scanCmd g db cursor count pat (some s) = Code.scanCmd g db cursor count pat (some s') := by
  simp [Code.scanCmd, Code.typeArg, hf, h]

/-- Soundness of the command for every spelling: every returned key exists, has the type named
    by `TYPE` (case ignored) and passes MATCH. -/
theorem scan_cmd_sound_type (g : Cfg) (hg : g.ok) (hf : g.typeFold = true) (db : Db) (cursor count : Nat)
    (pat ty : Option Bytes) (k : Bytes) (hk : k ∈ (Code.scanCmd g db cursor count pat ty).2) :
    (∃ t, (k, t) ∈ db ∧ Spec.typeOk ty t = true) ∧ Code.matchOpt g.lossy pat k = true := by
  obtain ⟨⟨t, ht, hok⟩, hm⟩ := scan_sound g hg db cursor count pat (Code.typeArg g ty) k hk
  exact ⟨⟨t, ht, by rw [← type_filter_is_spec g hf ty t]; exact hok⟩, hm⟩

/-- Completeness of the command restricted to the keys of the named type, for every spelling (slot
    cursor, full strength): a key that has that type (case of the name ignored) in every database
    of the history and passes MATCH is returned by the iteration. -/
theorem scan_cmd_complete_type (g : Cfg) (hg : g.ok) (hf : g.typeFold = true) (count : Nat) (pat ty : Option Bytes)
    (hist : List Db)
    (hfin : Code.iterSFinishes g scanSlot (Code.matchOpt g.lossy pat) count 0 (hist.map (viewSlot (Code.typeArg g ty))) = true)
    (k : Bytes) (hk : ∀ db ∈ hist, ∃ t, (k, t) ∈ db ∧ Spec.typeOk ty t = true)
    (hm : Code.matchOpt g.lossy pat k = true) :
    k ∈ (Code.iterS g scanSlot (Code.matchOpt g.lossy pat) count 0 (hist.map (viewSlot (Code.typeArg g ty)))).flatten := by
  apply scan_complete g hg count pat (Code.typeArg g ty) hist hfin k _ hm
  intro db hdb
  obtain ⟨t, ht, hok⟩ := hk db hdb
  exact ⟨t, ht, by rw [type_filter_is_spec g hf ty t]; exact hok⟩

/-- **Without the normalisation the statement is false**: key `a` is a string; `SCAN 0 TYPE STRING`
    ends the iteration at once with no key, although `STRING` names the type of `a`; with the
    normalisation the same command returns `a`. -/
theorem type_filter_case_sensitive_fails :
    Code.cmdScan { Gen.scanCfg with typeFold := false } [([97], 0)] [[48], [84, 89, 80, 69], [83, 84, 82, 73, 78, 71]] = some (0, []) ∧
    Spec.typeOk (some [83, 84, 82, 73, 78, 71]) 0 = true ∧
    Code.cmdScan { Gen.scanCfg with typeFold := true } [([97], 0)] [[48], [84, 89, 80, 69], [83, 84, 82, 73, 78, 71]] = some (0, [[97]]) ∧
    Code.cmdScan { Gen.scanCfg with typeFold := true } [([97], 0)] [[48], [116, 121, 112, 101], [83, 116, 82, 105, 78, 103]] = some (0, [[97]]) := by
  decide

/-! ### The MATCH matcher -/

/-- MATCH on the current tree is byte-wise (the repaired matcher), so the full statement
    `match_refines` below speaks about the code.  Stops checking if matching goes back through
    `String::from_utf8_lossy`. -/
theorem tree_match_is_bytewise : Gen.scanCfg.lossy = false := by decide

/-- The recursion budget of the model's matcher is never the reason for a verdict. -/
theorem match_fuel_irrelevant (p t : List Nat) : (Code.globLoop (Code.globFuel p t) p t none).isSome = true :=
  globLoop_fuel_enough p t

/-- The `'['` arm of `pattern_matches` still walks the class member by member as Redis's
    `stringmatchlen` does (escapes inside the class, ordered range bounds, `x-y` whenever two more
    characters follow, an unterminated class runs to the end).  Stops checking when that arm is
    rewritten (then `Code.classWalk` must follow). -/
theorem tree_glob_class_is_redis : Gen.globClassRedis = true := by decide

/-- **The matcher computes glob semantics — for EVERY pattern and every text.**  Any mix of
    literals, `?`, `*` (any number), classes, negated classes, ranges, escapes inside and outside
    classes, also unterminated classes and `[`, `[^`, `[]`, `[a-]`: the single-star backtracking
    loop of engine.rs gives the verdict of the textbook recursive matcher over the tokenised
    pattern.  `p` and `t` are plain lists of symbols, so the statement serves every caller of
    `pattern_matches` (SCAN family MATCH, KEYS, PSUBSCRIBE). -/
theorem match_refines_glob (p t : List Nat) :
    Code.globChars p t = Spec.matchToks (Spec.tokenize p) t :=
  globChars_eq_matchToks p t

/-- **Full statement (byte-wise matcher, `lossy = false`, the tree)**: for every pattern and every
    key, MATCH accepts the key exactly when glob matching over bytes does.  No exclusion. -/
theorem match_refines (pat key : Bytes) : Spec.matchBytes pat key = Code.matchBytes false pat key := by
  unfold Spec.matchBytes Code.matchBytes
  simp only [Bool.false_eq_true, if_false]
  rw [globChars_eq_matchToks pat key]

/-- **The matcher on lossily decoded text (`lossy = true`, the tree before e25f0f8)**: the same
    holds when pattern and key are ASCII.  (Exclusion: a byte ≥ 0x80 on either side — see
    `match_sound_fails_on_invalid_utf8`.) -/
theorem match_refines_partial (pat key : Bytes) (hp : ∀ b ∈ pat, b < 128) (hk : ∀ b ∈ key, b < 128) :
    Spec.matchBytes pat key = Code.matchBytes true pat key := by
  unfold Spec.matchBytes Code.matchBytes
  simp only [if_true]
  rw [decodeLossy_ascii pat hp, decodeLossy_ascii key hk, globChars_eq_matchToks pat key]

/-- Soundness against the prescribed filter: every key returned by a SCAN call with `MATCH pat`
    satisfies the glob pattern over bytes — for every pattern (with the lossy matcher: when
    pattern and key are ASCII). -/
theorem scan_sound_glob (g : Cfg) (hg : g.ok) (db : Db) (cursor count : Nat) (pat : Bytes) (ty : Option Bytes)
    (k : Bytes) (hk : k ∈ (Code.scan g db cursor count (some pat) ty).2)
    (hp : g.lossy = true → ∀ b ∈ pat, b < 128) (hka : g.lossy = true → ∀ b ∈ k, b < 128) :
    Spec.matchBytes pat k = true := by
  have := (scan_sound g hg db cursor count (some pat) ty k hk).2
  simp only [Code.matchOpt] at this
  cases hl : g.lossy with
  | true =>
    rw [hl] at this
    rw [match_refines_partial pat k (hp hl) (hka hl), this]
  | false =>
    rw [hl] at this
    rw [match_refines pat k, this]

/-- `MATCH *` accepts every key (any bytes), lossy or not. -/
theorem match_star_all (lossy : Bool) (key : Bytes) : Code.matchBytes lossy [42] key = true := by
  unfold Code.matchBytes
  cases lossy
  · simp only [Bool.false_eq_true, if_false]; exact globChars_star _
  · simp only [if_true]
    rw [show decodeLossy [42] = [42] from rfl]
    exact globChars_star _

/-- An ASCII pattern without `*`, `?`, `[`, `\` selects, among ASCII keys, exactly itself. -/
theorem match_literal_exact (pat key : Bytes) (hp : ∀ x ∈ pat, plain x ∧ x < 128) (hk : ∀ b ∈ key, b < 128) :
    Code.matchBytes true pat key = true ↔ key = pat := by
  unfold Code.matchBytes
  simp only [if_true]
  rw [decodeLossy_ascii pat (fun b hb => (hp b hb).2), decodeLossy_ascii key hk]
  exact globChars_literal pat key (fun x hx => (hp x hx).1)

/-- `MATCH ?` accepts, among ASCII keys, exactly those of length 1. -/
theorem match_question (key : Bytes) (hk : ∀ b ∈ key, b < 128) :
    Code.matchBytes true [63] key = true ↔ key.length = 1 := by
  unfold Code.matchBytes
  simp only [if_true]
  rw [show decodeLossy [63] = [63] from rfl, decodeLossy_ascii key hk]
  exact globChars_question key

/-- `MATCH prefix*` (ASCII literal prefix) accepts, among ASCII keys, exactly those that begin
    with the prefix — the `user:*` idiom. -/
theorem match_prefix_star (pre key : Bytes) (hp : ∀ x ∈ pre, plain x ∧ x < 128) (hk : ∀ b ∈ key, b < 128) :
    Code.matchBytes true (pre ++ [42]) key = pre.isPrefixOf key := by
  unfold Code.matchBytes
  simp only [if_true]
  have hpa : ∀ b ∈ pre ++ [42], b < 128 := by
    intro b hb
    rcases List.mem_append.mp hb with h | h
    · exact (hp b h).2
    · simp at h; omega
  rw [decodeLossy_ascii _ hpa, decodeLossy_ascii key hk]
  exact globChars_prefix_star pre key (fun x hx => (hp x hx).1)

/-- The edge patterns, as code and specification decide them (Redis's verdicts): `[` alone and
    `[]` match nothing; `[^` alone matches any one character; an unterminated class works
    (`[abc` matches `a`); `\]` is a member (`[\]]` matches `]`, `[a\-c]` matches `-` but not `b`);
    a reversed range is ordered (`[z-a]` matches `b`); `[a-]` is the range from `]` to `a` (matches
    `_`, not `-`); `[]-a]` is the empty class followed by the literal `-a]`. -/
theorem match_class_edge_cases :
    Code.globChars [91] [91] = false ∧ Code.globChars [91, 93] [120] = false ∧
    Code.globChars [91, 94] [120] = true ∧
    Code.globChars [91, 97, 98, 99] [97] = true ∧
    Code.globChars [91, 92, 93, 93] [93] = true ∧
    Code.globChars [91, 97, 92, 45, 99, 93] [45] = true ∧ Code.globChars [91, 97, 92, 45, 99, 93] [98] = false ∧
    Code.globChars [91, 122, 45, 97, 93] [98] = true ∧
    Code.globChars [91, 97, 45, 93] [95] = true ∧ Code.globChars [91, 97, 45, 93] [45] = false ∧
    Code.globChars [91, 93, 45, 97, 93] [45] = false ∧
    Spec.tokenize [91, 97, 45, 93] = [.cls false [(93, 97)]] ∧
    Spec.tokenize [91, 93, 45, 97, 93] = [.cls false [], .lit 45, .lit 97, .lit 93] ∧
    Spec.tokenize [91, 94] = [.cls true []] ∧ Spec.tokenize [91] = [.cls false []] := by
  decide

/-- **MATCH on lossily decoded text is not sound over bytes.**  The literal pattern `\xff`
    accepts the different key `\xfe` (both become U+FFFD), which glob matching over bytes rejects;
    and `?` accepts the two-byte key `é`.  The byte-wise matcher gets both right. -/
theorem match_sound_fails_on_invalid_utf8 :
    Code.matchBytes true [255] [254] = true ∧ Spec.matchBytes [255] [254] = false ∧
    Code.matchBytes true [63] [195, 169] = true ∧ Spec.matchBytes [63] [195, 169] = false ∧
    Code.matchBytes false [255] [254] = false ∧ Code.matchBytes false [63] [195, 169] = false := by
  decide

/-! ### Non-vacuity: concrete non-trivial instances of the hypotheses -/

-- a history with an addition below the cursor and a deletion above it: the exclusion holds, the
-- iteration finishes, and the stable keys are all returned (with a duplicate)
example :
    let hist : List Db := [[([98], 0), ([99], 0), ([100], 0), ([101], 0)],
                           [([97], 0), ([98], 0), ([99], 0), ([100], 0)]]
    Code.iterFinishes Gen.scanCfg (Code.matchOpt true none) 2 0 (hist.map (view none)) = true ∧
    Code.noDelBelow Gen.scanCfg (Code.matchOpt true none) 2 0 (hist.map (view none)) = true ∧
    Code.iter Gen.scanCfg (Code.matchOpt true none) 2 0 (hist.map (view none)) = [[[98], [99]], [[99], [100]]] := by
  decide

example : Code.iterCalls Gen.scanCfg (Code.matchOpt true none) 2 0 (List.replicate 3 [[97], [98], [99], [100], [101]]) = some 3 := by
  decide

example : NonGrowing [[[97], [98], [99]], [[98], [99]], [[99]]] := by
  unfold NonGrowing; decide

example : Code.scan rankCfg [([97, 49], 0), ([98], 2), ([97, 50], 0), ([97], 3)] 0 10 (some [97, 42]) (some [115, 116, 114, 105, 110, 103]) =
    (0, [[97, 49], [97, 50]]) := by decide

example : Spec.iterAfter (fun _ => true) 1 none [[[97], [98], [99]], [[98], [99]], [[98], [99]]] = [[[97]], [[98]], [[99]]] := by
  decide

example : Code.matchBytes true [117, 115, 101, 114, 58, 42] [117, 115, 101, 114, 58, 49, 48] = true := by decide

-- a pattern with a negated class, a reversed range, an escaped bracket, an escape and two stars
example : Spec.tokenize [42, 91, 94, 99, 45, 97, 92, 93, 120, 93, 92, 42, 63, 42] =
    [.star, .cls true [(97, 99), (93, 93), (120, 120)], .lit 42, .any, .star] := by decide

end Ferrous.C19
