/-
  C19 — placeholder while the proofs are being developed.
-/
import FerrousSpec.Model.Scan
import FerrousSpec.Gen.ScanConsts
namespace Ferrous.C19
open Ferrous Ferrous.Scan

theorem tree_scan_cfg_ok : Gen.scanCfg.ok := by decide

end Ferrous.C19
