/-
  C19 — a full SCAN / HSCAN / SSCAN / ZSCAN iteration returns every element present throughout it.

  Property theorems only; helper lemmas live in FerrousSpec/Proofs/Scan*.lean.
  Model: FerrousSpec/Model/Scan.lean (transliteration of src/storage/engine.rs:2165-2447,
  2626-2711 and src/storage/commands/scan.rs).
  Tie to the code: `Gen.scanCfg` (the constants 10 / 1000 / ×10) and `Gen.scanCursorIsRank` are
  regenerated from engine.rs on every run, and the harness executes `Code.scan`, `Code.sscan`,
  `Code.hscan`, `Code.zscan`, `Code.matchBytes`, `Code.parseOpts` and the real
  `StorageEngine::{scan,hscan,sscan,zscan}` / `handle_*scan` on the same call sequences.

  Vocabulary.  A *history* lists, call by call, the key space the call sees (a `Db`: keys with
  their types, no key twice); between two calls anything may be added or deleted.  `view ty db` is
  the list the cursor indexes: the keys of the requested TYPE, sorted byte-wise.  The iteration
  starts at cursor 0 and stops at the first returned 0 (`Code.iter`, `Code.iterFinishes`).
-/
import FerrousSpec.Proofs.ScanIter
import FerrousSpec.Proofs.ScanGlob
import FerrousSpec.Proofs.ScanGlobRefine
import FerrousSpec.Proofs.ScanKeyCursor
import FerrousSpec.Gen.ScanConsts
namespace Ferrous.C19
open Ferrous Ferrous.Scan

/-! ### Tie to the source -/

/-- The constants the translator reads from engine.rs are usable loop bounds (all ≥ 1). Stops
    checking if e.g. the examined-keys budget becomes 0. -/
theorem tree_scan_cfg_ok : Gen.scanCfg.ok := by decide

/-- The four scan functions still sort a fresh list and use the cursor as an index into it.
    Stops checking when the cursor scheme is replaced (then `scan_complete_fails` no longer
    describes the code and the model must follow). -/
theorem tree_cursor_is_rank : Gen.scanCursorIsRank = true := by decide

/-- `StorageEngine::scan` is the cursor walk over the sorted view of the database. -/
theorem scan_is_walk (g : Cfg) (db : Db) (cursor count : Nat) (pat ty : Option Bytes) :
    Code.scan g db cursor count pat ty = Code.scanSorted g (Code.matchOpt g.lossy pat) (view ty db) cursor count := rfl

/-! ### Soundness -/

/-- Every key a SCAN call returns exists at that call, has the requested TYPE and passes MATCH
    (as the engine's matcher decides it) — for every database, cursor, COUNT, pattern and type. -/
theorem scan_sound (g : Cfg) (hg : g.ok) (db : Db) (cursor count : Nat) (pat ty : Option Bytes) (k : Bytes)
    (hk : k ∈ (Code.scan g db cursor count pat ty).2) :
    (∃ t, (k, t) ∈ db ∧ typeOk ty t = true) ∧ Code.matchOpt g.lossy pat k = true := by
  have := scanSorted_mem g (Code.matchOpt g.lossy pat) hg (view ty db) cursor count k hk
  exact ⟨(mem_view ty db k).mp this.1, this.2⟩

/-- One call never returns more than `min(COUNT, 1000)` keys (COUNT 0 meaning 10). -/
theorem scan_batch_bounded (g : Cfg) (db : Db) (cursor count : Nat) (pat ty : Option Bytes) :
    (Code.scan g db cursor count pat ty).2.length ≤ Code.normCount g count :=
  scanSorted_length g (Code.matchOpt g.lossy pat) (view ty db) cursor count

/-! ### Progress and termination -/

/-- With an unchanged key space the returned cursor is 0 (iteration over) or strictly larger
    than the one passed in and still inside the list — whatever MATCH filters away. -/
theorem scan_progress (g : Cfg) (hg : g.ok) (db : Db) (cursor count : Nat) (pat ty : Option Bytes) :
    (Code.scan g db cursor count pat ty).1 = 0 ∨
      (cursor < (Code.scan g db cursor count pat ty).1 ∧
        (Code.scan g db cursor count pat ty).1 < (view ty db).length) :=
  scanSorted_progress g (Code.matchOpt g.lossy pat) hg (view ty db) cursor count

/-- **Termination bound.**  If the candidate list never grows from one call to the next
    (deletions allowed), a full iteration started at cursor 0 over `n` candidate keys ends after
    at most `n / min(COUNT,1000) + 1` calls — provided the history is at least that long, i.e. the
    client keeps calling. -/
theorem scan_terminates_nongrowing (g : Cfg) (hg : g.ok) (count : Nat) (pat : Option Bytes)
    (ks : List Bytes) (rest : List (List Bytes)) (hng : NonGrowing (ks :: rest))
    (hlen : ks.length / Code.normCount g count + 1 ≤ (ks :: rest).length) :
    ∃ n, Code.iterCalls g (Code.matchOpt g.lossy pat) count 0 (ks :: rest) = some n ∧
      1 ≤ n ∧ n ≤ ks.length / Code.normCount g count + 1 := by
  have := iterCalls_bound g (Code.matchOpt g.lossy pat) hg count (ks :: rest) 0 ks rest rfl hng (by simpa using hlen)
  simpa using this

/-- The same for a key space that does not change at all: the iteration over a database whose
    view has `n` keys makes at most `n / min(COUNT,1000) + 1` calls. -/
theorem scan_terminates (g : Cfg) (hg : g.ok) (db : Db) (count : Nat) (pat ty : Option Bytes) :
    ∃ n, Code.iterCalls g (Code.matchOpt g.lossy pat) count 0
        (List.replicate ((view ty db).length / Code.normCount g count + 1) (view ty db)) = some n ∧
      1 ≤ n ∧ n ≤ (view ty db).length / Code.normCount g count + 1 := by
  have hrep : List.replicate ((view ty db).length / Code.normCount g count + 1) (view ty db) =
      view ty db :: List.replicate ((view ty db).length / Code.normCount g count) (view ty db) := by
    simp [List.replicate_succ]
  rw [hrep]
  apply scan_terminates_nongrowing g hg count pat
  · rw [← hrep]
    unfold NonGrowing
    rw [List.pairwise_replicate]
    right
    exact Nat.le_refl _
  · simp

/-! ### Completeness -/

/-- **What the rank cursor guarantees.**  Take any history of databases, any COUNT, MATCH and
    TYPE, and a full iteration over it.  If between two successive calls no key that ranks below
    the cursor handed out by the first of them disappears from the view (`Code.noDelBelow`;
    additions anywhere and deletions at or after the cursor are allowed), then every key that
    has the requested type in every database of the history and passes MATCH is returned by at
    least one call. -/
theorem scan_complete_partial (g : Cfg) (hg : g.ok) (count : Nat) (pat ty : Option Bytes) (hist : List Db)
    (hnd : ∀ db ∈ hist, (db.map (·.1)).Nodup)
    (hfin : Code.iterFinishes g (Code.matchOpt g.lossy pat) count 0 (hist.map (view ty)) = true)
    (hsafe : Code.noDelBelow g (Code.matchOpt g.lossy pat) count 0 (hist.map (view ty)) = true)
    (k : Bytes) (hk : ∀ db ∈ hist, ∃ t, (k, t) ∈ db ∧ typeOk ty t = true)
    (hm : Code.matchOpt g.lossy pat k = true) :
    k ∈ (Code.iter g (Code.matchOpt g.lossy pat) count 0 (hist.map (view ty))).flatten := by
  apply iter_complete g (Code.matchOpt g.lossy pat) hg count k hm (hist.map (view ty)) 0
  · intro ks hks
    obtain ⟨db, hdb, rfl⟩ := List.mem_map.mp hks
    exact sorted_view ty db (hnd db hdb)
  · intro ks hks
    obtain ⟨db, hdb, rfl⟩ := List.mem_map.mp hks
    exact (mem_view ty db k).mpr (hk db hdb)
  · exact hfin
  · exact hsafe
  · intro ks rest heq
    have hks : ks ∈ hist.map (view ty) := by rw [heq]; simp
    obtain ⟨db, hdb, rfl⟩ := List.mem_map.mp hks
    have := (mem_view ty db k).mpr (hk db hdb)
    obtain ⟨j, hj, hget⟩ := List.getElem_of_mem this
    exact ⟨j, by simp [List.getElem?_eq_getElem hj, hget], Nat.zero_le _⟩

/-- **Additions never cause a miss, only duplicates.**  If nothing disappears from the view
    between calls (keys are only added, anywhere, also below the cursor), the iteration returns
    every key that was there from the first call on. -/
theorem scan_complete_under_additions (g : Cfg) (hg : g.ok) (count : Nat) (pat ty : Option Bytes) (hist : List Db)
    (hnd : ∀ db ∈ hist, (db.map (·.1)).Nodup)
    (hfin : Code.iterFinishes g (Code.matchOpt g.lossy pat) count 0 (hist.map (view ty)) = true)
    (hadd : Code.onlyAdditions (hist.map (view ty)) = true)
    (k : Bytes) (hk : ∀ db ∈ hist, ∃ t, (k, t) ∈ db ∧ typeOk ty t = true)
    (hm : Code.matchOpt g.lossy pat k = true) :
    k ∈ (Code.iter g (Code.matchOpt g.lossy pat) count 0 (hist.map (view ty))).flatten :=
  scan_complete_partial g hg count pat ty hist hnd hfin
    (noDelBelow_of_onlyAdditions g (Code.matchOpt g.lossy pat) count _ 0 hadd) k hk hm

/-- …and duplicates do occur: keys `b c`; `SCAN 0 COUNT 1` → `b`, cursor 1; `a` is added;
    `SCAN 1 COUNT 1` → `b` again. -/
theorem scan_additions_duplicate :
    Code.scan Gen.scanCfg [([98], 0), ([99], 0)] 0 1 none none = (1, [[98]]) ∧
    Code.scan Gen.scanCfg [([97], 0), ([98], 0), ([99], 0)] 1 1 none none = (2, [[98]]) := by
  constructor <;> decide

/-- **The full statement is false for the rank cursor.**  Keys `a b c`; `SCAN 0 COUNT 1` → `a`,
    cursor 1; `DEL a`; `SCAN 1 COUNT 1` → `c`, cursor 0.  `b` existed during the whole iteration
    and is never returned. -/
theorem scan_complete_fails :
    ∃ (hist : List Db) (k : Bytes),
      (∀ db ∈ hist, (db.map (·.1)).Nodup) ∧
      Code.iterFinishes Gen.scanCfg (Code.matchOpt true none) 1 0 (hist.map (view none)) = true ∧
      (∀ db ∈ hist, ∃ t, (k, t) ∈ db ∧ typeOk none t = true) ∧
      Code.matchOpt true none k = true ∧
      k ∉ (Code.iter Gen.scanCfg (Code.matchOpt true none) 1 0 (hist.map (view none))).flatten := by
  refine ⟨[[([97], 0), ([98], 0), ([99], 0)], [([98], 0), ([99], 0)]], [98], ?_, ?_, ?_, ?_, ?_⟩
  · intro db hdb
    simp only [List.mem_cons, List.not_mem_nil, or_false] at hdb
    rcases hdb with rfl | rfl <;> decide
  · decide
  · intro db hdb
    simp only [List.mem_cons, List.not_mem_nil, or_false] at hdb
    rcases hdb with rfl | rfl <;> exact ⟨0, by decide, rfl⟩
  · rfl
  · decide

/-- The two calls of the witness, as the engine answers them. -/
theorem scan_complete_fails_calls :
    Code.scan Gen.scanCfg [([97], 0), ([98], 0), ([99], 0)] 0 1 none none = (1, [[97]]) ∧
    Code.scan Gen.scanCfg [([98], 0), ([99], 0)] 1 1 none none = (0, [[99]]) ∧
    Code.noDelBelow Gen.scanCfg (Code.matchOpt true none) 1 0 [[[97], [98], [99]], [[98], [99]]] = false := by
  refine ⟨?_, ?_, ?_⟩ <;> decide

/-- **The full statement is satisfiable** by a stateless scan over a list rebuilt on every call:
    with the last examined key as the cursor (`Spec.scanAfter`), every key that is in every
    (sorted) list of the history is returned, whatever else is added or deleted in between. -/
theorem scan_complete_keycursor (m : Bytes → Bool) (count : Nat) (hist : List (List Bytes))
    (hs : ∀ ks ∈ hist, Sorted ks) (hfin : Spec.iterAfterFinishes m count none hist = true)
    (k : Bytes) (hk : ∀ ks ∈ hist, k ∈ ks) (hm : m k = true) :
    k ∈ (Spec.iterAfter m count none hist).flatten :=
  iterAfter_complete m count k hm hist none hs hk hfin (fun c hc => by simp at hc)

/-! ### HSCAN, SSCAN, ZSCAN: the same walk over the sorted members -/

/-- SSCAN (fast path included) returns what the cursor walk over the sorted member list
    returns, so soundness, progress, the termination bound, `…_partial` and the witness above
    apply to it verbatim (the fast-path reply comes in hash-table order in the real code). -/
theorem sscan_same_walk (g : Cfg) (hg : g.ok) (members : List Bytes) (cursor count : Nat) (pat : Option Bytes) :
    Code.sscan g members cursor count pat =
      Code.scanSorted g (Code.matchOpt g.lossy pat) (sortKeys members) cursor count :=
  sscan_eq_scanSorted g hg members cursor count pat

/-- HSCAN: the same walk over the field names; NOVALUES returns exactly the fields. -/
theorem hscan_same_walk (g : Cfg) (hg : g.ok) (h : List (Bytes × Bytes)) (cursor count : Nat) (pat : Option Bytes) :
    Code.hscan g h cursor count pat true =
      Code.scanSorted g (Code.matchOpt g.lossy pat) (sortKeys (h.map (·.1))) cursor count := by
  unfold Code.hscan
  simp only [if_true]
  rw [sscan_eq_scanSorted g hg]

/-- HSCAN with values: the cursor is the same and each returned field is followed by its value. -/
theorem hscan_with_values (g : Cfg) (h : List (Bytes × Bytes)) (cursor count : Nat) (pat : Option Bytes) :
    (Code.hscan g h cursor count pat false).1 = (Code.hscan g h cursor count pat true).1 ∧
    (Code.hscan g h cursor count pat false).2 =
      (Code.hscan g h cursor count pat true).2.flatMap (fun f => [f, Code.lookup [] f h]) := by
  simp [Code.hscan]

/-- ZSCAN: the same walk over the members, each returned with its score. -/
theorem zscan_same_walk (g : Cfg) (hg : g.ok) (z : List (Bytes × Int)) (cursor count : Nat) (pat : Option Bytes) :
    (Code.zscan g z cursor count pat).1 =
      (Code.scanSorted g (Code.matchOpt g.lossy pat) (sortKeys (z.map (·.1))) cursor count).1 ∧
    (Code.zscan g z cursor count pat).2.map (·.1) =
      (Code.scanSorted g (Code.matchOpt g.lossy pat) (sortKeys (z.map (·.1))) cursor count).2 := by
  unfold Code.zscan
  rw [sscan_eq_scanSorted g hg]
  simp [List.map_map, Function.comp_def]

/-! ### The MATCH matcher -/

/-- MATCH on the current tree is byte-wise (the repaired matcher), so the full statement
    `match_refines` below speaks about the code.  Stops checking if matching goes back through
    `String::from_utf8_lossy`. -/
theorem tree_match_is_bytewise : Gen.scanCfg.lossy = false := by decide

/-- The recursion budget of the model's matcher is never the reason for a verdict. -/
theorem match_fuel_irrelevant (p t : List Nat) : (Code.globLoop (Code.globFuel p t) p t none).isSome = true :=
  globLoop_fuel_enough p t

/-- **The matcher computes glob semantics** on every pattern of the agreed fragment — any mix of
    literals, `?`, `*` (any number), classes, negated classes, ranges and escapes that
    `Spec.tokenize` accepts — and every text: the single-star backtracking loop of engine.rs gives
    the verdict of the textbook recursive matcher over the same characters. -/
theorem match_refines_glob (p t : List Nat) (toks : List Spec.Tok) (h : Spec.tokenize p = some toks) :
    Code.globChars p t = Spec.matchToks toks t :=
  globChars_eq_matchToks p t toks h

/-- **Full statement (byte-wise matcher, `lossy = false`)**: for every pattern of the fragment and
    every key, MATCH accepts the key exactly when glob matching over bytes does. -/
theorem match_refines (pat key : Bytes) (toks : List Spec.Tok) (hw : Spec.tokenize pat = some toks) :
    Spec.matchBytes pat key = some (Code.matchBytes false pat key) := by
  unfold Spec.matchBytes Code.matchBytes
  rw [hw]
  simp only [Bool.false_eq_true, if_false]
  rw [globChars_eq_matchToks pat key toks hw]
  rfl

/-- **The code as it is (`lossy = true`)**: the same holds when pattern and key are ASCII.
    (Exclusions: a byte ≥ 0x80 on either side — see `match_sound_fails_on_invalid_utf8`; a pattern
    outside the fragment — see `match_quirks_outside_fragment`.) -/
theorem match_refines_partial (pat key : Bytes) (hp : ∀ b ∈ pat, b < 128) (hk : ∀ b ∈ key, b < 128)
    (toks : List Spec.Tok) (hw : Spec.tokenize pat = some toks) :
    Spec.matchBytes pat key = some (Code.matchBytes true pat key) := by
  unfold Spec.matchBytes Code.matchBytes
  simp only [if_true]
  rw [decodeLossy_ascii pat hp, decodeLossy_ascii key hk, hw, globChars_eq_matchToks pat key toks hw]
  rfl

/-- Soundness against the prescribed filter: under the same two conditions every key returned by
    a SCAN call with `MATCH pat` satisfies the glob pattern over bytes. -/
theorem scan_sound_glob_partial (g : Cfg) (hg : g.ok) (db : Db) (cursor count : Nat) (pat : Bytes) (ty : Option Bytes)
    (k : Bytes) (hk : k ∈ (Code.scan g db cursor count (some pat) ty).2)
    (hp : g.lossy = true → ∀ b ∈ pat, b < 128) (hka : g.lossy = true → ∀ b ∈ k, b < 128)
    (toks : List Spec.Tok) (hw : Spec.tokenize pat = some toks) :
    Spec.matchBytes pat k = some true := by
  have := (scanSorted_mem g (Code.matchOpt g.lossy (some pat)) hg (view ty db) cursor count k hk).2
  simp only [Code.matchOpt] at this
  cases hl : g.lossy with
  | true =>
    rw [hl] at this
    rw [match_refines_partial pat k (hp hl) (hka hl) toks hw, this]
  | false =>
    rw [hl] at this
    rw [match_refines pat k toks hw, this]

/-- `MATCH *` accepts every key (any bytes), lossy or not. -/
theorem match_star_all (lossy : Bool) (key : Bytes) : Code.matchBytes lossy [42] key = true := by
  unfold Code.matchBytes
  cases lossy
  · simp only [Bool.false_eq_true, if_false]; exact globChars_star _
  · simp only [if_true]
    rw [show decodeLossy [42] = [42] from rfl]
    exact globChars_star _

/-- An ASCII pattern without `*`, `?`, `[`, `\` selects, among ASCII keys, exactly itself. -/
theorem match_literal_exact (pat key : Bytes) (hp : ∀ x ∈ pat, plain x ∧ x < 128) (hk : ∀ b ∈ key, b < 128) :
    Code.matchBytes true pat key = true ↔ key = pat := by
  unfold Code.matchBytes
  simp only [if_true]
  rw [decodeLossy_ascii pat (fun b hb => (hp b hb).2), decodeLossy_ascii key hk]
  exact globChars_literal pat key (fun x hx => (hp x hx).1)

/-- `MATCH ?` accepts, among ASCII keys, exactly those of length 1. -/
theorem match_question (key : Bytes) (hk : ∀ b ∈ key, b < 128) :
    Code.matchBytes true [63] key = true ↔ key.length = 1 := by
  unfold Code.matchBytes
  simp only [if_true]
  rw [show decodeLossy [63] = [63] from rfl, decodeLossy_ascii key hk]
  exact globChars_question key

/-- `MATCH prefix*` (ASCII literal prefix) accepts, among ASCII keys, exactly those that begin
    with the prefix — the `user:*` idiom. -/
theorem match_prefix_star (pre key : Bytes) (hp : ∀ x ∈ pre, plain x ∧ x < 128) (hk : ∀ b ∈ key, b < 128) :
    Code.matchBytes true (pre ++ [42]) key = pre.isPrefixOf key := by
  unfold Code.matchBytes
  simp only [if_true]
  have hpa : ∀ b ∈ pre ++ [42], b < 128 := by
    intro b hb
    rcases List.mem_append.mp hb with h | h
    · exact (hp b h).2
    · simp at h; omega
  rw [decodeLossy_ascii _ hpa, decodeLossy_ascii key hk]
  exact globChars_prefix_star pre key (fun x hx => (hp x hx).1)

/-- Outside the fragment the matcher has quirks of its own (none of them is counted as a C19
    violation; the patterns have no agreed meaning): an unclosed `[` never matches, not even the
    key `[`; `[abc` does not match `a`; `\` is not an escape inside a class, so `[\]]` does not
    match `]`; a reversed range `[z-a]` is empty; in `[a-]` the `-` is a member. -/
theorem match_quirks_outside_fragment :
    Spec.tokenize [91] = none ∧ Code.globChars [91] [91] = false ∧
    Spec.tokenize [91, 97, 98, 99] = none ∧ Code.globChars [91, 97, 98, 99] [97] = false ∧
    Spec.tokenize [91, 92, 93, 93] = none ∧ Code.globChars [91, 92, 93, 93] [93] = false ∧
    Spec.tokenize [91, 122, 45, 97, 93] = none ∧ Code.globChars [91, 122, 45, 97, 93] [98] = false ∧
    Spec.tokenize [91, 97, 45, 93] = none ∧ Code.globChars [91, 97, 45, 93] [45] = true := by
  decide

/-- **MATCH on lossily decoded text is not sound over bytes.**  The literal pattern `\xff`
    accepts the different key `\xfe` (both become U+FFFD), which glob matching over bytes rejects;
    and `?` accepts the two-byte key `é`.  The byte-wise matcher gets both right. -/
theorem match_sound_fails_on_invalid_utf8 :
    Code.matchBytes true [255] [254] = true ∧ Spec.matchBytes [255] [254] = some false ∧
    Code.matchBytes true [63] [195, 169] = true ∧ Spec.matchBytes [63] [195, 169] = some false ∧
    Code.matchBytes false [255] [254] = false ∧ Code.matchBytes false [63] [195, 169] = false := by
  decide

/-! ### Non-vacuity: concrete non-trivial instances of the hypotheses -/

-- a history with an addition below the cursor and a deletion above it: the exclusion holds, the
-- iteration finishes, and the stable keys are all returned (with a duplicate)
example :
    let hist : List Db := [[([98], 0), ([99], 0), ([100], 0), ([101], 0)],
                           [([97], 0), ([98], 0), ([99], 0), ([100], 0)]]
    Code.iterFinishes Gen.scanCfg (Code.matchOpt true none) 2 0 (hist.map (view none)) = true ∧
    Code.noDelBelow Gen.scanCfg (Code.matchOpt true none) 2 0 (hist.map (view none)) = true ∧
    Code.iter Gen.scanCfg (Code.matchOpt true none) 2 0 (hist.map (view none)) = [[[98], [99]], [[99], [100]]] := by
  decide

example : Code.iterCalls Gen.scanCfg (Code.matchOpt true none) 2 0 (List.replicate 3 [[97], [98], [99], [100], [101]]) = some 3 := by
  decide

example : NonGrowing [[[97], [98], [99]], [[98], [99]], [[99]]] := by
  unfold NonGrowing; decide

example : Code.scan Gen.scanCfg [([97, 49], 0), ([98], 2), ([97, 50], 0), ([97], 3)] 0 10 (some [97, 42]) (some [115, 116, 114, 105, 110, 103]) =
    (0, [[97, 49], [97, 50]]) := by decide

example : Spec.iterAfter (fun _ => true) 1 none [[[97], [98], [99]], [[98], [99]], [[98], [99]]] = [[[97]], [[98]], [[99]]] := by
  decide

example : Code.matchBytes true [117, 115, 101, 114, 58, 42] [117, 115, 101, 114, 58, 49, 48] = true := by decide

-- a pattern of the agreed fragment with a negated class, a range, an escape and two stars
example : Spec.tokenize [42, 91, 94, 97, 45, 99, 120, 93, 92, 42, 63, 42] =
    some [.star, .cls true [(97, 99), (120, 120)], .lit 42, .any, .star] := by decide

end Ferrous.C19
