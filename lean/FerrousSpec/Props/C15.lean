/-
  C15 — within a stream IDs strictly increase; XRANGE / XREVRANGE / XREAD return exactly the present
  entries within the bounds, in order, honouring COUNT; XLEN is the number of present entries;
  entries keep their fields.

  Property theorems only; helper lemmas live in FerrousSpec/Proofs/Stream{Range,Ops,Parse}.lean.
  Model: FerrousSpec/Model/Stream.lean (transliteration of src/storage/stream.rs and of the handlers in
  src/storage/commands/streams.rs).  `pinned` is the tree as it stands, `fixed` has the three repairs
  (`rangeEndFix`, `seqCarry`, `parseChecked`).  Tie to the code: lib/c15.py drives the real
  `ferrous::storage::stream::Stream` and the real `handle_x*` functions over a `StorageEngine`
  in-process with the same operation lines as the compiled model (Drv/Stream.lean).
-/
import FerrousSpec.Proofs.StreamOps
import FerrousSpec.Proofs.StreamParse
namespace Ferrous.C15
open Ferrous Ferrous.Stream Ferrous.Stream.Code

/-! ### (1) IDs strictly increase over every history -/

/-- Every accepted XADD (auto or explicit) returns an ID greater than every ID ever added to the
    stream before it, whatever XDEL / XTRIM happened in between, whatever the clock did and however
    often the server was restarted from its dump in between
    (`added` is the ghost list of all accepted XADDs in order; `Sorted` = strictly increasing IDs;
    the `addAuto` step is `StorageEngine::xadd`: the engine's pre-check, then `add_auto`; the
    `restart` step is SAVE, stop, start, load).
    Full statement, no exclusion: holds for every tree whose generator carries into the next
    millisecond, whose engine refuses `*` at the top of the ID space (`seqCarry`) and whose dump
    carries the last ID (`persistLastId`) — lib/c15.py reads both off the sources on every run. -/
theorem ids_strictly_increase (q : Quirks) (hq : q.seqCarry = true) (hp : q.persistLastId = true) (ops : List Op) :
    Sorted (run q ops).added :=
  (run_inv q ops (Or.inl hq) (Or.inl hp)).incr

/-- Any tree (the pinned one in particular): the same, for every history in which no auto ID was
    generated while the last ID had sequence number 2^64-1 and the clock had not moved past its
    millisecond, and in which no restart came back with a smaller last ID. -/
theorem ids_strictly_increase_partial (q : Quirks) (ops : List Op)
    (h : (run q ops).wrapped = false) (hl : (run q ops).lost = false) :
    Sorted (run q ops).added :=
  (run_inv q ops (Or.inr h) (Or.inr hl)).incr

/-- The last ID of a stream never goes down, over EVERY history including restarts: with the last ID
    in the dump a restart gives back exactly the saved state. -/
theorem last_id_monotone (q : Quirks) (hq : q.seqCarry = true) (hp : q.persistLastId = true)
    (ops : List Op) (op : Op) :
    (run q ops).st.lastId ≤ (run q (ops ++ [op])).st.lastId := by
  have hi := run_inv q ops (Or.inl hq) (Or.inl hp)
  have : run q (ops ++ [op]) = step q (run q ops) op := by simp [run, List.foldl_append]
  rw [this]
  exact step_lastId_le q _ op hi (Or.inl hq) (Or.inl hp)

/-- … and a restart is the identity on the stream (entries, fields, last ID, generator, length). -/
theorem restart_is_identity (q : Quirks) (hq : q.seqCarry = true) (hp : q.persistLastId = true) (ops : List Op) :
    restart q (run q ops).st = (run q ops).st :=
  restart_eq q (run_inv q ops (Or.inl hq) (Or.inl hp)) (Or.inl hp)

/-- Witness that without the last ID in the dump the full statement is false (hunt d1):
    `XADD a 5-0; XADD a 9-0; XDEL a 9-0; SAVE; restart; XADD a 7-0` is accepted, and an emptied
    stream comes back with last ID 0-0. -/
theorem last_id_lost_by_restart :
    (run pinned [.addId ⟨5, 0⟩ [], .addId ⟨9, 0⟩ [], .del [⟨9, 0⟩], .restart, .addId ⟨7, 0⟩ []]).added.map (·.1) =
        [⟨5, 0⟩, ⟨9, 0⟩, ⟨7, 0⟩] ∧
    (run pinned [.addId ⟨5, 0⟩ [], .addId ⟨9, 0⟩ [], .del [⟨9, 0⟩], .restart, .addId ⟨7, 0⟩ []]).lost = true ∧
    (run pinned [.addId ⟨3, 0⟩ [], .trimCount 0, .restart]).st.lastId = Id.zero := by
  refine ⟨by decide, by decide, by decide⟩

/-- The excluded situation needs a sequence number at the very top of the u64 range: a history of
    `n` operations whose explicit IDs all have `seq + n < 2^64` never reaches it. -/
theorem wrap_needs_top_seq (ops : List Op) (hn : ops.length < u64Mod)
    (h : ∀ op ∈ ops, seqRoom ops.length op) :
    (run pinned ops).wrapped = false := by
  have hk : 0 + ops.length < u64Mod := by omega
  have := foldl_no_wrap pinned ops Run.init ⟨hk, hk, fun e he => by cases he⟩ h
  simpa [run, Run.init] using this

/-- Witness that the full statement is false for the pinned tree:
    `XADD w 5-18446744073709551615 …` then `XADD w * …` with the clock at or before 5 ms
    returns `5-0`, below the top entry (release arithmetic; a debug build panics instead). -/
theorem ids_increase_fails_at_seq_wrap :
    (run pinned [.addId ⟨5, 18446744073709551615⟩ [], .addAuto 3 []]).added =
        [(⟨5, 18446744073709551615⟩, []), (⟨5, 0⟩, [])] ∧
    ¬ Sorted (run pinned [.addId ⟨5, 18446744073709551615⟩ [], .addAuto 3 []]).added := by
  have h : (run pinned [.addId ⟨5, 18446744073709551615⟩ [], .addAuto 3 []]).added =
      [(⟨5, 18446744073709551615⟩, []), (⟨5, 0⟩, [])] := by decide
  refine ⟨h, ?_⟩
  rw [h]
  intro hs
  have := (sorted_cons.1 hs).1 (⟨5, 0⟩, []) (by simp)
  simp [Id.lt_def] at this

/-- The rule the correspondence run checks on every `*` of the real code: outside the wrap situation
    (pinned) and away from the top of the ID space (repaired; the engine refuses there) the generated
    ID either opens a later millisecond with sequence 0 (the clock reading, or the carry of the
    repaired generator) or stays on the last millisecond with the next sequence number. -/
theorem auto_id_rule (q : Quirks) (now : Nat) (s : Code.Stream) (id : Id) (ms sq : Nat)
    (hw : (q.seqCarry = true ∧ isTopId ⟨s.atomMs, s.atomSeq⟩ = false) ∨ (q.seqCarry = false ∧ wrapsAt now s = false))
    (h : nextAuto q now s = some (id, ms, sq)) :
    (s.atomMs < id.ms ∧ id.seq = 0) ∨ (id.ms = s.atomMs ∧ id.seq = s.atomSeq + 1) := by
  rcases nextAuto_cases q now s with ⟨h1, hn⟩ | ⟨_, hc, h3, h4, hn⟩ | ⟨_, _, _, _, hn⟩ | ⟨h1, h2, hn⟩
  · rw [hn] at h; simp only [Option.some.injEq, Prod.mk.injEq] at h
    obtain ⟨rfl, _, _⟩ := h; left; exact ⟨h1, rfl⟩
  · exfalso
    rcases hw with ⟨_, ht⟩ | ⟨hf, _⟩
    · simp only [isTopId, Bool.and_eq_false_iff, decide_eq_false_iff_not] at ht
      rcases ht with ht | ht <;> omega
    · rw [hf] at hc; cases hc
  · rw [hn] at h; simp only [Option.some.injEq, Prod.mk.injEq] at h
    obtain ⟨rfl, _, _⟩ := h; left; exact ⟨by simp, rfl⟩
  · rw [hn] at h; simp only [Option.some.injEq, Prod.mk.injEq] at h
    obtain ⟨rfl, _, _⟩ := h
    right
    have hsmall : s.atomSeq + 1 < u64Mod := by
      rcases h2 with h2 | h2
      · rcases hw with ⟨hc, _⟩ | ⟨_, hw⟩
        · rw [hc] at h2; cases h2
        · simp only [wrapsAt, Bool.and_eq_false_iff, decide_eq_false_iff_not] at hw
          rcases hw with hw | hw <;> omega
      · exact h2
    exact ⟨rfl, Nat.mod_eq_of_lt hsmall⟩

/-- With the repair, `XADD *` is refused exactly when the last ID has no successor among u64 pairs
    ("or is refused when no greater ID exists"), and a refusal changes nothing. -/
theorem auto_refused_iff_no_successor (q : Quirks) (hq : q.seqCarry = true) (hp : q.persistLastId = true)
    (ops : List Op) (now : Nat) (f : Fields) :
    ((xaddAuto q now f (run q ops).st).2 = none ↔ Spec.succId (run q ops).st.lastId = none) ∧
    ((xaddAuto q now f (run q ops).st).2 = none → (xaddAuto q now f (run q ops).st).1 = (run q ops).st) := by
  have hi := run_inv q ops (Or.inl hq) (Or.inl hp)
  have htop : isTopId (run q ops).st.lastId = true ↔ Spec.succId (run q ops).st.lastId = none := by
    unfold Spec.succId isTopId
    simp only [Bool.and_eq_true, decide_eq_true_eq]
    constructor
    · intro ⟨h1, h2⟩; rw [if_neg (by omega), if_neg (by omega)]
    · intro h
      split at h
      · cases h
      · split at h
        · cases h
        · omega
  rcases xaddAuto_cases q now f (run q ops).st with ⟨_, ht, he⟩ | ⟨hnt, he⟩
  · rw [he]; exact ⟨⟨fun _ => htop.1 ht, fun _ => rfl⟩, fun _ => rfl⟩
  · have hnt' : ¬ isTopId (run q ops).st.lastId = true := fun h => hnt ⟨hq, h⟩
    have hsome : (addAuto q now f (run q ops).st).2 ≠ none := by
      unfold addAuto
      rcases nextAuto_cases q now (run q ops).st with ⟨_, hn⟩ | ⟨_, _, _, _, hn⟩ | ⟨_, _, _, _, hn⟩ | ⟨_, _, hn⟩ <;>
        rw [hn] <;> simp
    rw [he]
    exact ⟨⟨fun h => absurd h hsome, fun h => absurd (htop.2 h) hnt'⟩, fun h => absurd h hsome⟩

/-- `isTopId` is the comparison `last_id == StreamId::max()` of the code, for u64 halves. -/
theorem isTop_iff_eq_max (a : Id) (h1 : a.ms < u64Mod) (h2 : a.seq < u64Mod) :
    isTopId a = true ↔ a = Id.top := by
  rw [Stream.Id.eq_def]
  have e : isTopId a = true ↔ (a.ms + 1 ≥ u64Mod ∧ a.seq + 1 ≥ u64Mod) := by simp [isTopId]
  rw [e]
  simp only [Id.top, u64Max, u64Mod] at *
  omega

/-! ### (2) explicit IDs -/

/-- XADD with an explicit ID that is 0-0 or not greater than some ID ever added is refused and the
    stream (entries, last ID, length) is exactly what it was. -/
theorem explicit_not_greater_refused_no_effect (q : Quirks) (ops : List Op)
    (hw : q.seqCarry = true ∨ (run q ops).wrapped = false)
    (hl : q.persistLastId = true ∨ (run q ops).lost = false) (id : Id) (f : Fields)
    (h : id = Id.zero ∨ ∃ e ∈ (run q ops).added, id ≤ e.1) :
    addWithId id f (run q ops).st = ((run q ops).st, false) := by
  have hi := run_inv q ops hw hl
  have hle : id ≤ (run q ops).st.lastId := by
    rcases h with rfl | ⟨e, he, hle⟩
    · exact Id.zero_le _
    · exact Id.le_trans hle (hi.bound e he)
  unfold addWithId
  rw [if_pos hle]

/-- Conversely an explicit ID above 0-0 and above everything ever added is accepted: the entry is
    appended with its fields and becomes the last ID (refusal is not the trivial way out). -/
theorem explicit_greater_accepted (q : Quirks) (ops : List Op)
    (hw : q.seqCarry = true ∨ (run q ops).wrapped = false)
    (hl : q.persistLastId = true ∨ (run q ops).lost = false) (id : Id) (f : Fields)
    (h0 : Id.zero < id) (h : ∀ e ∈ (run q ops).added, e.1 < id) :
    addWithId id f (run q ops).st = (push (run q ops).st id f, true) := by
  have hi := run_inv q ops hw hl
  have hgt : (run q ops).st.lastId < id := by
    by_cases hnil : (run q ops).added = []
    · rw [hi.lastZero hnil]; exact h0
    · obtain ⟨e, he, hee⟩ := hi.lastMem hnil
      rw [← hee]; exact h e he
  rcases addWithId_cases id f (run q ops).st with ⟨hle, _⟩ | ⟨_, hf, _⟩ | ⟨_, _, he⟩
  · exfalso; id_omega
  · exfalso
    obtain ⟨x, hx, hxe⟩ := (bsearch_found_iff hi.sorted id).1 hf
    have := h x (hi.sub.subset hx)
    rw [hxe] at this
    exact Id.lt_irrefl _ this
  · exact he

/-! ### (3)–(5) range reads are filters -/

/-- Every state reached without the wrap keeps its entries strictly sorted by ID, so the read
    theorems below apply to it. -/
theorem reachable_sorted (q : Quirks) (ops : List Op)
    (hw : q.seqCarry = true ∨ (run q ops).wrapped = false)
    (hl : q.persistLastId = true ∨ (run q ops).lost = false) : Sorted (run q ops).st.entries :=
  (run_inv q ops hw hl).sorted

/-- XRANGE (repaired end bound): on every strictly sorted entry list, for all bounds and every COUNT,
    the two binary searches and the index loop return exactly the entries with `s ≤ id ≤ e`,
    in ID order, cut to COUNT. -/
theorem range_eq_filter (es : List Entry) (h : Sorted es) (s e : Id) (count : Option Nat) :
    Code.range fixed es s e count false = Spec.range es s e count := by
  simpa [Spec.range] using range_slice fixed h s e count false (Or.inl rfl)

/-- XRANGE as pinned: the same unless the end bound lies below the first entry while the start
    bound does not lie above it. -/
theorem range_eq_filter_partial (es : List Entry) (h : Sorted es) (s e : Id) (count : Option Nat)
    (hd : ¬ rangeDev es s e) :
    Code.range pinned es s e count false = Spec.range es s e count := by
  simpa [Spec.range] using range_slice pinned h s e count false (Or.inr hd)

/-- In the excluded case the pinned code returns the first entry (cut to COUNT) although no entry
    lies within the bounds — in both directions. -/
theorem range_dev_returns_first (x : Entry) (r : List Entry) (h : Sorted (x :: r)) (s e : Id)
    (count : Option Nat) (rev : Bool) (hd : rangeDev (x :: r) s e) :
    Code.range pinned (x :: r) s e count rev = Spec.takeOpt count [x] ∧
    Spec.range (x :: r) s e count = [] := by
  refine ⟨range_dev_first h s e count rev hd, ?_⟩
  obtain ⟨h1, _⟩ := hd
  have hx := (sorted_cons.1 h).1
  unfold Spec.range
  have : (x :: r).filter (fun y => decide (s ≤ y.1) && decide (y.1 ≤ e)) = [] := by
    apply filter_eq_nil_of
    intro y hy
    have hxy : x.1 ≤ y.1 := by
      rcases List.mem_cons.1 hy with rfl | hy
      · exact Id.le_refl _
      · exact Id.le_of_lt (hx y hy)
    have : ¬ y.1 ≤ e := by intro hle; id_omega
    simp [this]
  rw [this]; cases count <;> simp [Spec.takeOpt]

/-- Witness (DESIGN §6 row 19): `XADD s 5-0 …; XRANGE s 1-0 2-0` returns `5-0`. -/
theorem range_fails_end_below_first :
    Code.range pinned [(⟨5, 0⟩, [])] ⟨1, 0⟩ ⟨2, 0⟩ none false = [(⟨5, 0⟩, [])] ∧
    Spec.range [(⟨5, 0⟩, [])] ⟨1, 0⟩ ⟨2, 0⟩ none = [] := by
  constructor <;> decide

/-- XREVRANGE (repaired end bound): the same entries in reverse ID order, COUNT taken from the top. -/
theorem revrange_eq_reverse (es : List Entry) (h : Sorted es) (s e : Id) (count : Option Nat) :
    Code.range fixed es s e count true = Spec.revrange es s e count := by
  simpa [Spec.revrange] using range_slice fixed h s e count true (Or.inl rfl)

theorem revrange_eq_reverse_partial (es : List Entry) (h : Sorted es) (s e : Id) (count : Option Nat)
    (hd : ¬ rangeDev es s e) :
    Code.range pinned es s e count true = Spec.revrange es s e count := by
  simpa [Spec.revrange] using range_slice pinned h s e count true (Or.inr hd)

/-- XREVRANGE is XRANGE reversed when COUNT is absent (both trees, outside the deviation). -/
theorem revrange_eq_range_reversed (q : Quirks) (es : List Entry) (h : Sorted es) (s e : Id)
    (hq : q.rangeEndFix = true ∨ ¬ rangeDev es s e) :
    Code.range q es s e none true = (Code.range q es s e none false).reverse := by
  rw [range_slice q h s e none true hq, range_slice q h s e none false hq]
  simp [Spec.takeOpt]

/-- XREAD: `range_after` returns exactly the entries with `id > after`, in ID order, cut to COUNT
    (no deviation on the pinned tree). -/
theorem xread_eq_filter_gt (es : List Entry) (h : Sorted es) (after : Id) (count : Option Nat) :
    Code.rangeAfter es after count = Spec.readAfter es after count :=
  rangeAfter_eq h after count

/-! ### (6) XLEN, XDEL, XTRIM -/

/-- XLEN (the atomic counter the code reads) equals the number of present entries after any history
    of XADD / XDEL / XTRIM — no hypothesis, both trees. -/
theorem xlen_eq_length (q : Quirks) (ops : List Op) :
    (run q ops).st.length = (run q ops).st.entries.length :=
  foldl_len q ops _ rfl

/-- XDEL removes exactly the present entries whose ID is listed (any order, duplicates allowed),
    reports how many went, and leaves the last ID alone — so a deleted top ID is never reissued. -/
theorem xdel_eq_filter (s : Code.Stream) (h : Sorted s.entries) (ids : List Id) :
    (Code.delete s ids).1.entries = Spec.del s.entries ids ∧
    (Code.delete s ids).2 + (Spec.del s.entries ids).length = s.entries.length ∧
    (Code.delete s ids).1.lastId = s.lastId := by
  have h1 := deleteIds_fst h ids
  have h2 := deleteIds_length s.entries ids
  refine ⟨h1, ?_, rfl⟩
  rw [← h1]
  simp only [Code.delete]
  omega

/-- XTRIM MAXLEN n keeps exactly the n newest entries and reports the number removed; the last ID stays. -/
theorem xtrim_keeps_newest (s : Code.Stream) (n : Nat) :
    (trimByCount s n).1.entries = Spec.trimCount s.entries n ∧
    (trimByCount s n).2 = s.entries.length - n ∧
    (trimByCount s n).1.lastId = s.lastId := by
  refine ⟨trimByCount_entries s n, trimByCount_count s n, ?_⟩
  unfold trimByCount; split <;> rfl

/-- trimming by minimum ID keeps exactly the entries with `id ≥ m`; the last ID stays. -/
theorem xtrim_minid_eq_filter (s : Code.Stream) (h : Sorted s.entries) (m : Id) :
    (trimByMinId s m).1.entries = Spec.trimMinId s.entries m ∧
    (trimByMinId s m).1.lastId = s.lastId := by
  refine ⟨trimByMinId_entries s h m, ?_⟩
  unfold trimByMinId; simp only; split <;> rfl

/-! ### (7) entries keep their fields -/

/-- The present entries are a sub-sequence of the accepted XADDs — same (ID, fields) pairs, same
    order — and accepted IDs are pairwise distinct, so each present ID carries exactly the fields it
    was added with. -/
theorem fields_preserved (q : Quirks) (ops : List Op)
    (hw : q.seqCarry = true ∨ (run q ops).wrapped = false)
    (hl : q.persistLastId = true ∨ (run q ops).lost = false) :
    (run q ops).st.entries.Sublist (run q ops).added ∧
    ∀ a ∈ (run q ops).st.entries, ∀ b ∈ (run q ops).added, a.1 = b.1 → a = b := by
  have hi := run_inv q ops hw hl
  refine ⟨hi.sub, ?_⟩
  intro a ha b hb hab
  have ha' := hi.sub.subset ha
  -- two members of a strictly increasing list with equal IDs are the same member
  have key : ∀ (l : List Entry), Sorted l → ∀ a ∈ l, ∀ b ∈ l, a.1 = b.1 → a = b := by
    intro l hl
    induction l with
    | nil => intro a ha; cases ha
    | cons x r ih =>
      intro a ha b hb hab
      have hx := (sorted_cons.1 hl).1
      rcases List.mem_cons.1 ha with ha2 | ha2 <;> rcases List.mem_cons.1 hb with hb2 | hb2
      · rw [ha2, hb2]
      · have := hx b hb2; rw [← ha2, hab] at this; exact absurd this (Id.lt_irrefl _)
      · have := hx a ha2; rw [← hb2, hab] at this; exact absurd this (Id.lt_irrefl _)
      · exact ih hl.tail a ha2 b hb2 hab
  exact key _ hi.incr a ha' b hb hab

/-! ### the search the model rests on, and the ID text -/

/-- Contract of the search the model uses for `binary_search_by` on a sorted list: found exactly when
    the ID is present, at the index with everything before it smaller; otherwise the insertion point. -/
theorem bsearch_contract (es : List Entry) (h : Sorted es) (t : Id) :
    ((bsearch es t).1 = true ↔ ∃ x ∈ es, x.1 = t) ∧
    (∀ i x, es[i]? = some x → (i < (bsearch es t).2 ↔ x.1 < t)) := by
  refine ⟨bsearch_found_iff h t, ?_⟩
  intro i x hx
  rw [bsearch_snd]
  constructor
  · intro hi; exact lt_of_lt_lowerBound hi hx
  · intro hlt
    rcases Nat.lt_or_ge i (lowerBound es t) with h1 | h1
    · exact h1
    · have := le_of_lowerBound_le h h1 hx
      exfalso; id_omega

/-- The halving loop of `core::slice::binary_search_by` computes the same answer on every sorted list. -/
theorem halving_search_meets_contract (es : List Entry) (h : Sorted es) (t : Id) :
    bsearchLoop es t = bsearch es t := bsearchLoop_eq h t

/-- ID text, repaired reader: accepts exactly `<u64>-<u64>` (split at the first dash). -/
theorem parseId_eq_spec (s : Bytes) : Code.parseId fixed s = Spec.parseId s := by
  unfold Code.parseId Spec.parseId
  cases splitDash s with
  | none => rfl
  | some p => obtain ⟨m, sq⟩ := p; simp only [fixed, parseU64Fast_true]

/-- ID text as pinned (`parse_u64_fast`): right whenever no component is empty or ≥ 2^64. -/
theorem parseId_eq_spec_partial (s : Bytes)
    (h : ∀ m sq, splitDash s = some (m, sq) → compOk m = true ∧ compOk sq = true) :
    Code.parseId pinned s = Spec.parseId s := by
  unfold Code.parseId Spec.parseId
  cases hs : splitDash s with
  | none => rfl
  | some p =>
    obtain ⟨m, sq⟩ := p
    obtain ⟨h1, h2⟩ := h m sq hs
    simp only [pinned, parseU64Fast_false_ok m h1, parseU64Fast_false_ok sq h2]

/-- Witness: `18446744073709551621-7` is read as `5-7`, and a lone `-` as `0-0`. -/
theorem parseId_wraps :
    Code.parseId pinned [49,56,52,52,54,55,52,52,48,55,51,55,48,57,53,53,49,54,50,49, 45, 55] = some ⟨5, 7⟩ ∧
    Spec.parseId [49,56,52,52,54,55,52,52,48,55,51,55,48,57,53,53,49,54,50,49, 45, 55] = none ∧
    Code.parseId pinned [45] = some ⟨0, 0⟩ ∧ Spec.parseId [45] = none := by
  refine ⟨by decide, by decide, by decide, by decide⟩

/-! ### entries keep their pairs; COUNT 0; incomplete and exclusive IDs -/

/-- With the list representation XADD stores the pairs exactly as given: flattened again they are the
    command's arguments `f v f v …`, in order, repeated names included — and `fields_preserved`
    together with the range theorems says every read returns the stored pairs untouched. -/
theorem xadd_keeps_pairs_as_given (args : List Bytes) (h : args.length % 2 = 0) :
    (pairsOfArgs args).flatMap (fun p => [p.1, p.2]) = args :=
  pairsOfArgs_flatten args h

/-- Witness (hunt d2): as a map, `XADD dup 1-0 a 1 a 2 b 3` keeps `a=2, b=3` only. -/
theorem map_fields_lose_pairs :
    fieldsOfArgs [[97], [49], [97], [50], [98], [51]] [] = [([97], [50]), ([98], [51])] ∧
    pairsOfArgs [[97], [49], [97], [50], [98], [51]] = [([97], [49]), ([97], [50]), ([98], [51])] := by
  constructor <;> decide

/-- XREAD COUNT 0 (repaired): no limit — the reply is that of XREAD without COUNT; as pinned it is empty (hunt d3). -/
theorem xread_count_zero :
    Cmd.xread fixed [([115], ⟨[(⟨1, 0⟩, []), (⟨2, 0⟩, [])], ⟨2, 0⟩, 2, 0, 2⟩)]
        [[88,82,69,65,68], [67,79,85,78,84], [48], [83,84,82,69,65,77,83], [115], [48]] =
      Cmd.xread fixed [([115], ⟨[(⟨1, 0⟩, []), (⟨2, 0⟩, [])], ⟨2, 0⟩, 2, 0, 2⟩)]
        [[88,82,69,65,68], [83,84,82,69,65,77,83], [115], [48]] ∧
    Cmd.xread pinned [([115], ⟨[(⟨1, 0⟩, []), (⟨2, 0⟩, [])], ⟨2, 0⟩, 2, 0, 2⟩)]
        [[88,82,69,65,68], [67,79,85,78,84], [48], [83,84,82,69,65,77,83], [115], [48]] = .streams [] := by
  constructor <;> rfl

/-- An exclusive range start `(a` is the inclusive start at the next ID: exactly the IDs above `a`. -/
theorem exclusive_start_exact (a b : Id) (h : nextId a = some b) (x : Id) (hx : x.seq < u64Mod) :
    a < x ↔ b ≤ x := nextId_spec a b h x hx

/-- An exclusive range end `(a` is the inclusive end at the previous ID: exactly the IDs below `a`. -/
theorem exclusive_end_exact (a b : Id) (h : prevId a = some b) (x : Id) (hx : x.seq < u64Mod) :
    x < a ↔ x ≤ b := prevId_spec a b h x hx

/-- Incomplete IDs (repaired): `5` is `5-0` for XADD / XDEL / XREAD / a range start and
    `5-18446744073709551615` for a range end; as pinned they are refused (hunt d4). -/
theorem incomplete_ids :
    parseBound fixed true [53] = some ⟨5, 0⟩ ∧ parseBound fixed false [57] = some ⟨9, 18446744073709551615⟩ ∧
    parseBound fixed true [40, 53, 45, 48] = some ⟨5, 1⟩ ∧ parseBound fixed false [40, 57, 45, 56] = some ⟨9, 7⟩ ∧
    parseBound fixed false [40, 48, 45, 48] = none ∧
    parseBound pinned true [53] = none ∧ parseBound pinned true [40, 53, 45, 48] = none ∧
    parseIdSeq pinned 0 [49, 50] = none ∧ parseIdSeq fixed 0 [49, 50] = some ⟨12, 0⟩ := by
  refine ⟨by decide, by decide, by decide, by decide, by decide, by decide, by decide, by decide, by decide⟩

/-- The lexicographic order of the model is the order of the packed u128 the code compares. -/
theorem id_order_is_packed_order (a b : Id) (ha : a.seq < u64Mod) (hb : b.seq < u64Mod) :
    a < b ↔ a.packed < b.packed := Id.lt_iff_packed_lt a b ha hb

/-! ### Non-vacuity: concrete non-trivial instances of the hypotheses -/

example : (run pinned [.addAuto 7 [([102], [118])], .addAuto 7 [], .addId ⟨9, 4⟩ [], .addAuto 8 [],
      .del [⟨9, 5⟩], .addId ⟨9, 5⟩ [], .addAuto 10 [], .trimCount 1]).wrapped = false := by decide
example : (run pinned [.addAuto 7 [([102], [118])], .addAuto 7 [], .addId ⟨9, 4⟩ [], .addAuto 8 [],
      .del [⟨9, 5⟩], .addId ⟨9, 5⟩ [], .addAuto 10 [], .trimCount 1]).added.map (·.1) =
    [⟨7, 0⟩, ⟨7, 1⟩, ⟨9, 4⟩, ⟨9, 5⟩, ⟨10, 0⟩] := by decide
example : Sorted [(⟨1, 0⟩, []), (⟨1, 1⟩, [([97], [98])]), (⟨3, 0⟩, [])] := by
  simp [Sorted, Id.lt_def]
example : ¬ rangeDev [(⟨5, 0⟩, [])] ⟨1, 0⟩ ⟨7, 0⟩ := by decide
example : rangeDev [(⟨5, 0⟩, [])] ⟨1, 0⟩ ⟨2, 0⟩ := by decide
example : Code.range pinned [(⟨1, 0⟩, []), (⟨1, 1⟩, []), (⟨3, 0⟩, []), (⟨4, 0⟩, [])] ⟨1, 1⟩ ⟨3, 5⟩ (some 5) true =
    [(⟨3, 0⟩, []), (⟨1, 1⟩, [])] := by decide
example : Code.rangeAfter [(⟨1, 0⟩, []), (⟨1, 1⟩, []), (⟨3, 0⟩, [])] ⟨1, 0⟩ (some 1) = [(⟨1, 1⟩, [])] := by decide
example : compOk [49, 50] = true ∧ compOk [120] = true ∧ compOk [] = false := by decide
example : Code.parseId pinned [49, 50, 45, 51] = some ⟨12, 3⟩ := by decide
example : seqRoom 3 (.addId ⟨5, 17⟩ []) := by simp [seqRoom, u64Mod]

end Ferrous.C15
