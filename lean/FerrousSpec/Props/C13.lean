/-
  C13 — blocking pops never lose, duplicate or strand.

  "Across any interleaving of pushes, pops, single- and multi-key BLPOP/BRPOP, timeouts and disconnects,
   every pushed element is either still in its list or was returned to exactly one client.  Clients
   blocked on a key are served in the order they blocked; whenever one of a blocked client's keys holds
   an element that no other client pops, that client is served promptly, and otherwise it receives nil
   no earlier than its timeout (never, when it asked to wait forever).  Once served or timed out, a
   client has no leftover registration that could swallow later elements or cut short a later blocking call."

  The machine is `Ferrous.Blk` (Model/Blocking.lean): `run q evs` executes any list of loop-phase events
  from the empty server; `q : Quirks` switches between what the tree did before the first blocking repair
  (`Quirks.code`, all off), what it does now (`sourceQuirks`, regenerated from the source) and the prescribed
  behaviour (`Quirks.fixed`).  Layout of this file:

  1. the FULL statements, as predicates on the quirk setting;
  2. what holds for EVERY event sequence and every quirk setting: the accounting identity and FIFO service;
  3. the `_partial` theorems: every full statement, for every history that satisfies the decidable
     predicate `Allowed` (single-key waits, one element per push command, no pop of a key whose wake-up
     is still under way, no blocking pop executed by EXEC or pipelined behind a blocking pop that
     blocked, no disconnect while blocked) — by induction over the event list with the invariant `Inv`;
  4. the witness lemmas: each excluded class really breaks the full statement on `Quirks.code`
     (each witness is replayed on the real server by lib/c13.py), and no longer does on `Quirks.fixed`
     (the five local repairs: notify per element, wake at push, unregister on service, no blocking in EXEC, key de-duplication).
-/
import FerrousSpec.Proofs.BlockingRun
import FerrousSpec.Proofs.BlockingFixRun
import FerrousSpec.Proofs.BlockingQuiet
import FerrousSpec.Proofs.BlockingFifo
import FerrousSpec.Gen.Blocking
namespace Ferrous.C13
open Ferrous.Blk

-- the closed `decide` instances below evaluate whole histories (a 32-step wake-up drain per event)
set_option maxRecDepth 16384

/-! ## 1. Full statements -/

/-- Every pushed element is still in its list or was handed to exactly one live client (multiset equation). -/
def Conservation (q : Quirks) : Prop :=
  ∀ evs, (run q evs).pushed.Perm (delivered (run q evs) ++ (run q evs).store)

/-- At a loop boundary with an empty wake queue no blocked client has an element waiting under one of its keys. -/
def NoStrandedClient (q : Quirks) : Prop :=
  ∀ evs c k, (run q evs).wakeQ = [] → blockedOn (run q evs) c k → listOf (run q evs).store k = []

/-- At a loop boundary with an empty wake queue a connection is in the registry queue of `k` iff it is blocked on `k`. -/
def RegistryIffBlocked (q : Quirks) : Prop :=
  ∀ evs c k, (run q evs).wakeQ = [] → (inRegistry (run q evs) k c ↔ blockedOn (run q evs) c k)

/-- A client that is not blocked (never was, was served, timed out) is named by no registry queue and no wake-up request. -/
def NoLeftoverRegistration (q : Quirks) : Prop :=
  ∀ evs c, ((run q evs).conns c).blocked = none → c ∉ line (run q evs)

/-- The deadline scan releases a blocked client (null array) only at or after the deadline of the call it is
    blocked in — never when that call asked to wait for ever. -/
def NeverEarlyNil (q : Quirks) : Prop :=
  ∀ evs now c b, ((run q evs).conns c).blocked = some b →
    ((step q (run q evs) (.timeouts now)).conns c).blocked = none → ∃ d, b.deadline = some d ∧ d ≤ now

/-- Whatever happens, the clients in line for a key keep their order and newcomers join at the tail;
    a wake-up delivery goes to the head of the line. -/
def FifoService (q : Quirks) : Prop :=
  (∀ evs s k, FifoStep (lineOf s k) (lineOf (runFrom q s evs) k)) ∧
  (∀ s c k v, (wakeOne q s).out = s.out ++ [(c, .pair k v)] → (lineOf s k).head? = some c)

/-! ## 2. For every event sequence, every quirk setting -/

/-- Nothing is duplicated or invented: what was pushed is exactly what was handed to live clients, what was
    popped without reaching one (`lost`), and what is still stored.  So `Conservation` fails iff `lost ≠ []`. -/
theorem accounting (q : Quirks) (evs : List Event) :
    (run q evs).pushed.Perm (delivered (run q evs) ++ (run q evs).lost ++ (run q evs).store) :=
  Acc_runFrom q evs init Acc_init

/-- No element is handed out twice, nor handed out and kept: if the pushed elements are pairwise distinct, so are
    the delivered and the stored ones taken together — for every history, as the code is. -/
theorem no_duplication (q : Quirks) (evs : List Event) (h : (run q evs).pushed.Nodup) :
    (delivered (run q evs) ++ (run q evs).store).Nodup := by
  have hA := accounting q evs
  have hn : (delivered (run q evs) ++ (run q evs).lost ++ (run q evs).store).Nodup := hA.nodup_iff.mp h
  refine List.Nodup.sublist ?_ hn
  rw [List.append_assoc]
  exact List.Sublist.append (List.Sublist.refl _) (List.sublist_append_right _ _)

/-- Blocked clients are served in the order they blocked — holds as the code is, for all histories. -/
theorem fifo_service (q : Quirks) : FifoService q :=
  ⟨fun evs s k => fifo_runFrom q k evs s, fun s c k v h => wakeOne_serves_head q s c k v h⟩

/-- The switches as the translator reads them from the source on this run (lean/FerrousSpec/Gen/Blocking.lean);
    every theorem of sections 2 and 3 holds for them, being proved for all `q`.  (`Quirks.code`, all switches
    off, is the tree before the first blocking repair; the EXEC repair has landed since: `refuseBlockingInTx`.) -/
def sourceQuirks : Quirks :=
  ⟨Gen.Blocking.notifyPerElement, Gen.Blocking.wakeAtPush, Gen.Blocking.unregisterAllOnServe,
   Gen.Blocking.refuseBlockingInTx, Gen.Blocking.dedupKeys, Gen.Blocking.drainAll,
   Gen.Blocking.noticeBlockedHangup, Gen.Blocking.deferBatchWhenBlocked, Gen.Blocking.execAtomic,
   Gen.Blocking.wakeChecksClient, Gen.Blocking.serveDrains, Gen.Blocking.probeReadsInput⟩

/-- The model drains as many wake-ups per loop iteration as the source says. -/
theorem wakeBatch_matches_source : Gen.Blocking.wakeBatch = wakeBatch := by decide

/-! ## 3. The `_partial` theorems (all `Allowed` histories; any setting of the other switches, `execAtomic` off —
  with it on, the queued pushes of a transaction notify nobody until EXEC has finished, which the single-key
  invariant `Inv` does not describe; the `_fixed_partial` theorems of 3b cover both settings) -/

theorem conservation_partial (q : Quirks) (hx : q.execAtomic = false) (evs : List Event) (h : Allowed q evs) :
    (run q evs).pushed.Perm (delivered (run q evs) ++ (run q evs).store) := by
  have hA := accounting q evs
  rw [(Inv_run q hx evs h).lost] at hA
  simpa using hA

theorem no_stranded_partial (q : Quirks) (hx : q.execAtomic = false) (evs : List Event) (h : Allowed q evs) (c : Conn) (k : Key)
    (hq : (run q evs).wakeQ = []) (hb : blockedOn (run q evs) c k) : listOf (run q evs).store k = [] :=
  (Inv_run q hx evs h).not_stranded hq hb

theorem registry_iff_blocked_partial (q : Quirks) (hx : q.execAtomic = false) (evs : List Event) (h : Allowed q evs) (c : Conn) (k : Key)
    (hq : (run q evs).wakeQ = []) : inRegistry (run q evs) k c ↔ blockedOn (run q evs) c k :=
  (Inv_run q hx evs h).registry_iff hq c k

theorem no_leftover_registration_partial (q : Quirks) (hx : q.execAtomic = false) (evs : List Event) (h : Allowed q evs) (c : Conn)
    (hb : ((run q evs).conns c).blocked = none) : c ∉ line (run q evs) :=
  fun hmem => (Inv_run q hx evs h).blocked_of_mem_line hmem hb

theorem never_early_nil_partial (q : Quirks) (hx : q.execAtomic = false) (evs : List Event) (h : Allowed q evs) (now : Nat) (c : Conn) (b : Blocked)
    (hb : ((run q evs).conns c).blocked = some b)
    (hn : ((step q (run q evs) (.timeouts now)).conns c).blocked = none) : ∃ d, b.deadline = some d ∧ d ≤ now :=
  iter_expireOne_blocked now c b _ _ (Inv_run q hx evs h) hb hn

/-- …and it does receive it: after the deadline scan at `now`, a blocked client whose deadline has passed and that has
    no wake-up under way is released (the code's failure of this — a client dropped from the registry by an
    empty wake-up never times out — is the witness `no_stranded_fails_pipelined_push_pop`). -/
theorem timeout_fires_partial (q : Quirks) (hx : q.execAtomic = false) (evs : List Event) (h : Allowed q evs) (now : Nat) (c : Conn) (b : Blocked) (d : Nat)
    (hb : ((run q evs).conns c).blocked = some b) (hd : b.deadline = some d) (hle : d ≤ now)
    (hw : ∀ w, w ∈ (run q evs).wakeQ → w.conn ≠ c) :
    ((step q (run q evs) (.timeouts now)).conns c).blocked = none :=
  (Inv_run q hx evs h).timeout_fires now c b d hb hd hle hw

/-- In an allowed history a queued wake-up request always finds its element and its client still blocked:
    the registry/wake-queue/connection-state triple never disagrees (the invariant of DESIGN D3). -/
theorem invariant_partial (q : Quirks) (hx : q.execAtomic = false) (evs : List Event) (h : Allowed q evs) : Inv (run q evs) :=
  Inv_run q hx evs h

def ka : Key := [97]
def kb : Key := [98]

/-! ## 3b. The tree as it is now: the `_fixed_partial` theorems

  With the five repairs in (`Repaired q`: one notification per pushed element, wake-ups carried out right after the
  command that requested them, a served client unregistered from all its keys, no blocking inside EXEC, a key
  named twice waited on once) every full statement holds for ALL histories that satisfy the much weaker
  decidable predicate `AllowedFixed`: any number of keys per blocking pop (duplicates included), any number of
  pushed elements up to the drain bound, pops anywhere (pipelined behind a push, inside EXEC, …), blocking pops
  inside MULTI/EXEC, time-outs, hang-ups.  What `AllowedFixed` still excludes is exactly what is still open in the code:
  * without `noticeBlockedHangup` + `wakeChecksClient` (the server probes blocked sockets, unregisters a vanished
    client at once and `wake_client` looks at the connection before it pops): any hang-up while blocked.  With them a
    blocked client may hang up at any time; what stays excluded is only a BATCH processed between that hang-up and the
    server's next look at the socket (`reap`).  With `wakeChecksClient` the model conserves there too (`wake_client`
    peeks at the socket before it pops: example after `conservation_fails_disconnect_in_flight_without_check`), but the
    invariant of the proof assumes that batches run in a calm state, so that window is NOT covered by the theorems
    (`in_flight_window_is_excluded`); beyond the model, a peer that closes after the peek loses what is in its socket;
  * a blocking pop executed for a connection that is already blocked, i.e. pipelined behind a blocking pop that
    blocked (finding C13-pipelined-second-bpop; cannot occur once `deferBatchWhenBlocked` is on: the exclusion is
    then vacuous, the batch stops at the first blocking pop that blocks);
  * a push of more than `wakeBatch` = 32 elements (finding C13-wake-batch-overflow: the drain after a command
    carries out one batch; dropped from the predicate once `drainAll` is on).
  The theorems hold for either setting of `execAtomic` (wake-ups after each queued command, as the tree does, or
  after the whole EXEC — see `ExecAtomic` below), of `noticeBlockedHangup`, `deferBatchWhenBlocked`, `drainAll`.
  Proof: induction over the event list with the multi-key invariant `InvB` (Proofs/BlockingFix*.lean). -/

/-- The switches regenerated from the source on this run have the five repairs on: the theorems below speak
    about the current tree.  (Breaks, by design, if a repair is reverted.) -/
theorem sourceQuirks_repaired : Repaired sourceQuirks := by decide

theorem invariant_fixed_partial (q : Quirks) (hq : Repaired q) (evs : List Event) (h : AllowedFixed q evs) :
    InvR (run q evs) := InvR_run q hq evs h

/-- Conservation: nothing pushed is ever lost — multi-key waits, multi-element pushes, any interleaving of pops. -/
theorem conservation_fixed_partial (q : Quirks) (hq : Repaired q) (evs : List Event) (h : AllowedFixed q evs) :
    (run q evs).pushed.Perm (delivered (run q evs) ++ (run q evs).store) := by
  have hA := accounting q evs
  rw [(InvR_run q hq evs h).inv.lost] at hA
  simpa using hA

/-- Between events the wake queue is empty (every wake-up has been carried out)… -/
theorem wake_queue_empty_fixed_partial (q : Quirks) (hq : Repaired q) (evs : List Event) (h : AllowedFixed q evs) :
    (run q evs).wakeQ = [] := (InvR_run q hq evs h).quiet

/-- …and no blocked client has an element waiting under any of its keys. -/
theorem no_stranded_fixed_partial (q : Quirks) (hq : Repaired q) (evs : List Event) (h : AllowedFixed q evs)
    (c : Conn) (k : Key) (hb : blockedOn (run q evs) c k) : listOf (run q evs).store k = [] :=
  (InvR_run q hq evs h).not_stranded hb

/-- A connection is in the registry queue of `k` iff it is blocked on `k` — for each of its keys. -/
theorem registry_iff_blocked_fixed_partial (q : Quirks) (hq : Repaired q) (evs : List Event) (h : AllowedFixed q evs)
    (c : Conn) (k : Key) : inRegistry (run q evs) k c ↔ blockedOn (run q evs) c k :=
  (InvR_run q hq evs h).registry_iff c k

/-- Served or timed out, a client is named by no queue. -/
theorem no_leftover_registration_fixed_partial (q : Quirks) (hq : Repaired q) (evs : List Event) (h : AllowedFixed q evs)
    (c : Conn) (hb : ((run q evs).conns c).blocked = none) : c ∉ line (run q evs) :=
  (InvR_run q hq evs h).no_leftover hb

/-- The deadline scan releases a client only at or after the deadline of the call it is blocked in. -/
theorem never_early_nil_fixed_partial (q : Quirks) (hq : Repaired q) (evs : List Event) (h : AllowedFixed q evs)
    (now : Nat) (c : Conn) (b : Blocked) (hb : ((run q evs).conns c).blocked = some b)
    (hn : ((step q (run q evs) (.timeouts now)).conns c).blocked = none) : ∃ d, b.deadline = some d ∧ d ≤ now :=
  (InvR_run q hq evs h).never_early_nil now c b hb hn

/-- And it does release it: after the scan at `now` no client whose deadline has passed is still blocked. -/
theorem timeout_fires_fixed_partial (q : Quirks) (hq : Repaired q) (evs : List Event) (h : AllowedFixed q evs)
    (now : Nat) (c : Conn) (b : Blocked) (d : Nat) (hb : ((run q evs).conns c).blocked = some b)
    (hd : b.deadline = some d) (hle : d ≤ now) :
    ((step q (run q evs) (.timeouts now)).conns c).blocked = none :=
  (InvR_run q hq evs h).timeout_fires now c b d hb hd hle

/-! ### What `AllowedFixed` still excludes does break the tree as it is (five repairs on, nothing else) -/

/-- The switches of the tree at the time of writing: the five repairs, none of the four proposed since. -/
def repaired5 : Quirks :=
  { Quirks.fixed with drainAll := false, noticeBlockedHangup := false, deferBatchWhenBlocked := false, execAtomic := false,
                      wakeChecksClient := false, serveDrains := false, probeReadsInput := false }

example : Repaired repaired5 := by decide

/-- hang-up while blocked: unnoticed, the next element goes into the dead socket -/
theorem fixed_exclusion_needed_hangup_blocked :
    (run repaired5 [.conn 3 0 [.bpop .left [ka] 0], .hangup 3, .reap 3, .conn 2 0 [.push .right ka [[1]]], .wakeups]).lost
      = [(ka, [1])] := by decide

/-- a blocking pop pipelined behind one that blocked: registered on `a` without being blocked on `a` -/
theorem fixed_exclusion_needed_second_bpop :
    (run repaired5 [.conn 3 0 [.bpop .left [ka] 0, .bpop .left [kb] 0]]).wakeQ = [] ∧
    inRegistry (run repaired5 [.conn 3 0 [.bpop .left [ka] 0, .bpop .left [kb] 0]]) ka 3 ∧
    ¬ blockedOn (run repaired5 [.conn 3 0 [.bpop .left [ka] 0, .bpop .left [kb] 0]]) 3 ka := by
  refine ⟨by decide, ⟨⟨3, none, .left⟩, by decide, rfl⟩, ?_⟩
  rintro ⟨b, hb, hk⟩
  have h : ((run repaired5 [.conn 3 0 [.bpop .left [ka] 0, .bpop .left [kb] 0]]).conns 3).blocked = some ⟨[kb], none, .left⟩ := by decide
  rw [h] at hb
  obtain rfl := Option.some.inj hb
  revert hk
  decide

/-- a push that wakes more than 32 clients, with a pop pipelined behind it: 34 waiters, `RPUSH a v0..v33; LPOP a` in one
    write — the 34th waiter ends blocked, in no queue, with an empty wake queue (replayed on the server by the
    probe `wake-batch-overflow` of lib/c13.py) -/
def wBatchOverflow : List Event :=
  ((List.range 34).map fun i => Event.conn (i + 1) 0 [.bpop .left [ka] 0]) ++
  [ .conn 100 0 [.push .right ka ((List.range 34).map fun i => [i]), .pop .left ka], .wakeups ]

set_option maxRecDepth 100000 in
theorem fixed_exclusion_needed_big_push :
    (run repaired5 wBatchOverflow).registry = [] ∧ (run repaired5 wBatchOverflow).wakeQ = [] ∧
    ((run repaired5 wBatchOverflow).conns 34).blocked = some ⟨[ka], none, .left⟩ := by decide

set_option maxRecDepth 100000 in
/-- with `drainAll` all 34 are served before the LPOP runs (it answers nil) -/
example : ((run { repaired5 with drainAll := true } wBatchOverflow).conns 34).blocked = none ∧
    outOf (run { repaired5 with drainAll := true } wBatchOverflow) 100 = [.int 34, .nil] := by decide

/-! ### Elements that reach a waited key without passing through the LPUSH / RPUSH arms -/

/-- The commands after which the server serves the blocked keys of the database — read from the source on this run
    (`process_normal_command` for a top-level command, `handle_exec` for a queued one) — include every command that can
    make a list appear or grow behind the push arms: a script started either way, and both renames.  (Scripts and RENAME
    are outside the event machine; each arrival is also replayed on the server by the probes of lib/c13.py.) -/
theorem sweep_covers_scripts_and_rename :
    ∀ c ∈ ["EVAL", "EVALSHA", "RENAME", "RENAMENX"],
      c ∈ Gen.Blocking.sweepCommands ∧ c ∈ Gen.Blocking.execSweepCommands := by decide

/-! ### The wake queue is empty between events — for every history -/

/-- Once every place that queues a wake-up request carries out all queued requests before it returns (`wakeAtPush`,
    `drainAll`, `serveDrains`), NO history leaves a request behind: hang-ups, CLIENT KILL, stale waiters, pipelined
    batches, transactions — nothing is excluded.  (`wake_queue_empty_fixed_partial` says the same under `AllowedFixed`
    without `serveDrains`; what it excludes there — a stale head waiter — is exactly what `serveDrains` repairs.) -/
theorem wake_queue_empty_always (q : Quirks) (hq : AlwaysDrains q) (evs : List Event) : (run q evs).wakeQ = [] :=
  quiet_run q hq evs

example : AlwaysDrains Quirks.fixed := by decide

/-- The tree as it is (`serveDrains` off): two clients blocked on `a`, the first is killed (CLIENT KILL — its
    registrations stay until the end of the iteration), and in the same batch `MULTI; RPUSH a 1; EXEC`: `serve_key`
    wakes the stale head, `wake_client` queues a request for the second client — and the loop ends there, the request
    stays queued. -/
def wStaleHead : List Event :=
  [ .conn 3 0 [.bpop .left [ka] 0], .conn 4 0 [.bpop .left [ka] 0], .kill 3,
    .conn 2 5 [.multi, .push .right ka [[1]], .exec] ]

theorem wake_queue_left_over_stale_head :
    (run { Quirks.fixed with serveDrains := false } wStaleHead).wakeQ = [⟨4, ka, .left⟩] ∧
    (run { Quirks.fixed with serveDrains := false } wStaleHead).store = [(ka, [1])] ∧
    ((run { Quirks.fixed with serveDrains := false } wStaleHead).conns 4).blocked = some ⟨[ka], none, .left⟩ := by decide

/-- The same without CLIENT KILL: the head waiter hangs up after this iteration's probe (the loop was stalled); the
    look `wake_client` takes at its socket drops it and queues the request for the next waiter — left over as above. -/
example : (run { Quirks.fixed with serveDrains := false }
    [ .conn 3 0 [.bpop .left [ka] 0], .conn 4 0 [.bpop .left [ka] 0], .hangup 3,
      .conn 2 5 [.multi, .push .right ka [[1]], .exec] ]).wakeQ = [⟨4, ka, .left⟩] := by decide

/-- With `serveDrains` the second client is served by that same EXEC. -/
example : (run Quirks.fixed wStaleHead).wakeQ = [] ∧ outOf (run Quirks.fixed wStaleHead) 4 = [.pair ka [1]] ∧
    (run Quirks.fixed wStaleHead).store = [] := by decide

/-- The left-over request strands the second client: a plain `LPOP a` in the same batch takes the element, the drain
    that follows carries the request out on an empty list and drops it — the client stays blocked, in no queue (its
    deadline, had it one, is never looked at again: time-outs go through the registry). -/
theorem stale_head_strands_next_waiter :
    let s := run { Quirks.fixed with serveDrains := false }
      [ .conn 3 0 [.bpop .left [ka] 0], .conn 4 0 [.bpop .left [ka] 100], .kill 3,
        .conn 2 5 [.multi, .push .right ka [[1]], .exec, .pop .left ka], .reap 3, .timeouts 1000 ]
    s.wakeQ = [] ∧ s.registry = [] ∧ (s.conns 4).blocked = some ⟨[ka], some 100, .left⟩ ∧
      outOf s 2 = [.ok, .queued, .arrHdr 1, .int 1, .bulk ka [1]] := by decide

example :
    let s := run Quirks.fixed
      [ .conn 3 0 [.bpop .left [ka] 0], .conn 4 0 [.bpop .left [ka] 100], .kill 3,
        .conn 2 5 [.multi, .push .right ka [[1]], .exec, .pop .left ka], .reap 3, .timeouts 1000 ]
    (s.conns 4).blocked = none ∧ outOf s 4 = [.pair ka [1]] ∧ outOf s 2 = [.ok, .queued, .arrHdr 1, .int 1, .nil] := by decide

/-! ### A transaction is one indivisible step -/

/-- What the commands queued in a transaction see and answer depends on the lists alone — not on who is blocked, nor on
    a wake-up request left in the queue: in every state the server can reach, running the queued commands gives the same
    replies and the same lists as running them with nobody waiting (no blocked client is served between two commands
    of an EXEC; it is served once the EXEC has finished). -/
def ExecAtomic (q : Quirks) : Prop :=
  ∀ (evs : List Event) (now : Nat) (c : Conn) (cmds : List Cmd),
    (cmds.foldl (dataCmd q now c 0) (run q evs)).out
      = (cmds.foldl (dataCmd q now c 0) { run q evs with registry := [], wakeQ := [] }).out ∧
    (cmds.foldl (dataCmd q now c 0) (run q evs)).store
      = (cmds.foldl (dataCmd q now c 0) { run q evs with registry := [], wakeQ := [] }).store

/-- The same for any two states with an empty wake queue that agree on lists, replies and connections. -/
theorem exec_atomic_of_quiet (q : Quirks) (hx : q.execAtomic = true) (now : Nat) (c : Conn) (cmds : List Cmd) (s t : State)
    (h1 : s.store = t.store) (h2 : s.out = t.out) (h3 : s.conns = t.conns) (h4 : s.lost = t.lost)
    (hs : s.wakeQ = []) (ht : t.wakeQ = []) :
    (cmds.foldl (dataCmd q now c 0) s).out = (cmds.foldl (dataCmd q now c 0) t).out ∧
    (cmds.foldl (dataCmd q now c 0) s).store = (cmds.foldl (dataCmd q now c 0) t).store := by
  have := Sim_foldl q hx now c cmds (s := s) (t := t) ⟨h1, h2, h3, h4, hs, ht⟩
  exact ⟨this.out, this.store⟩

/-- Holds once the queued commands no longer notify and the pushed keys are served after EXEC (`execAtomic`), AND no
    request is ever left in the queue (`AlwaysDrains`, by `wake_queue_empty_always`) — for every reachable state, no
    exclusion… -/
theorem exec_atomic_holds (q : Quirks) (hx : q.execAtomic = true) (hd : AlwaysDrains q) : ExecAtomic q := by
  intro evs now c cmds
  exact exec_atomic_of_quiet q hx now c cmds (run q evs) { run q evs with registry := [], wakeQ := [] }
    rfl rfl rfl rfl (wake_queue_empty_always q hd evs) rfl

/-- …and then the repaired invariant still holds (`invariant_fixed_partial` is proved for both settings), while the
    waiter is served right after the transaction: -/
example : outOf (run { Quirks.fixed with deferBatchWhenBlocked := false }
    [.conn 3 0 [.bpop .left [ka] 0], .conn 2 5 [.multi, .push .right ka [[1], [2]], .pop .left ka, .exec]]) 2
      = [.ok, .queued, .queued, .arrHdr 2, .int 2, .bulk ka [1]] ∧
    outOf (run Quirks.fixed
      [.conn 3 0 [.bpop .left [ka] 0], .conn 2 5 [.multi, .push .right ka [[1], [2]], .pop .left ka, .exec]]) 3
      = [.pair ka [2]] := by decide

/-- Before the EXEC repair (wake-ups after EACH command, also inside EXEC): with a client blocked on `a`, the LPOP of
    `MULTI; RPUSH a 1; LPOP a; EXEC` answers nil — the blocked client took the element in between. -/
theorem exec_atomic_fails : ¬ ExecAtomic { Quirks.fixed with execAtomic := false } := fun h => by
  have := (h [.conn 3 0 [.bpop .left [ka] 0]] 5 2 [.push .right ka [[1]], .pop .left ka]).1
  revert this
  decide

theorem exec_atomic_fails_reply :
    outOf (run { Quirks.fixed with execAtomic := false }
      [.conn 3 0 [.bpop .left [ka] 0], .conn 2 5 [.multi, .push .right ka [[1]], .pop .left ka, .exec]]) 2
      = [.ok, .queued, .queued, .arrHdr 2, .int 1, .nil] := by decide

/-- The tree as it is (`execAtomic` on, `serveDrains` off): after `wStaleHead` a request for client 4 is still queued;
    the drain that follows the first command of the NEXT transaction carries it out, so that transaction's LPOP finds
    the list empty — the element went to the blocked client between two of its commands. -/
theorem exec_atomic_fails_leftover_wake : ¬ ExecAtomic { Quirks.fixed with serveDrains := false } := fun h => by
  have := (h wStaleHead 9 2 [.push .right kb [[7]], .pop .left ka]).1
  revert this
  decide

theorem exec_atomic_fails_leftover_wake_reply :
    outOf (run { Quirks.fixed with serveDrains := false }
      (wStaleHead ++ [.conn 2 9 [.multi, .push .right kb [[7]], .pop .left ka, .exec]])) 2
      = [.ok, .queued, .arrHdr 1, .int 1, .ok, .queued, .queued, .arrHdr 2, .int 1, .nil] := by decide

example :
    outOf (run Quirks.fixed (wStaleHead ++ [.conn 2 9 [.multi, .push .right kb [[7]], .pop .left ka, .exec]])) 2
      = [.ok, .queued, .arrHdr 1, .int 1, .ok, .queued, .queued, .arrHdr 2, .int 1, .nil] ∧
    outOf (run Quirks.fixed (wStaleHead ++ [.conn 2 9 [.multi, .push .right kb [[7]], .pop .left ka, .exec]])) 4
      = [.pair ka [1]] := by decide

/-! ### A hang-up behind unread bytes -/

/-- The tree as it is (`probeReadsInput` off): the blocked client writes something (unread while it is blocked) and
    closes; the probe's one-byte peek sees the unread byte, not the end-of-file behind it — `reap` does nothing, and
    so does the look `wake_client` takes: the next element is popped into the dead socket. -/
def wHangupBehindBytes : List Event :=
  [ .conn 3 0 [.bpop .left [ka] 0], .hangupDirty 3, .reap 3, .conn 2 0 [.push .right ka [[1]]], .reap 3 ]

theorem conservation_fails_hangup_behind_unread_bytes :
    (run { Quirks.fixed with probeReadsInput := false } wHangupBehindBytes).lost = [(ka, [1])] ∧
    (run { Quirks.fixed with probeReadsInput := false } wHangupBehindBytes).store = [] := by decide

/-- A probe that reads the pending input sees the hang-up: the client is dropped, the element stays. -/
example : (run Quirks.fixed wHangupBehindBytes).lost = [] ∧ (run Quirks.fixed wHangupBehindBytes).store = [(ka, [1])] ∧
    AllowedFixed Quirks.fixed wHangupBehindBytes := by decide

/-- …also when the push is handled before the probe's next round (`wake_client` looks with the same probe). -/
example : (run Quirks.fixed [.conn 3 0 [.bpop .left [ka] 0], .hangupDirty 3, .conn 2 0 [.push .right ka [[1]]]]).lost = [] ∧
    (run Quirks.fixed [.conn 3 0 [.bpop .left [ka] 0], .hangupDirty 3, .conn 2 0 [.push .right ka [[1]]]]).store = [(ka, [1])] := by
  decide

/-- `AllowedFixed` excludes that hang-up on the tree as it is (and nothing after it could be covered: the server
    never learns that the client has gone). -/
example : ¬ AllowedFixed { Quirks.fixed with probeReadsInput := false } wHangupBehindBytes := by decide

/-! ### Non-vacuity of `AllowedFixed` (on the switches read from the source) -/

/-- a multi-key wait served from its SECOND key; a 3-element push serving two waiters; `RPUSH k x; LPOP k`
    pipelined while a client waits on `k`; a duplicate key; BLPOP inside MULTI/EXEC; a multi-key time-out -/
def sampleFixed : List Event :=
  [ .conn 3 0 [.bpop .left [ka, kb] 0], .conn 2 5 [.push .right kb [[1]]],
    .conn 3 10 [.bpop .left [ka, ka] 0], .conn 4 15 [.bpop .right [ka] 0], .conn 2 20 [.push .right ka [[2], [3], [4]]],
    .conn 5 25 [.bpop .left [kb, ka] 300], .conn 2 30 [.push .right kb [[5]], .pop .left kb],
    .conn 2 35 [.multi, .bpop .left [kb] 0, .push .left kb [[6]], .bpop .left [kb] 0, .exec],
    .conn 6 40 [.bpop .right [kb, ka] 100], .wakeups, .timeouts 200 ]

example : AllowedFixed sourceQuirks sampleFixed := by decide
example : AllowedFixed Quirks.fixed sampleFixed := by decide
example : ¬ Allowed sourceQuirks sampleFixed := by decide
example : (run sourceQuirks sampleFixed).out =
    [(2, .int 1), (3, .pair kb [1]), (2, .int 3), (3, .pair ka [2]), (4, .pair ka [4]),
     (5, .pair ka [3]), (2, .int 1), (2, .bulk kb [5]),
     (2, .ok), (2, .queued), (2, .queued), (2, .queued), (2, .arrHdr 3), (2, .nilArr), (2, .int 1), (2, .pair kb [6]),
     (6, .nilArr)] := by decide

/-! ### Non-vacuity: `Allowed` admits blocking, waking, timing out, pipelines, MULTI/EXEC and disconnects -/


/-- two waiters on `a` (one with a deadline), two pushes, a wake-up batch, a pipelined push + pop on another key,
    a transaction, a time-out, an idle client going away -/
def sampleAllowed : List Event :=
  [ .conn 3 0 [.bpop .left [ka] 0], .conn 4 10 [.bpop .right [ka] 200],
    .conn 2 20 [.push .right ka [[1]]], .wakeups,
    .conn 2 30 [.push .left kb [[7]], .pop .left kb, .multi, .push .right kb [[8]], .pop .right kb, .exec],
    .timeouts 250, .conn 5 260 [.bpop .left [kb] 100], .hangup 2, .reap 2, .conn 6 270 [.push .left kb [[9]]], .wakeups ]

example : Allowed Quirks.code sampleAllowed := by decide
example : (run Quirks.code sampleAllowed).out =
    [(2, .int 1), (3, .pair ka [1]), (2, .int 1), (2, .bulk kb [7]), (2, .ok), (2, .queued), (2, .queued),
     (2, .arrHdr 2), (2, .int 1), (2, .bulk kb [8]), (4, .nilArr), (6, .int 1), (5, .pair kb [9])] := by decide
example : Allowed Quirks.fixed sampleAllowed := by decide

/-! ## 4. Witnesses: each excluded class breaks the full statement on the code as it is -/

/-- multi-key leftover: `BLPOP a b 0` is served from `a` and stays registered on `b`; the next push to `b`
    is popped for it and dropped. -/
def wMultiKeyLeftover : List Event :=
  [ .conn 3 0 [.bpop .left [ka, kb] 0], .conn 2 0 [.push .right ka [[1]]], .wakeups,
    .conn 2 0 [.push .right kb [[2]]], .wakeups ]

theorem conservation_fails_multikey_leftover : (run Quirks.code wMultiKeyLeftover).lost = [(kb, [2])] := by decide

/-- connection id 0: a BLPOP executed by EXEC registers the dummy id 0; the next push is popped for nobody. -/
def wExecConn0 : List Event :=
  [ .conn 3 0 [.multi, .bpop .left [ka] 0, .exec], .conn 2 0 [.push .right ka [[1]]], .wakeups ]

theorem conservation_fails_exec_conn0 : (run Quirks.code wExecConn0).lost = [(ka, [1])] := by decide

/-- and the EXEC reply is cut short on the wire: `*1` and nothing after it -/
theorem exec_reply_truncated : outOf (run Quirks.code wExecConn0) 3 = [.ok, .queued, .arrHdr 1] := by decide

/-- disconnect while blocked: a blocked connection is never read, so its hang-up goes unnoticed (`reap` is a
    no-op) and the next element is written into the dead socket. -/
def wDisconnectBlocked : List Event :=
  [ .conn 3 0 [.bpop .left [ka] 0], .hangup 3, .reap 3, .conn 2 0 [.push .right ka [[1]]], .wakeups ]

theorem conservation_fails_disconnect_while_blocked : (run Quirks.code wDisconnectBlocked).lost = [(ka, [1])] := by decide

/-- once blocked connections are probed for end-of-file (`noticeBlockedHangup`) the hang-up is noticed… -/
example : (run { Quirks.code with noticeBlockedHangup := true } wDisconnectBlocked).lost = [] := by decide

/-- …but, without the look-before-pop of `wakeChecksClient`, an element pushed between the hang-up and the moment the
    server looks is written into the dead socket: -/
def wDisconnectInFlight : List Event :=
  [ .conn 3 0 [.bpop .left [ka] 0], .hangup 3, .conn 2 0 [.push .right ka [[1]]], .wakeups ]

theorem conservation_fails_disconnect_in_flight_without_check :
    (run { Quirks.fixed with wakeChecksClient := false } wDisconnectInFlight).lost = [(ka, [1])] := by decide

/-- with it, `wake_client` peeks at the socket first, finds the peer gone, drops the client and leaves the element.
    (What remains outside the model is a peer that closes AFTER that peek: the bytes are already in the socket.) -/
example : (run Quirks.fixed wDisconnectInFlight).lost = [] ∧ (run Quirks.fixed wDisconnectInFlight).store = [(ka, [1])] ∧
    (run Quirks.fixed wDisconnectInFlight).registry = [] := by decide

/-- a second blocking pop pipelined behind one that blocked is executed at once: two registrations, one
    blocked state; the first service leaves the other registration behind, which swallows the next element. -/
def wPipelinedSecondBpop : List Event :=
  [ .conn 3 0 [.bpop .left [ka] 0, .bpop .left [kb] 0], .conn 2 0 [.push .right ka [[1]]], .wakeups,
    .conn 2 0 [.push .right kb [[2]]], .wakeups ]

theorem conservation_fails_pipelined_second_bpop : (run Quirks.code wPipelinedSecondBpop).lost = [(kb, [2])] := by decide

theorem conservation_fails : ¬ Conservation Quirks.code := fun h =>
  not_conserved_of_lost (accounting Quirks.code wMultiKeyLeftover) (by decide) (h wMultiKeyLeftover)

/-- one wake-up per push command: `RPUSH a 1 2 3` wakes one of two waiters; the other stays blocked with
    two elements in its list. -/
def wOneWakePerPush : List Event :=
  [ .conn 3 0 [.bpop .left [ka] 0], .conn 4 0 [.bpop .left [ka] 0], .conn 2 0 [.push .right ka [[1], [2], [3]]], .wakeups ]

theorem no_stranded_fails_one_wake_per_push :
    (run Quirks.code wOneWakePerPush).wakeQ = [] ∧ blockedOn (run Quirks.code wOneWakePerPush) 4 ka ∧
    listOf (run Quirks.code wOneWakePerPush).store ka = [[2], [3]] :=
  ⟨by decide, ⟨⟨[ka], none, .left⟩, by decide, by decide⟩, by decide⟩

/-- pipelined push + pop: the waiter leaves the registry at notify time, the LPOP of the same batch takes the
    element, the wake-up finds nothing and the waiter is dropped: blocked, in no queue, beyond the reach of
    later pushes and of the deadline scan. -/
def wPipelinedPushPop : List Event :=
  [ .conn 3 0 [.bpop .left [ka] 200], .conn 2 10 [.push .right ka [[1]], .pop .left ka], .wakeups,
    .conn 2 20 [.push .right ka [[2]]], .wakeups, .timeouts 1000 ]

theorem no_stranded_fails_pipelined_push_pop :
    (run Quirks.code wPipelinedPushPop).wakeQ = [] ∧ blockedOn (run Quirks.code wPipelinedPushPop) 3 ka ∧
    listOf (run Quirks.code wPipelinedPushPop).store ka = [[2]] ∧ (run Quirks.code wPipelinedPushPop).registry = [] :=
  ⟨by decide, ⟨⟨[ka], some 200, .left⟩, by decide, by decide⟩, by decide, by decide⟩

theorem no_stranded_client_fails : ¬ NoStrandedClient Quirks.code := fun h => by
  have := h wOneWakePerPush 4 ka no_stranded_fails_one_wake_per_push.1 no_stranded_fails_one_wake_per_push.2.1
  rw [no_stranded_fails_one_wake_per_push.2.2] at this
  cases this

/-- blocked but in no queue (pipelined push + pop) -/
theorem registry_iff_blocked_fails : ¬ RegistryIffBlocked Quirks.code := fun h => by
  obtain ⟨hq, hb, _, hr⟩ := no_stranded_fails_pipelined_push_pop
  obtain ⟨w, hw, _⟩ := (h wPipelinedPushPop 3 ka hq).mpr hb
  rw [hr] at hw
  cases hw

/-- in a queue but not blocked (multi-key leftover, after the first service) -/
theorem no_leftover_registration_fails : ¬ NoLeftoverRegistration Quirks.code := fun h => by
  have := h (wMultiKeyLeftover.take 3) 3 (by decide)
  exact this (by decide)

/-- a leftover registration cuts a later call short: `BLPOP a b 0.2` is served from `a`; the entry left on
    `b` keeps the old deadline; the client then waits FOR EVER on `a` and is answered nil when the old
    deadline passes — and its new registration on `a` stays behind in turn. -/
def wLeftoverDeadline : List Event :=
  [ .conn 3 0 [.bpop .left [ka, kb] 200], .conn 2 50 [.push .right ka [[1]]], .wakeups, .conn 3 100 [.bpop .left [ka] 0] ]

theorem never_early_nil_fails : ¬ NeverEarlyNil Quirks.code := fun h => by
  obtain ⟨d, hd, _⟩ := h wLeftoverDeadline 260 3 ⟨[ka], none, .left⟩ (by decide) (by decide)
  cases hd

theorem never_early_nil_fails_reply :
    outOf (runFrom Quirks.code (run Quirks.code wLeftoverDeadline) [.timeouts 260]) 3 = [.pair ka [1], .nilArr] := by decide

/-! ### Hang-up while blocked, once the server looks before it pops -/

/-- a blocked client hangs up, the server's probe notices (`reap`), THEN the push arrives: allowed, and the element
    stays in the list (the `hang-up during a stall` scenario: the probe runs first in the iteration that follows) -/
def wHangupNoticed : List Event :=
  [ .conn 3 0 [.bpop .left [ka, kb] 0], .conn 4 5 [.bpop .right [ka] 0], .hangup 3, .reap 3,
    .conn 2 10 [.push .right ka [[1], [2]]], .conn 2 20 [.push .left kb [[3]]] ]

example : AllowedFixed Quirks.fixed wHangupNoticed := by decide
example : (run Quirks.fixed wHangupNoticed).lost = [] ∧ outOf (run Quirks.fixed wHangupNoticed) 4 = [.pair ka [2]] ∧
    (run Quirks.fixed wHangupNoticed).store = [(kb, [3]), (ka, [1])] ∧ (run Quirks.fixed wHangupNoticed).registry = [] := by decide

/-- the window that stays excluded from the THEOREMS (not from conservation, see above): the batch runs between the
    hang-up and the server's look at the socket -/
theorem in_flight_window_is_excluded : ¬ AllowedFixed Quirks.fixed wDisconnectInFlight := by decide

/-- `wake_client` looking first: a request for a client that is no longer blocked (here: the dummy connection 0 of a
    tree without the EXEC repair) leaves the element in the list instead of dropping it -/
example : (run { Quirks.code with wakeChecksClient := true } wExecConn0).lost = [] ∧
    (run { Quirks.code with wakeChecksClient := true } wExecConn0).store = [(ka, [1])] := by decide

/-! ### The same witnesses with the local repairs switched on -/

example : (run Quirks.fixed wMultiKeyLeftover).lost = [] ∧ (run Quirks.fixed wMultiKeyLeftover).store = [(kb, [2])] := by decide
example : (run Quirks.fixed wExecConn0).lost = [] ∧ outOf (run Quirks.fixed wExecConn0) 3 = [.ok, .queued, .arrHdr 1, .nilArr] := by decide
example : outOf (run Quirks.fixed wOneWakePerPush) 4 = [.pair ka [2]] ∧ (run Quirks.fixed wOneWakePerPush).store = [(ka, [3])] := by decide
example : outOf (run Quirks.fixed wPipelinedPushPop) 3 = [.pair ka [1]] ∧ outOf (run Quirks.fixed wPipelinedPushPop) 2 = [.int 1, .nil, .int 1] := by decide
example : ((step Quirks.fixed (run Quirks.fixed wLeftoverDeadline) (.timeouts 260)).conns 3).blocked = some ⟨[ka], none, .left⟩ := by decide
/-- each repair alone flips its own witness -/
example : (run { Quirks.code with unregisterAllOnServe := true } wMultiKeyLeftover).lost = [] := by decide
example : (run { Quirks.code with refuseBlockingInTx := true } wExecConn0).lost = [] := by decide
example : outOf (run { Quirks.code with notifyPerElement := true } wOneWakePerPush) 4 = [.pair ka [2]] := by decide
example : outOf (run { Quirks.code with wakeAtPush := true } wPipelinedPushPop) 3 = [.pair ka [1]] := by decide

/-- the same key named twice: two registrations of one client; with one notify per element both are woken by a
    two-element push, the second wake-up finds the client served and its element is popped for nobody —
    unless a key named twice is waited on once (found by lib/c13.py on the tree with the first four repairs) -/
def wDuplicateKey : List Event :=
  [ .conn 3 0 [.bpop .right [ka, ka] 0], .conn 2 0 [.push .left ka [[1], [2]]], .wakeups ]

example : (run { Quirks.fixed with dedupKeys := false, wakeChecksClient := false } wDuplicateKey).lost = [(ka, [2])] := by decide
/-- …or `wake_client` looks first: the second request finds the client served and leaves the element -/
example : (run { Quirks.fixed with dedupKeys := false } wDuplicateKey).lost = [] := by decide
example : (run Quirks.fixed wDuplicateKey).lost = [] ∧ (run Quirks.fixed wDuplicateKey).store = [(ka, [2])] := by decide

end Ferrous.C13
