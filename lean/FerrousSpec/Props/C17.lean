/-
  C17 — no access without AUTH.

  "When requirepass is configured, a connection that has not successfully authenticated cannot read,
  modify, subscribe to or replicate anything: every command other than AUTH (and the harmless PING/QUIT)
  is refused with an error and has no side effect, whatever the command, pipeline position or connection
  state, including replication handshakes, transactions and scripts.  Only the exact password
  authenticates, a failed AUTH changes nothing, and authentication is per connection."

  Property theorems only; helper lemmas live in FerrousSpec/Proofs/Auth.lean.
  Model: FerrousSpec/Model/Auth.lean — `Code.processConnectionFrame` is the order of processing of
  `process_connection` / `process_frame` in src/network/server.rs: (a) the special cases that run BEFORE the
  gate (`Cfg.preGate`), (b) the gate with its allow-list (`Cfg.allow`), (c) dispatch, which is a PARAMETER `h`
  (MULTI/EXEC, EVAL, SUBSCRIBE, MONITOR, REPLCONF … all live behind the gate, so the theorems hold for every
  dispatch).  The name normalisations are parameters as well (fields of `Cfg`).

  Tie to the code: `Gen/Auth.lean` is regenerated from server.rs on every run (`tree` below is the model
  instantiated with the regenerated lists); the check drives the real server over TCP with `--requirepass`
  and compares every reply class with `drv_auth`.

  Current tree: SYNC and PSYNC are special-cased before the gate (`Gen.preGate = ["SYNC", "PSYNC"]`), so the
  full statement `no_access_without_auth` holds for the repaired order (`preGate = []`) only; for the tree as
  it is the `_partial` variants exclude these names and `no_access_without_auth_fails_pinned` is the witness.
-/
import FerrousSpec.Proofs.Auth
import FerrousSpec.Proofs.AuthConfig
import FerrousSpec.Gen.Auth
namespace Ferrous.C17
open Ferrous Ferrous.Auth

variable {D R : Type}

/-- The model instantiated with the lists regenerated from the source, and the concrete normalisations. -/
def tree : Cfg :=
  Cfg.ofTables Gen.preGate Gen.authAllow Code.normLoop (Code.normFrame Gen.frameNameTrimmed) Gen.quitEndsBatch

/-- the name as `process_frame` sees it on this tree -/
abbrev treeNormFrame : Bytes → Bytes := Code.normFrame Gen.frameNameTrimmed

/-- A password-protected server with a canary key, one fresh (unauthenticated) connection. -/
def witnessServer : Server KS.Store :=
  { password := some [112], conns := [⟨1, .connected⟩], store := [[([107], ⟨.str [118], none⟩)]],
    subs := [], replicas := [], monitors := [] }

/-- A dispatch that does nothing (the witness never reaches dispatch). -/
def noDispatch : Dispatch KS.Store Unit := fun s _ _ _ => (s, ())

/-! ### Table theorems (re-proved against the regenerated lists on every run) -/

/-- The gate's allow-list is exactly AUTH → `handle_auth`, PING → `handle_ping`, QUIT → `+OK`. -/
theorem tree_allow_is_auth_ping_quit :
    Gen.authAllow = [("AUTH", "auth"), ("PING", "ping"), ("QUIT", "okOnly")] := by decide

/-- Every other name falls into the `_` arm, which answers NOAUTH; and nothing that can act on the server
    precedes the gate inside `process_frame`. -/
theorem tree_gate_default_refuses : Gen.gateDefaultRefuses = true ∧ Gen.gateIsFirst = true := by decide

/-- `preGate ⊆ allow`, the prescribed order of processing (nothing but the harmless commands may be handled
    before the gate), is FALSE on the current tree; what holds — now and after the proposed fix — is that the
    names handled before the gate without an authentication test are within the known finding C17-1.
    This is the theorem that breaks if anyone adds another special case in front of the gate. -/
theorem preGate_within_known_finding : ∀ n ∈ Gen.preGate, n ∈ ["SYNC", "PSYNC"] := by decide

/-- Every special case in front of the gate has a shape the translator understands: either it calls its
    handler unconditionally (`Gen.preGate`) or it is guarded exactly like the gate (`Gen.preGateGuarded`).
    When this fails the model makes NO prediction for the names listed (the driver answers `unknown`) and
    the check searches for a failing input with the property's oracle alone. -/
theorem tree_preGate_guards_understood : Gen.preGateUnknownGuard = [] := by decide

/-- The translator could read every shape it relies on (frame loop of `process_connection`, the gate and its
    `match`, the dispatch `match`).  When this fails the tables hold inert defaults, the driver predicts nothing
    and the check searches with the property's oracle alone. -/
theorem tree_source_readable : Gen.unreadable = [] := by decide

/-- Frames kept back for later execution (`Connection::deferred_frames`) either do not exist or are filled only for
    a connection that just blocked, with the rest of its own batch, and drained only into the same
    connection's next `process_connection`, where each frame meets the gate again. -/
theorem tree_deferral_understood : Gen.deferral = "absent" ∨ Gen.deferral = "blocked-only" := by decide

/-- Commands executed indirectly (inside EXEC) are handed a literal connection id instead of the issuer's; every such
    id lies below the first id the accept loop hands out, so it never names a live connection
    (`exec_auth_affects_nobody`).  Fails if ids start at 0 while the substitute id is 0. -/
theorem tree_substitute_ids_not_live : ∀ i ∈ Gen.substituteConnIds, i < Gen.connIdStart := by decide

/-- The command line's password overrides the configuration file's only when one is given; the file's `requirepass`,
    the two command-line flags and the order file-then-command-line have the shape the model assumes. -/
theorem tree_password_sources : Gen.cliPasswordRule = "if-given" ∧ Gen.passwordSourcesUnderstood = true := by decide

/-- The prescribed inclusion fails for the pinned order of processing: SYNC is handled before the gate and is
    not one of AUTH / PING / QUIT. -/
theorem preGate_subset_allow_fails_pinned : ¬ ∀ n ∈ Cfg.pinned.preGate, n ∈ Spec.harmless := by decide

/-- The inclusion holds trivially for the repaired order. -/
theorem preGate_subset_allow (cfg : Cfg) : ∀ n ∈ cfg.repaired.preGate, n ∈ Spec.harmless := by
  intro n hn; simp [Cfg.repaired] at hn

/-- `ConnectionState::Authenticated` is assigned only at accept (no password), by `handle_auth`, and when a
    blocked client is woken or times out; `Blocked` only by BLPOP/BRPOP on the calling connection; the
    password is never assigned after start-up.  (The source facts behind `Honest`.) -/
theorem tree_state_writers :
    (∀ w ∈ Gen.authenticatedWriters, w ∈ ["network/server.rs::accept_single_connection",
        "network/server.rs::handle_auth", "network/server.rs::process_blocked_timeouts",
        "network/server.rs::wake_client"]) ∧
    (∀ w ∈ Gen.blockedWriters, w ∈ ["network/server.rs::handle_blpop", "network/server.rs::handle_brpop"]) ∧
    Gen.passwordRuntimeWrites = [] := by decide

set_option maxRecDepth 100000 in
/-- Every command name the server knows today, sent by an unauthenticated connection, is refused by the model
    of the tree — except the three allowed ones and the names of the known finding. -/
theorem tree_names_classified :
    ∀ n ∈ Gen.allCommandNames, classify tree (nameBytes n) = .refused ∨ n ∈ ["AUTH", "PING", "QUIT", "SYNC", "PSYNC"] := by
  decide

/-- … and the table is not trivially small: the replication, pub/sub, transaction, script and monitor
    commands are in it. -/
theorem tree_names_cover :
    ∀ n ∈ ["GET", "SET", "SYNC", "PSYNC", "REPLCONF", "MONITOR", "SUBSCRIBE", "PSUBSCRIBE", "MULTI", "EXEC",
           "EVAL", "EVALSHA", "SCRIPT", "REPLICAOF", "SHUTDOWN", "FLUSHALL", "CONFIG", "CLIENT"],
      n ∈ Gen.allCommandNames := by decide

theorem tree_allow_names : tree.allow.map (·.1) = [AUTH, PING, QUIT] := by decide
theorem tree_allow_known : tree.allowKnown = true := by decide
theorem tree_preGate_within : ∀ n ∈ tree.preGate, n ∈ [SYNC, PSYNC] := by decide

/-! ### The gate -/

/-- `gate_total`.  Password set ∧ connection not authenticated ∧ name not on the allow-list ∧ name not
    special-cased before the gate ⇒ the reply is an error and the server state is unchanged — for EVERY
    command name (all byte strings: the gate precedes dispatch), every argument list, every dispatch `h`,
    every connection state other than `Authenticated` (fresh, closing, blocked, unknown id). -/
theorem gate_total (cfg : Cfg) (h : Dispatch D R) (s : Server D) (c : Nat) (name : Bytes) (args : List Arg)
    (hpw : s.password.isSome = true) (hst : stateOf s.conns c ≠ some .authenticated)
    (hallow : cfg.normFrame name ∉ cfg.allow.map (·.1)) (hpre : cfg.normLoop name ∉ cfg.preGate) :
    ∃ k, Code.processConnectionFrame cfg h s c (.cmd name args) = (s, .error k) :=
  gate_refuses cfg h s c name args hpw hst hallow hpre

/-- Requests that are not commands at all (no bulk-string name, not an array) are refused for everybody. -/
theorem malformed_requests_refused (cfg : Cfg) (h : Dispatch D R) (s : Server D) (c : Nat) :
    Code.processConnectionFrame cfg h s c .badName = (s, .error .other) ∧
    Code.processConnectionFrame cfg h s c .notArray = (s, .error .other) :=
  ⟨rfl, rfl⟩

/-- `gate_total` for the tree as regenerated: every name that does not normalise to AUTH / PING / QUIT — and,
    on the current tree, not to SYNC / PSYNC — is refused. -/
theorem gate_total_tree (h : Dispatch D R) (s : Server D) (c : Nat) (name : Bytes) (args : List Arg)
    (hpw : s.password.isSome = true) (hst : stateOf s.conns c ≠ some .authenticated)
    (hallow : treeNormFrame name ∉ [AUTH, PING, QUIT]) (hpre : Code.normLoop name ∉ [SYNC, PSYNC]) :
    ∃ k, Code.processConnectionFrame tree h s c (.cmd name args) = (s, .error k) := by
  refine gate_total tree h s c name args hpw hst ?_ ?_
  · rw [tree_allow_names]; exact hallow
  · exact fun hm => hpre (tree_preGate_within _ hm)

/-- Non-vacuity: a password-protected server with a canary, a fresh connection, `GET canary`. -/
example : ∃ k, Code.processConnectionFrame tree (ksDispatch {} 0)
      { password := some [112], conns := [⟨1, .connected⟩], store := [[([107], ⟨.str [118], none⟩)]],
        subs := [], replicas := [], monitors := [] } 1 (.cmd [103, 101, 116] [some [107]])
    = ({ password := some [112], conns := [⟨1, .connected⟩], store := [[([107], ⟨.str [118], none⟩)]],
         subs := [], replicas := [], monitors := [] }, .error k) :=
  gate_total_tree _ _ _ _ _ (by decide) (by decide) (by decide) (by decide)

/-! ### Only the exact password authenticates -/

/-- `only_exact_password`.  A request that reaches `handle_auth` leaves the calling connection authenticated
    iff its argument list is exactly one bulk string equal to the configured password (which is valid
    UTF-8, being a Rust `String`) — for all byte strings: prefixes, extensions, case changes, binary, empty,
    wrong arity, non-bulk arguments all fail. -/
theorem only_exact_password (cfg : Cfg) (h : Dispatch D R) (s : Server D) (c : Nat) (name : Bytes) (args : List Arg)
    (pw : Bytes) (hpw : s.password = some pw) (hutf : utf8Valid pw = true)
    (hc : stateOf s.conns c = some .connected)
    (hname : findArm cfg.allow (cfg.normFrame name) = some .auth) (hpre : cfg.normLoop name ∉ cfg.preGate) :
    stateOf (Code.processConnectionFrame cfg h s c (.cmd name args)).1.conns c = some .authenticated
      ↔ args = [some pw] := by
  have hg : s.password.isSome ∧ CState.connected ≠ CState.authenticated := by simp [hpw]
  have hrun : Code.processConnectionFrame cfg h s c (.cmd name args) = Code.auth s c args := by
    unfold Code.processConnectionFrame
    simp only [hpre, if_false]
    unfold Code.processFrame
    simp only [hc]
    rw [if_pos hg, hname]
  rw [hrun]
  rcases auth_cases (R := R) s c args with ⟨pw', hp', ha, _, he⟩ | ⟨hno, he⟩
  · have : pw' = pw := by rw [hpw] at hp'; exact (Option.some.inj hp').symm
    subst this
    rw [he]
    simp [stateOf_setState_self, hc, ha]
  · rw [he]
    simp only [hc]
    constructor
    · intro hx; exact absurd hx (by simp)
    · intro ha; exact absurd ⟨pw, hpw, ha, hutf⟩ hno

/-- The same for the tree, for the literal name `AUTH` in any letter case (`auth`, `Auth`, …). -/
theorem only_exact_password_tree (h : Dispatch D R) (s : Server D) (c : Nat) (name : Bytes) (args : List Arg)
    (pw : Bytes) (hpw : s.password = some pw) (hutf : utf8Valid pw = true)
    (hc : stateOf s.conns c = some .connected)
    (hn1 : treeNormFrame name = AUTH) (hn2 : Code.normLoop name = AUTH) :
    stateOf (Code.processConnectionFrame tree h s c (.cmd name args)).1.conns c = some .authenticated
      ↔ args = [some pw] := by
  refine only_exact_password tree h s c name args pw hpw hutf hc ?_ ?_
  · show findArm tree.allow (treeNormFrame name) = some .auth
    rw [hn1]; decide
  · show Code.normLoop name ∉ tree.preGate
    rw [hn2]; intro hm; exact absurd (tree_preGate_within _ hm) (by decide)

/-- Non-vacuity and the interesting wrong passwords, on a concrete server with password `s3cr`:
    the exact password authenticates; a proper prefix, an extension, a case change, the empty string,
    a binary string and two arguments do not. -/
example :
    let s : Server Nat := { password := some [115, 51, 99, 114], conns := [⟨7, .connected⟩], store := 0,
                            subs := [], replicas := [], monitors := [] }
    let after := fun (args : List Arg) =>
      stateOf (Code.processConnectionFrame (R := Unit) tree (fun s _ _ _ => (s, ())) s 7 (.cmd [97, 117, 116, 104] args)).1.conns 7
    after [some [115, 51, 99, 114]] = some .authenticated ∧
    after [some [115, 51, 99]] = some .connected ∧
    after [some [115, 51, 99, 114, 0]] = some .connected ∧
    after [some [83, 51, 67, 82]] = some .connected ∧
    after [some []] = some .connected ∧
    after [some [255]] = some .connected ∧
    after [some [115, 51, 99, 114], some [115, 51, 99, 114]] = some .connected ∧
    after [none] = some .connected ∧
    after [] = some .connected := by decide

/-- `failed_auth_changes_nothing`.  A request that reaches `handle_auth` without carrying exactly the password
    is answered with an error and leaves the whole server state as it was — whatever the state of the calling
    connection (a failed AUTH does not de-authenticate either). -/
theorem failed_auth_changes_nothing (s : Server D) (c : Nat) (args : List Arg)
    (hbad : ¬ ∃ pw, s.password = some pw ∧ args = [some pw] ∧ utf8Valid pw = true) :
    (Code.auth s c args : Server D × Reply D R) = (s, .error .other) := by
  rcases auth_cases (R := R) s c args with ⟨pw, hp, ha, hu, _⟩ | ⟨_, he⟩
  · exact absurd ⟨pw, hp, ha, hu⟩ hbad
  · exact he

/-- … and at the level of a frame of an unauthenticated connection: anything that is not an AUTH with the
    exact password leaves the server exactly as it was (allowed or refused, well-formed or not). -/
theorem unauthenticated_frame_changes_nothing (cfg : Cfg) (hk : cfg.allowKnown = true) (h : Dispatch D R)
    (s : Server D) (c : Nat) (req : Req) (pw : Bytes) (hpw : s.password = some pw)
    (hst : stateOf s.conns c ≠ some .authenticated)
    (hpre : ∀ name args, req = .cmd name args → cfg.normLoop name ∉ cfg.preGate)
    (hno : isExactAuth cfg pw req = false) :
    (Code.processConnectionFrame cfg h s c req).1 = s :=
  (unauth_frame_harmless cfg hk h s c req pw hpw hst hpre).2.2 hno

/-- `handle_auth` called with an id that names no live connection — the substitute id of execution inside EXEC —
    changes nothing, whatever the password: `MULTI; AUTH pw; EXEC` of one connection authenticates nobody else. -/
theorem exec_auth_affects_nobody (s : Server D) (start i : Nat) (args : List Arg)
    (hids : ∀ x ∈ s.conns, start ≤ x.id) (hi : i < start) :
    (Code.auth s i args : Server D × Reply D R).1 = s := by
  have hnone := stateOf_below_start s.conns start i hids hi
  rcases auth_cases (R := R) s i args with ⟨_, _, _, _, he⟩ | ⟨_, he⟩
  · rw [he]; simp [setState_absent _ _ _ hnone]
  · rw [he]

/-- … and it DOES change something as soon as a live connection has that id (ids starting at the substitute id):
    connection 0, which never sent AUTH, is authenticated by somebody else's `handle_auth(parts, 0)`. -/
theorem exec_auth_promotes_live_substitute_id :
    stateOf (Code.auth (R := Unit) ({ witnessServer with conns := [⟨0, .connected⟩, ⟨1, .authenticated⟩] }) 0 [some [112]]).1.conns 0
      = some .authenticated := by decide

/-! ### The password is in force however it was configured -/

/-- A server given a password by ANY supported means — command line (`--requirepass` / `--password`), configuration
    file (`requirepass` line), or both — runs with one: the command line's last value if there is one, else the
    file's last.  (With the password in force, everything above applies.) -/
theorem password_configured_by_any_means (cli file : List Bytes) :
    Code.effectivePassword .ifGiven cli file = Spec.configuredPassword cli file ∧
    ((cli ≠ [] ∨ file ≠ []) → (Code.effectivePassword .ifGiven cli file).isSome = true) := by
  refine ⟨rfl, ?_⟩
  intro h
  unfold Code.effectivePassword
  cases hc : cli.getLast? with
  | some p => rfl
  | none =>
    have hcli : cli = [] := by simpa using hc
    have hf : file ≠ [] := by rcases h with h | h; exact absurd hcli h; exact h
    cases hfl : file.getLast? with
    | some p => rfl
    | none => exact absurd (by simpa using hfl) hf

/-- The configuration file passes a password through UNCHANGED, whatever characters it contains — `#`, `;`, `=`, quotes,
    inner blanks and tabs, backslashes, text that looks like a directive: for every value `v` that the grammar can
    express at all (no white space at either end, as `str::trim` sees it — the two hypotheses), the line
    `requirepass v` yields exactly `v`.  Nothing is cut, unquoted or unescaped. -/
theorem requirepass_line_passes_value_unchanged (v : Bytes)
    (h1 : trim (REQUIREPASS ++ 32 :: v) = REQUIREPASS ++ 32 :: v) (h2 : trim v = v) :
    Code.parseConfigLine false (REQUIREPASS ++ 32 :: v) = some (REQUIREPASS, v) := by
  have hs : splitFirstBlank (REQUIREPASS ++ 32 :: v) = some (REQUIREPASS, v) := by
    simp [REQUIREPASS, splitFirstBlank]
  have ht : (trim REQUIREPASS).map (fun b => if 65 ≤ b ∧ b ≤ 90 then b + 32 else b) = REQUIREPASS := by decide
  unfold Code.parseConfigLine
  simp only [h1]
  rw [if_neg (by simp [REQUIREPASS])]
  simp only [Bool.false_eq_true, if_false, hs, ht, h2]

/-- Non-vacuity, on the values the check writes into files: the hypotheses hold and the value comes through. -/
example :
    ∀ v ∈ [nameBytes "Tr0ub4dor#3x", nameBytes "#lead", nameBytes "a;b", nameBytes "k=v", nameBytes "\"quoted\"", nameBytes "in ner  blanks",
           nameBytes "back\\slash", nameBytes "port 1", nameBytes "requirepass other", [116, 9, 105]],
      trim (REQUIREPASS ++ 32 :: v) = REQUIREPASS ++ 32 :: v ∧ trim v = v ∧
      Code.filePasswords false [REQUIREPASS ++ 32 :: v] = [v] := by decide

/-- … and a value with a blank at an end is not expressible: the file gives the trimmed value. -/
example : Code.filePasswords false [REQUIREPASS ++ 32 :: nameBytes " pw "] = [nameBytes "pw"] := by decide

/-- Witness: a grammar that drops "trailing comments" truncates a password containing `#` — the server then runs with a
    proper prefix of the password it was given, which authenticates, while the exact password is refused. -/
theorem hash_cutting_grammar_truncates_password :
    Code.filePasswords true [REQUIREPASS ++ 32 :: nameBytes "Tr0ub4dor#3x"] = [nameBytes "Tr0ub4dor"] ∧
    Code.filePasswords false [REQUIREPASS ++ 32 :: nameBytes "Tr0ub4dor#3x"] = [nameBytes "Tr0ub4dor#3x"] := by decide

/-- The tree's configuration-file grammar is one of the two modelled ones: the pinned one (directive cut at the first blank, value
    verbatim) or the repaired one (byte-order mark dropped, directive cut at the first white space of any kind; `requirepass` takes
    exactly one argument in redis.conf syntax).  Anything else: the driver predicts nothing for file-configured servers. -/
theorem tree_config_line_grammar :
    (Gen.configLineGrammar = "rest-of-line-trimmed" ∨ Gen.configLineGrammar = "first-whitespace-bom") ∧
    (Gen.requirepassValue = "verbatim" ∨ Gen.requirepassValue = "one-sdssplitargs-argument") := by decide

/-! #### The prescribed grammar (`Grammar.spec`: Redis's reading of a redis.conf line) -/

/-- `config_never_open`.  Under the prescribed grammar, for EVERY configuration text: if any of its lines reads as a `requirepass`
    directive — after an optional byte-order mark and surrounding white space its first word, delimited by white space of any
    kind, is `requirepass` in any letter case — then the server either does not start or runs WITH a password.  No such line, however
    ill-formed (no value, several values, unbalanced quotes, a trailing remark, a TAB as separator, invalid UTF-8 …), and nothing
    that follows it, yields a running open server. -/
theorem config_never_open (pre : List Bytes) (l : Bytes) (post : List Bytes)
    (h : looksLikeRequirepass pre.isEmpty l = true) :
    Code.loadConfig Grammar.spec (pre ++ l :: post) ≠ .running none :=
  loadFrom_never_open Grammar.spec rfl rfl post l pre true none (by simpa using h)

/-- `config_password_is_the_unquoted_value`.  Every password can be written into the file, and what the server then runs with is
    exactly that password: for every byte string `p` (valid UTF-8), the line `requirepass`, a blank or a TAB, and `p` between double
    quotes with everything but printable ASCII escaped as `\xHH` yields the password `p` — the quotes and escapes are not part of it.
    (`h1`, `h2`: the line and the quoted value carry no white space at their ends, as `str::trim` sees it.) -/
theorem config_password_is_the_unquoted_value (p : Bytes) (hp : ∀ b ∈ p, b < 256) (hu : utf8Valid p = true)
    (sep : Nat) (hsep : sep = 32 ∨ sep = 9) (first : Bool)
    (h1 : trim (REQUIREPASS ++ sep :: quoteArg p) = REQUIREPASS ++ sep :: quoteArg p) (h2 : trim (quoteArg p) = quoteArg p) :
    Code.parseLine Grammar.spec first (REQUIREPASS ++ sep :: quoteArg p) = .requirepass p := by
  have hs : splitFirstWs (REQUIREPASS ++ sep :: quoteArg p) = some (REQUIREPASS, quoteArg p) := by
    rcases hsep with rfl | rfl <;> simp [REQUIREPASS, splitFirstWs, wsLen]
  have hb : (List.take 3 (REQUIREPASS ++ sep :: quoteArg p) == BOM) = false := by simp [REQUIREPASS, BOM]
  have hl : lowerAscii REQUIREPASS = REQUIREPASS := by decide
  unfold Code.parseLine Code.prepLine
  simp only [Grammar.spec, hb, Bool.and_false, Bool.false_eq_true, if_false, h1]
  rw [if_neg (by simp [REQUIREPASS])]
  simp only [if_true, hs, hl, h2, splitArgs_quoteArg p hp, hu]

/-- Non-vacuity on the hunter's values: the hypotheses hold and the whole file loads with exactly the password. -/
example :
    ∀ p ∈ [nameBytes "open sesame", nameBytes "s3cret", nameBytes "with \"quotes\" and \\", [195, 169, 9, 1], []],
      trim (REQUIREPASS ++ 9 :: quoteArg p) = REQUIREPASS ++ 9 :: quoteArg p ∧ trim (quoteArg p) = quoteArg p ∧
      Code.loadConfig Grammar.spec [nameBytes "# a comment", REQUIREPASS ++ 9 :: quoteArg p] = .running (some p) := by decide

/-- The prescribed reading of the hunter's lines: TAB separator (with and without later blanks), byte-order mark, double and single
    quotes, blanks inside quotes, escapes → the unquoted value; unbalanced quotes, a trailing remark, no value → no start. -/
example :
    Code.loadConfig Grammar.spec [nameBytes "requirepass\t\"open sesame\""] = .running (some (nameBytes "open sesame")) ∧
    Code.loadConfig Grammar.spec [nameBytes "requirepass\tsecret"] = .running (some (nameBytes "secret")) ∧
    Code.loadConfig Grammar.spec [BOM ++ nameBytes "requirepass open-sesame"] = .running (some (nameBytes "open-sesame")) ∧
    Code.loadConfig Grammar.spec [nameBytes "requirepass \"s3cret\""] = .running (some (nameBytes "s3cret")) ∧
    Code.loadConfig Grammar.spec [nameBytes "REQUIREPASS 's3cret'"] = .running (some (nameBytes "s3cret")) ∧
    Code.loadConfig Grammar.spec [nameBytes "requirepass \"a\\x41\\n\\\"b\""] = .running (some [97, 65, 10, 34, 98]) ∧
    Code.loadConfig Grammar.spec [nameBytes "requirepass \"unterminated"] = .startError ∧
    Code.loadConfig Grammar.spec [nameBytes "requirepass pw # remark"] = .startError ∧
    Code.loadConfig Grammar.spec [nameBytes "requirepass"] = .startError := by decide

/-! #### The pinned grammar (`Grammar.pinned`, the tree before C17_2 / C17_3) -/

/-- `config_never_open` FAILS for the pinned grammar (finding C17-config-directive-cut-at-blank): a `requirepass` line whose separator
    is a TAB and that has a blank further right (inside the quoted password, before a remark), and a first line behind a byte-order
    mark, are cut into an unknown directive, skipped with a warning — and the server runs OPEN.  The same TAB line without any blank
    does not start: the asymmetry is the defect. -/
theorem config_never_open_fails_pinned :
    looksLikeRequirepass true (nameBytes "requirepass\t\"open sesame\"") = true ∧
    Code.loadConfig Grammar.pinned [nameBytes "requirepass\t\"open sesame\""] = .running none ∧
    looksLikeRequirepass true (BOM ++ nameBytes "requirepass open-sesame") = true ∧
    Code.loadConfig Grammar.pinned [BOM ++ nameBytes "requirepass open-sesame"] = .running none ∧
    Code.loadConfig Grammar.pinned [nameBytes "requirepass\tsecret # remark"] = .running none ∧
    Code.loadConfig Grammar.pinned [nameBytes "requirepass\tsecret"] = .startError := by decide

/-- … and it holds again with the two switches of C17_2 alone (directive cut at any white space, byte-order mark dropped), whatever
    the third: for every configuration text, as above. -/
theorem config_never_open_with_anyWs_bom (unquote : Bool) (pre : List Bytes) (l : Bytes) (post : List Bytes)
    (h : looksLikeRequirepass pre.isEmpty l = true) :
    Code.loadConfig ⟨true, true, unquote⟩ (pre ++ l :: post) ≠ .running none :=
  loadFrom_never_open ⟨true, true, unquote⟩ rfl rfl post l pre true none (by simpa using h)

/-- `config_password_is_the_unquoted_value` FAILS for the pinned grammar (finding C17-config-quotes-in-password): the quotes around the
    value stay in the password, so the exact password `s3cret` is refused and the 8-byte string with the quotes authenticates. -/
theorem config_quotes_stay_in_password_pinned :
    Code.loadConfig Grammar.pinned [nameBytes "requirepass \"s3cret\""] = .running (some (nameBytes "\"s3cret\"")) ∧
    Code.loadConfig Grammar.spec [nameBytes "requirepass \"s3cret\""] = .running (some (nameBytes "s3cret")) ∧
    Code.loadConfig Grammar.pinned [nameBytes "requirepass 'two words'"] = .running (some (nameBytes "'two words'")) := by decide

/-- `_partial`: where the pinned grammar already agrees with the prescribed one — a blank as separator and a plain word as value (one
    `sdssplitargs` argument that is the text itself: no quotes, no backslash-escapes, no white space), not on a first line with a
    byte-order mark. -/
theorem config_pinned_agrees_on_plain_values (v : Bytes) (first : Bool)
    (h1 : trim (REQUIREPASS ++ 32 :: v) = REQUIREPASS ++ 32 :: v) (h2 : trim v = v)
    (h3 : splitArgs v = some [v]) (hu : utf8Valid v = true) :
    Code.parseLine Grammar.pinned first (REQUIREPASS ++ 32 :: v) = .requirepass v ∧
    Code.parseLine Grammar.spec first (REQUIREPASS ++ 32 :: v) = .requirepass v := by
  have hs : splitFirstWs (REQUIREPASS ++ 32 :: v) = some (REQUIREPASS, v) := by simp [REQUIREPASS, splitFirstWs, wsLen]
  have hs' : splitFirstBlank (REQUIREPASS ++ 32 :: v) = some (REQUIREPASS, v) := by simp [REQUIREPASS, splitFirstBlank]
  have hb : (List.take 3 (REQUIREPASS ++ 32 :: v) == BOM) = false := by simp [REQUIREPASS, BOM]
  have hl : lowerAscii REQUIREPASS = REQUIREPASS := by decide
  have ht : lowerAscii (trim REQUIREPASS) = REQUIREPASS := by decide
  constructor
  · unfold Code.parseLine Code.prepLine
    simp only [Grammar.pinned, Bool.false_and, Bool.false_eq_true, if_false, h1]
    rw [if_neg (by simp [REQUIREPASS])]
    simp only [hs', ht, h2, if_true]
  · unfold Code.parseLine Code.prepLine
    simp only [Grammar.spec, hb, Bool.and_false, Bool.false_eq_true, if_false, h1]
    rw [if_neg (by simp [REQUIREPASS])]
    simp only [if_true, hs, hl, h2, h3, hu]

/-- Witness: assigning the command line's `Option` unconditionally wipes a password that only the file gives. -/
theorem cli_always_rule_wipes_file_password :
    Code.effectivePassword .always [] [[112]] = none ∧ Spec.configuredPassword [] [[112]] = some [112] := by decide

/-! ### Allowed commands are harmless -/

/-- `allowed_are_harmless`.  Whatever an unauthenticated connection sends — PING, QUIT, a failed or a
    successful AUTH, anything refused — the dataset, the subscription table, the replica table, the monitor
    table and the password are untouched and every OTHER connection keeps its state.  (Outside the pre-gate
    special cases; the only thing that can change is the caller's own connection state.) -/
theorem allowed_are_harmless (cfg : Cfg) (hk : cfg.allowKnown = true) (h : Dispatch D R)
    (s : Server D) (c : Nat) (req : Req) (pw : Bytes) (hpw : s.password = some pw)
    (hst : stateOf s.conns c ≠ some .authenticated)
    (hpre : ∀ name args, req = .cmd name args → cfg.normLoop name ∉ cfg.preGate) :
    sameData s (Code.processConnectionFrame cfg h s c req).1 ∧
    ∀ b, b ≠ c → stateOf (Code.processConnectionFrame cfg h s c req).1.conns b = stateOf s.conns b :=
  ⟨(unauth_frame_harmless cfg hk h s c req pw hpw hst hpre).1,
   (unauth_frame_harmless cfg hk h s c req pw hpw hst hpre).2.1⟩

/-- PING answers `+PONG` or the client's own argument, QUIT answers `+OK`; neither changes anything
    (QUIT closes the connection at the end of the batch: `Code.processBatch`). -/
theorem ping_quit_replies (h : Dispatch D R) (s : Server D) (c : Nat) (args : List Arg)
    (hpw : s.password.isSome = true) (hc : stateOf s.conns c = some .connected) :
    Code.processFrame tree h s c (.cmd PING args) = (s, Code.ping args) ∧
    Code.processFrame tree h s c (.cmd QUIT args) = (s, .ok) := by
  have hg : s.password.isSome ∧ CState.connected ≠ CState.authenticated := by simp [hpw]
  have h1 : findArm tree.allow (tree.normFrame PING) = some .ping := by decide
  have h2 : findArm tree.allow (tree.normFrame QUIT) = some .okOnly := by decide
  constructor
  · unfold Code.processFrame; simp only [hc]; rw [if_pos hg, h1]
  · unfold Code.processFrame; simp only [hc]; rw [if_pos hg, h2]

/-! ### Authentication is per connection -/

/-- `auth_is_per_connection`.  In ANY history of the event loop — batches of any connections in any
    interleaving, accepts, wake-ups, closes, drops; other connections may authenticate and then do whatever
    dispatch allows — a connection `b` that starts unauthenticated and never itself presents the exact
    password is never `Authenticated` (nor `Blocked`, from which a wake-up would promote it). -/
theorem auth_is_per_connection (cfg : Cfg) {h : Dispatch D R} (hh : Honest h) (s : Server D) (pw : Bytes)
    (hpw : s.password = some pw) (b : Nat) (hb : low (stateOf s.conns b))
    (evs : List Code.Event) (hno : neverAuthenticates cfg pw b evs) :
    low (stateOf (Code.run cfg h s evs).1.conns b) ∧ (Code.run cfg h s evs).1.password = some pw :=
  ⟨(run_low hh pw b evs hno s hpw hb).2, (run_low hh pw b evs hno s hpw hb).1⟩

/-- Non-vacuity (and a computed instance): connection 1 exists unauthenticated, 2 is accepted, authenticates
    with the exact password and works; 1 meanwhile sends a refused command, a wrong password (a prefix) and
    a PING, and 2 sends QUIT.  Afterwards 1 is still `Connected`, 2 is `Closing`, and 1's replies are
    NOAUTH, an error, PONG (2's SET and QUIT go through dispatch: it passed the gate). -/
example :
    let evs : List Code.Event :=
      [.accept 2, .batch 2 [.cmd [97, 117, 116, 104] [some [112]]], .batch 1 [.cmd [71, 69, 84] [some [107]], .cmd AUTH [some []], .cmd PING []],
       .batch 2 [.cmd [83, 69, 84] [some [107], some [120]], .cmd QUIT []], .wake 1]
    neverAuthenticates tree [112] 1 evs ∧
    stateOf (Code.run tree noDispatch witnessServer evs).1.conns 1 = some .connected ∧
    stateOf (Code.run tree noDispatch witnessServer evs).1.conns 2 = some .closing ∧
    (Code.run tree noDispatch witnessServer evs).2 =
      [[], [.ok], [.error .noauth, .error .other, .pong], [.dispatched (), .dispatched ()], []] := by
  refine ⟨?_, by decide, by decide, rfl⟩
  intro reqs hm r hr
  simp only [List.mem_cons, List.mem_nil_iff, or_false] at hm
  rcases hm with hm | hm | hm | hm | hm
  · simp at hm
  · simp at hm
  · obtain rfl : reqs = [.cmd [71, 69, 84] [some [107]], .cmd AUTH [some []], .cmd PING []] := by simpa using hm
    simp only [List.mem_cons, List.mem_nil_iff, or_false] at hr
    rcases hr with rfl | rfl | rfl <;> decide
  · simp at hm
  · simp at hm

/-- The two-connection instance the property names: `a` authenticates with the exact password; `b` stays
    exactly as it was. -/
theorem auth_of_a_leaves_b (h : Dispatch D R) (s : Server D) (a b : Nat) (hab : b ≠ a) (pw : Bytes)
    (hpw : s.password = some pw) (hutf : utf8Valid pw = true) (ha : stateOf s.conns a = some .connected) :
    let s' := (Code.processConnectionFrame tree h s a (.cmd AUTH [some pw])).1
    stateOf s'.conns a = some .authenticated ∧ stateOf s'.conns b = stateOf s.conns b := by
  intro s'
  constructor
  · exact (only_exact_password_tree h s a AUTH [some pw] pw hpw hutf ha (by decide) (by decide)).2 rfl
  · have hst : stateOf s.conns a ≠ some .authenticated := by rw [ha]; simp
    refine (allowed_are_harmless tree tree_allow_known h s a _ pw hpw hst ?_).2 b hab
    intro name args hr hm
    have : name = AUTH := by cases hr; rfl
    subst this
    exact absurd (tree_preGate_within _ hm) (by decide)

/-- Non-vacuity of `Honest`: the key-space dispatch used by the driver is honest. -/
theorem ksDispatch_honest (q : KS.Quirks) (now : Nat) : Honest (ksDispatch q now) := by
  constructor
  · intro s c n a
    unfold ksDispatch
    split <;> rfl
  · intro s c n a b hb
    unfold ksDispatch
    split <;> exact hb

/-! ### Pipelines -/

/-- `pipeline_position_irrelevant`.  In a pipeline `pre ++ [cmd] ++ post` of an unauthenticated connection in
    which nothing before `cmd` presents the exact password, a command outside the allow-list (and outside the
    pre-gate special cases) is answered with an error at its own position, and everything else — the final
    server state and every other reply — is exactly what the pipeline without it produces. -/
theorem pipeline_position_irrelevant (cfg : Cfg) {h : Dispatch D R} (hh : Honest h) (s : Server D) (c : Nat)
    (pw : Bytes) (hpw : s.password = some pw) (hc : low (stateOf s.conns c))
    (pre post : List Req) (hpreq : ∀ r ∈ pre, isExactAuth cfg pw r = false)
    (name : Bytes) (args : List Arg)
    (hallow : cfg.normFrame name ∉ cfg.allow.map (·.1)) (hpg : cfg.normLoop name ∉ cfg.preGate) :
    ∃ k, Code.runFrames cfg h s c (pre ++ .cmd name args :: post) =
      ((Code.runFrames cfg h s c (pre ++ post)).1,
       (Code.runFrames cfg h s c pre).2 ++ .error k ::
         (Code.runFrames cfg h (Code.runFrames cfg h s c pre).1 c post).2) := by
  have hl := runFrames_low (cfg := cfg) hh c pw c pre (fun _ => hpreq) s hpw hc
  obtain ⟨k, hk⟩ := gate_refuses cfg h (Code.runFrames cfg h s c pre).1 c name args
    (by rw [hl.1]; rfl) (low_not_auth hl.2) hallow hpg
  refine ⟨k, ?_⟩
  rw [runFrames_append, runFrames_append]
  simp only [Code.runFrames, hk]

/-- Non-vacuity: `PING; GET canary; PING x` from the fresh connection of the witness server. -/
example :
    Code.runFrames tree noDispatch witnessServer 1 [.cmd PING [], .cmd [71, 69, 84] [some [107]], .cmd PING [some [120]]]
      = (witnessServer, [.pong, .error .noauth, .echo (some [120])]) := rfl

/-- `deferral_needs_authentication`.  The loop that stops at a command that blocked and keeps the rest of the
    batch for later never keeps anything back for a connection that has not authenticated: such a connection
    cannot block, so its whole pipeline is answered at once, exactly as by the plain loop — in particular
    `BLPOP k 0; GET secret` of an unauthenticated connection is two refusals, not a parked GET. -/
theorem deferral_needs_authentication (cfg : Cfg) {h : Dispatch D R} (hh : Honest h) (s : Server D) (c : Nat)
    (pw : Bytes) (hpw : s.password = some pw) (hc : low (stateOf s.conns c))
    (reqs : List Req) (hno : ∀ r ∈ reqs, isExactAuth cfg pw r = false)
    (hq : cfg.quitEndsBatch = true → ∀ r ∈ reqs, Code.isQuit cfg r = false) :
    Code.runFramesD cfg h s c reqs = ((Code.runFrames cfg h s c reqs).1, (Code.runFrames cfg h s c reqs).2, []) :=
  runFramesD_low hh c pw reqs hno hq s hpw hc

/-- `nothing_runs_behind_quit`.  QUIT ends the batch: whatever follows it in the same read — any number of frames, any
    commands — is neither executed nor answered: the state and the replies are exactly those of the read cut behind the
    QUIT.  This holds for EVERY connection, authenticated or not, every dispatch and whatever precedes the QUIT; in
    particular no command parked behind a QUIT can run before (or after) authentication. -/
theorem nothing_runs_behind_quit (cfg : Cfg) (hq : cfg.quitEndsBatch = true) (h : Dispatch D R) (s : Server D) (c : Nat)
    (pre : List Req) (q : Req) (hquit : Code.isQuit cfg q = true) (post : List Req) :
    (Code.runFramesD cfg h s c (pre ++ q :: post)).1 = (Code.runFramesD cfg h s c (pre ++ [q])).1 ∧
    (Code.runFramesD cfg h s c (pre ++ q :: post)).2.1 = (Code.runFramesD cfg h s c (pre ++ [q])).2.1 ∧
    (Code.runFramesD cfg h s c (pre ++ q :: post)).2.1.length ≤ pre.length + 1 := by
  have h1 := runFramesD_behind_quit cfg hq h c q hquit post pre s
  refine ⟨h1.1, h1.2, ?_⟩
  rw [h1.2]
  have := runFramesD_replies_length_le cfg h c (pre ++ [q]) s
  simpa using this

/-- The tree ends the batch at QUIT (`Gen.quitEndsBatch`), and `process_frame` no longer trims the name, so that the frame
    loop (QUIT, the pre-gate special cases), the gate and the dispatch all see the same name. -/
theorem tree_quit_ends_batch_and_names_agree : Gen.quitEndsBatch = true ∧ Gen.frameNameTrimmed = false := by decide

/-- With one normalisation everywhere, a name that the gate lets through as QUIT is the name that ends the batch and closes
    the connection, and a name with white space around it is neither (it is refused like any unknown command). -/
theorem tree_gate_and_loop_see_the_same_name (name : Bytes) : tree.normFrame name = tree.normLoop name := by
  show Code.normFrame Gen.frameNameTrimmed name = Code.normLoop name
  have : Gen.frameNameTrimmed = false := by decide
  rw [this]; rfl

/-- Computed on the tree: `PING; QUIT; GET canary; SYNC; PING` from the fresh connection of the witness server answers
    PONG and +OK and nothing else; the connection is closing; and ` QUIT` / `quit ` (blanks) are refused, do not close. -/
example :
    Code.processBatch tree noDispatch witnessServer 1
        [.cmd PING [], .cmd [113, 117, 105, 116] [], .cmd [71, 69, 84] [some [107]], .cmd SYNC [], .cmd PING []]
      = ({ witnessServer with conns := [⟨1, .closing⟩] }, [.pong, .ok]) ∧
    Code.processBatch tree noDispatch witnessServer 1 [.cmd [32, 81, 85, 73, 84] [], .cmd [113, 117, 105, 116, 32] [], .cmd PING []]
      = (witnessServer, [.error .noauth, .error .noauth, .pong]) := ⟨rfl, rfl⟩

/-- Non-vacuity of the deferring loop: an authenticated connection whose BLPOP blocks keeps the rest back. -/
example :
    let h : Dispatch Nat Unit := fun s c n _ =>
      (if n = [66] then { s with conns := setState s.conns c .blocked } else s, ())
    let s : Server Nat := { password := some [112], conns := [⟨1, .authenticated⟩], store := 0, subs := [], replicas := [], monitors := [] }
    (Code.runFramesD tree h s 1 [.cmd [71] [], .cmd [66] [], .cmd [71] [], .cmd PING []]).2.2 = [.cmd [71] [], .cmd PING []] := by
  decide

/-- The refused command's reply sits at index `pre.length` of the reply list. -/
theorem pipeline_reply_at_position (cfg : Cfg) {h : Dispatch D R} (hh : Honest h) (s : Server D) (c : Nat)
    (pw : Bytes) (hpw : s.password = some pw) (hc : low (stateOf s.conns c))
    (pre post : List Req) (hpreq : ∀ r ∈ pre, isExactAuth cfg pw r = false)
    (name : Bytes) (args : List Arg)
    (hallow : cfg.normFrame name ∉ cfg.allow.map (·.1)) (hpg : cfg.normLoop name ∉ cfg.preGate) :
    ∃ k, (Code.runFrames cfg h s c (pre ++ .cmd name args :: post)).2[pre.length]? = some (.error k) := by
  obtain ⟨k, hk⟩ := pipeline_position_irrelevant cfg hh s c pw hpw hc pre post hpreq name args hallow hpg
  refine ⟨k, ?_⟩
  have hlen : ∀ (l : List Req) (s : Server D), (Code.runFrames cfg h s c l).2.length = l.length := by
    intro l
    induction l with
    | nil => intro s; rfl
    | cons x xs ih => intro s; simp [Code.runFrames, ih]
  rw [hk]
  simp [hlen]

/-! ### The property -/

/-- `no_access_without_auth` — the FULL statement, for the repaired order of processing (`preGate = []`:
    nothing is handled before the gate).  After ANY history in which connection `b` started unauthenticated
    and never presented the exact password — whatever other connections did meanwhile, including
    authenticating, subscribing, running transactions and scripts — EVERY request of `b` whose name is not on
    the allow-list, with any arguments, and every malformed request, is answered with an error and leaves
    the server state exactly as it was. -/
theorem no_access_without_auth (cfg : Cfg) (hfix : cfg.preGate = []) {h : Dispatch D R} (hh : Honest h)
    (s : Server D) (pw : Bytes) (hpw : s.password = some pw) (b : Nat) (hb : low (stateOf s.conns b))
    (evs : List Code.Event) (hno : neverAuthenticates cfg pw b evs)
    (req : Req) (hreq : ∀ name args, req = .cmd name args → cfg.normFrame name ∉ cfg.allow.map (·.1)) :
    ∃ k, Code.processConnectionFrame cfg h (Code.run cfg h s evs).1 b req = ((Code.run cfg h s evs).1, .error k) := by
  have hl := run_low hh pw b evs hno s hpw hb
  match req with
  | .badName => exact ⟨.other, rfl⟩
  | .notArray => exact ⟨.other, rfl⟩
  | .cmd name args =>
    exact gate_refuses cfg h _ b name args (by rw [hl.1]; rfl) (low_not_auth hl.2) (hreq name args rfl)
      (by rw [hfix]; simp)

/-- `no_access_without_auth_partial` — the same for ANY order of processing, in particular the current
    tree's, with the explicit exclusion: the request's name is not one of those handled before the gate. -/
theorem no_access_without_auth_partial (cfg : Cfg) {h : Dispatch D R} (hh : Honest h)
    (s : Server D) (pw : Bytes) (hpw : s.password = some pw) (b : Nat) (hb : low (stateOf s.conns b))
    (evs : List Code.Event) (hno : neverAuthenticates cfg pw b evs)
    (req : Req) (hreq : ∀ name args, req = .cmd name args → cfg.normFrame name ∉ cfg.allow.map (·.1))
    (hdev : ∀ name args, req = .cmd name args → cfg.normLoop name ∉ cfg.preGate) :
    ∃ k, Code.processConnectionFrame cfg h (Code.run cfg h s evs).1 b req = ((Code.run cfg h s evs).1, .error k) := by
  have hl := run_low hh pw b evs hno s hpw hb
  match req with
  | .badName => exact ⟨.other, rfl⟩
  | .notArray => exact ⟨.other, rfl⟩
  | .cmd name args =>
    exact gate_refuses cfg h _ b name args (by rw [hl.1]; rfl) (low_not_auth hl.2) (hreq name args rfl)
      (hdev name args rfl)

/-- The partial statement for the tree as regenerated, with the lists spelled out: a request whose name does
    not normalise to AUTH / PING / QUIT nor (current tree) to SYNC / PSYNC is refused without effect after
    any history.  Once `Gen.preGate = []` the last hypothesis is vacuous (`no_access_without_auth_tree_fixed`). -/
theorem no_access_without_auth_tree_partial {h : Dispatch D R} (hh : Honest h)
    (s : Server D) (pw : Bytes) (hpw : s.password = some pw) (b : Nat) (hb : low (stateOf s.conns b))
    (evs : List Code.Event) (hno : neverAuthenticates tree pw b evs)
    (name : Bytes) (args : List Arg)
    (hreq : treeNormFrame name ∉ [AUTH, PING, QUIT]) (hdev : Code.normLoop name ∉ [SYNC, PSYNC]) :
    ∃ k, Code.processConnectionFrame tree h (Code.run tree h s evs).1 b (.cmd name args)
          = ((Code.run tree h s evs).1, .error k) := by
  refine no_access_without_auth_partial tree hh s pw hpw b hb evs hno _ ?_ ?_
  · intro n a hr; cases hr; rw [tree_allow_names]; exact hreq
  · intro n a hr hm; cases hr; exact hdev (tree_preGate_within _ hm)

/-- The full statement for the tree, conditional on what the translator will report once the special case is
    guarded (`Gen.preGate = []`; the guarded names then appear in `Gen.preGateGuarded`). -/
theorem no_access_without_auth_tree_fixed (hfix : Gen.preGate = []) {h : Dispatch D R} (hh : Honest h)
    (s : Server D) (pw : Bytes) (hpw : s.password = some pw) (b : Nat) (hb : low (stateOf s.conns b))
    (evs : List Code.Event) (hno : neverAuthenticates tree pw b evs)
    (name : Bytes) (args : List Arg) (hreq : treeNormFrame name ∉ [AUTH, PING, QUIT]) :
    ∃ k, Code.processConnectionFrame tree h (Code.run tree h s evs).1 b (.cmd name args)
          = ((Code.run tree h s evs).1, .error k) := by
  refine no_access_without_auth tree ?_ hh s pw hpw b hb evs hno _ ?_
  · simp [tree, Cfg.ofTables, hfix]
  · intro n a hr; cases hr; rw [tree_allow_names]; exact hreq

/-! ### Witness: the pinned order of processing violates the full statement -/

/-- Whatever the state of the connection and whatever the password: a name that normalises to SYNC in the
    connection loop, when SYNC is special-cased before the gate, gets the image of the WHOLE dataset and the
    connection is registered as a replica (it then receives every later write). -/
theorem sync_before_gate_leaks (cfg : Cfg) (h : Dispatch D R) (s : Server D) (c : Nat) (name : Bytes) (args : List Arg)
    (hn : cfg.normLoop name = SYNC) (hpre : SYNC ∈ cfg.preGate) :
    Code.processConnectionFrame cfg h s c (.cmd name args) = (Code.registerReplica s c, .fullResync s.store) ∧
    c ∈ (Code.registerReplica s c).replicas := by
  unfold Code.processConnectionFrame
  simp only [hn, hpre, if_true]
  refine ⟨by simp [Code.syncCommand], ?_⟩
  unfold Code.registerReplica
  by_cases hc : c ∈ s.replicas <;> simp [hc]

/-- The witness, computed: on the pinned order of processing the fresh connection's `SYNC` (or `sync`, or
    `ſync` — U+017F upper-cases to `S`) and `PSYNC ? -1` receive the dataset with the canary in it and
    register the connection as a replica; the same connection's `GET` is refused, and so is `SYNC` under the
    repaired order. -/
theorem sync_leaks_unauthenticated :
    Code.processConnectionFrame Cfg.pinned noDispatch witnessServer 1 (.cmd SYNC [])
      = ({ witnessServer with replicas := [1] }, .fullResync witnessServer.store) ∧
    Code.processConnectionFrame Cfg.pinned noDispatch witnessServer 1 (.cmd [115, 121, 110, 99] [])
      = ({ witnessServer with replicas := [1] }, .fullResync witnessServer.store) ∧
    Code.processConnectionFrame Cfg.pinned noDispatch witnessServer 1 (.cmd [197, 191, 121, 110, 99] [])
      = ({ witnessServer with replicas := [1] }, .fullResync witnessServer.store) ∧
    Code.processConnectionFrame Cfg.pinned noDispatch witnessServer 1 (.cmd PSYNC [some [63], some [45, 49]])
      = ({ witnessServer with replicas := [1] }, .fullResync witnessServer.store) ∧
    Code.processConnectionFrame Cfg.pinned noDispatch witnessServer 1 (.cmd [71, 69, 84] [some [107]])
      = (witnessServer, .error .noauth) ∧
    Code.processConnectionFrame Cfg.pinned.repaired noDispatch witnessServer 1 (.cmd SYNC [])
      = (witnessServer, .error .noauth) :=
  ⟨rfl, rfl, rfl, rfl, rfl, rfl⟩

/-- `no_access_without_auth` FAILS for the pinned order of processing: there are a password-protected
    server, an unauthenticated connection that never presented the password, and a request outside the
    allow-list that is NOT answered with an error. -/
theorem no_access_without_auth_fails_pinned :
    ¬ ∀ (s : Server KS.Store) (pw : Bytes), s.password = some pw → ∀ b, low (stateOf s.conns b) →
        ∀ (req : Req), (∀ name args, req = .cmd name args → Cfg.pinned.normFrame name ∉ Cfg.pinned.allow.map (·.1)) →
          ∃ k, Code.processConnectionFrame Cfg.pinned noDispatch s b req = (s, .error k) := by
  intro hall
  obtain ⟨k, hk⟩ := hall witnessServer [112] rfl 1 (by decide) (.cmd SYNC [])
    (by intro name args hr; cases hr; decide)
  rw [sync_leaks_unauthenticated.1] at hk
  exact absurd (congrArg Prod.snd hk) (by simp)

/-- The pinned order of processing is the current tree's (breaks — harmlessly — once the fix is applied; the
    check reads the lists from the driver, not from this lemma). -/
theorem tree_is_pinned_or_repaired :
    (tree.preGate = Cfg.pinned.preGate ∨ tree.preGate = []) ∧ tree.allow = Cfg.pinned.allow := by decide

end Ferrous.C17
