/-
  C20 — the RESP codec round-trips and is independent of how bytes are chunked.

  Property theorems only; helper lemmas live in FerrousSpec/Proofs/Resp*.lean.
  Model: FerrousSpec/Model/Resp.lean (transliteration of src/protocol/{parser,serializer}.rs).
  Tie to the code: `Gen.pingFix` / `Gen.reserveCapped` are regenerated from parser.rs on every
  run, and the harness executes `ser`, `parseBytes`, `runChunks` and the real
  `serialize_to_vec`, `parse_resp_frame`, `RespParser` on the same inputs.
-/
import FerrousSpec.Proofs.RespRoundtrip
import FerrousSpec.Proofs.RespStream
import FerrousSpec.Proofs.RespReserve
import FerrousSpec.Gen.Consts
namespace Ferrous.C20
open Ferrous

/-- (1) Serialising any well-formed RESP value and parsing the bytes, followed by any other
    bytes, gives back the same value and leaves exactly what followed
    (i.e. consumes exactly `(ser f).length` bytes). -/
theorem roundtrip (f : Frame) (hw : wf f = true) (hd : f.depth ≤ maxNesting + 1) (rest : Bytes) :
    parseBytes (ser f ++ rest) = .ok f rest :=
  parseBytes_ser f hw hd rest

/-- (1') the same for a whole reply stream: the incremental parser fed `ser f` in one piece
    from a clean state yields exactly `f` when `f` does not begin like an inline PING or
    whitespace — stated for the frames the server actually emits (type byte first). -/
theorem roundtrip_consumes_exactly (f : Frame) (hw : wf f = true) (hd : f.depth ≤ maxNesting + 1) :
    parseBytes (ser f) = .ok f [] := by
  have := parseBytes_ser f hw hd []
  simpa using this

/-- (1'') Error and simple-string replies frame correctly whatever bytes their payload carries
    (CR/LF included): they parse back as one frame, payload with CR/LF replaced by spaces. -/
theorem line_replies_always_frame (b rest : Bytes) :
    parseBytes (ser (.error b) ++ rest) = .ok (.error (sanitizeLine b)) rest ∧
    parseBytes (ser (.simple b) ++ rest) = .ok (.simple (sanitizeLine b)) rest :=
  line_reply_frames b rest

/-- (2) A frame or an error, once reported for a buffer, is reported identically when more
    bytes have arrived; only "need more data" may change. -/
theorem prefix_stable (d e : Bytes) :
    (∀ f r, parseBytes d = .ok f r → parseBytes (d ++ e) = .ok f (r ++ e)) ∧
    (parseBytes d = .err → parseBytes (d ++ e) = .err) := by
  constructor
  · intro f r h
    have := parseBytes_append d e (by simp [h])
    simpa [h, Res.ext] using this
  · intro h
    have := parseBytes_append d e (by simp [h])
    simpa [h, Res.ext] using this

/-- Nesting limit: every frame the parser returns has at most `MAX_NESTING` containers around a
    scalar — the recursion of the parser (one level per container) is bounded whatever the input,
    and frames nested deeper are refused with an error, never a stack overflow. -/
theorem nesting_bounded (d : Bytes) (f : Frame) (r : Bytes) (h : parseBytes d = .ok f r) :
    f.depth ≤ maxNesting + 1 :=
  parseFrame_depth _ d f r h

/-- … and the refusal is an error reported at once, stable under more input. -/
theorem too_deep_is_error (d : Bytes) : parseFrame 0 d = .err := by
  cases d <;> rfl

/-- (3) Feeding a byte stream to the incremental parser in any chunking yields the same
    sequence of frames and errors as feeding it whole (fixed parser: `pingFix = true`). -/
theorem chunking_independent (cs : List Bytes) :
    runChunks true [] cs = runWhole true cs.flatten := by
  suffices h : ∀ (cs : List Bytes) (buf : Bytes), parserParse true buf = (.none, buf) →
      ∀ m, (buf ++ cs.flatten).length < m →
        runChunks true buf cs = (drainF true m (buf ++ cs.flatten)).1 by
    have := h cs [] (by simp [parserParse]) (cs.flatten.length + 1) (by simp)
    simpa [runWhole, drain] using this
  intro cs
  induction cs with
  | nil =>
    intro buf hrest m hm
    cases m with
    | zero => omega
    | succ m => simp [runChunks, drainF_none hrest]
  | cons c cs ih =>
    intro buf hrest m hm
    simp only [List.flatten_cons, ← List.append_assoc] at hm ⊢
    have happ := drainF_append ((buf ++ c).length + 1) (buf ++ c) cs.flatten (by omega) m hm
    unfold runChunks drain
    cases hd : drainF true ((buf ++ c).length + 1) (buf ++ c) with
    | mk evs rest =>
      obtain ⟨b', e⟩ := rest
      rw [hd] at happ
      simp only at happ ⊢
      cases e with
      | true => simp only [if_true]; exact (happ.1 rfl).symm
      | false =>
        have hres := drainF_resting _ _ (by omega) evs b' hd
        simp only [Bool.false_eq_true, if_false]
        rw [ih b' hres ((b' ++ cs.flatten).length + 1) (by omega)]
        exact (happ.2 rfl _ (by omega)).symm

/-- (4) A parsed frame never claims more bytes than were given (no out-of-bounds slice),
    and always makes progress. -/
theorem consumed_bounded (d : Bytes) (f : Frame) (r : Bytes) (h : parseBytes d = .ok f r) :
    r.length + 3 ≤ d.length :=
  parseFrame_shrinks _ d f r h

/-- (5) With container sizing capped by the bytes received, no `Vec::with_capacity` request
    made while parsing `d` exceeds `2·|d|` frame slots, whatever lengths `d` declares. -/
theorem reserve_bounded (d : Bytes) : reserveOf true (maxNesting + 1) d ≤ 2 * d.length :=
  reserveOf_capped_le _ d

/-- (5b) … and none exceeds a constant (`2·reserveMax` slots), however much is buffered: a chain of nested headers
    each declaring 10⁸ elements in front of a megabyte of unfinished payload reserves at most
    `(maxNesting + 1) · 2 · reserveMax` slots in all, not a multiple of the buffered bytes per level. -/
theorem reserve_bounded_by_constant (d : Bytes) : reserveOf true (maxNesting + 1) d ≤ 2 * reserveMax :=
  reserveOf_capped_le_const _ d

/-- Tie to the code: the regenerated switches say that /repo's parser is the fixed one, so
    (3) and (5) speak about the current tree.  Fails to check if either repair is absent. -/
theorem tree_has_ping_fix : Gen.pingFix = true := by decide
theorem tree_sanitizes_lines : Gen.lineSanitized = true := by decide
theorem tree_nesting_limit : Gen.maxNesting = maxNesting := by decide
theorem tree_caps_reserve : Gen.reserveCapped = true ∧ Gen.reserveMax = reserveMax := by decide

/-! ### Witnesses: the two statements are false for the parser as pinned -/

/-- Without the repair, `["PI","NG"]` and `["PING"]` are parsed differently. -/
theorem chunking_fails_without_ping_fix :
    runChunks false [] [[80, 73], [78, 71]] = [.err] ∧
    runWhole false [80, 73, 78, 71] = [.frame pingFrame] := by
  constructor <;> rfl

/-- Without the cap, `*9223372036854775807\r\n` requests 2^63-1 slots for 22 bytes. -/
theorem reserve_unbounded_without_cap :
    reserveOf false 23 [42, 57,50,50,51,51,55,50,48,51,54,56,53,52,55,55,53,56,48,55, 13, 10] = 9223372036854775807 := by
  decide

/-! ### Non-vacuity: concrete non-trivial instances of the hypotheses -/

example : wf (.array [.bulk [80, 73, 78, 71], .int (-5), .map [.simple [97], .nullBulk], .double [49, 46, 53]]) = true := by decide
example : runWhole true [43, 79, 75, 13, 10, 80, 73, 78, 71, 13, 10, 63] =
    [.frame (.simple [79, 75]), .frame pingFrame, .err] := by rfl
example : parseBytes [42, 49, 13, 10, 58, 55, 13, 10, 88] = .ok (.array [.int 7]) [88] := by rfl
example : runChunks true [] [[43, 79], [75, 13], [10, 80, 73], [78, 71]] =
    [.frame (.simple [79, 75]), .frame pingFrame] := by rfl

end Ferrous.C20
