/-
  C03 — list, set and hash commands follow the Redis reference semantics.

  Same machine as C01 (`KS.step`, Model/Keyspace.lean).  Property theorems only.
-/
import FerrousSpec.Props.C01
set_option linter.unusedSimpArgs false
namespace Ferrous.C03
open Ferrous Ferrous.KS Ferrous.C01

/-- (1) Refused commands (wrong type, index out of range, non-integer field, bad arity) change nothing. -/
theorem refused_changes_nothing (q : Quirks) (s : Store) (i now : Nat) (cmd : List Bytes) (obs : Option (List Bytes))
    (h : isErr (step q s i now cmd obs).2 = true) :
    (step q s i now cmd obs).1 = s ∨ (step q s i now cmd obs).1 = setDb s i (purge now (getDb s i)) :=
  step_atomic q s i now cmd obs h

/-- (2) After any history, a key never holds an empty list, set or hash (a collection that becomes
    empty ceases to exist as a key), sets hold unique members and hashes unique fields. -/
theorem no_empty_collection_unique_members (q : Quirks) (ops : List Op) (j : Nat) (k : Bytes) (e : Entry)
    (h : lookup (getDb (run q emptyStore ops) j) k = some e) :
    match e.val with
    | .list xs => xs ≠ []
    | .set xs => xs ≠ [] ∧ xs.Nodup
    | .hash fs => fs ≠ [] ∧ (fs.map (·.1)).Nodup
    | _ => True := by
  have hok := getDb_ok (reachable_wellformed q ops) j
  have := lookup_valOk hok h
  cases hv : e.val <;> simp [hv, valOk] at this ⊢ <;> exact this

/-! ### Lists -/

/-- LRANGE/LTRIM never select outside the list, for all integer bounds. -/
theorem lrange_in_bounds (len : Nat) (s e : Int) (a c : Nat) (h : lrangeSel len s e = some (a, c)) :
    a ≤ c ∧ c < len := by
  unfold lrangeSel at h
  simp only [] at h
  repeat' split at h
  all_goals first | (simp at h; done) | (simp at h; omega)

/-- A stop that lies before the first element selects nothing (the clamp the pinned code got wrong). -/
theorem lrange_stop_before_start_empty (len : Nat) (s e : Int) (hs : 0 ≤ s) (he : e < 0) (h : (len : Int) + e < s) :
    lrangeSel len s e = none := by
  unfold lrangeSel
  simp only []
  repeat' split
  all_goals first | rfl | omega | (simp; omega)

/-- LRANGE 0 -1 is the whole list. -/
theorem lrange_full (xs : List Bytes) : slice xs (lrangeSel xs.length 0 (-1)) = xs := by
  by_cases h : xs.length = 0
  · have : xs = [] := List.length_eq_zero_iff.mp h
    subst this; simp [slice, lrangeSel]
  · have hsel : lrangeSel xs.length 0 (-1) = some (0, xs.length - 1) := by
      unfold lrangeSel
      simp only []
      repeat' split
      all_goals first | omega | (simp; omega)
    rw [hsel]
    simp only [slice, List.drop_zero]
    apply List.take_of_length_le
    omega

/-- RPUSH appends in argument order, LPUSH prepends in reverse argument order; the reply is the new length. -/
theorem push_order (db : Db) (k v : Bytes) (vs xs : List Bytes) (d : Option Nat)
    (h : lookup db k = some ⟨.list xs, d⟩) :
    cmdPush db false (k :: v :: vs) = (insert db k ⟨.list (xs ++ v :: vs), d⟩, nat (xs ++ v :: vs).length) ∧
    cmdPush db true (k :: v :: vs) = (insert db k ⟨.list ((v :: vs).reverse ++ xs), d⟩, nat ((v :: vs).reverse ++ xs).length) := by
  simp [cmdPush, h]

/-- LPOP returns the head and leaves the tail; popping the last element deletes the key. -/
theorem lpop_head (db : Db) (k x : Bytes) (t : List Bytes) (d : Option Nat) (h : lookup db k = some ⟨.list (x :: t), d⟩) :
    cmdPop db true [k] = (if t = [] then erase db k else insert db k ⟨.list t, d⟩, bulk x) := by
  simp only [cmdPop, h, putColl]
  cases t <;> simp

/-- LLEN is the length of the stored list. -/
theorem llen_eq_length (db : Db) (k : Bytes) (xs : List Bytes) (d : Option Nat) (h : lookup db k = some ⟨.list xs, d⟩) :
    (cmdLlen db [k]).2 = nat xs.length := by
  simp [cmdLlen, h]

/-- LINDEX answers with an element exactly for indices in `[-len, len)`. -/
theorem lindex_in_range_iff (len : Nat) (i : Int) :
    (normIndex len i).isSome = true ↔ (-(len : Int) ≤ i ∧ i < len) := by
  unfold normIndex
  simp only []
  repeat' split
  all_goals (simp; omega)

/-- LTRIM keeps exactly the LRANGE window, and deletes the key when that window is empty. -/
theorem ltrim_keeps_window (db : Db) (k s e : Bytes) (si ei : Int) (xs : List Bytes) (d : Option Nat)
    (h : lookup db k = some ⟨.list xs, d⟩) (hs : parseInt s = some si) (he : parseInt e = some ei) :
    cmdLtrim db [k, s, e] =
      (if slice xs (lrangeSel xs.length si ei) = [] then erase db k
       else insert db k ⟨.list (slice xs (lrangeSel xs.length si ei)), d⟩, ok) := by
  simp only [cmdLtrim, hs, he, h, putColl]
  cases slice xs (lrangeSel xs.length si ei) <;> simp

/-- LREM never removes more than asked and only elements equal to the value: survivors plus removed = original length. -/
theorem removeFirst_length (v : Bytes) (n : Option Nat) (l : List Bytes) :
    (removeFirst v n l).1.length + (removeFirst v n l).2 = l.length ∧
    (∀ m, n = some m → (removeFirst v n l).2 ≤ m) := by
  fun_induction removeFirst v n l <;> simp_all <;> omega

/-! ### Sets -/

/-- SADD of members that are all present adds nothing and returns 0 (idempotence). -/
theorem sadd_idempotent (s ms : List Bytes) (h : ∀ m ∈ ms, m ∈ s) : addAll s ms = (s, 0) := by
  induction ms with
  | nil => rfl
  | cons m r ih =>
    unfold addAll
    have hm : s.contains m = true := by simpa using h m (List.mem_cons_self ..)
    simp only [hm, if_true]
    exact ih (fun x hx => h x (List.mem_cons_of_mem _ hx))

/-- membership after SADD: old members and the new ones -/
theorem mem_addAll (ms s : List Bytes) (x : Bytes) : x ∈ (addAll s ms).1 ↔ x ∈ s ∨ x ∈ ms := by
  induction ms generalizing s with
  | nil => simp [addAll]
  | cons m r ih =>
    unfold addAll
    split
    · rename_i hc
      rw [ih]
      simp at hc
      constructor
      · rintro (h | h) <;> simp [h]
      · rintro (h | h)
        · simp [h]
        · simp at h
          rcases h with h | h
          · subst h; simp [hc]
          · simp [h]
    · simp only
      rw [ih]
      simp
      constructor
      · rintro ((h | h) | h) <;> simp [h]
      · rintro (h | h | h) <;> simp [h]

theorem mem_dedup (l : List Bytes) (x : Bytes) : x ∈ dedup l ↔ x ∈ l := by
  induction l with
  | nil => simp [dedup]
  | cons a t ih =>
    unfold dedup
    split
    · rename_i hc
      simp at hc
      rw [ih]
      constructor
      · intro h; simp [h]
      · intro h
        simp at h
        rcases h with h | h
        · subst h; exact hc
        · exact h
    · simp [ih]

/-- SUNION / SINTER / SDIFF are the set-theoretic operations (missing keys count as empty sets). -/
theorem mem_set_algebra (s : List Bytes) (rest : List (List Bytes)) (x : Bytes) :
    (x ∈ setAlgebra .union (s :: rest) ↔ x ∈ s ∨ ∃ t ∈ rest, x ∈ t) ∧
    (x ∈ setAlgebra .inter (s :: rest) ↔ x ∈ s ∧ ∀ t ∈ rest, x ∈ t) ∧
    (x ∈ setAlgebra .diff (s :: rest) ↔ x ∈ s ∧ ∀ t ∈ rest, x ∉ t) := by
  refine ⟨?_, ?_, ?_⟩
  · simp [setAlgebra, mem_dedup]
  · simp [setAlgebra, List.mem_filter]
  · simp [setAlgebra, List.mem_filter]

/-- SCARD / SISMEMBER read the stored set. -/
theorem scard_sismember (db : Db) (k m : Bytes) (xs : List Bytes) (d : Option Nat) (h : lookup db k = some ⟨.set xs, d⟩) :
    (cmdScard db [k]).2 = nat xs.length ∧ (cmdSismember db [k, m]).2 = int (if m ∈ xs then 1 else 0) := by
  simp [cmdScard, cmdSismember, h]

/-- SPOP (as a checked relation): an accepted outcome is a current member and is removed. -/
theorem spop_member_removed (db : Db) (k m : Bytes) (xs : List Bytes) (d : Option Nat) (obs : Option (List Bytes))
    (h : lookup db k = some ⟨.set xs, d⟩) (hr : (cmdSpop db [k] obs).2 = bulk m) :
    m ∈ xs ∧ (cmdSpop db [k] obs).1 = putColl db k ⟨.set xs, d⟩ (.set (xs.filter (· ≠ m))) := by
  simp only [cmdSpop, h] at hr ⊢
  split at hr
  · rename_i m' heq
    split at hr
    · rename_i hm
      simp [bulk] at hr
      subst hr
      simp at hm
      simp [heq, hm]
    · simp [bulk, reject] at hr
  · simp [bulk, reject] at hr

/-! ### Hashes -/

/-- HSET upserts: the field reads back the new value, other fields are untouched. -/
theorem hset_upserts (fs : List (Bytes × Bytes)) (f v g : Bytes) :
    hget (hput fs f v) f = some v ∧ (g ≠ f → hget (hput fs f v) g = hget fs g) := by
  induction fs with
  | nil =>
    constructor
    · simp [hput, hget]
    · intro h; simp [hput, hget, h.symm]
  | cons p t ih =>
    obtain ⟨f', v'⟩ := p
    constructor
    · unfold hput
      split
      · simp [hget]
      · rename_i hk; simp [hget, hk, ih.1]
    · intro hg
      unfold hput
      split
      · rename_i hk; subst hk; simp [hget, hg.symm]
      · simp only [hget]
        split
        · rfl
        · exact ih.2 hg

/-- HSET's reply counts new fields only, a field named twice counts once. -/
theorem hset_counts_new_fields (f v w : Bytes) : (hsetPairs [] [f, v, f, w] 0) = ([(f, w)], 1) := by
  simp [hsetPairs, hget, hput]

/-- HLEN, HEXISTS and HGET read the stored hash. -/
theorem hash_reads (db : Db) (k f : Bytes) (fs : List (Bytes × Bytes)) (d : Option Nat) (h : lookup db k = some ⟨.hash fs, d⟩) :
    (cmdHlen db [k]).2 = nat fs.length ∧
    (cmdHexists db [k, f]).2 = int (if (hget fs f).isSome then 1 else 0) ∧
    (∀ v, hget fs f = some v → (cmdHget db [k, f]).2 = bulk v) ∧
    (hget fs f = none → (cmdHget db [k, f]).2 = nil) := by
  refine ⟨by simp [cmdHlen, h], by simp [cmdHexists, h], ?_, ?_⟩
  · intro v hv; simp [cmdHget, h, hv]
  · intro hv; simp [cmdHget, h, hv]

/-- HINCRBY adds to an integer field; a result outside i64 or a non-integer field is refused without effect. -/
theorem hincrby_add (db : Db) (k f n cur : Bytes) (fs : List (Bytes × Bytes)) (d : Option Nat) (c delta : Int)
    (h : lookup db k = some ⟨.hash fs, d⟩) (hn : parseInt n = some delta) (hf : hget fs f = some cur)
    (hc : parseInt cur = some c) :
    cmdHincrby db [k, f, n] =
      if c + delta < i64Min ∨ c + delta > i64Max then (db, err)
      else (insert db k ⟨.hash (hput fs f (intDigits (c + delta))), d⟩, int (c + delta)) := by
  simp [cmdHincrby, h, hn, hf, hc]

/-! ### Non-vacuity -/
example : lrangeSel 3 0 (-100) = none ∧ lrangeSel 3 (-100) 100 = some (0, 2) ∧ lrangeSel 3 1 1 = some (1, 1) := by decide
example : (cmdLtrim [([108], ⟨.list [[97], [98]], none⟩)] [[108], [48], [45, 57]]).1 = [] := by rfl

end Ferrous.C03
