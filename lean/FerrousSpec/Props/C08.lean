/-
  C08 — WATCH.  "If any key watched by a connection is changed between its WATCH and its EXEC, by any
  client and through any means, EXEC returns nil and executes nothing.  If no watched key was touched in
  that window EXEC executes normally.  UNWATCH, EXEC and DISCARD forget all watched keys."

  Model: `Ferrous.Watch` (Model/Watch.lean): the per-(database, shard) tracker {active, counters, global},
  the per-connection watch list, `step q s now ev` over events WATCH / UNWATCH / MULTI / EXEC / DISCARD /
  SELECT / data command (a list of storage operations) / sweeper deletion; `run` = histories.  `Q.code` is the
  code as it is, `Q.fixed` the prescribed variant (watch entries remember their database; a second WATCH
  keeps the first baseline).  Whether a storage operation bumps the WATCH counter is data of the operation,
  read from the regenerated table `Gen.storageFns` (translator/watch_facts.py).

  Ties to the code: `Gen.storageFns`, `Gen.watchQ` (regenerated on every run; table theorems below) and the
  TCP matrix of lib/c08.py, which mirrors every client command into `drv_watch` and compares every EXEC.

  Fixed in /repo since the check exists (the witness lemmas below are kept as statements about the old table
  rows / old switch values): EXPIRE/PEXPIRE (9b86ca2), PERSIST (96ab82d), RENAME/RENAMENX source key (414e6c4),
  FLUSHDB/FLUSHALL (2a25c7e) did not mark; a second WATCH replaced the baseline (180a098); watch entries forgot
  their database (3ed7039).  On the current tree every mutating storage function marks (`all_writes_mark`, no
  exception) and the watch list is the prescribed one, so `watch_sound` holds for the tree at full strength
  (`watch_sound_tree`).  WATCH of an already expired, not yet removed key aborted although nothing changed
  (`no_false_abort_fails_expired_at_watch`, old switch `watchPurges = false`): fixed by cf01a0f.
-/
import FerrousSpec.Proofs.WatchWitness
namespace Ferrous.C08
open Ferrous Ferrous.Watch

/-! ## The regenerated table -/

/-- (storage function, key parameter) pairs that mutate stored data without reaching `mark_modified`; `"*"`
    stands for "the keys removed by a function without key parameter" (flush_db).  Empty since commits
    9b86ca2, 96ab82d, 414e6c4, 2a25c7e (before: expire/key, pexpire/key, persist/key, rename/old_key, flush_db/*). -/
def exceptions : List (String × String) := []

/-- the (function, parameter) pairs of a table that mutate and do not mark -/
def nonMarking (fns : List StorageFn) : List (String × String) :=
  fns.flatMap fun f =>
    if f.mutates then
      if f.keyParams.isEmpty then (if f.marksAll then [] else [(f.name, "*")])
      else (f.keyParams.filter (fun p => !f.marked.contains p)).map (fun p => (f.name, p))
    else []

/-- Every `pub fn` of `impl StorageEngine` (and the sweeper loop) that mutates stored data passes each of
    its key parameters to `mark_modified` — except the listed pairs (none).  A NEW write that does not mark
    breaks this theorem (the dynamic matrix checks that "calls mark_modified" means "on every mutating path"). -/
theorem all_writes_mark : ∀ x ∈ nonMarking Gen.storageFns, x ∈ exceptions := by decide

/-- The exception list is exact (both are empty on the current tree). -/
theorem tree_nonmarking_writes : nonMarking Gen.storageFns = exceptions := by decide

set_option maxRecDepth 20000 in
/-- The same, row by row: a mutating row marks every key parameter it has, and a mutating row without key
    parameter (flush_db) marks everything it removes. -/
theorem tree_every_mutator_marks :
    ∀ f ∈ Gen.storageFns, f.mutates = true →
      (∀ p ∈ f.keyParams, marksOf f.name p = true) ∧ (f.keyParams = [] → f.marksAll = true) := by decide

/-- flush_db and the sweeper mark what they remove. -/
theorem tree_flush_and_sweeper_mark : flushMarks = true ∧ marksOf "expiration_cleanup_loop" "key" = true := by decide

/-- The reviewed conditional marks: `mark_modified(key)` calls that sit alone inside an `if <condition>` on an outcome
    computed before.  Each of these conditions is exactly "the call changed the key": a stream entry was trimmed /
    deleted, a list element was popped / removed, a set member was added / removed / popped — when the count is 0 the
    value is what it was.  Every other mark of the table sits next to the mutation it reports. -/
def reviewedConditionalMarks : List (String × String × String) :=
  [("xtrim", "key", "trimmed > 0"), ("xdel", "key", "deleted > 0"), ("lpop", "key", "element.is_some()"),
   ("rpop", "key", "element.is_some()"), ("lrem", "key", "removed > 0"), ("sadd", "key", "added > 0"),
   ("srem", "key", "removed > 0"), ("spop", "key", "!result.is_empty()")]

/-- "Reaches `mark_modified`" in `Gen.storageFns` is per function and key parameter, not per path.  The marks that
    depend on an outcome are exactly the reviewed ones: a NEW conditional mark (e.g. marking a destination only when
    a value was replaced) breaks this theorem, and the TCP matrix exercises every branch (same shard / other shard,
    existing / missing destination, emptied / not) to find the input. -/
theorem tree_conditional_marks_reviewed : Gen.conditionalMarks = reviewedConditionalMarks := by decide

/-- The shard function of the engine is the model's: 16 shards, FNV-1a 64 (`get_shard_index`). -/
theorem tree_shard_function : Gen.shardConsts = (16, fnvOffset, fnvPrime) := by decide

/-- Mutators that BYPASS the storage engine and do not mark, reviewed: none.  The consumer-group handlers take the
    stream through `StorageEngine::get` — a clone that shares the stream's state — and change groups, consumers,
    pending entries and the last-delivered id directly; until 9294300 they never reached `mark_modified` (hunt
    C08/d2), now each calls `StorageEngine::touch` after a successful mutation (`Gen.bypassMutators`: touches = true).
    Redis itself does not call signalModifiedKey for them (only for the key created by XGROUP CREATE … MKSTREAM):
    ferrous is stricter than Redis here, as the text of the property asks. -/
def reviewedBypass : List (String × String × String) := []

/-- `all_writes_mark` speaks about the functions of StorageEngine; this closes the hole next to it: every function
    OUTSIDE the engine that changes the shared state of a stored stream / consumer group / skip list either calls
    `StorageEngine::touch` (mark_modified) or is one of the reviewed exceptions.  A NEW bypassing mutator breaks it. -/
theorem no_unmarked_bypass :
    ∀ x ∈ Gen.bypassMutators, x.2.2.2 = true ∨ (x.1, x.2.1, x.2.2.1) ∈ reviewedBypass := by decide

/-- The reviewed list is exact on the current tree: nothing bypasses the engine without marking. -/
theorem tree_unmarked_bypass_exact :
    (Gen.bypassMutators.filter (fun x => !x.2.2.2)).map (fun x => (x.1, x.2.1, x.2.2.1)) = reviewedBypass ∨
    (Gen.bypassMutators.filter (fun x => !x.2.2.2)) = [] := by decide

/-- process_frame refuses MULTI / EXEC / DISCARD / UNWATCH with surplus arguments before it handles them (35e6048):
    only the well-formed commands reach the code that clears the watch list. -/
theorem tree_tx_arity_guard : Gen.txArityGuard = true := by decide

/-- Keys are binary safe on the WATCH path: handle_watch, handle_unwatch and Server::handle_exec pass the bytes of the
    frame to register_watch / unregister_watch / was_modified_since without any text conversion (a lossy UTF-8
    round trip would make the connection watch another key than the one it named). -/
theorem tree_watch_key_is_bytes : Gen.watchKeyIsBytes = true := by decide

/-- The watch list of the current tree is the prescribed one: entries are keyed by (database, key) and checked /
    unregistered there (3ed7039), a second WATCH keeps the first baseline (180a098), WATCH drops an expired stored
    value before it registers (cf01a0f).  A regression of any of the three breaks this theorem. -/
theorem tree_watch_list : Gen.watchQ = Q.fixed := by decide

/-- The translator recognised each of the three shapes in the source (when it does not, `Gen.watchQ` carries
    pessimistic values so that the dynamic search can still run, and this theorem refuses). -/
theorem tree_watch_list_recognised : Gen.watchQRecognised = true := by decide

/-- The write paths used by the commands are in the table and mark their key. -/
theorem tree_marking_functions :
    (["set_value", "set_string", "set_string_ex", "set_string_nx", "set_string_nx_ex", "delete", "incr", "incr_by",
      "append", "setrange", "lpush", "rpush", "lpop", "rpop", "lset", "ltrim", "lrem", "sadd", "srem", "spop",
      "hset", "hdel", "hincrby", "zadd", "zrem", "zincrby", "xadd", "xadd_with_id", "xdel", "xtrim", "get",
      "expire", "pexpire", "persist", "expiration_cleanup_loop"].all (fun fn => marksOf fn "key")) = true ∧
    marksOf "rename" "new_key" = true ∧ marksOf "rename" "old_key" = true := by
  decide

/-- An operation built from the table of the current tree marks what it changes. -/
theorem table_op_marks (o : Op) (h : isTableOp o = true) : opMarksOk o = true := by
  cases o with
  | key ko =>
    simp only [isTableOp, Bool.or_eq_true, Bool.not_eq_true', List.any_eq_true, Bool.and_eq_true, beq_iff_eq] at h
    simp only [opMarksOk, Bool.or_eq_true, Bool.not_eq_true']
    rcases h with h | ⟨f, hf, ⟨hm, _⟩, p, hp, hmk⟩
    · exact Or.inl h
    · right
      rw [← hmk]
      exact (tree_every_mutator_marks f hf hm).1 p hp
  | flush all m =>
    simp only [isTableOp, beq_iff_eq] at h
    simp only [opMarksOk]
    rw [h]; exact tree_flush_and_sweeper_mark.1

/-! ## The invariant is reachable -/

/-- Every state reached from the empty state by a `Safe` history (no registration wraps the usize watcher
    count; unless entries remember their database, nobody SELECTs another database while holding watch
    entries) satisfies the invariant the soundness theorems assume: counters ≤ global counter, watcher count
    of a shard ≥ number of entries registered there, baselines ≤ global counter. -/
theorem reachable_inv (q : Q) (evs : List (Nat × Watch.Ev)) (h : Safe q State.init evs = true) :
    Inv q (run q State.init evs) :=
  inv_run q State.init evs (inv_init q) h

/-- When watch entries remember their database (the current tree, `Q.fixed`) SELECT is always safe: only the
    (unreachable) wrap of a usize watcher count remains excluded by `Safe`. -/
theorem fixed_select_is_safe (q : Q) (hq : q.perDb = true) (s : Watch.State) (now c d : Nat) :
    stepSafe q s now (.select c d) = true := by
  simp [stepSafe, hq]

/-! ## No false abort -/

/-- NO FALSE ABORT, all histories.  Connection `c` holds watch entries whose counters have not passed their
    baselines and whose keys carry no deadline.  Then whatever any client does — commands on other keys of
    the same shard or of other shards, reads, refused commands, flushes of other databases, WATCH/UNWATCH/
    EXEC/SELECT of other connections, sweeper deletions of other keys — as long as no executed operation
    addresses a watched (database, key) and `c` itself only issues MULTI and data commands, `c`'s EXEC does
    not return nil.  (Per-key counters are bumped by `mark_modified` of that key only.) -/
theorem no_false_abort (q : Q) (s : Watch.State) (evs : List (Nat × Watch.Ev)) (c now : Nat) (ops : List Op)
    (hquiet : ∀ e ∈ evs, quiet q c e.2 = true)
    (hclean : ∀ w ∈ (s.conn c).watched,
      s.counter (effDb q (s.conn c) w) w.key ≤ w.base ∧
      (∀ e, s.entry (effDb q (s.conn c) w) w.key = some e → e.deadline = none) ∧
      untouched q (effDb q (s.conn c) w) w.key s evs = true) :
    (step q (run q s evs) now (.exec c ops)).2 ≠ .nil := by
  intro h
  rw [exec_nil_iff] at h
  have := no_abort_of_untouched q s evs c now hquiet hclean
  rw [this] at h
  exact absurd h.2 (by simp)

/-- WATCH records the key's current counter: right after `WATCH k` on a connection that watched nothing (k
    carrying no deadline, so that the `watchPurges` variant has nothing to drop), the hypothesis
    `counter ≤ baseline` of `no_false_abort` holds (with equality). -/
theorem watch_takes_baseline (q : Q) (s : Watch.State) (now c : Nat) (k : Key)
    (hin : (s.conn c).inTx = false) (hw : (s.conn c).watched = [])
    (hdl : ∀ e, s.entry (s.conn c).db k = some e → e.deadline = none) :
    ((step q s now (.watch c [k])).1.conn c).watched = [⟨k, s.counter (s.conn c).db k, (s.conn c).db⟩] ∧
    (step q s now (.watch c [k])).1.counter (s.conn c).db k = s.counter (s.conn c).db k ∧
    (step q s now (.watch c [k])).1.entry (s.conn c).db k = s.entry (s.conn c).db k ∧
    ((step q s now (.watch c [k])).1.conn c).db = (s.conn c).db := by
  have hx : expiredNow s (s.conn c).db k now = false := by
    unfold expiredNow
    cases h : s.entry (s.conn c).db k with
    | none => rfl
    | some e => simp [Entry.expired, hdl e h]
  have hp : purgeAtWatch q s (s.conn c).db k now = s := by
    unfold purgeAtWatch
    split
    · exact sweepKey_not_expired s _ k true now hx
    · rfl
  rw [step_watch]
  simp only [List.isEmpty_cons, hin, Bool.or_self, Bool.false_eq_true, if_false]
  have hs := watchAll_same q c now s [k] (s.conn c).db k (by simp [watchTouches, hx])
  refine ⟨?_, hs.1, hs.2, ?_⟩
  · simp only [watchAll, List.foldl_cons, List.foldl_nil]
    unfold watchKey
    simp only [hw, List.any_nil, Bool.and_false, Bool.false_eq_true, if_false, List.filter_nil, hp]
    rw [conn_setConn]
    simp only [if_true]
    rfl
  · simp only [watchAll, List.foldl_cons, List.foldl_nil]
    exact db_watchKey q c now s k c

/-- WATCH k, then any history that does not address k (no deadline on k), then EXEC: never nil. -/
theorem no_false_abort_after_watch (q : Q) (s : Watch.State) (t : Nat) (evs : List (Nat × Watch.Ev)) (c now : Nat)
    (k : Key) (ops : List Op)
    (hin : (s.conn c).inTx = false) (hw : (s.conn c).watched = [])
    (hdl : ∀ e, s.entry (s.conn c).db k = some e → e.deadline = none)
    (hquiet : ∀ e ∈ evs, quiet q c e.2 = true)
    (hunt : untouched q (s.conn c).db k (step q s t (.watch c [k])).1 evs = true) :
    (step q (run q s ((t, .watch c [k]) :: evs)) now (.exec c ops)).2 ≠ .nil := by
  obtain ⟨h1, h2, h3, h4⟩ := watch_takes_baseline q s t c k hin hw hdl
  simp only [run]
  apply no_false_abort q _ evs c now ops hquiet
  intro w hwm
  rw [h1] at hwm
  simp only [List.mem_singleton] at hwm
  subst hwm
  have hd : effDb q ((step q s t (.watch c [k])).1.conn c) ⟨k, s.counter (s.conn c).db k, (s.conn c).db⟩ = (s.conn c).db := by
    unfold effDb
    split
    · rfl
    · exact h4
  rw [hd]
  refine ⟨?_, ?_, hunt⟩
  · rw [h2]; exact Nat.le_refl _
  · rw [h3]; exact hdl

/-! ## Soundness -/

/-- WATCH SOUND, full statement, for every variant `q` and every `Safe` history from a state satisfying the
    invariant (in particular: every reachable state, `reachable_inv`).  Connection `c` holds a watch entry `w`.
    Some later step changes the stored entry of the watched (database, key) — by a command of any connection
    (the watcher included), inside an EXEC, inside a script, by a flush, by the sweeper removing it, or by
    another client's WATCH dropping it when expired — and the table condition holds for that step: every
    operation it executes marks what it changes (`evMarksOk`).  `c` stays quiet (MULTI, data commands; with
    `q.perDb` also SELECT) and is inside MULTI at the end.  Then its EXEC returns nil.
    When `q.perDb`, `Safe` only excludes the wrap of a usize counter (`fixed_select_is_safe`). -/
theorem watch_sound (q : Q) (s : Watch.State) (pre post : List (Nat × Watch.Ev)) (now : Nat) (ev : Watch.Ev)
    (c : Nat) (w : W) (nowE : Nat) (ops : List Op)
    (hi : Inv q s) (hsafe : Safe q s (pre ++ [(now, ev)]) = true)
    (hquiet : ∀ e ∈ pre ++ (now, ev) :: post, quiet q c e.2 = true)
    (hw : w ∈ (s.conn c).watched)
    (htable : evMarksOk q (run q s pre) now ev = true)
    (hchanged : (step q (run q s pre) now ev).1.entry w.regDb w.key ≠ (run q s pre).entry w.regDb w.key)
    (hin : ((run q s (pre ++ (now, ev) :: post)).conn c).inTx = true) :
    (step q (run q s (pre ++ (now, ev) :: post)) nowE (.exec c ops)).2 = .nil := by
  have hs := safe_append q s pre [(now, ev)] hsafe
  have hev : stepSafe q (run q s pre) now ev = true := by
    have := hs.2
    simp only [Safe, Bool.and_true] at this
    exact this
  exact sound_of_change q s pre post now ev c w nowE ops hi hs.1 hev hquiet hw htable hchanged hin

/-- WATCH SOUND FOR THE CURRENT TREE, at full strength: with the watch list as the source has it (`Gen.watchQ`)
    and operations whose marking is what the regenerated table says (`evFromTable`: what `drv_watch` builds
    from the rows for any command), ANY change of a watched key's stored entry between WATCH and EXEC — by any
    client, directly, inside EXEC, inside a script, by EXPIRE/PERSIST/RENAME/FLUSH, by the sweeper — makes the
    watcher's EXEC return nil.  No exclusion remains but the usize bound inside `Safe` and the watcher's own
    quietness (no UNWATCH/EXEC/DISCARD and no second WATCH command in the window; SELECT is allowed). -/
theorem watch_sound_tree (s : Watch.State) (pre post : List (Nat × Watch.Ev)) (now : Nat) (ev : Watch.Ev)
    (c : Nat) (w : W) (nowE : Nat) (ops : List Op)
    (hi : Inv Gen.watchQ s) (hsafe : Safe Gen.watchQ s (pre ++ [(now, ev)]) = true)
    (hquiet : ∀ e ∈ pre ++ (now, ev) :: post, quiet Gen.watchQ c e.2 = true)
    (hw : w ∈ (s.conn c).watched)
    (htable : evFromTable Gen.watchQ (run Gen.watchQ s pre) now ev = true)
    (hchanged : (step Gen.watchQ (run Gen.watchQ s pre) now ev).1.entry w.regDb w.key ≠
      (run Gen.watchQ s pre).entry w.regDb w.key)
    (hin : ((run Gen.watchQ s (pre ++ (now, ev) :: post)).conn c).inTx = true) :
    (step Gen.watchQ (run Gen.watchQ s (pre ++ (now, ev) :: post)) nowE (.exec c ops)).2 = .nil := by
  apply watch_sound Gen.watchQ s pre post now ev c w nowE ops hi hsafe hquiet hw ?_ hchanged hin
  simp only [evFromTable, Bool.and_eq_true, List.all_eq_true] at htable
  simp only [evMarksOk, Bool.and_eq_true, List.all_eq_true]
  refine ⟨fun p hp => table_op_marks p.2 (htable.1 p hp), ?_⟩
  cases ev with
  | sweep d k m =>
    have := htable.2
    simp only [beq_iff_eq] at this
    simp only [this]
    exact tree_flush_and_sweeper_mark.2
  | _ => rfl

/-- On the current tree SELECT never makes a history unsafe. -/
theorem tree_select_is_safe (s : Watch.State) (now c d : Nat) : stepSafe Gen.watchQ s now (.select c d) = true :=
  fixed_select_is_safe Gen.watchQ (by decide) s now c d

/-- WATCH SOUND for the code as it was before the fixes (`_partial`, kept: it is what held then and still holds
    for any tree whose table has exceptions): the same conclusion when the operation that runs on the
    watched key — reaching a mutating path: a real change or a touch — is one the table lists as marking
    (`ko.marks`, i.e. any write except those of `exceptions`), under the decidable exclusions packed in
    `Safe Q.code` / `quiet Q.code`: no connection SELECTs another database while it holds watch entries (so
    no UNWATCH decrements a foreign shard, no underflow), the watcher issues no second WATCH and no SELECT
    between its WATCH and its EXEC, no registration wraps the usize count. -/
theorem watch_sound_partial (s : Watch.State) (pre post : List (Nat × Watch.Ev)) (now : Nat) (ev : Watch.Ev)
    (c : Nat) (w : W) (ko : KeyOp) (nowE : Nat) (ops : List Op)
    (hi : Inv Q.code s) (hsafe : Safe Q.code s pre = true)
    (hquiet : ∀ e ∈ pre ++ (now, ev) :: post, quiet Q.code c e.2 = true)
    (hw : w ∈ (s.conn c).watched)
    (hop : (w.regDb, Op.key ko) ∈ executed Q.code (run Q.code s pre) now ev) (hkey : ko.key = w.key)
    (hreach : ko.eff.reaches = true) (hmarks : ko.marks = true)
    (hin : ((run Q.code s (pre ++ (now, ev) :: post)).conn c).inTx = true) :
    (step Q.code (run Q.code s (pre ++ (now, ev) :: post)) nowE (.exec c ops)).2 = .nil :=
  sound_of_marking_op Q.code s pre post now ev c w ko nowE ops hi hsafe hquiet hw hop hkey hreach hmarks hin

/-- Expiry by deadline, lazy path: if at EXEC time the stored entry of a watched key has passed its deadline
    (and the sweeper has not removed it), EXEC inside MULTI returns nil.  (When the sweeper removes it first,
    that deletion is a marking step: `watch_sound` with `ev = .sweep`.) -/
theorem watch_sound_expired (q : Q) (s : Watch.State) (c now : Nat) (w : W) (e : Entry) (ops : List Op)
    (hw : w ∈ (s.conn c).watched) (hin : (s.conn c).inTx = true)
    (he : s.entry (effDb q (s.conn c) w) w.key = some e) (hx : e.expired now = true) :
    (step q s now (.exec c ops)).2 = .nil := by
  rw [exec_nil_iff]
  refine ⟨hin, ?_⟩
  unfold execAborts
  rw [List.any_eq_true]
  refine ⟨w, hw, ?_⟩
  unfold wasModifiedSince
  simp [he, hx]

/-! ## EXEC that returns nil executes nothing; forgetting; per connection -/

/-- When EXEC returns nil nothing is executed: the dataset, the trackers and every other connection are as
    before; the connection itself has left MULTI with an empty queue and an empty watch list. -/
theorem exec_nil_executes_nothing (q : Q) (s : Watch.State) (now c : Nat) (ops : List Op)
    (h : (step q s now (.exec c ops)).2 = .nil) :
    (step q s now (.exec c ops)).1.data = s.data ∧ (step q s now (.exec c ops)).1.trk = s.trk ∧
    (∀ c', c' ≠ c → (step q s now (.exec c ops)).1.conn c' = s.conn c') ∧
    (step q s now (.exec c ops)).1.conn c = { (s.conn c) with inTx := false, watched := [], queued := 0 } := by
  rw [exec_nil_iff] at h
  rw [step_exec]
  simp only [h.1, h.2, Bool.true_eq_false, if_false, if_true]
  refine ⟨rfl, rfl, fun c' hc => ?_, ?_⟩
  · have hne : ¬ c = c' := fun e => hc e.symm
    rw [conn_setConn]; simp [hne]
  · rw [conn_setConn]; simp [Conn.cleared]

/-- UNWATCH outside MULTI (in the old variant: always), EXEC and DISCARD inside MULTI, leave the connection with an
    empty watch list. -/
theorem unwatch_exec_discard_forget (q : Q) (s : Watch.State) (now c : Nat) (ops : List Op) :
    ((q.unwatchQueued = false ∨ (s.conn c).inTx = false) → ((step q s now (.unwatch c)).1.conn c).watched = []) ∧
    ((s.conn c).inTx = true →
      ((step q s now (.exec c ops)).1.conn c).watched = [] ∧ ((step q s now (.discard c)).1.conn c).watched = []) := by
  refine ⟨fun h => ?_, fun hin => ⟨?_, ?_⟩⟩
  · rw [step_unwatch]
    have hc : (q.unwatchQueued && (s.conn c).inTx) = false := by
      rcases h with h | h <;> simp [h]
    simp only [hc, Bool.false_eq_true, if_false]
    rw [conn_setConn]; simp
  · rw [step_exec]
    simp only [hin, Bool.true_eq_false, if_false]
    split
    · rw [conn_setConn]; simp [Conn.cleared]
    · rw [conn_applyOps, conn_setConn]; simp [Conn.cleared]
  · rw [step_discard]
    simp only [hin, Bool.true_eq_false, if_false]
    rw [conn_setConn]; simp [Conn.cleared]

/-- UNWATCH between MULTI and EXEC (queued variant, the current tree): it is queued — one more slot of EXEC's reply —
    and forgets nothing: watch list, trackers and dataset are as before, so the watches keep guarding the
    transaction being built until EXEC checks them. -/
theorem unwatch_inside_multi_keeps_watches (q : Q) (hq : q.unwatchQueued = true) (s : Watch.State) (now c : Nat)
    (hin : (s.conn c).inTx = true) :
    (step q s now (.unwatch c)).2 = .queued ∧
    ((step q s now (.unwatch c)).1.conn c).watched = (s.conn c).watched ∧
    ((step q s now (.unwatch c)).1.conn c).queued = (s.conn c).queued + 1 ∧
    ((step q s now (.unwatch c)).1.conn c).inTx = true ∧
    (step q s now (.unwatch c)).1.trk = s.trk ∧ (step q s now (.unwatch c)).1.data = s.data := by
  have h1 : (step q s now (.unwatch c)) =
      (s.setConn c { (s.conn c) with queued := (s.conn c).queued + 1 }, .queued) := by
    simp [step, hq, hin]
  rw [h1]
  refine ⟨rfl, ?_, ?_, ?_, rfl, rfl⟩ <;> (rw [conn_setConn]; simp [hin])

/-- A command that is refused (MULTI / EXEC / DISCARD / UNWATCH with surplus arguments: `Gen.txArityGuard`) changes
    nothing: the watches stay, an open MULTI stays open with its queue, the dataset is untouched. -/
theorem refused_changes_nothing (q : Q) (s : Watch.State) (now c : Nat) :
    (step q s now (.refused c)).1 = s ∧ (step q s now (.refused c)).2 = .err := ⟨rfl, rfl⟩

/-- ... and afterwards no key is watched: whatever is changed later, by anyone, a later transaction of the
    connection is not aborted, until it WATCHes again. -/
theorem forgotten_never_aborts (q : Q) (s : Watch.State) (evs : List (Nat × Watch.Ev)) (c now : Nat) (ops : List Op)
    (he : (s.conn c).watched = []) (h : ∀ e ∈ evs, noWatchBy c e.2 = true) :
    (step q (run q s evs) now (.exec c ops)).2 ≠ .nil := by
  intro hn
  rw [exec_nil_iff] at hn
  have := empty_watch_run q s evs c h he
  unfold execAborts at hn
  rw [this] at hn
  simp at hn

/-- Watching is per connection: an event issued by one connection (or the sweeper) leaves the record of
    every other connection — its watch list with the baselines, its database, its MULTI state — unchanged;
    in particular EXEC / UNWATCH / DISCARD of one client never clear another client's watch list, and a client
    that watches nothing is never aborted (`forgotten_never_aborts`). -/
theorem watch_is_per_connection (q : Q) (s : Watch.State) (now : Nat) (ev : Watch.Ev) (c' : Nat)
    (h : issuer ev ≠ some c') : (step q s now ev).1.conn c' = s.conn c' :=
  conn_step_other q s now ev c' h

/-- In the prescribed variant a WATCH of a key that is already watched (same database) changes nothing: the
    first baseline stays. -/
theorem fixed_rewatch_is_noop (q : Q) (hq : q.rewatchKeeps = true) (s : Watch.State) (c now : Nat) (k : Key) (w : W)
    (hw : w ∈ (s.conn c).watched) (hk : w.key = k) (hd : w.regDb = (s.conn c).db) :
    watchKey q c now s k = s := by
  unfold watchKey
  have : (s.conn c).watched.any (fun w => decide (w.key = k) && decide (w.regDb = (s.conn c).db)) = true := by
    rw [List.any_eq_true]; exact ⟨w, hw, by simp [hk, hd]⟩
  simp [hq, this]

/-! ## Witnesses (each was replayed over TCP by lib/c08.py while the defect existed)

  The first group speaks about the OLD table rows (a storage function that changes the watched key without
  marking) and the OLD switch values `Q.code`: every history is `Safe`, the watcher stays quiet, the stored
  entry of the watched key changes in the third step — all hypotheses of `watch_sound` except the table
  condition / the prescribed watch list — and EXEC executes.  Next to each: the current tree aborts. -/

/-- a marking write (SET by another client) aborts: the positive control -/
theorem set_aborts : execAfter Gen.watchQ hSet 1010 = .nil ∧ judged Gen.watchQ hSet 1010 = [(.nil, .mustNil)] := by decide

/-- a write to another key does not: the negative control -/
theorem other_key_runs :
    execAfter Gen.watchQ hOtherKey 1010 = .array 0 ∧ judged Gen.watchQ hOtherKey 1010 = [(.array 0, .mustRun)] := by decide

/-- On the current tree (table rows and watch list as regenerated) every one of the formerly failing
    histories aborts: EXPIRE, PEXPIRE, PERSIST, RENAME from/to, FLUSHDB, FLUSHALL, re-WATCH after a change,
    SELECT between WATCH and EXEC, UNWATCH after SELECT by another client (both shapes) — and the SELECT history
    that used to abort falsely executes. -/
theorem tree_former_witnesses_abort :
    execAfter Gen.watchQ hExpire 1010 = .nil ∧ execAfter Gen.watchQ hPexpire 1010 = .nil ∧
    execAfter Gen.watchQ hPersist 1010 = .nil ∧ execAfter Gen.watchQ hRenameSrc 1010 = .nil ∧
    execAfter Gen.watchQ hRenameDst 1010 = .nil ∧ execAfter Gen.watchQ hFlush 1010 = .nil ∧
    execAfter Gen.watchQ hFlushAll 1010 = .nil ∧ execAfter Gen.watchQ hRewatch 1010 = .nil ∧
    execAfter Gen.watchQ hSelectExec 1010 = .nil ∧ execAfter Gen.watchQ hUnwatchSteals 1010 = .nil ∧
    execAfter Gen.watchQ hUnwatchWraps 1010 = .nil ∧ execAfter Gen.watchQ hSelectFalseAbort 1010 = .array 0 ∧
    judged Gen.watchQ hExpire 1010 = [(.nil, .mustNil)] ∧ judged Gen.watchQ hFlush 1010 = [(.nil, .mustNil)] ∧
    judged Gen.watchQ hSelectFalseAbort 1010 = [(.array 0, .mustRun)] := by decide

/-- old row of `expire` (before 9b86ca2: mutates, does not mark): EXPIRE / PEXPIRE on the watched key — EXEC
    executes in every variant of the watch list, the Spec demands nil -/
theorem watch_sound_fails_expire :
    Safe Q.fixed State.init hExpireOld = true ∧
    (run Q.fixed State.init (hExpireOld.take 3)).entry 0 kWk ≠ (run Q.fixed State.init (hExpireOld.take 2)).entry 0 kWk ∧
    execAfter Q.fixed hExpireOld 1010 = .array 0 ∧ execAfter Q.code hExpireOld 1010 = .array 0 ∧
    judged Q.fixed hExpireOld 1010 = [(.array 0, .mustNil)] := by decide

/-- old row of `persist` (before 96ab82d) -/
theorem watch_sound_fails_persist :
    Safe Q.fixed State.init hPersistOld = true ∧
    (run Q.fixed State.init (hPersistOld.take 3)).entry 0 kWk ≠ (run Q.fixed State.init (hPersistOld.take 2)).entry 0 kWk ∧
    execAfter Q.fixed hPersistOld 1010 = .array 0 ∧ judged Q.fixed hPersistOld 1010 = [(.array 0, .mustNil)] := by decide

/-- old row of `rename` (before 414e6c4: the source key parameter is not marked) -/
theorem watch_sound_fails_rename_source :
    Safe Q.fixed State.init hRenameSrcOld = true ∧
    (run Q.fixed State.init (hRenameSrcOld.take 3)).entry 0 kWk ≠ (run Q.fixed State.init (hRenameSrcOld.take 2)).entry 0 kWk ∧
    execAfter Q.fixed hRenameSrcOld 1010 = .array 0 ∧ judged Q.fixed hRenameSrcOld 1010 = [(.array 0, .mustNil)] := by decide

/-- old row of `flush_db` (before 2a25c7e: marksAll = false): FLUSHDB / FLUSHALL removing the watched key -/
theorem watch_sound_fails_flush :
    Safe Q.fixed State.init hFlushOld = true ∧
    (run Q.fixed State.init (hFlushOld.take 3)).entry 0 kWk ≠ (run Q.fixed State.init (hFlushOld.take 2)).entry 0 kWk ∧
    execAfter Q.fixed hFlushOld 1010 = .array 0 ∧ judged Q.fixed hFlushOld 1010 = [(.array 0, .mustNil)] ∧
    execAfter Q.fixed hFlushAllOld 1010 = .array 0 := by decide

/-- old switch `rewatchKeeps = false` (before 180a098): a second WATCH of the same key replaces the baseline, the
    change made before it is forgotten; with the switch on EXEC aborts -/
theorem watch_sound_fails_rewatch :
    execAfter Q.code hRewatch 1010 = .array 0 ∧ judged Q.code hRewatch 1010 = [(.array 0, .mustNil)] ∧
    execAfter ⟨true, false, false, false⟩ hRewatch 1010 = .array 0 ∧ execAfter Q.noPurge hRewatch 1010 = .nil := by decide

/-- old switch `perDb = false` (before 3ed7039): EXEC checks the watched key in the database selected at EXEC
    time — WATCH k; SELECT 1; k changes in db 0; EXEC executes (the history is not `Safe Q.code`) -/
theorem watch_sound_fails_select_exec :
    Safe Q.code State.init hSelectExec = false ∧ Safe Q.noPurge State.init hSelectExec = true ∧
    execAfter Q.code hSelectExec 1010 = .array 0 ∧ judged Q.code hSelectExec 1010 = [(.array 0, .mustNil)] ∧
    execAfter Q.noPurge hSelectExec 1010 = .nil := by decide

/-- ... and aborts for a change of the other database's key of that name: a false abort -/
theorem no_false_abort_fails_select :
    execAfter Q.code hSelectFalseAbort 1010 = .nil ∧ judged Q.code hSelectFalseAbort 1010 = [(.nil, .mustRun)] ∧
    execAfter Q.noPurge hSelectFalseAbort 1010 = .array 0 := by decide

/-- old switch `perDb = false`: UNWATCH unregisters in the database selected at UNWATCH time — it takes another
    client's registration away (watcher count 1 → 0), `mark_modified` becomes a no-op and that client's EXEC
    misses the change -/
theorem watch_sound_fails_unwatch_steals :
    (run Q.code State.init (hUnwatchSteals.take 5)).active 1 (shardOf kWk) = 0 ∧
    execAfter Q.code hUnwatchSteals 1010 = .array 0 ∧ judged Q.code hUnwatchSteals 1010 = [(.array 0, .mustNil)] ∧
    execAfter Q.noPurge hUnwatchSteals 1010 = .nil := by decide

/-- ... on a zero count it wraps to usize::MAX, and the next registration wraps it back to 0 -/
theorem watch_sound_fails_unwatch_wraps :
    (run Q.code State.init (hUnwatchWraps.take 3)).active 1 (shardOf kWk) = 18446744073709551615 ∧
    (run Q.code State.init (hUnwatchWraps.take 5)).active 1 (shardOf kWk) = 0 ∧
    execAfter Q.code hUnwatchWraps 1010 = .array 0 ∧ judged Q.code hUnwatchWraps 1010 = [(.array 0, .mustNil)] ∧
    execAfter Q.noPurge hUnwatchWraps 1010 = .nil := by decide

/-- old switch `unwatchQueued = false` (before 7dd14e2, hunt C08/d1): UNWATCH between MULTI and EXEC ran at once and
    dropped the watches — WATCH wk; MULTI; UNWATCH; another client writes wk; EXEC executed.  Queued (the current
    tree) EXEC returns nil; the Spec demands nil in both. -/
theorem watch_sound_fails_unwatch_in_multi :
    execAfter Q.unwatchAtOnce hUnwatchInMulti 1010 = .array 0 ∧
    judged Q.unwatchAtOnce hUnwatchInMulti 1010 = [(.array 0, .mustNil)] ∧
    execAfter Gen.watchQ hUnwatchInMulti 1010 = .nil ∧ judged Gen.watchQ hUnwatchInMulti 1010 = [(.nil, .mustNil)] := by decide

/-- refused UNWATCH / EXEC / DISCARD (surplus arguments, hunt C08/d3) leave the watch: the later change aborts, and
    the transaction opened before the refused EXEC / DISCARD is still the one EXEC ends -/
theorem refused_commands_keep_watches :
    execAfter Gen.watchQ hRefused 1010 = .nil ∧ judged Gen.watchQ hRefused 1010 = [(.nil, .mustNil)] ∧
    execAfter Gen.watchQ (hRefused.take 6) 1010 = .array 0 := by decide

/-- old switch `watchPurges = false` (before cf01a0f): WATCH of a key that is stored but already past its
    deadline — nothing happens afterwards, EXEC returns nil although the key was logically absent at WATCH and
    still is.  With the purge at WATCH time (`Q.fixed`, the current tree) EXEC executes. -/
theorem no_false_abort_fails_expired_at_watch :
    execAfter Q.noPurge hExpiredAtWatch 1110 = .nil ∧ judged Q.noPurge hExpiredAtWatch 1110 = [(.nil, .mustRun)] ∧
    execAfter Q.code hExpiredAtWatch 1110 = .nil ∧
    execAfter Q.fixed hExpiredAtWatch 1110 = .array 0 ∧ judged Q.fixed hExpiredAtWatch 1110 = [(.array 0, .mustRun)] := by decide

/-- the deadline passing between WATCH and EXEC aborts (lazy path), before it does not -/
theorem expiry_aborts :
    execAfter Gen.watchQ hExpires 1100 = .array 0 ∧ execAfter Gen.watchQ hExpires 1151 = .nil ∧
    judged Gen.watchQ hExpires 1151 = [(.nil, .mustNil)] ∧ judged Gen.watchQ hExpires 1100 = [(.array 0, .mustRun)] := by decide

/-! ## Non-vacuity: the hypotheses of the theorems are satisfiable -/

/-- `watch_sound_tree` applied to the EXPIRE history on the current tree (state after `SET wk; WATCH wk`, then the
    other client's EXPIRE built from the table, then MULTI): all hypotheses hold, EXEC returns nil. -/
example : (step Gen.watchQ (run Gen.watchQ (run Gen.watchQ State.init (hExpire.take 2))
      ([] ++ (1002, .cmd 1 [tableOp "expire" "key" kWk (.put ⟨1, some 600000⟩)]) :: [(1003, .multi 0)])) 1010 (.exec 0 [])).2 = .nil :=
  watch_sound_tree (run Gen.watchQ State.init (hExpire.take 2)) [] [(1003, .multi 0)] 1002
    (.cmd 1 [tableOp "expire" "key" kWk (.put ⟨1, some 600000⟩)]) 0 ⟨kWk, 0, 0⟩ 1010 []
    (reachable_inv Gen.watchQ (hExpire.take 2) (by decide)) (by decide) (by decide) (by decide) (by decide) (by decide) (by decide)

/-- `watch_sound_partial` applied to the SET history with the old switches -/
example : (step Q.code (run Q.code (run Q.code State.init (hSet.take 2)) ([] ++ (1002, .cmd 1 [setOp kWk 2]) :: [(1003, .multi 0)]))
    1010 (.exec 0 [])).2 = .nil :=
  watch_sound_partial (run Q.code State.init (hSet.take 2)) [] [(1003, .multi 0)] 1002 (.cmd 1 [setOp kWk 2]) 0
    ⟨kWk, 0, 0⟩ ⟨"set_value", kWk, marksOf "set_value" "key", .put ⟨2, none⟩⟩ 1010 []
    (reachable_inv Q.code (hSet.take 2) (by decide)) (by decide) (by decide) (by decide) (by decide) rfl (by decide)
    (by decide) (by decide)

/-- `watch_sound` with the sweeper's deletion as the changing step, prescribed variant -/
example : (step Q.fixed (run Q.fixed (run Q.fixed State.init (hExpires.take 2)) ([] ++ (1200, .sweep 0 kWk true) :: [(1201, .multi 0)]))
    1210 (.exec 0 [])).2 = .nil :=
  watch_sound Q.fixed (run Q.fixed State.init (hExpires.take 2)) [] [(1201, .multi 0)] 1200 (.sweep 0 kWk true) 0
    ⟨kWk, 0, 0⟩ 1210 []
    (reachable_inv Q.fixed (hExpires.take 2) (by decide)) (by decide) (by decide) (by decide) (by decide) (by decide) (by decide)

/-- `no_false_abort_after_watch`: WATCH wk, another client writes another key, MULTI, EXEC -/
example : (step Gen.watchQ (run Gen.watchQ (run Gen.watchQ State.init [(1000, .cmd 1 [setOp kWk 1])])
      ((1001, .watch 0 [kWk]) :: [(1002, .cmd 1 [setOp kOther 2]), (1003, .multi 0)])) 1010 (.exec 0 [])).2 ≠ .nil :=
  no_false_abort_after_watch Gen.watchQ _ 1001 [(1002, .cmd 1 [setOp kOther 2]), (1003, .multi 0)] 0 1010 kWk []
    (by decide) (by decide) (by decide) (by decide) (by decide)

end Ferrous.C08
