/-
  C08 — WATCH (work in progress: table theorems first).
-/
import FerrousSpec.Model.Watch
import FerrousSpec.Gen.Watch
namespace Ferrous.C08
open Ferrous Ferrous.Watch

/-- (function, key parameter) pairs that mutate without reaching `mark_modified` on the current tree;
    `"*"` stands for "the keys removed by a function without key parameter". -/
def exceptions : List (String × String) :=
  [("expire", "key"), ("flush_db", "*"), ("rename", "old_key"), ("pexpire", "key"), ("persist", "key")]

/-- the (function, parameter) pairs of the table that mutate and do not mark -/
def nonMarking (fns : List StorageFn) : List (String × String) :=
  fns.flatMap fun f =>
    if f.mutates then
      if f.keyParams.isEmpty then (if f.marksAll then [] else [(f.name, "*")])
      else (f.keyParams.filter (fun p => !f.marked.contains p)).map (fun p => (f.name, p))
    else []

theorem all_writes_mark :
    ∀ x ∈ nonMarking Gen.storageFns, x ∈ exceptions := by decide

theorem tree_nonmarking_writes : nonMarking Gen.storageFns = exceptions := by decide

end Ferrous.C08
