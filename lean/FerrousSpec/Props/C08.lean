/-
  C08 — WATCH.  "If any key watched by a connection is changed between its WATCH and its EXEC, by any
  client and through any means, EXEC returns nil and executes nothing.  If no watched key was touched in
  that window EXEC executes normally.  UNWATCH, EXEC and DISCARD forget all watched keys."

  Model: `Ferrous.Watch` (Model/Watch.lean): the per-(database, shard) tracker {active, counters, global},
  the per-connection watch list, `step q s now ev` over events WATCH / UNWATCH / MULTI / EXEC / DISCARD /
  SELECT / data command (a list of storage operations) / sweeper deletion; `run` = histories.  `Q.code` is the
  code as it is, `Q.fixed` the prescribed variant (watch entries remember their database; a second WATCH
  keeps the first baseline).  Whether a storage operation bumps the WATCH counter is data of the operation,
  read from the regenerated table `Gen.storageFns` (translator/watch_facts.py).

  Ties to the code: `Gen.storageFns`, `Gen.watchQ` (regenerated on every run; table theorems below) and the
  TCP matrix of lib/c08.py, which mirrors every client command into `drv_watch` and compares every EXEC.

  What fails on the current tree (witness lemmas below, all replayed over TCP): EXPIRE/PEXPIRE, PERSIST,
  RENAME/RENAMENX (source key), FLUSHDB/FLUSHALL do not mark; a second WATCH replaces the baseline; watch
  entries forget their database (EXEC / UNWATCH after SELECT); WATCH of an already expired, not yet removed
  key aborts although nothing changed.
-/
import FerrousSpec.Proofs.WatchWitness
namespace Ferrous.C08
open Ferrous Ferrous.Watch

/-! ## The regenerated table -/

/-- (storage function, key parameter) pairs that mutate stored data without reaching `mark_modified` on the
    current tree; `"*"` stands for "the keys removed by a function without key parameter" (flush_db). -/
def exceptions : List (String × String) :=
  [("expire", "key"), ("pexpire", "key"), ("persist", "key"), ("rename", "old_key"), ("flush_db", "*")]

/-- the (function, parameter) pairs of a table that mutate and do not mark -/
def nonMarking (fns : List StorageFn) : List (String × String) :=
  fns.flatMap fun f =>
    if f.mutates then
      if f.keyParams.isEmpty then (if f.marksAll then [] else [(f.name, "*")])
      else (f.keyParams.filter (fun p => !f.marked.contains p)).map (fun p => (f.name, p))
    else []

/-- Every `pub fn` of `impl StorageEngine` (and the sweeper loop) that mutates stored data passes each of
    its key parameters to `mark_modified` — except the listed pairs.  A NEW write that does not mark breaks
    this theorem (the dynamic matrix checks that "calls mark_modified" means "on every mutating path"). -/
theorem all_writes_mark : ∀ x ∈ nonMarking Gen.storageFns, x ∈ exceptions := by decide

/-- The exception list is exact on the current tree: each listed pair really is a mutating function that
    does not mark (confirmed over TCP as known findings).  Applying a `fix:` that adds the missing
    `mark_modified` call makes this theorem fail: remove the pair from `exceptions` then. -/
theorem tree_nonmarking_writes : ∀ x ∈ exceptions, x ∈ nonMarking Gen.storageFns := by decide

/-- The watch list of the current tree is keyed by key only and a second WATCH replaces the baseline. -/
theorem tree_watch_list_is_code : Gen.watchQ = Q.code := by decide

/-- The write paths used by the commands are in the table and mark their key. -/
theorem tree_marking_functions :
    (["set_value", "set_string", "set_string_ex", "set_string_nx", "set_string_nx_ex", "delete", "incr", "incr_by",
      "append", "setrange", "lpush", "rpush", "lpop", "rpop", "lset", "ltrim", "lrem", "sadd", "srem", "spop",
      "hset", "hdel", "hincrby", "zadd", "zrem", "zincrby", "xadd", "xadd_with_id", "xdel", "xtrim", "get",
      "expiration_cleanup_loop"].all (fun fn => marksOf fn "key")) = true ∧ marksOf "rename" "new_key" = true := by
  decide

/-! ## The invariant is reachable -/

/-- Every state reached from the empty state by a `Safe` history (no registration wraps the usize watcher
    count; unless entries remember their database, nobody SELECTs another database while holding watch
    entries) satisfies the invariant the soundness theorems assume: counters ≤ global counter, watcher count
    of a shard ≥ number of entries registered there, baselines ≤ global counter. -/
theorem reachable_inv (q : Q) (evs : List (Nat × Watch.Ev)) (h : Safe q State.init evs = true) :
    Inv q (run q State.init evs) :=
  inv_run q State.init evs (inv_init q) h

/-- In the prescribed variant SELECT is always safe: only the (unreachable) usize wrap remains excluded. -/
theorem fixed_select_is_safe (s : Watch.State) (c d : Nat) : stepSafe Q.fixed s (.select c d) = true := by
  simp [stepSafe, Q.fixed]

/-! ## No false abort -/

/-- NO FALSE ABORT, all histories.  Connection `c` holds watch entries whose counters have not passed their
    baselines and whose keys carry no deadline.  Then whatever any client does — commands on other keys of
    the same shard or of other shards, reads, refused commands, flushes of other databases, WATCH/UNWATCH/
    EXEC/SELECT of other connections, sweeper deletions of other keys — as long as no executed operation
    addresses a watched (database, key) and `c` itself only issues MULTI and data commands, `c`'s EXEC does
    not return nil.  (Per-key counters are bumped by `mark_modified` of that key only.) -/
theorem no_false_abort (q : Q) (s : Watch.State) (evs : List (Nat × Watch.Ev)) (c now : Nat) (ops : List Op)
    (hquiet : ∀ e ∈ evs, quiet q c e.2 = true)
    (hclean : ∀ w ∈ (s.conn c).watched,
      s.counter (effDb q (s.conn c) w) w.key ≤ w.base ∧
      (∀ e, s.entry (effDb q (s.conn c) w) w.key = some e → e.deadline = none) ∧
      untouched q (effDb q (s.conn c) w) w.key s evs = true) :
    (step q (run q s evs) now (.exec c ops)).2 ≠ .nil := by
  intro h
  rw [exec_nil_iff] at h
  have := no_abort_of_untouched q s evs c now hquiet hclean
  rw [this] at h
  exact absurd h.2 (by simp)

/-- WATCH records the key's current counter: right after `WATCH k` on a connection that watched nothing,
    the hypothesis `counter ≤ baseline` of `no_false_abort` holds (with equality). -/
theorem watch_takes_baseline (q : Q) (s : Watch.State) (now c : Nat) (k : Key)
    (hin : (s.conn c).inTx = false) (hw : (s.conn c).watched = []) :
    ((step q s now (.watch c [k])).1.conn c).watched = [⟨k, s.counter (s.conn c).db k, (s.conn c).db⟩] ∧
    (step q s now (.watch c [k])).1.counter (s.conn c).db k = s.counter (s.conn c).db k ∧
    (step q s now (.watch c [k])).1.entry (s.conn c).db k = s.entry (s.conn c).db k ∧
    ((step q s now (.watch c [k])).1.conn c).db = (s.conn c).db := by
  rw [step_watch]
  simp only [List.isEmpty_cons, hin, Bool.or_self, Bool.false_eq_true, if_false]
  have hs := watchAll_same q c s [k] (s.conn c).db k
  refine ⟨?_, hs.1, hs.2, ?_⟩
  · simp only [watchAll, List.foldl_cons, List.foldl_nil]
    unfold watchKey
    simp only [hw, List.any_nil, Bool.and_false, Bool.false_eq_true, if_false, List.filter_nil]
    rw [conn_setConn]
    simp only [if_true]
    rfl
  · simp only [watchAll, List.foldl_cons, List.foldl_nil]
    exact db_watchKey q c s k c

/-- WATCH k, then any history that does not address k (no deadline on k), then EXEC: never nil. -/
theorem no_false_abort_after_watch (q : Q) (s : Watch.State) (t : Nat) (evs : List (Nat × Watch.Ev)) (c now : Nat)
    (k : Key) (ops : List Op)
    (hin : (s.conn c).inTx = false) (hw : (s.conn c).watched = [])
    (hdl : ∀ e, s.entry (s.conn c).db k = some e → e.deadline = none)
    (hquiet : ∀ e ∈ evs, quiet q c e.2 = true)
    (hunt : untouched q (s.conn c).db k (step q s t (.watch c [k])).1 evs = true) :
    (step q (run q s ((t, .watch c [k]) :: evs)) now (.exec c ops)).2 ≠ .nil := by
  obtain ⟨h1, h2, h3, h4⟩ := watch_takes_baseline q s t c k hin hw
  simp only [run]
  apply no_false_abort q _ evs c now ops hquiet
  intro w hwm
  rw [h1] at hwm
  simp only [List.mem_singleton] at hwm
  subst hwm
  have hd : effDb q ((step q s t (.watch c [k])).1.conn c) ⟨k, s.counter (s.conn c).db k, (s.conn c).db⟩ = (s.conn c).db := by
    unfold effDb
    split
    · rfl
    · exact h4
  rw [hd]
  refine ⟨?_, ?_, hunt⟩
  · rw [h2]; exact Nat.le_refl _
  · rw [h3]; exact hdl

/-! ## Soundness -/

/-- WATCH SOUND, full statement, for every variant `q` and every `Safe` history from a state satisfying the
    invariant (in particular: every reachable state, `reachable_inv`).  Connection `c` holds a watch entry `w`.
    Some later step changes the stored entry of the watched (database, key) — by a command of any connection
    (the watcher included), inside an EXEC, inside a script, by a flush, or by the sweeper removing it — and the
    table condition holds for that step: every operation it executes marks what it changes (`evMarksOk`; on
    the fixed tree this is `all_writes_mark` with an empty exception list).  `c` stays quiet (MULTI, data
    commands; with `q.perDb` also SELECT) and is inside MULTI at the end.  Then its EXEC returns nil.
    For `q = Q.fixed`, `Safe` only excludes the wrap of a usize counter (`fixed_select_is_safe`). -/
theorem watch_sound (q : Q) (s : Watch.State) (pre post : List (Nat × Watch.Ev)) (now : Nat) (ev : Watch.Ev)
    (c : Nat) (w : W) (nowE : Nat) (ops : List Op)
    (hi : Inv q s) (hsafe : Safe q s pre = true)
    (hquiet : ∀ e ∈ pre ++ (now, ev) :: post, quiet q c e.2 = true)
    (hw : w ∈ (s.conn c).watched)
    (htable : evMarksOk q (run q s pre) now ev = true)
    (hchanged : (step q (run q s pre) now ev).1.entry w.regDb w.key ≠ (run q s pre).entry w.regDb w.key)
    (hin : ((run q s (pre ++ (now, ev) :: post)).conn c).inTx = true) :
    (step q (run q s (pre ++ (now, ev) :: post)) nowE (.exec c ops)).2 = .nil :=
  sound_of_change q s pre post now ev c w nowE ops hi hsafe hquiet hw htable hchanged hin

/-- WATCH SOUND for the code as it is (`_partial`): the same conclusion when the operation that runs on the
    watched key — reaching a mutating path: a real change or a touch — is one the table lists as marking
    (`ko.marks`, i.e. any write except those of `exceptions`), under the decidable exclusions packed in
    `Safe Q.code` / `quiet Q.code`: no connection SELECTs another database while it holds watch entries (so
    no UNWATCH decrements a foreign shard, no underflow), the watcher issues no second WATCH and no SELECT
    between its WATCH and its EXEC, no registration wraps the usize count. -/
theorem watch_sound_partial (s : Watch.State) (pre post : List (Nat × Watch.Ev)) (now : Nat) (ev : Watch.Ev)
    (c : Nat) (w : W) (ko : KeyOp) (nowE : Nat) (ops : List Op)
    (hi : Inv Q.code s) (hsafe : Safe Q.code s pre = true)
    (hquiet : ∀ e ∈ pre ++ (now, ev) :: post, quiet Q.code c e.2 = true)
    (hw : w ∈ (s.conn c).watched)
    (hop : (w.regDb, Op.key ko) ∈ executed Q.code (run Q.code s pre) now ev) (hkey : ko.key = w.key)
    (hreach : ko.eff.reaches = true) (hmarks : ko.marks = true)
    (hin : ((run Q.code s (pre ++ (now, ev) :: post)).conn c).inTx = true) :
    (step Q.code (run Q.code s (pre ++ (now, ev) :: post)) nowE (.exec c ops)).2 = .nil :=
  sound_of_marking_op Q.code s pre post now ev c w ko nowE ops hi hsafe hquiet hw hop hkey hreach hmarks hin

/-- Expiry by deadline, lazy path: if at EXEC time the stored entry of a watched key has passed its deadline
    (and the sweeper has not removed it), EXEC inside MULTI returns nil.  (When the sweeper removes it first,
    that deletion is a marking step: `watch_sound` with `ev = .sweep`.) -/
theorem watch_sound_expired (q : Q) (s : Watch.State) (c now : Nat) (w : W) (e : Entry) (ops : List Op)
    (hw : w ∈ (s.conn c).watched) (hin : (s.conn c).inTx = true)
    (he : s.entry (effDb q (s.conn c) w) w.key = some e) (hx : e.expired now = true) :
    (step q s now (.exec c ops)).2 = .nil := by
  rw [exec_nil_iff]
  refine ⟨hin, ?_⟩
  unfold execAborts
  rw [List.any_eq_true]
  refine ⟨w, hw, ?_⟩
  unfold wasModifiedSince
  simp [he, hx]

/-! ## EXEC that returns nil executes nothing; forgetting; per connection -/

/-- When EXEC returns nil nothing is executed: the dataset, the trackers and every other connection are as
    before; the connection itself has left MULTI with an empty queue and an empty watch list. -/
theorem exec_nil_executes_nothing (q : Q) (s : Watch.State) (now c : Nat) (ops : List Op)
    (h : (step q s now (.exec c ops)).2 = .nil) :
    (step q s now (.exec c ops)).1.data = s.data ∧ (step q s now (.exec c ops)).1.trk = s.trk ∧
    (∀ c', c' ≠ c → (step q s now (.exec c ops)).1.conn c' = s.conn c') ∧
    (step q s now (.exec c ops)).1.conn c = { (s.conn c) with inTx := false, watched := [], queued := 0 } := by
  rw [exec_nil_iff] at h
  rw [step_exec]
  simp only [h.1, h.2, Bool.true_eq_false, if_false, if_true]
  refine ⟨rfl, rfl, fun c' hc => ?_, ?_⟩
  · have hne : ¬ c = c' := fun e => hc e.symm
    rw [conn_setConn]; simp [hne]
  · rw [conn_setConn]; simp [Conn.cleared]

/-- UNWATCH always, EXEC and DISCARD inside MULTI, leave the connection with an empty watch list. -/
theorem unwatch_exec_discard_forget (q : Q) (s : Watch.State) (now c : Nat) (ops : List Op) :
    ((step q s now (.unwatch c)).1.conn c).watched = [] ∧
    ((s.conn c).inTx = true →
      ((step q s now (.exec c ops)).1.conn c).watched = [] ∧ ((step q s now (.discard c)).1.conn c).watched = []) := by
  refine ⟨?_, fun hin => ⟨?_, ?_⟩⟩
  · rw [step_unwatch, conn_setConn]; simp
  · rw [step_exec]
    simp only [hin, Bool.true_eq_false, if_false]
    split
    · rw [conn_setConn]; simp [Conn.cleared]
    · rw [conn_applyOps, conn_setConn]; simp [Conn.cleared]
  · rw [step_discard]
    simp only [hin, Bool.true_eq_false, if_false]
    rw [conn_setConn]; simp [Conn.cleared]

/-- ... and afterwards no key is watched: whatever is changed later, by anyone, a later transaction of the
    connection is not aborted, until it WATCHes again. -/
theorem forgotten_never_aborts (q : Q) (s : Watch.State) (evs : List (Nat × Watch.Ev)) (c now : Nat) (ops : List Op)
    (he : (s.conn c).watched = []) (h : ∀ e ∈ evs, noWatchBy c e.2 = true) :
    (step q (run q s evs) now (.exec c ops)).2 ≠ .nil := by
  intro hn
  rw [exec_nil_iff] at hn
  have := empty_watch_run q s evs c h he
  unfold execAborts at hn
  rw [this] at hn
  simp at hn

/-- Watching is per connection: an event issued by one connection (or the sweeper) leaves the record of
    every other connection — its watch list with the baselines, its database, its MULTI state — unchanged;
    in particular EXEC / UNWATCH / DISCARD of one client never clear another client's watch list, and a client
    that watches nothing is never aborted (`forgotten_never_aborts`). -/
theorem watch_is_per_connection (q : Q) (s : Watch.State) (now : Nat) (ev : Watch.Ev) (c' : Nat)
    (h : issuer ev ≠ some c') : (step q s now ev).1.conn c' = s.conn c' :=
  conn_step_other q s now ev c' h

/-- In the prescribed variant a WATCH of a key that is already watched (same database) changes nothing: the
    first baseline stays. -/
theorem fixed_rewatch_is_noop (s : Watch.State) (c : Nat) (k : Key) (w : W)
    (hw : w ∈ (s.conn c).watched) (hk : w.key = k) (hd : w.regDb = (s.conn c).db) :
    watchKey Q.fixed c s k = s := by
  unfold watchKey
  have : (s.conn c).watched.any (fun w => decide (w.key = k) && decide (w.regDb = (s.conn c).db)) = true := by
    rw [List.any_eq_true]; exact ⟨w, hw, by simp [hk, hd]⟩
  simp [Q.fixed, this]

/-! ## Witnesses: where the code as it is violates the full statement (each replayed over TCP by lib/c08.py)

  Every history below is `Safe`, the watcher stays quiet, the stored entry of the watched key changes in the
  third step — all hypotheses of `watch_sound` except the table condition — and EXEC executes.
  The four table witnesses are stated under "the table says the function does not mark this key" (true on the
  current tree: `tree_nonmarking_writes`), so that applying a fix only requires shortening `exceptions`. -/

/-- a marking write (SET by another client) aborts: the positive control -/
theorem set_aborts : execAfter Q.code hSet 1010 = .nil ∧ judged Q.code hSet 1010 = [(.nil, .mustNil)] := by decide

/-- a write to another key does not: the negative control -/
theorem other_key_runs : execAfter Q.code hOtherKey 1010 = .array 0 ∧ judged Q.code hOtherKey 1010 = [(.array 0, .mustRun)] := by
  decide

/-- EXPIRE / PEXPIRE on the watched key: EXEC executes, the Spec demands nil. -/
theorem watch_sound_fails_expire :
    (marksOf "expire" "key" = false ∧ marksOf "pexpire" "key" = false) →
    Safe Q.code State.init hExpire = true ∧
    (run Q.code State.init (hExpire.take 3)).entry 0 kWk ≠ (run Q.code State.init (hExpire.take 2)).entry 0 kWk ∧
    execAfter Q.code hExpire 1010 = .array 0 ∧ judged Q.code hExpire 1010 = [(.array 0, .mustNil)] ∧
    execAfter Q.code hPexpire 1010 = .array 0 := by decide

/-- PERSIST of the watched key's deadline -/
theorem watch_sound_fails_persist :
    marksOf "persist" "key" = false →
    Safe Q.code State.init hPersist = true ∧
    (run Q.code State.init (hPersist.take 3)).entry 0 kWk ≠ (run Q.code State.init (hPersist.take 2)).entry 0 kWk ∧
    execAfter Q.code hPersist 1010 = .array 0 ∧ judged Q.code hPersist 1010 = [(.array 0, .mustNil)] := by decide

/-- RENAME away from the watched key (renaming TO it does abort) -/
theorem watch_sound_fails_rename_source :
    marksOf "rename" "old_key" = false →
    Safe Q.code State.init hRenameSrc = true ∧
    (run Q.code State.init (hRenameSrc.take 3)).entry 0 kWk ≠ (run Q.code State.init (hRenameSrc.take 2)).entry 0 kWk ∧
    execAfter Q.code hRenameSrc 1010 = .array 0 ∧ judged Q.code hRenameSrc 1010 = [(.array 0, .mustNil)] ∧
    execAfter Q.code hRenameDst 1010 = .nil := by decide

/-- FLUSHDB / FLUSHALL removing the watched key -/
theorem watch_sound_fails_flush :
    flushMarks = false →
    Safe Q.code State.init hFlush = true ∧
    (run Q.code State.init (hFlush.take 3)).entry 0 kWk ≠ (run Q.code State.init (hFlush.take 2)).entry 0 kWk ∧
    execAfter Q.code hFlush 1010 = .array 0 ∧ judged Q.code hFlush 1010 = [(.array 0, .mustNil)] ∧
    execAfter Q.code hFlushAll 1010 = .array 0 := by decide

/-- a second WATCH of the same key replaces the baseline: the change made before it is forgotten (the
    prescribed variant aborts) -/
theorem watch_sound_fails_rewatch :
    execAfter Q.code hRewatch 1010 = .array 0 ∧ judged Q.code hRewatch 1010 = [(.array 0, .mustNil)] ∧
    execAfter Q.fixed hRewatch 1010 = .nil := by decide

/-- EXEC checks the watched key in the database selected at EXEC time: WATCH k; SELECT 1; k changes in db 0;
    EXEC executes (the history is not `Safe Q.code`; the prescribed variant aborts) -/
theorem watch_sound_fails_select_exec :
    Safe Q.code State.init hSelectExec = false ∧ Safe Q.fixed State.init hSelectExec = true ∧
    execAfter Q.code hSelectExec 1010 = .array 0 ∧ judged Q.code hSelectExec 1010 = [(.array 0, .mustNil)] ∧
    execAfter Q.fixed hSelectExec 1010 = .nil := by decide

/-- ... and aborts for a change of the other database's key of that name: a false abort -/
theorem no_false_abort_fails_select :
    execAfter Q.code hSelectFalseAbort 1010 = .nil ∧ judged Q.code hSelectFalseAbort 1010 = [(.nil, .mustRun)] ∧
    execAfter Q.fixed hSelectFalseAbort 1010 = .array 0 := by decide

/-- UNWATCH unregisters in the database selected at UNWATCH time: it takes another client's registration
    away (watcher count 1 → 0), `mark_modified` becomes a no-op and that client's EXEC misses the change -/
theorem watch_sound_fails_unwatch_steals :
    (run Q.code State.init (hUnwatchSteals.take 5)).active 1 (shardOf kWk) = 0 ∧
    execAfter Q.code hUnwatchSteals 1010 = .array 0 ∧ judged Q.code hUnwatchSteals 1010 = [(.array 0, .mustNil)] ∧
    execAfter Q.fixed hUnwatchSteals 1010 = .nil := by decide

/-- ... on a zero count it wraps to usize::MAX, and the next registration wraps it back to 0 -/
theorem watch_sound_fails_unwatch_wraps :
    (run Q.code State.init (hUnwatchWraps.take 3)).active 1 (shardOf kWk) = 18446744073709551615 ∧
    (run Q.code State.init (hUnwatchWraps.take 5)).active 1 (shardOf kWk) = 0 ∧
    execAfter Q.code hUnwatchWraps 1010 = .array 0 ∧ judged Q.code hUnwatchWraps 1010 = [(.array 0, .mustNil)] ∧
    execAfter Q.fixed hUnwatchWraps 1010 = .nil := by decide

/-- WATCH of a key that is stored but already past its deadline: nothing happens afterwards, EXEC returns nil
    (both variants: no repair proposed) although the key was logically absent at WATCH and still is -/
theorem no_false_abort_fails_expired_at_watch :
    execAfter Q.code hExpiredAtWatch 1110 = .nil ∧ judged Q.code hExpiredAtWatch 1110 = [(.nil, .mustRun)] ∧
    execAfter Q.fixed hExpiredAtWatch 1110 = .nil := by decide

/-- the deadline passing between WATCH and EXEC aborts (lazy path), before it does not -/
theorem expiry_aborts :
    execAfter Q.code hExpires 1100 = .array 0 ∧ execAfter Q.code hExpires 1151 = .nil ∧
    judged Q.code hExpires 1151 = [(.nil, .mustNil)] ∧ judged Q.code hExpires 1100 = [(.array 0, .mustRun)] := by decide

/-! ## Non-vacuity: the hypotheses of the theorems are satisfiable -/

/-- `watch_sound_partial` applied to the SET history (state after `SET wk; WATCH wk`, then the other
    client's SET, then MULTI): all hypotheses hold and the conclusion is the nil of `set_aborts`. -/
example : (step Q.code (run Q.code (run Q.code State.init (hSet.take 2)) ([] ++ (1002, .cmd 1 [setOp kWk 2]) :: [(1003, .multi 0)]))
    1010 (.exec 0 [])).2 = .nil :=
  watch_sound_partial (run Q.code State.init (hSet.take 2)) [] [(1003, .multi 0)] 1002 (.cmd 1 [setOp kWk 2]) 0
    ⟨kWk, 0, 0⟩ ⟨"set_value", kWk, marksOf "set_value" "key", .put ⟨2, none⟩⟩ 1010 []
    (reachable_inv Q.code (hSet.take 2) (by decide)) (by decide) (by decide) (by decide) (by decide) rfl (by decide)
    (by decide) (by decide)

/-- `watch_sound` (full statement) applied to the same history in the prescribed variant -/
example : (step Q.fixed (run Q.fixed (run Q.fixed State.init (hSet.take 2)) ([] ++ (1002, .cmd 1 [setOp kWk 2]) :: [(1003, .multi 0)]))
    1010 (.exec 0 [])).2 = .nil :=
  watch_sound Q.fixed (run Q.fixed State.init (hSet.take 2)) [] [(1003, .multi 0)] 1002 (.cmd 1 [setOp kWk 2]) 0
    ⟨kWk, 0, 0⟩ 1010 []
    (reachable_inv Q.fixed (hSet.take 2) (by decide)) (by decide) (by decide) (by decide) (by decide) (by decide) (by decide)

/-- `no_false_abort_after_watch`: WATCH wk, another client writes another key, MULTI, EXEC -/
example : (step Q.code (run Q.code (run Q.code State.init [(1000, .cmd 1 [setOp kWk 1])])
      ((1001, .watch 0 [kWk]) :: [(1002, .cmd 1 [setOp kOther 2]), (1003, .multi 0)])) 1010 (.exec 0 [])).2 ≠ .nil :=
  no_false_abort_after_watch Q.code _ 1001 [(1002, .cmd 1 [setOp kOther 2]), (1003, .multi 0)] 0 1010 kWk []
    (by decide) (by decide) (by decide) (by decide) (by decide)

end Ferrous.C08
