/-
  C09 — an RDB snapshot restores exactly the saved dataset.

  Property theorems only; helper lemmas live in FerrousSpec/Proofs/Rdb*.lean.
  Model: FerrousSpec/Model/Rdb.lean — byte-exact transliteration of `RdbWriter` / `write_snapshot`
  (`encSnapshot`) and of `RdbReader::load_into` with the engine calls it makes (`decSnapshot`),
  time as explicit save instant `t` and load instant `t'` in milliseconds.
  Tie to the code: lib/c09.py runs the real `StorageEngine` + `RdbEngine::{save,load}` against this
  model in both directions (real file → `decSnapshot`, `encSnapshot` → real loader, byte equality
  of `encSnapshot (decSnapshot file)` with the real file) and real → real.

  `Fix.code` is the loader of the pinned tree, `Fix.fixed` the loader with the three repairs
  (`dropExpired`: a pair whose deadline has passed at load time is removed again; `keepEmptyStream`:
  a marker-only list re-creates the empty stream; `listEscape`: the loader's half of the escape
  rule).  The third defect — a LIST whose first element is the marker string is read back as a
  stream, because streams are written under the LIST opcode — is repaired inside the format by an
  ESCAPE element: the writer (`saveSnapshot esc`, `saveValue esc` = the byte-level writer
  `encSnapshot` / `encValue` applied to `escDataset esc` / `escValue esc`) puts the string
  `__FERROUS_LIST_ESCAPE__` in front of a genuine list whose first element is the marker or the
  escape string, and the loader drops a first element equal to the escape string and reads what
  follows as a plain list.  With the rule on both sides the theorems hold for ALL lists; for the
  tree without it the marker-headed lists stay an explicit exclusion (`startsWithMarker`), with
  witness lemmas.  "Well-formed" is always "as written" (`valueWF (escValue esc v)`,
  `datasetWF (escDataset esc d)`): every length field the writer emits is below 2^32, the escape
  element included.  lib/c09.py reads both halves of the rule from rdb.rs and sets the switches.
-/
import FerrousSpec.Proofs.RdbSnapshot
import FerrousSpec.Proofs.RdbTotal
namespace Ferrous.C09
open Ferrous Ferrous.Rdb

/-! ### (1) lengths -/

/-- `read_length (write_length n) = n` for EVERY `n < 2^32`, whatever bytes follow, consuming exactly
    the length field.  The proof splits only where the code does (6-bit / 14-bit / 32-bit form) and
    closes each range by linear arithmetic, so 63/64 and 16383/16384 are ordinary points. -/
theorem decLen_encLen (n : Nat) (h : n < 2 ^ 32) (rest : Bytes) :
    readLen (encLen n ++ rest) = .ok n rest [] :=
  readLen_encLen n (by simpa [two32] using h) rest

/-- `len as u32`: from 2^32 on the writer stores the length modulo 2^32 — a 4 GiB value or a
    collection of 2^32 elements is silently mis-declared (same for every `n > 16383`, stated in full). -/
theorem decLen_encLen_truncates (n : Nat) (h : 16383 < n) (rest : Bytes) :
    readLen (encLen n ++ rest) = .ok (n % 2 ^ 32) rest [] := by
  simpa [two32] using readLen_encLen_trunc n h rest

/-- witness: the bound in `decLen_encLen` is sharp — 2^32 reads back as 0. -/
theorem decLen_encLen_fails_at_two32 :
    readLen (encLen 4294967296) = .ok 0 [] [] ∧ readLen (encLen 4294967296) ≠ .ok 4294967296 [] [] := by
  constructor <;> decide

/-! ### (2) strings -/

/-- `read_string (write_string s) = s` for every byte string shorter than 2^32 (arbitrary bytes,
    including the stream marker and bytes that look like opcodes), leaving what followed. -/
theorem decString_encString (s : Bytes) (h : s.length < 2 ^ 32) (rest : Bytes) :
    readString (encString s ++ rest) = .ok s rest [s.length] :=
  readString_encString s (by simpa [two32] using h) rest

/-- From 2^32 bytes on, only the first `|s| mod 2^32` bytes are read back as the string and the
    remainder of `s` is left in the stream to be parsed as opcodes (stated for every `|s| > 16383`). -/
theorem decString_encString_truncates (s : Bytes) (h : 16383 < s.length) (rest : Bytes) :
    readString (encString s ++ rest) =
      .ok (s.take (s.length % 2 ^ 32)) (s.drop (s.length % 2 ^ 32) ++ rest) [s.length % 2 ^ 32] := by
  have e32 : (2 : Nat) ^ 32 = two32 := by decide
  rw [e32]
  have hm : s.length % two32 ≤ s.length := Nat.mod_le _ _
  have hl : (s.take (s.length % two32)).length = s.length % two32 := by
    rw [List.length_take]; omega
  have key : readExact (s.length % two32) (s ++ rest) =
      some (s.take (s.length % two32), s.drop (s.length % two32) ++ rest) := by
    have := readExact_append (s.length % two32) (s.take (s.length % two32)) (s.drop (s.length % two32) ++ rest) hl
    rwa [← List.append_assoc, List.take_append_drop] at this
  unfold readString encString
  rw [List.append_assoc, readLen_encLen_trunc _ h]
  simp only [Res.bind_ok, key]
  simp

/-! ### (3) values, per type -/

/-- `read_key_value_with_type ∘ write_key_value = id` with the repaired writer and loader, for EVERY
    value of every type an engine can hold (strings, lists — also those whose first element is the
    stream marker or the escape string —, sets, hashes, sorted sets with arbitrary 64-bit score
    patterns incl. ±inf/±0/subnormals/NaN payloads, streams incl. the empty stream) with arbitrary
    byte contents and every written size below 2^32: the key comes back with exactly this value and
    deadline, exactly the pair is consumed, the allocations are the string lengths.  No exclusion
    (`dlOk`: the deadline fits signed 64-bit unix milliseconds — the engine refuses any other,
    `StorageEngine::check_ttl`, so no key ever has one; the loader refuses such a file: `load_refuses_unrepresentable_deadline`). -/
theorem decValue_encValue (db : Db) (k : Bytes) (v : Value) (dl : Option Nat) (hd : dlOk dl = true)
    (hk : strOk k = true) (hv : valueWF (escValue true v) = true)
    (hf : k ∉ keys db) (rest : Bytes) :
    loadTyped Fix.fixed true db (typeByte v) dl (encString k ++ (saveValue true v ++ rest)) =
      .ok (k, db ++ [⟨k, v, dl⟩]) rest (k.length :: valueAllocs (escValue true v)) :=
  loadTyped_encKV Fix.fixed db k v dl hd hk hv (Or.inr rfl) (Or.inr rfl) hf rest

/-- The excluded deadlines: the engine call that would set a deadline beyond `i64::MAX` unix milliseconds
    (`set_string_ex` for a string, `expire` for every other type) is refused before anything is stored
    (`StorageEngine::check_ttl`), whatever the database and the key: no reachable dataset holds such a
    deadline, and a (corrupted) file that carries one is refused by the loader. -/
theorem engine_refuses_unrepresentable_deadline (valid : Bool) (db : Db) (k : Bytes) (v : Value) (d : Nat)
    (hd : i64max < d) :
    setValue valid db ⟨k, v, some d⟩ = .error .badExpire ∧ expireOpt valid db k (some d) = .error .badExpire := by
  have h : dlOk (some d) = false := by simp only [dlOk, decide_eq_false_iff_not]; omega
  simp [setValue, expireOpt, expire, h]

/-- The same for writer and loader of the pinned tree (no escape rule: `saveValue false v = encValue v`),
    outside its deviations: a list headed by the marker string, an empty stream. -/
theorem decValue_encValue_partial (db : Db) (k : Bytes) (v : Value) (dl : Option Nat) (hd : dlOk dl = true)
    (hk : strOk k = true) (hv : valueWF v = true) (hm : startsWithMarker v = false)
    (hs : isEmptyStream v = false) (hf : k ∉ keys db) (rest : Bytes) :
    loadTyped Fix.code true db (typeByte v) dl (encString k ++ (encValue v ++ rest)) =
      .ok (k, db ++ [⟨k, v, dl⟩]) rest (k.length :: valueAllocs v) := by
  have h := loadTyped_encKV Fix.code db k v dl hd hk (by simpa using hv) (Or.inl hm) (Or.inl hs) hf rest
  simpa [saveValue] using h

/-- The escape rule alone: ANY loader that knows it (`listEscape`), whatever its other switches,
    reads back EVERY well-formed list written by a writer that applies it. -/
theorem decList_encList (fix : Fix) (hfix : fix.listEscape = true) (db : Db) (k : Bytes) (xs : List Bytes)
    (dl : Option Nat) (hd : dlOk dl = true) (hk : strOk k = true) (hv : valueWF (escValue true (.list xs)) = true)
    (hf : k ∉ keys db) (rest : Bytes) :
    loadTyped fix true db 1 dl (encString k ++ (saveValue true (.list xs) ++ rest)) =
      .ok (k, db ++ [⟨k, .list xs, dl⟩]) rest (k.length :: valueAllocs (escValue true (.list xs))) := by
  have h := loadTyped_list fix db k xs dl hd hk (by rw [hfix]; exact hv) (Or.inr hfix) hf rest
  rwa [hfix] at h

/-- witness (writer WITHOUT the escape rule, every loader): the well-formed LIST
    `[marker, "1-0", "1", "f", "v"]` under key `k` is read back as a STREAM with the entry `1-0 {f: v}`. -/
theorem decValue_fails_marker_list :
    valueWF (.list [marker, [49, 45, 48], [49], [102], [118]]) = true ∧
    ∀ fix : Fix, loadTyped fix true [] 1 none
        (encString [107] ++ encValue (.list [marker, [49, 45, 48], [49], [102], [118]])) =
      .ok ([107], [⟨[107], .stream [⟨1, 0, [([102], [118])]⟩], none⟩]) [] [1, 25, 3, 1, 1, 1] := by
  refine ⟨by decide, ?_⟩
  intro fix
  obtain ⟨a, b, c⟩ := fix
  cases a <;> cases b <;> cases c <;> decide

/-- witness (writer WITHOUT the escape rule): the one-element LIST `[marker]` is lost by the pinned
    loader (no key at all) and comes back as an empty STREAM with a loader that keeps empty streams. -/
theorem decValue_fails_marker_only_list :
    valueWF (.list [marker]) = true ∧
    loadTyped Fix.code true [] 1 none (encString [107] ++ encValue (.list [marker])) = .ok ([107], []) [] [1, 25] ∧
    loadTyped Fix.fixed true [] 1 none (encString [107] ++ encValue (.list [marker])) =
      .ok ([107], [⟨[107], .stream [], none⟩]) [] [1, 25] := by
  refine ⟨by decide, by decide, by decide⟩

/-- witness: an EMPTY stream (what `XADD` + `XDEL` leaves) is lost by the pinned loader — the key
    does not exist after the restart; `decValue_encValue` shows the repaired loader keeps it. -/
theorem decValue_fails_empty_stream :
    valueWF (.stream []) = true ∧ isEmptyStream (.stream []) = true ∧
    loadTyped Fix.code true [] (typeByte (.stream [])) none (encString [107] ++ encValue (.stream [])) =
      .ok ([107], []) [] [1, 25, 26, 1, 3, 0] := by
  refine ⟨by decide, by decide, by decide⟩

/-! ### (4) the whole snapshot -/

/-- What the loader (any switch setting) yields from the output of the writer that agrees with it
    on the escape rule, for EVERY valid dataset (all 16 databases, all six types, arbitrary bytes,
    every written size below 2^32), every save instant `t` and load instant `t'`: `loadedDataset`,
    i.e. key by key — not written if its deadline was before `t`; unchanged (value and deadline) if
    its deadline is after `t'` or it has none; otherwise dropped (`dropExpired`) or kept WITHOUT a
    deadline (pinned tree).  Nothing is left unread, and the checksum/EOF/aux/resize fields are
    consumed.  Marker-headed lists are excluded only without the escape rule, empty streams only
    for a loader that does not keep them. -/
theorem snapshot_load (fix : Fix) (ver : Bytes) (d : Dataset) (t t' : Nat)
    (hver : ver.length < 2 ^ 32) (ht : t < 2 ^ 64) (hwf : datasetWF (escDataset fix.listEscape d) = true)
    (hm : anyEntry (fun e => startsWithMarker e.val) d = false ∨ fix.listEscape = true)
    (hs : anyEntry (fun e => isEmptyStream e.val) d = false ∨ fix.keepEmptyStream = true) :
    decSnapshot fix (saveSnapshot fix.listEscape ver d t) t' = .ok (loadedDataset fix t t' d) :=
  decSnapshot_encSnapshot fix ver d t t' (by simpa [two32] using hver) (by simpa [two64] using ht)
    (datasetOk_of_wf fix d hwf hm hs)

/-- THE PROPERTY (repaired writer and loader): SAVE at `t`, restart at `t' ≥ t` yields exactly the
    keys whose deadline has not passed at `t'`, each with the same value (list order — whatever the
    first element —, set members, hash fields, member scores, stream entries with IDs and fields)
    and the same deadline; keys whose deadline passed while the server was down are absent.
    For EVERY dataset that is well-formed as written; no exclusion. -/
theorem snapshot_roundtrip (ver : Bytes) (d : Dataset) (t t' : Nat) (htt : t ≤ t')
    (hver : ver.length < 2 ^ 32) (ht : t < 2 ^ 64) (hwf : datasetWF (escDataset true d) = true) :
    decSnapshot Fix.fixed (saveSnapshot true ver d t) t' = .ok (live t' d) := by
  have h := snapshot_load Fix.fixed ver d t t' hver ht hwf (Or.inr rfl) (Or.inr rfl)
  rw [loadedDataset_eq_live Fix.fixed t t' d htt (Or.inl rfl)] at h
  exact h

/-- The pinned tree (no escape rule: its writer is `encSnapshot`): the same, provided no list is
    headed by the marker string, no key's deadline falls into `[t, t']` and there is no empty stream
    (decidable exclusions `startsWithMarker`, `expiresInDowntime`, `isEmptyStream`). -/
theorem snapshot_roundtrip_partial (ver : Bytes) (d : Dataset) (t t' : Nat) (htt : t ≤ t')
    (hver : ver.length < 2 ^ 32) (ht : t < 2 ^ 64) (hwf : datasetWF d = true)
    (hm : anyEntry (fun e => startsWithMarker e.val) d = false)
    (hs : anyEntry (fun e => isEmptyStream e.val) d = false)
    (hx : anyEntry (expiresInDowntime t t') d = false) :
    decSnapshot Fix.code (encSnapshot ver d t) t' = .ok (live t' d) := by
  have h := snapshot_load Fix.code ver d t t' hver ht (by simpa using hwf) (Or.inl hm) (Or.inl hs)
  rw [loadedDataset_eq_live Fix.code t t' d htt (Or.inr hx)] at h
  simpa using h

/-- The escape rule changes no byte of a dump that holds no list headed by the marker or the escape
    string (`reservedHead`): the files of a writer with and without the rule are equal. -/
theorem snapshot_bytes_unchanged (esc : Bool) (ver : Bytes) (d : Dataset) (t : Nat)
    (h : anyEntry (fun e => reservedHead e.val) d = false) :
    saveSnapshot esc ver d t = encSnapshot ver d t := by
  unfold saveSnapshot
  rw [escDataset_of_no_reserved esc d h]

/-- Hence mixed versions agree on every such dataset: a dump written WITHOUT the rule (an old
    server's `dump.rdb`) is loaded by a loader that knows the rule exactly as before, and a dump
    written WITH the rule is loaded by an old loader exactly as before — for every pair of switch
    settings `esc` (writer) and `fix` (loader). -/
theorem snapshot_load_across_versions (esc : Bool) (fix : Fix) (ver : Bytes) (d : Dataset) (t t' : Nat)
    (hver : ver.length < 2 ^ 32) (ht : t < 2 ^ 64) (hwf : datasetWF d = true)
    (hr : anyEntry (fun e => reservedHead e.val) d = false)
    (hs : anyEntry (fun e => isEmptyStream e.val) d = false ∨ fix.keepEmptyStream = true) :
    decSnapshot fix (saveSnapshot esc ver d t) t' = .ok (loadedDataset fix t t' d) := by
  rw [snapshot_bytes_unchanged esc ver d t hr, ← snapshot_bytes_unchanged fix.listEscape ver d t hr]
  refine snapshot_load fix ver d t t' hver ht ?_ (Or.inl ?_) hs
  · rw [escDataset_of_no_reserved _ d hr]; exact hwf
  · exact anyEntry_mono _ _ d (fun e he => startsWithMarker_le_reservedHead e.val he) hr

/-- witness: `SET k v PX 500` at 1000, SAVE at 1000, restart at 2000.  The property prescribes an
    empty dataset; the pinned loader yields the key WITHOUT a deadline (it never expires). -/
theorem snapshot_roundtrip_fails_expired :
    datasetWF [(0, [⟨[107], .str [118], some 1500⟩])] = true ∧
    live 2000 [(0, [⟨[107], .str [118], some 1500⟩])] = [] ∧
    decSnapshot Fix.code (encSnapshot [48, 46, 49, 46, 48] [(0, [⟨[107], .str [118], some 1500⟩])] 1000) 2000 =
      .ok [(0, [⟨[107], .str [118], none⟩])] := by
  refine ⟨by decide, by decide, ?_⟩
  have h := snapshot_load Fix.code [48, 46, 49, 46, 48] [(0, [⟨[107], .str [118], some 1500⟩])] 1000 2000
    (by decide) (by decide) (by decide) (Or.inl (by decide)) (Or.inl (by decide))
  simp only [Fix.code_listEscape, saveSnapshot_false] at h
  rw [h]
  exact congrArg Except.ok (by decide)

/-- In general (pinned tree): EVERY key whose deadline lies in `[t, t']` comes back immortal. -/
theorem snapshot_expired_becomes_immortal (t t' : Nat) (e : Entry) (d : Nat)
    (hd : e.deadline = some d) (h1 : t ≤ d) (h2 : d ≤ t') :
    loadedEntry Fix.code t t' e = [{ e with deadline := none }] ∧ alive t' e = false := by
  have a : ¬ d < t := by omega
  have b : ¬ t' < d := by omega
  simp [loadedEntry, alive, hd, a, b, Fix.code]

/-- witness: an empty stream in the dataset is missing after the restart (pinned tree). -/
theorem snapshot_roundtrip_fails_empty_stream :
    datasetWF [(3, [⟨[115], .stream [], none⟩])] = true ∧
    live 2000 [(3, [⟨[115], .stream [], none⟩])] = [(3, [⟨[115], .stream [], none⟩])] ∧
    decSnapshot Fix.code (encSnapshot [48, 46, 49, 46, 48] [(3, [⟨[115], .stream [], none⟩])] 1000) 2000 = .ok [] := by
  refine ⟨by decide, by decide, ?_⟩
  have h : decSnapshotT Fix.code (encSnapshot [48, 46, 49, 46, 48] [(3, [⟨[115], .stream [], none⟩])] 1000) 2000 =
      .ok [] [] [9, 5, 5, 1, 1, 25, 26, 1, 3, 0] := by decide
  unfold decSnapshot
  rw [h]

/-- witness (writer WITHOUT the escape rule, every loader): the LIST `[marker, "a"]` makes the WHOLE dump unloadable — the entry loop
    breaks at once, leaves `"a"` unread, and the opcode loop then takes its length byte for a type
    byte: the restart restores nothing after that point (here: a 8448-byte string is demanded). -/
theorem snapshot_fails_marker_list_unloadable :
    datasetWF [(0, [⟨[110], .list [marker, [97]], none⟩, ⟨[111], .str [118], none⟩])] = true ∧
    ∀ fix : Fix, decSnapshot fix
        (encSnapshot [48, 46, 49, 46, 48] [(0, [⟨[110], .list [marker, [97]], none⟩, ⟨[111], .str [118], none⟩])] 1000) 2000 =
      .error (.shortString 8448 13) := by
  refine ⟨by decide, ?_⟩
  intro fix
  have h : decSnapshotT fix
      (encSnapshot [48, 46, 49, 46, 48] [(0, [⟨[110], .list [marker, [97]], none⟩, ⟨[111], .str [118], none⟩])] 1000) 2000 =
      .err (.shortString 8448 13) [9, 5, 5, 1, 1, 25] := by
    obtain ⟨a, b, c⟩ := fix
    cases a <;> cases b <;> cases c <;> decide
  unfold decSnapshot
  rw [h]

/-- witness (mixed versions): the dump of a writer WITH the rule read by the pinned loader — the list
    `[marker, "a"]` comes back as `[escape, marker, "a"]`: one odd extra element in exactly the lists
    the rule touches, the rest of the dump is unharmed (compare `snapshot_fails_marker_list_unloadable`);
    and an escape-headed list written WITHOUT the rule loses that element in a loader that knows it. -/
theorem snapshot_mixed_versions_one_extra_element :
    decSnapshot Fix.code
        (saveSnapshot true [48, 46, 49, 46, 48] [(0, [⟨[110], .list [marker, [97]], none⟩, ⟨[111], .str [118], none⟩])] 1000) 2000 =
      .ok [(0, [⟨[110], .list [escape, marker, [97]], none⟩, ⟨[111], .str [118], none⟩])] ∧
    decSnapshot Fix.fixed
        (saveSnapshot false [48, 46, 49, 46, 48] [(0, [⟨[110], .list [escape, [97]], none⟩, ⟨[111], .str [118], none⟩])] 1000) 2000 =
      .ok [(0, [⟨[110], .list [[97]], none⟩, ⟨[111], .str [118], none⟩])] := by
  constructor
  · have h : decSnapshotT Fix.code
        (saveSnapshot true [48, 46, 49, 46, 48] [(0, [⟨[110], .list [marker, [97]], none⟩, ⟨[111], .str [118], none⟩])] 1000) 2000 =
        .ok [(0, [⟨[110], .list [escape, marker, [97]], none⟩, ⟨[111], .str [118], none⟩])] [] [9, 5, 5, 1, 1, 23, 25, 1, 1, 1] := by decide
    unfold decSnapshot
    rw [h]
  · have h : decSnapshotT Fix.fixed
        (saveSnapshot false [48, 46, 49, 46, 48] [(0, [⟨[110], .list [escape, [97]], none⟩, ⟨[111], .str [118], none⟩])] 1000) 2000 =
        .ok [(0, [⟨[110], .list [[97]], none⟩, ⟨[111], .str [118], none⟩])] [] [9, 5, 5, 1, 1, 23, 1, 1, 1] := by decide
    unfold decSnapshot
    rw [h]

/-- The loader model is total for the right reason: on EVERY byte string (not only on files the
    writer produced) `decSnapshot` answers with a dataset or with one of the loader's own errors —
    the recursion budgets of the model (`input length + 1`) are never what stops it. -/
theorem decSnapshot_total (fix : Fix) (bs : Bytes) (now : Nat) :
    (∃ d, decSnapshot fix bs now = .ok d) ∨ (∃ e, decSnapshot fix bs now = .error e ∧ e ≠ .fuel) := by
  unfold decSnapshot
  cases h : decSnapshotT fix bs now with
  | ok s r al => exact Or.inl ⟨s, rfl⟩
  | err e al =>
    refine Or.inr ⟨e, rfl, ?_⟩
    intro he
    subst he
    exact decSnapshotT_never_fuel fix bs now al h

/-- For C10: on a valid file the loader's allocations are exactly the string lengths, in file
    order — in particular each is bounded by the bytes that follow its length field. -/
theorem snapshot_allocs (fix : Fix) (ver : Bytes) (d : Dataset) (t t' : Nat)
    (hver : ver.length < 2 ^ 32) (ht : t < 2 ^ 64) (hwf : datasetWF (escDataset fix.listEscape d) = true)
    (hm : anyEntry (fun e => startsWithMarker e.val) d = false ∨ fix.listEscape = true)
    (hs : anyEntry (fun e => isEmptyStream e.val) d = false ∨ fix.keepEmptyStream = true) :
    allocTrace fix (saveSnapshot fix.listEscape ver d t) t' = snapshotAllocs ver (escDataset fix.listEscape d) t := by
  unfold allocTrace
  rw [decSnapshotT_encSnapshot fix ver d t t' (by simpa [two32] using hver) (by simpa [two64] using ht)
    (datasetOk_of_wf fix d hwf hm hs)]
  rfl

/-- witness for C10: a length field is turned into an allocation before any byte of the string is
    read — 15 bytes make the loader allocate 4 294 967 295 bytes. -/
theorem alloc_from_length_field_unbounded :
    decSnapshotT Fix.code (header ++ [250, 128, 255, 255, 255, 255]) 0 = .err (.shortString 4294967295 0) [] ∧
    allocTrace Fix.code (header ++ [250, 128, 255, 255, 255, 255]) 0 = [4294967295] := by decide

/-! ### Non-vacuity: a dataset with all six types, two databases, TTLs on both sides of the downtime -/

def sample : Dataset :=
  [ (0, [ ⟨[107, 49], .str [1, 2, 255, 0], none⟩,
          ⟨[107, 50], .list [[97], [], marker], some 5000⟩,
          ⟨[107, 51], .set [[97], [98], []], none⟩,
          ⟨[107, 52], .hash [([102], [118]), ([103], [])], some 1500⟩,
          ⟨[107, 53], .zset [([109], 0x7FF0000000000000), ([110], 0xFFF0000000000000), ([], 0x8000000000000000)], none⟩,
          ⟨[107, 54], .stream [⟨5, 7, [([102], [118])]⟩, ⟨9, 0, [([97], [98]), ([99], [100])]⟩], some 2001⟩ ]),
    (15, [ ⟨[], .str marker, some 900⟩, ⟨marker, .set [marker], none⟩ ]) ]

example : datasetWF sample = true := by decide
example : anyEntry (fun e => startsWithMarker e.val) sample = false := by decide
example : anyEntry (fun e => isEmptyStream e.val) sample = false := by decide
/-- the downtime [1000, 2000] contains the deadline 1500 of `k4`: the exclusion of `_partial` is
    violated by `sample`, satisfied for the downtime [1000, 1400] -/
example : anyEntry (expiresInDowntime 1000 2000) sample = true := by decide
example : anyEntry (expiresInDowntime 1000 1400) sample = false := by decide
/-- `live` drops `k4` (1500 ≤ 2000) and the key saved with deadline 900; database 15 keeps one key -/
example : (live 2000 sample).map (fun p => (p.1, p.2.map (·.key))) =
    [(0, [[107, 49], [107, 50], [107, 51], [107, 53], [107, 54]]), (15, [marker])] := by decide
/-- the hypotheses of the value theorems: a 3-element list, stored next to another key -/
example : strOk [107] = true ∧ valueWF (.list [[97], [], marker]) = true ∧ valueWF (escValue true (.list [[97], [], marker])) = true ∧
    startsWithMarker (.list [[97], [], marker]) = false ∧ [107] ∉ keys [⟨[108], .str [], none⟩] := by decide

/-- the lists the escape rule is about — headed by the marker, by the escape, by both, alone or with
    a tail that looks like a stream entry —, in two databases, with TTLs, next to a real stream with
    the same contents, the empty stream and an expired key -/
def reserved : Dataset :=
  [ (0, [ ⟨[97], .list [marker], none⟩,
          ⟨[98], .list [marker, [97]], some 5000⟩,
          ⟨[99], .list [marker, [49, 45, 48], [49], [102], [118]], none⟩,
          ⟨[100], .stream [⟨1, 0, [([102], [118])]⟩], some 5000⟩,
          ⟨[101], .stream [], none⟩,
          ⟨[102], .list [escape], some 1500⟩ ]),
    (7, [ ⟨[97], .list [escape, marker], some 5000⟩,
          ⟨[98], .list [escape, escape, marker, [97]], none⟩,
          ⟨[99], .list [marker, escape], none⟩,
          ⟨marker, .list [[97], marker, escape], none⟩,
          ⟨escape, .set [escape, marker], none⟩ ]) ]

example : datasetWF (escDataset true reserved) = true := by decide
example : anyEntry (fun e => startsWithMarker e.val) reserved = true ∧ anyEntry (fun e => reservedHead e.val) reserved = true := by decide
/-- what the writer with the rule puts under the LIST opcode -/
example : (escDataset true reserved).map (fun p => p.2.map fun e => e.val) =
    [ [ .list [escape, marker], .list [escape, marker, [97]], .list [escape, marker, [49, 45, 48], [49], [102], [118]],
        .stream [⟨1, 0, [([102], [118])]⟩], .stream [], .list [escape, escape] ],
      [ .list [escape, escape, marker], .list [escape, escape, escape, marker, [97]], .list [escape, marker, escape],
        .list [[97], marker, escape], .set [escape, marker] ] ] := by decide
/-- the full statement applies to it: everything comes back but the key whose deadline (1500) passed -/
example : decSnapshot Fix.fixed (saveSnapshot true [48, 46, 49, 46, 48] reserved 1000) 2000 = .ok (live 2000 reserved) :=
  snapshot_roundtrip _ reserved 1000 2000 (by decide) (by decide) (by decide) (by decide)
example : (live 2000 reserved).map (fun p => (p.1, p.2.length)) = [(0, 5), (7, 5)] := by decide
/-- one value: `[marker]`, which the pinned tree loses (`decValue_fails_marker_only_list`) -/
example : loadTyped Fix.fixed true [] 1 none (encString [107] ++ (saveValue true (.list [marker]) ++ [255])) =
    .ok ([107], [⟨[107], .list [marker], none⟩]) [255] [1, 23, 25] :=
  decValue_encValue [] [107] (.list [marker]) none rfl (by decide) (by decide) (by decide) [255]
/-- `sample` holds no such list: its dump is the same with and without the rule, for every loader -/
example : anyEntry (fun e => reservedHead e.val) sample = false := by decide
/-- the boundary lengths are instances of the general length theorem -/
example : readLen (encLen 63 ++ [9]) = .ok 63 [9] [] := decLen_encLen 63 (by decide) [9]
example : readLen (encLen 64 ++ [9]) = .ok 64 [9] [] := decLen_encLen 64 (by decide) [9]
example : readLen (encLen 16383 ++ [9]) = .ok 16383 [9] [] := decLen_encLen 16383 (by decide) [9]
example : readLen (encLen 16384 ++ [9]) = .ok 16384 [9] [] := decLen_encLen 16384 (by decide) [9]
example : encLen 63 = [63] ∧ encLen 64 = [64, 64] ∧ encLen 16383 = [127, 255] ∧ encLen 16384 = [128, 0, 0, 64, 0] := by decide
/-- what else `read_length` accepts: non-minimal forms, any low six bits in the 32-bit form; `0xC0…` is refused -/
example : readLen [64, 5] = .ok 5 [] [] ∧ readLen [191, 0, 0, 0, 5] = .ok 5 [] [] ∧ readLen [192] = .err .badLength [] := by decide

end Ferrous.C09
