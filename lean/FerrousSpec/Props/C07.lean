/-
  C07 — MULTI/EXEC: commands sent between MULTI and EXEC are only queued; EXEC executes all of them,
  in the order queued, as one indivisible step with respect to every other client, and returns their
  replies in that order; DISCARD or a disconnect drops them without any effect; a runtime error is
  reported in its slot and does not stop the others; transaction state is per connection and is
  cleared by EXEC and DISCARD.

  Model: Model/Tx.lean (`processFrame`, `exec`, `run` over schedules of any number of connections,
  data commands through `KS.step`).  `Quirks.spec` is what the property prescribes, `Quirks.code`
  the current tree (three deviations, each with a `_partial` theorem and a witness).  The model is
  tied to /repo by the tables of Gen/Tx.lean (re-proved below on every run) and by the TCP
  correspondence of lib/c07.py.  Property theorems only; helper lemmas are in Proofs/Tx*.lean.
-/
import FerrousSpec.Proofs.TxExec
import FerrousSpec.Proofs.TxSource
set_option linter.unusedSimpArgs false
set_option linter.unusedVariables false
namespace Ferrous.C07
open Ferrous Ferrous.Tx

/-! ## Concrete commands used by examples and witnesses -/

def cMULTI : Cmd := [[77, 85, 76, 84, 73]]
def cEXEC : Cmd := [[69, 88, 69, 67]]
def cDISCARD : Cmd := [[68, 73, 83, 67, 65, 82, 68]]
def cSET (k v : Bytes) : Cmd := [[83, 69, 84], k, v]
def cGET (k : Bytes) : Cmd := [[71, 69, 84], k]
def cINCR (k : Bytes) : Cmd := [[73, 78, 67, 82], k]
def cLPUSH (k v : Bytes) : Cmd := [[76, 80, 85, 83, 72], k, v]
def cSELECT (n : Bytes) : Cmd := [[83, 69, 76, 69, 67, 84], n]
def cBLPOP (k t : Bytes) : Cmd := [[66, 76, 80, 79, 80], k, t]
def cPUBLISH (ch m : Bytes) : Cmd := [[80, 85, 66, 76, 73, 83, 72], ch, m]

/-- connection 1 is inside a transaction, nothing queued yet -/
def sInTx : Server := setConn {} 1 { inTx := true }

/-! ## 1. Between MULTI and EXEC commands are only queued -/

/-- While a connection is in a transaction, ANY command that is not a control command and is not
    handled before the queue test is answered `QUEUED` and changes nothing but that connection's
    queue, to which it is appended: the dataset, the hand-over log (pub/sub, blocking registry, …)
    and every other connection are untouched.  This is the statement for the code as it is
    (`q.immediate` = the names `process_frame` handles before the queue test). -/
theorem queued_has_no_effect_partial (q : Quirks) (s : Server) (cid : Nat) (r : Req)
    (hin : (s.conns cid).inTx = true) (hne : r.cmd ≠ []) (hctl : nameOf r.cmd ∉ controlNames)
    (himm : nameOf r.cmd ∉ q.immediate) :
    (processFrame q s cid r).2 = .one (.frame queuedFrame) ∧
    (processFrame q s cid r).1.store = s.store ∧
    (processFrame q s cid r).1.ext = s.ext ∧
    (∀ j, j ≠ cid → (processFrame q s cid r).1.conns j = s.conns j) ∧
    (processFrame q s cid r).1.conns cid = { s.conns cid with queue := (s.conns cid).queue ++ [r.cmd] } := by
  have hq : queueable q r.cmd = true := (queueable_iff q r.cmd).2 ⟨hne, (kindOf_other_iff _).2 hctl, himm⟩
  rw [processFrame_queue q s cid r hin hq]
  refine ⟨rfl, rfl, rfl, ?_, by simp⟩
  intro j hj; simp [setConn, hj]

/-- Full statement (what the property prescribes: nothing is executed immediately): EVERY command
    other than MULTI/EXEC/DISCARD/WATCH/UNWATCH is only queued. -/
theorem queued_has_no_effect (q : Quirks) (hq : q.immediate = []) (s : Server) (cid : Nat) (r : Req)
    (hin : (s.conns cid).inTx = true) (hne : r.cmd ≠ []) (hctl : nameOf r.cmd ∉ controlNames) :
    (processFrame q s cid r).2 = .one (.frame queuedFrame) ∧
    (processFrame q s cid r).1.store = s.store ∧
    (processFrame q s cid r).1.ext = s.ext ∧
    (∀ j, j ≠ cid → (processFrame q s cid r).1.conns j = s.conns j) ∧
    (processFrame q s cid r).1.conns cid = { s.conns cid with queue := (s.conns cid).queue ++ [r.cmd] } :=
  queued_has_no_effect_partial q s cid r hin hne hctl (by simp [hq])

example : (sInTx.conns 1).inTx = true ∧ cSET [107] [118] ≠ [] ∧ nameOf (cSET [107] [118]) ∉ controlNames ∧
    nameOf (cSET [107] [118]) ∉ Quirks.code.immediate := by decide

/-- Witness: the code executes PUBLISH at once inside MULTI — the message is handed to pub/sub
    before EXEC (and stays delivered after DISCARD); the reply is not `QUEUED`, nothing is queued. -/
theorem queued_has_no_effect_fails_publish :
    (sInTx.conns 1).inTx = true ∧ nameOf (cPUBLISH [99] [109]) ∉ controlNames ∧
    (processFrame Quirks.code sInTx 1 { cmd := cPUBLISH [99] [109] }).1.ext = [(1, cPUBLISH [99] [109])] ∧
    ((processFrame Quirks.code sInTx 1 { cmd := cPUBLISH [99] [109] }).1.conns 1).queue = [] ∧
    -- the prescribed behaviour on the same input
    (processFrame Quirks.spec sInTx 1 { cmd := cPUBLISH [99] [109] }).1.ext = [] ∧
    ((processFrame Quirks.spec sInTx 1 { cmd := cPUBLISH [99] [109] }).1.conns 1).queue = [cPUBLISH [99] [109]] := by
  decide

/-! ## 2. EXEC runs all queued commands, in order, and returns their replies in order -/

/-- EXEC on a connection in a transaction (WATCH check passed): the dataset afterwards is the LEFT
    FOLD of the single-command transformer over the queue, in queue order, started from the dataset
    EXEC found and with the connection's database index; the reply is an array with exactly one slot
    per queued command, slot `i` being the reply of command `i` run on the state left by commands
    `0 … i-1`.  For all queues (induction in `execFold_state`, `execFold_slot`). -/
theorem exec_runs_all_in_order (q : Quirks) (s : Server) (cid : Nat) (r : Req)
    (hin : (s.conns cid).inTx = true) (hw : r.watchOk = true) (ha : (s.conns cid).aborted = false) :
    let st0 : ExecSt := ⟨s.store, (s.conns cid).db, s.ext⟩
    let step := fun (st : ExecSt) (c : Cmd) => (runOne q true cid st r.now c).1
    let Q := (s.conns cid).queue
    (exec q s cid r).1.store = (Q.foldl step st0).store ∧
    ∃ slots, (exec q s cid r).2 = .exec slots ∧ slots.length = Q.length ∧
      ∀ i c, Q[i]? = some c → slots[i]? = some (runOne q true cid ((Q.take i).foldl step st0) r.now c).2 := by
  intro st0 step Q
  obtain ⟨h1, _, h3⟩ := exec_runs q s cid r hin hw ha
  refine ⟨?_, (execResult q s cid r.now).2, h3, ?_, ?_⟩
  · rw [h1]; unfold execResult; rw [execFold_state]
  · unfold execResult; exact execFold_length _ _ _ _ _ _
  · intro i c hc; unfold execResult; exact execFold_slot q true cid r.now st0 Q i c hc

/-- The same for queues of data commands (everything but SELECT, BLPOP/BRPOP and the hand-over
    names): the dataset is `foldl KS.step` over the queue with the connection's database, and slot `i`
    is `KS.step`'s reply to command `i` on the dataset left by the first `i` commands. -/
theorem exec_plain_is_fold_of_KS_step (q : Quirks) (s : Server) (cid : Nat) (r : Req)
    (hin : (s.conns cid).inTx = true) (hw : r.watchOk = true) (ha : (s.conns cid).aborted = false)
    (hp : ∀ c ∈ (s.conns cid).queue, plain c = true) :
    let db := (s.conns cid).db
    let kstep := fun (st : KS.Store) (c : Cmd) => (KS.step q.ks st db r.now c none).1
    let Q := (s.conns cid).queue
    (exec q s cid r).1.store = Q.foldl kstep s.store ∧
    ∃ slots, (exec q s cid r).2 = .exec slots ∧ slots.length = Q.length ∧
      ∀ i c, Q[i]? = some c →
        slots[i]? = some (Out.frame (KS.step q.ks ((Q.take i).foldl kstep s.store) db r.now c none).2) := by
  intro db kstep Q
  obtain ⟨h1, slots, h2, h3, h4⟩ := exec_runs_all_in_order q s cid r hin hw ha
  refine ⟨?_, slots, h2, h3, ?_⟩
  · rw [h1, foldl_plain q true cid r.now _ _ hp]
  · intro i c hc
    have hcm : c ∈ (s.conns cid).queue := List.mem_of_getElem? hc
    rw [h4 i c hc, foldl_plain q true cid r.now _ _ (take_plain hp i), runOne_plain q true cid _ r.now c (hp c hcm)]

/-- a state in which connection 1 has queued SET k v; INCR k; GET k -/
def sQueued : Server := setConn {} 1 { inTx := true, queue := [cSET [107] [53], cINCR [107], cGET [107]] }

example : (sQueued.conns 1).inTx = true ∧ (sQueued.conns 1).aborted = false ∧
    (∀ c ∈ (sQueued.conns 1).queue, plain c = true) := by decide

/-- … and EXEC replies `[OK, 6, "6"]` and leaves `k = 6` -/
example : (exec Quirks.code sQueued 1 { cmd := cEXEC }).2 =
      .exec [.frame KS.ok, .frame (.int 6), .frame (.bulk [54])] ∧
    KS.lookup (KS.getDb (exec Quirks.code sQueued 1 { cmd := cEXEC }).1.store 0) [107] = some ⟨.str [54], none⟩ :=
  ⟨rfl, by decide⟩

/-- EXEC equals the same commands sent directly, one after another, by a connection with the same
    database selected on a twin server in the same state: same final dataset, same hand-over log,
    same connection state afterwards, and EXEC's array is the list of the direct replies, in order.
    General form: holds whenever the queue contains no blocking pop and either the SELECT switch is
    off or the queue contains no SELECT. -/
theorem exec_eq_back_to_back_general (q : Quirks) (s twin : Server) (cid : Nat) (r : Req)
    (hin : (s.conns cid).inTx = true) (hw : r.watchOk = true) (ha : (s.conns cid).aborted = false)
    (hQ : ∀ c ∈ (s.conns cid).queue, queueable q c = true ∧ isBlockingName (nameOf c) = false)
    (hsel : q.selectInExecIgnored = false ∨ ∀ c ∈ (s.conns cid).queue, nameOf c ≠ "SELECT")
    (hcn : q.connCommandsUnderConnZero = false ∨ ∀ c ∈ (s.conns cid).queue, nameOf c ∉ connectionNames)
    (hu : q.controlArityUnchecked = false ∨ ∀ c ∈ (s.conns cid).queue, nameOf c ≠ "UNWATCH")
    (hts : twin.store = s.store) (hte : twin.ext = s.ext) (htc : twin.conns cid = { db := (s.conns cid).db }) :
    let direct := framesOf cid r.now (s.conns cid).queue
    (exec q s cid r).1.store = (run q twin direct).store ∧
    (exec q s cid r).1.ext = (run q twin direct).ext ∧
    (exec q s cid r).1.conns cid = (run q twin direct).conns cid ∧
    ∃ slots, (exec q s cid r).2 = .exec slots ∧ trace q twin direct = slots.map fun o => some (.one o) := by
  intro direct
  obtain ⟨e1, e2, e3⟩ := exec_runs q s cid r hin hw ha
  have hk : ∀ c ∈ (s.conns cid).queue, c ≠ [] ∧ kindOf (nameOf c) = .other := by
    intro c hc
    have := (queueable_iff q c).1 (hQ c hc).1
    exact ⟨this.1, this.2.1⟩
  have hinT : (twin.conns cid).inTx = false := by rw [htc]
  have hd := direct_run q cid r.now (s.conns cid).queue twin hinT hk
  simp only [] at hd
  have hst : (⟨twin.store, (twin.conns cid).db, twin.ext⟩ : ExecSt) = ⟨s.store, (s.conns cid).db, s.ext⟩ := by
    rw [hts, hte, htc]
  rw [hst, ← execFold_exec_eq_direct q cid r.now _ _ (fun c hc => (hQ c hc).2) hsel hcn hu] at hd
  obtain ⟨d1, d2, d3, _, d5⟩ := hd
  refine ⟨e1.trans d1.symm, e2.trans d2.symm, ?_, _, e3, d5⟩
  rw [d3, htc, exec_conn_self]
  simp [hin, hw, ha, cleared, execResult, execFold_db]

/-- Full statement (prescribed behaviour: a queued SELECT does select, a queued command about the
    connection runs under the connection's own id): for EVERY queue without blocking pops, EXEC ≡
    back-to-back execution. -/
theorem exec_eq_back_to_back (q : Quirks) (hq : q.selectInExecIgnored = false) (hq2 : q.connCommandsUnderConnZero = false)
    (hq3 : q.controlArityUnchecked = false) (s twin : Server) (cid : Nat) (r : Req)
    (hin : (s.conns cid).inTx = true) (hw : r.watchOk = true) (ha : (s.conns cid).aborted = false)
    (hQ : ∀ c ∈ (s.conns cid).queue, queueable q c = true ∧ isBlockingName (nameOf c) = false)
    (hts : twin.store = s.store) (hte : twin.ext = s.ext) (htc : twin.conns cid = { db := (s.conns cid).db }) :
    let direct := framesOf cid r.now (s.conns cid).queue
    (exec q s cid r).1.store = (run q twin direct).store ∧
    (exec q s cid r).1.ext = (run q twin direct).ext ∧
    (exec q s cid r).1.conns cid = (run q twin direct).conns cid ∧
    ∃ slots, (exec q s cid r).2 = .exec slots ∧ trace q twin direct = slots.map fun o => some (.one o) :=
  exec_eq_back_to_back_general q s twin cid r hin hw ha hQ (Or.inl hq) (Or.inl hq2) (Or.inl hq3) hts hte htc

/-- The code as it is (any setting of the switches): the same, for queues that contain neither SELECT
    nor a command about the connection (CLIENT) nor UNWATCH (whose arity the tree as found tests only
    when EXEC runs it). -/
theorem exec_eq_back_to_back_partial (q : Quirks) (s twin : Server) (cid : Nat) (r : Req)
    (hin : (s.conns cid).inTx = true) (hw : r.watchOk = true) (ha : (s.conns cid).aborted = false)
    (hQ : ∀ c ∈ (s.conns cid).queue, queueable q c = true ∧ isBlockingName (nameOf c) = false)
    (hnosel : ∀ c ∈ (s.conns cid).queue, nameOf c ≠ "SELECT")
    (hnocl : ∀ c ∈ (s.conns cid).queue, nameOf c ∉ connectionNames)
    (hnou : ∀ c ∈ (s.conns cid).queue, nameOf c ≠ "UNWATCH")
    (hts : twin.store = s.store) (hte : twin.ext = s.ext) (htc : twin.conns cid = { db := (s.conns cid).db }) :
    let direct := framesOf cid r.now (s.conns cid).queue
    (exec q s cid r).1.store = (run q twin direct).store ∧
    (exec q s cid r).1.ext = (run q twin direct).ext ∧
    (exec q s cid r).1.conns cid = (run q twin direct).conns cid ∧
    ∃ slots, (exec q s cid r).2 = .exec slots ∧ trace q twin direct = slots.map fun o => some (.one o) :=
  exec_eq_back_to_back_general q s twin cid r hin hw ha hQ (Or.inr hnosel) (Or.inr hnocl) (Or.inr hnou) hts hte htc

example : (∀ c ∈ (sQueued.conns 1).queue, queueable Quirks.code c = true ∧ isBlockingName (nameOf c) = false) ∧
    (∀ c ∈ (sQueued.conns 1).queue, nameOf c ≠ "SELECT") ∧
    (∀ c ∈ (sQueued.conns 1).queue, nameOf c ∉ connectionNames) ∧
    (∀ c ∈ (sQueued.conns 1).queue, nameOf c ≠ "UNWATCH") := by decide

/-- `MULTI; SELECT 1; SET k v; EXEC` as the code runs it -/
def sSelect : Server := setConn {} 1 { inTx := true, queue := [cSELECT [49], cSET [107] [118]] }

/-- Witness (DESIGN row 28): with a queued SELECT the code's EXEC differs from back-to-back
    execution — both slots say OK but `k` lands in database 0, directly it lands in database 1, and
    the connection stays on database 0.  The prescribed variant agrees with the direct run. -/
theorem exec_eq_back_to_back_fails_select :
    (∀ c ∈ (sSelect.conns 1).queue, queueable Quirks.code c = true ∧ isBlockingName (nameOf c) = false) ∧
    (exec Quirks.code sSelect 1 { cmd := cEXEC }).1.store ≠
      (run Quirks.code {} (framesOf 1 0 (sSelect.conns 1).queue)).store ∧
    KS.lookup (KS.getDb (exec Quirks.code sSelect 1 { cmd := cEXEC }).1.store 0) [107] = some ⟨.str [118], none⟩ ∧
    KS.lookup (KS.getDb (run Quirks.code {} (framesOf 1 0 (sSelect.conns 1).queue)).store 1) [107] = some ⟨.str [118], none⟩ ∧
    ((exec Quirks.code sSelect 1 { cmd := cEXEC }).1.conns 1).db = 0 ∧
    ((run Quirks.code {} (framesOf 1 0 (sSelect.conns 1).queue)).conns 1).db = 1 ∧
    (exec Quirks.spec sSelect 1 { cmd := cEXEC }).1.store =
      (run Quirks.spec {} (framesOf 1 0 (sSelect.conns 1).queue)).store := by
  decide

/-! ## 3. EXEC is one indivisible step with respect to every other client -/

/-- For EVERY schedule of the event loop (any number of connections, frames, disconnects and loop
    work in any order) and EVERY position `p` holding an EXEC frame of connection `cid`:
    the server state seen by the next event, whoever sends it, differs from the state the EXEC found
    exactly by EXEC's loop over the queue that connection had at that moment (`execResult`), and the
    reply sent is that loop's reply list; when the EXEC is refused or its WATCH check fails the
    dataset is the one it found.  There is no state of the schedule that lies between two queued
    commands: every other event acts on `before` or on `after`. -/
theorem exec_is_one_transition (q : Quirks) (s0 : Server) (evs : List Event) (p cid : Nat) (r : Req)
    (hp : evs[p]? = some (.frame cid r)) (hname : nameOf r.cmd = "EXEC") (harity : arityOk q r.cmd) :
    let before := run q s0 (evs.take p)
    let after := run q s0 (evs.take (p + 1))
    let c := before.conns cid
    (c.inTx = true → r.watchOk = true → c.aborted = false →
      after.store = (execResult q before cid r.now).1.store ∧
      after.ext = (execResult q before cid r.now).1.ext ∧
      (trace q s0 evs)[p]? = some (some (.exec (execResult q before cid r.now).2))) ∧
    (¬(c.inTx = true ∧ r.watchOk = true) → after.store = before.store ∧ after.ext = before.ext) ∧
    run q s0 evs = run q after (evs.drop (p + 1)) := by
  intro before after c
  have hafter : after = (exec q before cid r).1 := by
    show run q s0 (evs.take (p + 1)) = _
    rw [run_take_succ q s0 evs p _ hp]
    simp [stepEvent, processFrame_exec q _ cid r hname harity, before]
  have htr : (trace q s0 evs)[p]? = some (some (exec q before cid r).2) := by
    rw [trace_getElem q s0 evs p _ hp]
    simp [stepEvent, processFrame_exec q _ cid r hname harity, before]
  refine ⟨?_, ?_, ?_⟩
  · intro hin hw ha
    obtain ⟨h1, h2, h3⟩ := exec_runs q before cid r hin hw ha
    rw [hafter, htr, h3]
    exact ⟨h1, h2, rfl⟩
  · intro hno
    rw [hafter]
    by_cases hin : c.inTx = true
    · have hw : r.watchOk = false := by
        cases hh : r.watchOk
        · rfl
        · exact absurd ⟨hin, hh⟩ hno
      rw [exec_watch_failed q before cid r hin hw]; exact ⟨rfl, rfl⟩
    · have : (before.conns cid).inTx = false := by
        cases hh : (before.conns cid).inTx
        · rfl
        · exact absurd hh hin
      rw [exec_refused q before cid r this]; exact ⟨rfl, rfl⟩
  · exact run_split q s0 evs (p + 1)

/-- Two connections interleaved: 1 queues SET k 5 and INCR k, 2 reads k in between and after. -/
def demoSchedule : List Event :=
  [.frame 1 { cmd := cMULTI }, .frame 1 { cmd := cSET [107] [53] }, .frame 2 { cmd := cGET [107] },
   .frame 1 { cmd := cINCR [107] }, .frame 2 { cmd := cGET [107] }, .frame 1 { cmd := cEXEC },
   .frame 2 { cmd := cGET [107] }]

/-- non-vacuity: position 5 of the demo schedule is such an EXEC, it runs, connection 2 saw nil
    twice before it and `6` after it -/
example : demoSchedule[5]? = some (.frame 1 { cmd := cEXEC }) ∧
    ((run Quirks.code {} (demoSchedule.take 5)).conns 1).inTx = true ∧
    ((run Quirks.code {} (demoSchedule.take 5)).conns 1).queue = [cSET [107] [53], cINCR [107]] ∧
    trace Quirks.code {} demoSchedule = [some (.one (.frame KS.ok)), some (.one (.frame queuedFrame)),
      some (.one (.frame .nullBulk)), some (.one (.frame queuedFrame)), some (.one (.frame .nullBulk)),
      some (.exec [.frame KS.ok, .frame (.int 6)]), some (.one (.frame (.bulk [54])))] :=
  ⟨rfl, by decide, by decide, rfl⟩

/-- Every reply any client receives — position `p` of any schedule — is computed from the state at
    an event boundary, `run (evs.take p)`: a state before or after a whole EXEC, never one in which
    only part of a queue has run. -/
theorem every_reply_is_computed_at_an_event_boundary (q : Quirks) (s0 : Server) (evs : List Event) (p : Nat) (e : Event)
    (hp : evs[p]? = some e) :
    (trace q s0 evs)[p]? = some (stepEvent q (run q s0 (evs.take p)) e).2 :=
  trace_getElem q s0 evs p e hp

/-- Hence an invariant of the dataset that every event preserves AS A WHOLE — an EXEC counting as one
    event, however many commands it runs and even if they break the invariant in between (a transfer:
    DECRBY a n; INCRBY b n) — holds in every state any client can observe, for every schedule. -/
theorem invariant_holds_at_every_observation (q : Quirks) (Inv : KS.Store → Prop) (s0 : Server) (evs : List Event)
    (h0 : Inv s0.store)
    (hstep : ∀ p e, evs[p]? = some e → Inv (run q s0 (evs.take p)).store → Inv (run q s0 (evs.take (p + 1))).store) :
    ∀ p, Inv (run q s0 (evs.take p)).store := by
  intro p
  induction p with
  | zero => simpa [run_nil] using h0
  | succ n ih =>
    cases h : evs[n]? with
    | none =>
      have hlen : evs.length ≤ n := by simpa using h
      rw [List.take_of_length_le (by omega)]
      rw [List.take_of_length_le hlen] at ih
      exact ih
    | some e => exact hstep n e h ih

def cDECRBY (k n : Bytes) : Cmd := [[68, 69, 67, 82, 66, 89], k, n]
def cINCRBY (k n : Bytes) : Cmd := [[73, 78, 67, 82, 66, 89], k, n]
def cMGET (k j : Bytes) : Cmd := [[77, 71, 69, 84], k, j]

/-- two writers (connections 1, 2) transfer 7 and 5 from `a` (= 100) to `b` (= 0) with their frames
    interleaved; reader 3 looks with MGET after every step -/
def demoTransfers : List Event :=
  [.frame 1 { cmd := cMULTI }, .frame 2 { cmd := cMULTI }, .frame 1 { cmd := cDECRBY [97] [55] },
   .frame 3 { cmd := cMGET [97] [98] }, .frame 2 { cmd := cDECRBY [97] [53] }, .frame 1 { cmd := cINCRBY [98] [55] },
   .frame 3 { cmd := cMGET [97] [98] }, .frame 1 { cmd := cEXEC }, .frame 3 { cmd := cMGET [97] [98] },
   .frame 2 { cmd := cINCRBY [98] [53] }, .frame 2 { cmd := cEXEC }, .frame 3 { cmd := cMGET [97] [98] }]

def sTransfers : Server :=
  { store := (KS.step {} (KS.step {} KS.emptyStore 0 0 (cSET [97] [49, 48, 48]) none).1 0 0 (cSET [98] [48]) none).1 }

/-- the reader sees (100, 0), (100, 0), (93, 7), (88, 12): always 100 in total, although each
    transaction passes through a state with total 93 resp. 88 -/
example : (trace Quirks.code sTransfers demoTransfers).filterMap (fun r => match r with
      | some (.one (.frame (.array [.bulk x, .bulk y]))) => some (x, y)
      | _ => none) =
    [([49, 48, 48], [48]), ([49, 48, 48], [48]), ([57, 51], [55]), ([56, 56], [49, 50])] := by decide

/-- What the queue holds when the EXEC arrives: if the connection's OWN events, in a schedule
    interleaved arbitrarily with other connections, are anything that leaves it idle followed by
    MULTI and then queueable commands `cmds`, its queue is exactly `cmds`, in the order sent. -/
theorem queue_is_what_was_sent (q : Quirks) (s : Server) (evs : List Event) (cid now : Nat) (pre : List Event) (cmds : List Cmd)
    (hown : ownEvents cid evs = pre ++ framesOf cid now (cMULTI :: cmds))
    (hidle : (pre.foldl (connEvent q) (s.conns cid)).inTx = false)
    (hc : ∀ c ∈ cmds, queueable q c = true) :
    ((run q s evs).conns cid).inTx = true ∧ ((run q s evs).conns cid).queue = cmds ∧
    ((run q s evs).conns cid).aborted = false ∧
    ((run q s evs).conns cid).db = (pre.foldl (connEvent q) (s.conns cid)).db := by
  rw [conn_state_is_fold_of_own_events, hown, List.foldl_append]
  generalize pre.foldl (connEvent q) (s.conns cid) = c0 at hidle
  have hn : nameOf cMULTI = "MULTI" := by decide
  have he : cMULTI.isEmpty = false := rfl
  have hm : (framesOf cid now (cMULTI :: cmds)).foldl (connEvent q) c0 =
      (framesOf cid now cmds).foldl (connEvent q) { c0 with inTx := true, queue := [], aborted := false } := by
    simp only [framesOf, List.map_cons, List.foldl_cons]
    congr 1
    simp [connEvent, connStep, he, hn, kindOf, hidle, badArity_ok q cMULTI (Or.inl rfl)]
  rw [hm, fold_queueing q cid now cmds _ rfl hc]
  simp

/-- A fresh transaction runs exactly its own commands, whatever came before on that connection:
    if the connection's own events — interleaved in any way with other connections — are ANY history
    that leaves it outside a transaction (earlier transactions that ran, that were refused because a
    WATCHed key changed, that were DISCARDed, refused EXECs and nested MULTIs, …) followed by MULTI and
    the queueable commands `cmds`, then an EXEC whose WATCH check passes replies with exactly
    `|cmds|` slots and leaves the dataset that EXEC's loop over `cmds` — nothing of an earlier, aborted
    or discarded transaction is run. -/
theorem fresh_transaction_runs_exactly_its_own_commands (q : Quirks) (s : Server) (evs : List Event) (cid now : Nat)
    (pre : List Event) (cmds : List Cmd) (r : Req)
    (hown : ownEvents cid evs = pre ++ framesOf cid now (cMULTI :: cmds))
    (hidle : (pre.foldl (connEvent q) (s.conns cid)).inTx = false)
    (hc : ∀ c ∈ cmds, queueable q c = true)
    (hname : nameOf r.cmd = "EXEC") (harity : arityOk q r.cmd) (hw : r.watchOk = true) :
    let S := run q s evs
    ∃ slots, (processFrame q S cid r).2 = .exec slots ∧ slots.length = cmds.length ∧
      (processFrame q S cid r).1.store =
        (execFold q true cid r.now ⟨S.store, (S.conns cid).db, S.ext⟩ cmds).1.store ∧
      ((processFrame q S cid r).1.conns cid).queue = [] := by
  intro S
  obtain ⟨h1, h2, h3, _⟩ := queue_is_what_was_sent q s evs cid now pre cmds hown hidle hc
  rw [processFrame_exec q S cid r hname harity]
  obtain ⟨e1, _, e3⟩ := exec_runs q S cid r h1 hw h3
  refine ⟨_, e3, ?_, ?_, ?_⟩
  · unfold execResult; rw [execFold_length, h2]
  · rw [e1]; unfold execResult; rw [h2]
  · have h1' : (S.conns cid).inTx = true := h1
    have h3' : (S.conns cid).aborted = false := h3
    rw [exec_conn_self]; simp [h1', hw, h3', cleared]

/-- an earlier transaction of connection 1 was refused by WATCH (`watchOk := false`), then a fresh one -/
def demoAfterAbort : List Event :=
  [.frame 1 { cmd := cMULTI }, .frame 1 { cmd := cSET [97] [49] }, .frame 1 { cmd := cINCR [99] },
   .frame 1 { cmd := cEXEC, watchOk := false },
   .frame 1 { cmd := cMULTI }, .frame 1 { cmd := cSET [98] [50] }, .frame 1 { cmd := cEXEC }]

/-- non-vacuity: the refused EXEC answers a null array, the next EXEC has ONE slot, `a` was never set -/
example : trace Quirks.spec {} demoAfterAbort =
      [some (.one (.frame KS.ok)), some (.one (.frame queuedFrame)), some (.one (.frame queuedFrame)),
       some (.one (.frame .nullArray)),
       some (.one (.frame KS.ok)), some (.one (.frame queuedFrame)), some (.exec [.frame KS.ok])] ∧
    KS.lookup (KS.getDb (run Quirks.spec {} demoAfterAbort).store 0) [97] = none :=
  ⟨rfl, by decide⟩

/-! ## 4. A runtime error is reported in its slot and does not stop the others -/

/-- If the queue is `pre ++ bad :: post` and the data command `bad` fails at run time on the state
    left by `pre` (wrong type, not an integer, unknown command, wrong arity — anything `KS.step`
    answers with an error), then: slot `|pre|` of EXEC's array is that error; `bad` changed nothing
    (`KS.step_atomic`: the dataset is the one it found, up to dropping entries that had already
    expired); and the commands after it still run — the final dataset and the remaining slots are
    those of `post` executed from there. -/
theorem runtime_error_in_slot (q : Quirks) (s : Server) (cid : Nat) (r : Req)
    (hin : (s.conns cid).inTx = true) (hw : r.watchOk = true) (ha : (s.conns cid).aborted = false)
    (pre post : List Cmd) (bad : Cmd) (hQ : (s.conns cid).queue = pre ++ bad :: post) (hplain : plain bad = true) :
    let stPre := (execFold q true cid r.now ⟨s.store, (s.conns cid).db, s.ext⟩ pre).1
    let kres := KS.step q.ks stPre.store stPre.db r.now bad none
    KS.isErr kres.2 = true →
    let stBad : ExecSt := { stPre with store := kres.1 }
    (stBad.store = stPre.store ∨
      stBad.store = KS.setDb stPre.store stPre.db (KS.purge r.now (KS.getDb stPre.store stPre.db))) ∧
    (exec q s cid r).1.store = (execFold q true cid r.now stBad post).1.store ∧
    (exec q s cid r).2 = .exec ((execFold q true cid r.now ⟨s.store, (s.conns cid).db, s.ext⟩ pre).2 ++
        .frame kres.2 :: (execFold q true cid r.now stBad post).2) := by
  intro stPre kres herr stBad
  obtain ⟨h1, _, h3⟩ := exec_runs q s cid r hin hw ha
  have hone : runOne q true cid stPre r.now bad = (stBad, .frame kres.2) := runOne_plain q true cid stPre r.now bad hplain
  refine ⟨KS.step_atomic q.ks stPre.store stPre.db r.now bad none herr, ?_, ?_⟩
  · rw [h1]; unfold execResult; rw [hQ, execFold_append, execFold_cons, hone]
  · rw [h3]; unfold execResult; rw [hQ, execFold_append, execFold_cons, hone]

/-- `MULTI; SET k abc; INCR k; SET j 1; EXEC` -/
def sRuntimeErr : Server := setConn {} 1 { inTx := true, queue := [cSET [107] [97, 98, 99], cINCR [107], cSET [106] [49]] }

/-- non-vacuity: INCR on "abc" fails in slot 1, slots 0 and 2 are OK and both SETs took effect -/
example : (exec Quirks.code sRuntimeErr 1 { cmd := cEXEC }).2 = .exec [.frame KS.ok, .frame KS.err, .frame KS.ok] ∧
    KS.lookup (KS.getDb (exec Quirks.code sRuntimeErr 1 { cmd := cEXEC }).1.store 0) [107] = some ⟨.str [97, 98, 99], none⟩ ∧
    KS.lookup (KS.getDb (exec Quirks.code sRuntimeErr 1 { cmd := cEXEC }).1.store 0) [106] = some ⟨.str [49], none⟩ :=
  ⟨rfl, by decide, by decide⟩

/-! ## 5. DISCARD and a disconnect drop the queue without any effect -/

/-- DISCARD inside a transaction: the dataset, the hand-over log and every other connection are
    exactly as before; the connection is out of the transaction with an empty queue; reply OK. -/
theorem discard_drops (q : Quirks) (s : Server) (cid : Nat) (r : Req)
    (hname : nameOf r.cmd = "DISCARD") (harity : arityOk q r.cmd) (hin : (s.conns cid).inTx = true) :
    processFrame q s cid r = (setConn s cid (cleared (s.conns cid)), .one (.frame KS.ok)) ∧
    (processFrame q s cid r).1.store = s.store ∧ (processFrame q s cid r).1.ext = s.ext ∧
    ((processFrame q s cid r).1.conns cid).inTx = false ∧ ((processFrame q s cid r).1.conns cid).queue = [] := by
  have hne : r.cmd.isEmpty = false := by
    cases hc : r.cmd with
    | nil => rw [hc] at hname; simp [nameOf] at hname
    | cons a b => rfl
  have hk : kindOf (nameOf r.cmd) = .discard := (kindOf_discard _).2 hname
  have : processFrame q s cid r = (setConn s cid (cleared (s.conns cid)), .one (.frame KS.ok)) := by
    unfold processFrame; simp [hne, hk, hin, badArity_ok q r.cmd harity]
  rw [this]
  simp [cleared]

/-- A disconnect at any moment: the dataset and the hand-over log are untouched and nothing of the
    connection's transaction survives (a queue is data of the `Connection` object only). -/
theorem disconnect_drops (q : Quirks) (s : Server) (cid : Nat) :
    (stepEvent q s (.disconnect cid)).1.store = s.store ∧
    (stepEvent q s (.disconnect cid)).1.ext = s.ext ∧
    (stepEvent q s (.disconnect cid)).1.conns cid = Conn.fresh ∧
    ∀ j, j ≠ cid → (stepEvent q s (.disconnect cid)).1.conns j = s.conns j := by
  refine ⟨rfl, rfl, by simp [stepEvent], ?_⟩
  intro j hj; simp [stepEvent, setConn, hj]

/-- A connection whose own frames never reach the dataset is invisible, for EVERY interleaving
    with the events of all other connections: the final dataset, hand-over log and the state of
    every other connection, and every reply sent to the others, are exactly those of the schedule
    with that connection's events erased. -/
theorem quiet_connection_is_invisible (q : Quirks) (s : Server) (evs : List Event) (cid : Nat)
    (hq : QuietRun q (s.conns cid) (ownEvents cid evs)) :
    (run q s evs).store = (run q s (otherEvents cid evs)).store ∧
    (run q s evs).ext = (run q s (otherEvents cid evs)).ext ∧
    (∀ j, j ≠ cid → (run q s evs).conns j = (run q s (otherEvents cid evs)).conns j) ∧
    repliesToOthers q cid s evs = trace q s (otherEvents cid evs) := by
  obtain ⟨⟨h1, h2, h3⟩, h4⟩ := quiet_erase q cid evs s s (Agree.refl cid s) hq
  exact ⟨h1, h2, h3, h4⟩

/-- A transaction that ends in DISCARD has no effect whatsoever: if the own frames of connection
    `cid` — interleaved in ANY way with any events of other connections — are MULTI, any queueable
    commands, DISCARD, then everybody else's replies and the final dataset are as if `cid` had sent
    nothing. -/
theorem discarded_transaction_invisible (q : Quirks) (s : Server) (evs : List Event) (cid now : Nat) (cmds : List Cmd)
    (hidle : (s.conns cid).inTx = false)
    (hown : ownEvents cid evs = framesOf cid now (cMULTI :: cmds) ++ [.frame cid { cmd := cDISCARD, now := now }])
    (hc : ∀ c ∈ cmds, queueable q c = true) :
    (run q s evs).store = (run q s (otherEvents cid evs)).store ∧
    (run q s evs).ext = (run q s (otherEvents cid evs)).ext ∧
    repliesToOthers q cid s evs = trace q s (otherEvents cid evs) := by
  have hq : QuietRun q (s.conns cid) (ownEvents cid evs) := by
    rw [hown]
    have hn : nameOf cMULTI = "MULTI" := by decide
    have hd : nameOf cDISCARD = "DISCARD" := by decide
    simp only [framesOf, List.map_cons, List.cons_append, QuietRun]
    refine ⟨by simp [quietFrame, hn, kindOf], ?_⟩
    have he : cMULTI.isEmpty = false := rfl
    refine quietRun_queueing q cid now cmds _ _ ?_ hc ?_
    · simp [connEvent, connStep, he, hn, kindOf, hidle, badArity_ok q cMULTI (Or.inl rfl)]
    · intro c' _
      simp [QuietRun, quietFrame, hd, kindOf]
  obtain ⟨h1, h2, _, h4⟩ := quiet_connection_is_invisible q s evs cid hq
  exact ⟨h1, h2, h4⟩

/-- The same when the client goes away in the middle of the transaction (socket closed after MULTI
    and any queued commands): nothing was applied, nobody else can tell. -/
theorem disconnected_transaction_invisible (q : Quirks) (s : Server) (evs : List Event) (cid now : Nat) (cmds : List Cmd)
    (hidle : (s.conns cid).inTx = false)
    (hown : ownEvents cid evs = framesOf cid now (cMULTI :: cmds) ++ [.disconnect cid])
    (hc : ∀ c ∈ cmds, queueable q c = true) :
    (run q s evs).store = (run q s (otherEvents cid evs)).store ∧
    (run q s evs).ext = (run q s (otherEvents cid evs)).ext ∧
    repliesToOthers q cid s evs = trace q s (otherEvents cid evs) := by
  have hq : QuietRun q (s.conns cid) (ownEvents cid evs) := by
    rw [hown]
    have hn : nameOf cMULTI = "MULTI" := by decide
    simp only [framesOf, List.map_cons, List.cons_append, QuietRun]
    refine ⟨by simp [quietFrame, hn, kindOf], ?_⟩
    have he : cMULTI.isEmpty = false := rfl
    refine quietRun_queueing q cid now cmds _ _ ?_ hc ?_
    · simp [connEvent, connStep, he, hn, kindOf, hidle, badArity_ok q cMULTI (Or.inl rfl)]
    · intro c' _
      simp [QuietRun]
  obtain ⟨h1, h2, _, h4⟩ := quiet_connection_is_invisible q s evs cid hq
  exact ⟨h1, h2, h4⟩

/-- connection 1 opens a transaction, queues SET k v, connection 2 writes j in between, 1 discards -/
def demoDiscard : List Event :=
  [.frame 1 { cmd := cMULTI }, .frame 2 { cmd := cSET [106] [49] }, .frame 1 { cmd := cSET [107] [118] },
   .frame 2 { cmd := cGET [107] }, .frame 1 { cmd := cDISCARD }]

example : ownEvents 1 demoDiscard = framesOf 1 0 (cMULTI :: [cSET [107] [118]]) ++ [.frame 1 { cmd := cDISCARD, now := 0 }] ∧
    (∀ c ∈ [cSET [107] [118]], queueable Quirks.code c = true) := ⟨rfl, by decide⟩

/-! ## 6. Transaction state is cleared by EXEC and DISCARD, and is per connection -/

/-- After EXEC on a connection in a transaction — whether the queue ran, the WATCH check failed or
    the transaction was flagged — and after DISCARD, the connection is out of the transaction, its
    queue is empty and the flag is reset. -/
theorem state_cleared_by_exec_and_discard (q : Quirks) (s : Server) (cid : Nat) (r : Req)
    (hin : (s.conns cid).inTx = true) (hname : nameOf r.cmd = "EXEC" ∨ nameOf r.cmd = "DISCARD")
    (harity : arityOk q r.cmd) :
    ((processFrame q s cid r).1.conns cid).inTx = false ∧
    ((processFrame q s cid r).1.conns cid).queue = [] ∧
    ((processFrame q s cid r).1.conns cid).aborted = false := by
  rw [processFrame_conn_self]
  have hne : r.cmd.isEmpty = false := by
    cases hc : r.cmd with
    | nil => rw [hc] at hname; simp [nameOf] at hname
    | cons a b => rfl
  rcases hname with h | h
  · have hk := (kindOf_exec _).2 h
    unfold connStep
    simp only [hne, hk, hin, badArity_ok q r.cmd harity]
    repeat' split
    all_goals simp_all [cleared]
  · have hk := (kindOf_discard _).2 h
    unfold connStep
    simp [hne, hk, hin, cleared, badArity_ok q r.cmd harity]

/-- For EVERY schedule and every connection: its state (database index, in-transaction flag, queue,
    flag) after the schedule is a function of ITS OWN events only — neither the dataset nor any frame
    of any other connection enters. -/
theorem state_is_per_connection (q : Quirks) (s : Server) (evs : List Event) (cid : Nat) :
    (run q s evs).conns cid = (ownEvents cid evs).foldl (connEvent q) (s.conns cid) :=
  conn_state_is_fold_of_own_events q s evs cid

/-- In particular frames of connection A never change B's transaction: a schedule in which B sends
    nothing leaves B's state as it was, whatever A (and everybody else) does. -/
theorem others_never_touch_my_transaction (q : Quirks) (s : Server) (evs : List Event) (b : Nat)
    (h : ∀ e ∈ evs, e.conn? ≠ some b) : (run q s evs).conns b = s.conns b := by
  rw [conn_state_is_fold_of_own_events]
  have : ownEvents b evs = [] := by
    unfold ownEvents
    rw [List.filter_eq_nil_iff]
    intro e he; simp [h e he]
  rw [this]; rfl

/-- Two servers that differ only in what OTHER connections did and in the dataset give a
    connection the same transaction state after the same own frames (corollary used by lib/c07.py:
    the model predicts each connection's QUEUED/EXEC behaviour from its own frames). -/
theorem own_frames_determine_state (q : Quirks) (s s' : Server) (evs evs' : List Event) (cid : Nat)
    (h0 : s.conns cid = s'.conns cid) (h : ownEvents cid evs = ownEvents cid evs') :
    (run q s evs).conns cid = (run q s' evs').conns cid := by
  rw [conn_state_is_fold_of_own_events, conn_state_is_fold_of_own_events, h0, h]

example : ∀ e ∈ [Event.frame 1 { cmd := cMULTI }, .frame 1 { cmd := cSET [107] [118] }, .disconnect 3], e.conn? ≠ some 2 := by
  intro e he; simp at he; rcases he with h | h | h <;> subst h <;> simp [Event.conn?]

/-! ## 7. EXEC without MULTI, nested MULTI -/

/-- EXEC (and DISCARD) outside a transaction: an error reply and the server is exactly as before. -/
theorem exec_without_multi_refused (q : Quirks) (s : Server) (cid : Nat) (r : Req)
    (hname : nameOf r.cmd = "EXEC" ∨ nameOf r.cmd = "DISCARD") (hin : (s.conns cid).inTx = false) :
    processFrame q s cid r = (s, .one (.frame KS.err)) := by
  by_cases hb : badArity q r.cmd = true
  · unfold processFrame; simp [hb]
  have hb' : badArity q r.cmd = false := by simpa using hb
  have hne : r.cmd.isEmpty = false := by
    cases hc : r.cmd with
    | nil => rw [hc] at hname; simp [nameOf] at hname
    | cons a b => rfl
  rcases hname with h | h
  · have hk := (kindOf_exec _).2 h
    have : processFrame q s cid r = exec q s cid r := by unfold processFrame; simp [hne, hk, hb']
    rw [this, exec_refused q s cid r hin]
  · have hk := (kindOf_discard _).2 h
    unfold processFrame; simp [hne, hk, hin, hb']

/-- MULTI inside a transaction is refused with an error and — as the code does it — NOTHING is
    touched: the connection stays in the transaction, the queue keeps every command queued so far,
    the flag is not set (so a later EXEC still runs the queue). -/
theorem nested_multi_refused_keeps_queue (q : Quirks) (s : Server) (cid : Nat) (r : Req)
    (hname : nameOf r.cmd = "MULTI") (hin : (s.conns cid).inTx = true) :
    processFrame q s cid r = (s, .one (.frame KS.err)) := by
  have hne : r.cmd.isEmpty = false := by
    cases hc : r.cmd with
    | nil => rw [hc] at hname; simp [nameOf] at hname
    | cons a b => rfl
  have hk := (kindOf_multi _).2 hname
  unfold processFrame
  cases hb : badArity q r.cmd <;> simp [hne, hk, hin, hb]

/-- MULTI outside a transaction opens one with an empty queue. -/
theorem multi_opens (q : Quirks) (s : Server) (cid : Nat) (r : Req)
    (hname : nameOf r.cmd = "MULTI") (harity : arityOk q r.cmd) (hin : (s.conns cid).inTx = false) :
    processFrame q s cid r =
      (setConn s cid { s.conns cid with inTx := true, queue := [], aborted := false }, .one (.frame KS.ok)) := by
  have hne : r.cmd.isEmpty = false := by
    cases hc : r.cmd with
    | nil => rw [hc] at hname; simp [nameOf] at hname
    | cons a b => rfl
  have hk := (kindOf_multi _).2 hname
  unfold processFrame; simp [hne, hk, hin, badArity_ok q r.cmd harity]

/-- Prescribed: MULTI, EXEC and DISCARD with surplus arguments are refused and NOTHING changes — a
    malformed EXEC does not execute (and does not leave) the transaction, a malformed DISCARD discards
    nothing, a malformed MULTI opens nothing. -/
theorem malformed_control_command_refused (q : Quirks) (hq : q.controlArityUnchecked = false) (s : Server) (cid : Nat) (r : Req)
    (hname : nameOf r.cmd = "MULTI" ∨ nameOf r.cmd = "EXEC" ∨ nameOf r.cmd = "DISCARD") (hlen : r.cmd.length ≠ 1) :
    processFrame q s cid r = (s, .one (.frame KS.err)) := by
  have hne : r.cmd.isEmpty = false := by
    cases hc : r.cmd with
    | nil => rw [hc] at hname; simp [nameOf] at hname
    | cons a b => rfl
  have hb : badArity q r.cmd = true := by
    unfold badArity
    rcases hname with h | h | h
    · simp [(kindOf_multi _).2 h, hlen, hq]
    · simp [(kindOf_exec _).2 h, hlen, hq]
    · simp [(kindOf_discard _).2 h, hlen, hq]
  unfold processFrame; simp [hne, hb]

/-- Witness for the tree as found: `EXEC junk` executes the queue (and `SET k v` takes effect). -/
theorem malformed_control_command_refused_fails_exec :
    nameOf (cEXEC ++ [[106]]) = "EXEC" ∧ (cEXEC ++ [[106]]).length ≠ 1 ∧
    (processFrame Quirks.code sQueued 1 { cmd := cEXEC ++ [[106]] }).2 =
      .exec [.frame KS.ok, .frame (.int 6), .frame (.bulk [54])] ∧
    (processFrame Quirks.spec sQueued 1 { cmd := cEXEC ++ [[106]] }).2 = .one (.frame KS.err) ∧
    ((processFrame Quirks.spec sQueued 1 { cmd := cEXEC ++ [[106]] }).1.conns 1).inTx = true :=
  ⟨by decide, by decide, rfl, rfl, by decide⟩

/-! ## 8. What holds in every reachable state -/

/-- For EVERY schedule from a server whose connections are idle: no connection ever carries the
    `aborted` flag (no code path sets it: `Gen.abortedSetSites = 0`; a command with an unknown name
    or a wrong arity is queued like any other and fails in its slot at EXEC), an idle connection has
    an empty queue, and a queue only ever holds commands that passed the queue test. -/
theorem reachable_connections_ok (q : Quirks) (evs : List Event) (j : Nat) :
    ((run q {} evs).conns j).aborted = false ∧
    (((run q {} evs).conns j).inTx = false → ((run q {} evs).conns j).queue = []) ∧
    ∀ c ∈ ((run q {} evs).conns j).queue, queueable q c = true := by
  have := run_ok q {} evs (fun _ => ConnOk_fresh q) j
  exact ⟨this.notAborted, this.idleEmpty, this.queueOk⟩

/-- Hence, in every reachable state, an EXEC whose WATCH check passes runs its queue: the null
    reply of EXEC can only come from WATCH (C08). -/
theorem exec_nil_only_from_watch (q : Quirks) (evs : List Event) (cid : Nat) (r : Req)
    (hin : ((run q {} evs).conns cid).inTx = true) (hw : r.watchOk = true) :
    (exec q (run q {} evs) cid r).2 = .exec (execResult q (run q {} evs) cid r.now).2 :=
  (exec_runs q _ cid r hin hw (reachable_connections_ok q evs cid).1).2.2

/-- When the WATCH check fails nothing is executed: dataset and log untouched, state cleared, null array. -/
theorem exec_watch_failed_runs_nothing (q : Quirks) (s : Server) (cid : Nat) (r : Req)
    (hin : (s.conns cid).inTx = true) (hw : r.watchOk = false) :
    exec q s cid r = (setConn s cid (cleared (s.conns cid)), .one (.frame .nullArray)) :=
  exec_watch_failed q s cid r hin hw

/-! ## 9. Blocking pops inside EXEC (DESIGN row 29) -/

/-- every slot of the reply can be written on the wire -/
def wellFormed (slots : List Out) : Bool := slots.all fun o => !isNoResponse o

/-- Prescribed (as Redis does it): inside EXEC a blocking pop never blocks — EXEC's array never
    contains the internal `NoResponse` marker, for EVERY queue. -/
theorem exec_reply_well_formed (q : Quirks) (hq : q.blockingInExecNoResponse = false)
    (cid now : Nat) (st : ExecSt) (cs : List Cmd) : wellFormed (execFold q true cid now st cs).2 = true := by
  induction cs generalizing st with
  | nil => rfl
  | cons c cs ih =>
    simp only [execFold_cons, wellFormed, List.all_cons, Bool.and_eq_true]
    refine ⟨?_, ih _⟩
    cases h : isNoResponse (runOne q true cid st now c).2
    · rfl
    · have := (runOne_noResponse q true cid st now c h).2
      simp [hq] at this

/-- The code as it is: the same for queues without BLPOP/BRPOP. -/
theorem exec_reply_well_formed_partial (q : Quirks) (cid now : Nat) (st : ExecSt) (cs : List Cmd)
    (hnb : ∀ c ∈ cs, isBlockingName (nameOf c) = false) : wellFormed (execFold q true cid now st cs).2 = true := by
  induction cs generalizing st with
  | nil => rfl
  | cons c cs ih =>
    simp only [execFold_cons, wellFormed, List.all_cons, Bool.and_eq_true]
    refine ⟨?_, ih _ (fun x hx => hnb x (by simp [hx]))⟩
    cases h : isNoResponse (runOne q true cid st now c).2
    · rfl
    · have := (runOne_noResponse q true cid st now c h).1
      rw [hnb c (by simp)] at this
      cases this

/-- `MULTI; SET p 1; BLPOP qq 0; SET p2 2; EXEC` on an empty dataset -/
def sBlocking : Server :=
  setConn {} 1 { inTx := true, queue := [cSET [112] [49], cBLPOP [113, 113] [48], cSET [112, 50] [50]] }

/-- Witness: the code puts `NoResponse` into slot 1 (the serializer stops there: the client receives
    `*3 +OK` and nothing more) and registers connection id 0 — which no client owns — as a waiter
    on `qq`; the prescribed variant answers a null array in that slot and registers nobody. -/
theorem exec_reply_well_formed_fails_blpop :
    (exec Quirks.code sBlocking 1 { cmd := cEXEC }).2 = .exec [.frame KS.ok, .noResponse, .frame KS.ok] ∧
    (exec Quirks.code sBlocking 1 { cmd := cEXEC }).1.ext = [(0, cBLPOP [113, 113] [48])] ∧
    wellFormed (execResult Quirks.code sBlocking 1 0).2 = false ∧
    (exec Quirks.spec sBlocking 1 { cmd := cEXEC }).2 = .exec [.frame KS.ok, .frame .nullArray, .frame KS.ok] ∧
    (exec Quirks.spec sBlocking 1 { cmd := cEXEC }).1.ext = [] :=
  ⟨rfl, by decide, by decide, rfl, by decide⟩

/-- Prescribed: a queued blocking pop acts as its non-blocking variant — when a list has an element
    it is popped and returned with its key (both variants agree on that), otherwise a null array; it
    never hands the connection to the blocking registry. -/
theorem blocking_in_exec_registers_nobody (q : Quirks) (hq : q.blockingInExecNoResponse = false)
    (cid : Nat) (st : ExecSt) (now : Nat) (c : Cmd) (hb : isBlockingName (nameOf c) = true) :
    (runOne q true cid st now c).1.ext = st.ext := by
  unfold isBlockingName at hb
  simp only [Bool.or_eq_true, beq_iff_eq] at hb
  unfold runOne
  rcases hb with h | h
  · simp [h, runBlocking_ext q cid st now true c hq]
  · simp [h, runBlocking_ext q cid st now false c hq]

/-- a served blocking pop inside EXEC: `RPUSH`-ed element comes back as `[key, element]` in both variants -/
def sBlockingServed : Server :=
  setConn {} 1 { inTx := true, queue := [cLPUSH [113] [120], cBLPOP [113] [48]] }

example : (exec Quirks.code sBlockingServed 1 { cmd := cEXEC }).2 =
      .exec [.frame (.int 1), .frame (.array [.bulk [113], .bulk [120]])] ∧
    (exec Quirks.spec sBlockingServed 1 { cmd := cEXEC }).2 = (exec Quirks.code sBlockingServed 1 { cmd := cEXEC }).2 :=
  ⟨rfl, rfl⟩

/-! ## 10. SELECT inside EXEC (DESIGN row 28) -/

/-- Prescribed: a queued SELECT with a valid index switches the database for the commands queued
    after it and for the connection afterwards. -/
theorem select_in_exec_selects (q : Quirks) (hq : q.selectInExecIgnored = false) (cid : Nat) (st : ExecSt) (now : Nat)
    (c : Cmd) (n : Nat) (hname : nameOf c = "SELECT") (harg : selectArg (c.drop 1) = some n) :
    runOne q true cid st now c = ({ st with db := n }, .frame KS.ok) := by
  unfold runOne
  simp only [hname, if_true, harg]
  simp [hq]

/-- Witness for the code: the same command answers OK and selects nothing. -/
theorem select_in_exec_selects_fails :
    nameOf (cSELECT [49]) = "SELECT" ∧ selectArg ((cSELECT [49]).drop 1) = some 1 ∧
    (runOne Quirks.code true 1 ⟨KS.emptyStore, 0, []⟩ 0 (cSELECT [49])).1.db = 0 ∧
    (runOne Quirks.code true 1 ⟨KS.emptyStore, 0, []⟩ 0 (cSELECT [49])).2 = .frame KS.ok ∧
    (runOne Quirks.code false 1 ⟨KS.emptyStore, 0, []⟩ 0 (cSELECT [49])).1.db = 1 :=
  ⟨by decide, by decide, by decide, rfl, by decide⟩

/-! ## 12. Blocked clients are served between frames, never inside EXEC -/

/-- The reply to ANY frame — EXEC's array included — is the one `processFrame` computes from the
    dataset the frame found: clients blocked in BLPOP/BRPOP play no part in it.  Inside EXEC nobody
    else is served (a queued `RPUSH k a; LPOP k` gets `a` back although somebody waits on `k`). -/
theorem frame_reply_ignores_blocked_clients (q : Quirks) (L : Loop) (cid : Nat) (r : Req) :
    (Loop.frame q L cid r).2.1 = (processFrame q L.srv cid r).2 := rfl

/-- The service of blocked clients is loop work AFTER the frame: connections and hand-over log are
    those `processFrame` leaves, the dataset is the one it leaves with `serveAll` applied — a frame
    event followed by an `Event.between`, to which `exec_is_one_transition` applies. -/
theorem service_is_loop_work_after_the_frame (q : Quirks) (L : Loop) (cid : Nat) (r : Req) :
    (Loop.frame q L cid r).1.srv.conns = (processFrame q L.srv cid r).1.conns ∧
    (Loop.frame q L cid r).1.srv.ext = (processFrame q L.srv cid r).1.ext ∧
    ∃ ws ready, (Loop.frame q L cid r).1.srv.store =
        (serveAll q.ks r.now (processFrame q L.srv cid r).1.store ws ready).1 ∧
      (Loop.frame q L cid r).1.srv =
        run q L.srv [.frame cid r, .between fun s => (serveAll q.ks r.now s ws ready).1] :=
  ⟨rfl, rfl, _, _, rfl, rfl⟩

/-- A push that is only queued wakes nobody: no delivery, the waiters stay as they are, the dataset
    is untouched — until EXEC. -/
theorem queued_push_wakes_nobody (q : Quirks) (L : Loop) (cid : Nat) (r : Req)
    (hin : (L.srv.conns cid).inTx = true) (hq : queueable q r.cmd = true) :
    (Loop.frame q L cid r).2.2 = [] ∧ (Loop.frame q L cid r).1.waiters = L.waiters ∧
    (Loop.frame q L cid r).1.srv.store = L.srv.store := by
  have hq' := (queueable_iff q r.cmd).1 hq
  have himm : q.immediate.contains (nameOf r.cmd) = false := by
    cases hc : q.immediate.contains (nameOf r.cmd)
    · rfl
    · exact absurd (List.contains_iff_mem.1 hc) hq'.2.2
  unfold Loop.frame
  simp only [processFrame_queue q L.srv cid r hin hq, hin, himm]
  simp [serveAll]

def cRPUSH (k : Bytes) (vs : List Bytes) : Cmd := [82, 80, 85, 83, 72] :: k :: vs
def cLPOP (k : Bytes) : Cmd := [[76, 80, 79, 80], k]

/-- connection 9 is blocked in `BLPOP k 0`; connection 1 has queued `RPUSH k a b; LPOP k` -/
def lBlocked : Loop :=
  { srv := setConn {} 1 { inTx := true, queue := [cRPUSH [107] [[97], [98]], cLPOP [107]] }
    waiters := [⟨9, 0, [[107]], true⟩] }

/-- EXEC answers `[2, a]` — the transaction pops its own first element, nobody was served in
    between — and only then connection 9 is served the element that is left, `b` -/
example : (Loop.frame Quirks.spec lBlocked 1 { cmd := cEXEC }).2.1 = .exec [.frame (.int 2), .frame (.bulk [97])] ∧
    (Loop.frame Quirks.spec lBlocked 1 { cmd := cEXEC }).2.2 = [(9, .array [.bulk [107], .bulk [98]])] ∧
    (Loop.frame Quirks.spec lBlocked 1 { cmd := cEXEC }).1.waiters = [] :=
  ⟨rfl, rfl, by decide⟩

/-- … and with `RPUSH k a; LPOP k` nothing is left: connection 9 stays blocked -/
example : (Loop.frame Quirks.spec { lBlocked with srv := setConn {} 1 { inTx := true, queue := [cRPUSH [107] [[97]], cLPOP [107]] } }
      1 { cmd := cEXEC }).2 = (.exec [.frame (.int 1), .frame (.bulk [97])], []) := rfl

/-! ## 10b. UNWATCH between MULTI and EXEC; commands about the connection inside EXEC -/

def cUNWATCH : Cmd := [[85, 78, 87, 65, 84, 67, 72]]
def cCLIENTID : Cmd := [[67, 76, 73, 69, 78, 84], [73, 68]]

/-- `queued_has_no_effect` at work: with nothing executed immediately (prescribed), an UNWATCH sent
    between MULTI and EXEC is only queued — it cannot disarm the WATCHes guarding the transaction
    being built, which EXEC checks before it runs anything. -/
theorem unwatch_inside_multi_is_queued (q : Quirks) (hq : q.immediate = []) (s : Server) (cid : Nat) (r : Req)
    (hin : (s.conns cid).inTx = true) (hname : nameOf r.cmd = "UNWATCH") :
    (processFrame q s cid r).2 = .one (.frame queuedFrame) ∧
    (processFrame q s cid r).1.conns cid = { s.conns cid with queue := (s.conns cid).queue ++ [r.cmd] } := by
  have hne : r.cmd ≠ [] := by
    intro h; rw [h] at hname; simp [nameOf] at hname
  have hctl : nameOf r.cmd ∉ controlNames := by rw [hname]; decide
  obtain ⟨h1, _, _, _, h5⟩ := queued_has_no_effect q hq s cid r hin hne hctl
  exact ⟨h1, h5⟩

/-- Run by EXEC (or sent outside a transaction) a well-formed UNWATCH answers OK and touches neither
    the dataset nor the hand-over log: in its EXEC slot it is a no-op, the watches having been checked
    and dropped before the loop. -/
theorem unwatch_runs_as_noop (q : Quirks) (b : Bool) (cid : Nat) (st : ExecSt) (now : Nat) (c : Cmd)
    (hname : nameOf c = "UNWATCH") (hlen : c.length = 1) :
    runOne q b cid st now c = (st, .frame KS.ok) := by
  unfold runOne
  have h1 : ("UNWATCH" = "SELECT") = False := by decide
  have h2 : ("UNWATCH" = "BLPOP") = False := by decide
  have h3 : ("UNWATCH" = "BRPOP") = False := by decide
  have h4 : "UNWATCH" ∉ externalNames := by decide
  have h5 : "UNWATCH" ∉ connectionNames := by decide
  simp [hname, hlen, h4, h5]

/-- Witness (finding C07-unwatch-runs-inside-multi): the tree as found answers OK at once and queues
    nothing — the EXEC array is one slot short; the prescribed variant queues it and gives it a slot. -/
theorem unwatch_inside_multi_is_queued_fails :
    (processFrame Quirks.code sInTx 1 { cmd := cUNWATCH }).2 = .one (.frame KS.ok) ∧
    ((processFrame Quirks.code sInTx 1 { cmd := cUNWATCH }).1.conns 1).queue = [] ∧
    (processFrame Quirks.spec sInTx 1 { cmd := cUNWATCH }).2 = .one (.frame queuedFrame) ∧
    (processFrame Quirks.spec (processFrame Quirks.spec sInTx 1 { cmd := cUNWATCH }).1 1 { cmd := cEXEC }).2 =
      .exec [.frame KS.ok] :=
  ⟨rfl, by decide, rfl, rfl⟩

/-- Prescribed: what EXEC hands to the connection table (CLIENT …) is handed over under the id of the
    connection that sent EXEC — a queued command about the connection acts on, and reports about,
    THAT connection. -/
theorem connection_command_in_exec_runs_for_its_connection (q : Quirks) (hq : q.connCommandsUnderConnZero = false)
    (cid : Nat) (st : ExecSt) (now : Nat) (c : Cmd) (hname : nameOf c ∈ connectionNames) :
    runOne q true cid st now c = ({ st with ext := st.ext ++ [(cid, c)] }, .external) ∧
    runOne q true cid st now c = runOne q false cid st now c := by
  have hn : nameOf c = "CLIENT" := by simpa [connectionNames] using hname
  have h4 : "CLIENT" ∉ externalNames := by decide
  have h5 : "CLIENT" ∈ connectionNames := by decide
  unfold runOne
  simp [hn, hq, h4, h5]

/-- Witness (finding C07-connection-commands-run-as-connection-0): the tree as found hands a queued
    `CLIENT ID` over under connection id 0 (it answers 0; SETNAME / GETNAME find no connection). -/
theorem connection_command_in_exec_runs_for_its_connection_fails :
    (runOne Quirks.code true 7 ⟨KS.emptyStore, 0, []⟩ 0 cCLIENTID).1.ext = [(0, cCLIENTID)] ∧
    (runOne Quirks.code false 7 ⟨KS.emptyStore, 0, []⟩ 0 cCLIENTID).1.ext = [(7, cCLIENTID)] ∧
    (runOne Quirks.spec true 7 ⟨KS.emptyStore, 0, []⟩ 0 cCLIENTID).1.ext = [(7, cCLIENTID)] := by decide

/-! ## 11. The model's tables are the source's (regenerated by translator/tx_facts.py on every run)

These are stated so that they hold for the tree as found AND after each of the proposed fixes
(pending_repo_patches/C07_*.diff), and stop checking when the source acquires a deviation the model
does not have: a new name handled before the queue test, a control command that gets queued, a
thread hand-off in EXEC, a path that sets `aborted`, validation at queue time. -/

/-- `should_queue_command` never queues a transaction-control command proper, and lets nothing else
    through than those — and, in the tree as found, UNWATCH (a deviation: `immediateOfSource`) -/
theorem passThrough_table_matches_source :
    (∀ n ∈ controlNames, n ∈ Gen.txPassThrough) ∧
    (∀ n ∈ Gen.txPassThrough, n ∈ controlNames ∨ n = "UNWATCH") := by decide

/-- what `process_frame` handles before the queue test is the model's list (tree as found), or
    nothing at all (the queue test comes first: fix C07_3) -/
theorem preQueue_table_matches_source : Gen.preQueue = preQueueNames ∨ Gen.preQueue = [] := by decide

/-- and it never contains a name the model does not treat as control or hand-over -/
theorem preQueue_is_control_or_external :
    ∀ n ∈ Gen.preQueue, n ∈ controlNames ∨ n ∈ externalNames ∨ n = "UNWATCH" := by decide

/-- The variant the driver runs against the server (`Quirks.ofSource`, switches read off the source)
    lies between the prescribed behaviour and the tree as found: nothing is executed immediately
    that `Quirks.code` does not execute immediately, and no switch is on that is off there. -/
theorem source_variant_within_tree_as_found :
    (∀ n ∈ Quirks.ofSource.immediate, n ∈ Quirks.code.immediate) ∧
    (Quirks.ofSource.selectInExecIgnored = true → Quirks.code.selectInExecIgnored = true) ∧
    (Quirks.ofSource.blockingInExecNoResponse = true → Quirks.code.blockingInExecNoResponse = true) ∧
    (Quirks.ofSource.controlArityUnchecked = true → Quirks.code.controlArityUnchecked = true) ∧
    (Quirks.ofSource.connCommandsUnderConnZero = true → Quirks.code.connCommandsUnderConnZero = true) := by decide

/-- single command thread: `Server::run` → `process_connections` → `process_connection` →
    `process_frame` → `handle_exec`'s loop, with no thread spawn / channel / async hand-off (coarse
    syntactic test); nothing sets `aborted`; `queue_command` validates nothing -/
theorem loop_structure_matches_source :
    Gen.execIsSynchronous = true ∧ Gen.abortedSetSites = 0 ∧ Gen.queueCommandValidates = false := by decide

/-- pushes run by EXEC wake nobody; `handle_exec` serves the keys it pushed to after its loop
    (the structure `Loop.frame` transliterates) -/
theorem exec_serves_waiters_after_its_loop : Gen.execNotifiesWaiters = false := by decide

/-- a new transaction starts with an empty queue (what `processFrame`'s MULTI, `exec` and DISCARD
    transliterate): `handle_multi` clears the queue, or every exit of `handle_exec` that leaves the
    transaction and `handle_discard` clear or take it -/
theorem queue_cleared_when_transaction_ends : Gen.queueClearedWhenTransactionEnds = true := by decide

/-- the WATCH set ends with the transaction that was watched for (EXEC in each outcome, DISCARD): the
    input `Req.watchOk` of a LATER transaction depends only on keys watched after that ending -/
theorem watch_set_cleared_when_transaction_ends : Gen.watchSetClearedWhenTransactionEnds = true := by decide

/-- the frames of a client that blocked in a blocking pop wait and then run in the order sent: what
    was kept back behind the pop comes before what arrived later (so that the schedule the loop runs
    lists every connection's frames in the order that connection sent them, as `run` assumes) -/
theorem deferred_frames_run_first : Gen.deferredFramesFirst = true := by decide

/-- every fact above was actually read off the source: the translator substitutes a pessimistic
    value for a shape it does not recognise (so that model and driver keep building and the TCP run
    can search for a failing input) and lists it here -/
theorem source_shapes_recognised : Gen.txUnrecognised = [] := by decide

end Ferrous.C07
