/-
  C05 — every request gets exactly one reply, in order, and errors are replies.

  Model: Model/Conn.lean (the three-phase connection loop of Server::process_connection over the
  incremental parser of Model/Resp.lean; command handlers are a parameter).  Property theorems only.
-/
import FerrousSpec.Proofs.ConnLoop
import FerrousSpec.Proofs.WriteBuf
import FerrousSpec.Props.C20
set_option linter.unusedSimpArgs false
namespace Ferrous.C05
open Ferrous Ferrous.Conn

variable {σ : Type}

/-- what the incremental parser yields for a stream of serialised commands, fed whole -/
theorem whole_stream_events (cmds : List Frame) (hc : ∀ f ∈ cmds, isCmd f = true) :
    runWhole true (serList cmds) = cmds.map Ev.frame := by
  have := drainF_cmds cmds hc [] ⟨rfl, fun _ => Or.inl rfl⟩ ((serList cmds).length + 1) (by simp)
  simp only [List.append_nil] at this
  have h0 : drainF true ([] : Bytes).length.succ [] = ([], [], false) := by
    simp [drainF, parserParse]
  simp only [runWhole, drain, this]
  simp only [Nat.succ_eq_add_one] at h0
  rw [h0]
  simp

/-- (1) **Exactly one reply per request, in order, however the bytes are segmented.**
    For every pipeline of command frames, every handler `h`, every start state and EVERY way of
    cutting the request bytes into reads (`cs.flatten = serList cmds`: one byte at a time, many
    commands per read, cuts inside CRLF …), the connection loop emits exactly the replies of
    executing the commands one after another — same number, same order, same content —, ends in
    the same state, and keeps the connection open. -/
theorem one_reply_per_request (h : σ → Frame → σ × Frame) (s : σ) (cmds : List Frame)
    (hc : ∀ f ∈ cmds, isCmd f = true) (cs : List Bytes) (hcs : cs.flatten = serList cmds) :
    (connRun h s [] cs).replies = (execAll h s cmds).2 ∧
    (connRun h s [] cs).replies.length = cmds.length ∧
    (connRun h s [] cs).state = (execAll h s cmds).1 ∧
    (connRun h s [] cs).closed = false := by
  have hev : runChunks true [] cs = cmds.map Ev.frame := by
    rw [C20.chunking_independent cs, hcs, whole_stream_events cmds hc]
  have hr := connRun_replies h cs s []
  have happ := applyEvs_append_frames h s cmds []
  simp only [List.append_nil, applyEvs] at happ
  have hlen : ∀ (s : σ) (l : List Frame), (execAll h s l).2.length = l.length := by
    intro s l
    induction l generalizing s with
    | nil => rfl
    | cons f r ih => simp [execAll, ih]
  refine ⟨?_, ?_, ?_, ?_⟩
  · rw [hr.1, hev, happ]
  · rw [hr.1, hev, happ]; simp [hlen]
  · rw [hr.2, hev, happ]
  · rw [connRun_closed, hev]
    have : ∀ l : List Frame, noErr (l.map Ev.frame) = true := by
      intro l; induction l with
      | nil => rfl
      | cons f r ih => simpa [noErr] using ih
    simp [this]

/-- (2) **A frame that violates the protocol is answered with an error instead of silence**, after the
    replies to the commands that preceded it, and the connection is closed — for every segmentation.
    `bad` is any byte string on which the parser reports an error at once (e.g. an invalid type byte). -/
theorem protocol_error_answered (h : σ → Frame → σ × Frame) (s : σ) (cmds : List Frame)
    (hc : ∀ f ∈ cmds, isCmd f = true) (bad : Bytes)
    (hbad : (drain true bad).1 = [Ev.err]) (hnl : bad.dropWhile isNl = bad)
    (cs : List Bytes) (hcs : cs.flatten = serList cmds ++ bad) :
    (connRun h s [] cs).replies = (execAll h s cmds).2 ++ [protoErr] ∧
    (connRun h s [] cs).closed = true := by
  have hd := drainF_cmds cmds hc bad ⟨hnl, fun _ => Or.inr (fun _ _ => trivial)⟩
      ((serList cmds ++ bad).length + 1) (by simp)
  have hev : runChunks true [] cs = cmds.map Ev.frame ++ [Ev.err] := by
    rw [C20.chunking_independent cs, hcs]
    simp only [runWhole, drain, hd]
    unfold drain at hbad
    rw [hbad]
  have hr := connRun_replies h cs s []
  have happ := applyEvs_append_frames h s cmds [Ev.err]
  simp only [applyEvs] at happ
  refine ⟨?_, ?_⟩
  · rw [hr.1, hev, happ]
  · rw [connRun_closed, hev]
    have : ∀ l : List Frame, noErr (l.map Ev.frame ++ [Ev.err]) = false := by
      intro l; induction l with
      | nil => rfl
      | cons f r ih => simpa [noErr] using ih
    simp [this]

/-- (3) **Request content cannot change the framing of replies.**  An error reply (or a simple
    string) frames correctly whatever bytes its text carries — e.g. a command name with CR/LF echoed
    in "unknown command '…'": the client parses exactly one frame and then exactly what follows. -/
theorem error_reply_frames (text rest : Bytes) :
    parseBytes (ser (.error text) ++ rest) = .ok (.error (sanitizeLine text)) rest ∧
    parseBytes (ser (.simple text) ++ rest) = .ok (.simple (sanitizeLine text)) rest :=
  C20.line_replies_always_frame text rest

/-- Bulk replies carry arbitrary bytes (CR/LF, NUL …) and frame by length. -/
theorem bulk_reply_frames (b rest : Bytes) (hlen : b.length ≤ 9223372036854775807) :
    parseBytes (ser (.bulk b) ++ rest) = .ok (.bulk b) rest :=
  C20.roundtrip (.bulk b) (by simp [wf, hlen]) (by simp [Frame.depth]) rest

/-- A whole reply stream of well-formed frames parses back, under any segmentation on the client
    side, to exactly those frames: `n` requests ⇒ the client reads `n` replies. -/
theorem reply_stream_parses_back (replies : List Frame) (hw : ∀ f ∈ replies, isCmd f = true) (cs : List Bytes)
    (hcs : cs.flatten = serList replies) :
    runChunks true [] cs = replies.map Ev.frame := by
  rw [C20.chunking_independent cs, hcs, whole_stream_events replies hw]

/-! ### The write path: partial writes and back-pressure do not lose, repeat or reorder reply bytes -/

/-- (4) **Every reply byte goes out exactly once, in order, however the socket accepts them.**  For EVERY
    history of replies appended to the connection's write buffer and `write` calls in which the socket
    takes any number of bytes (none when it would block, a part, everything), starting from an empty
    buffer: the bytes put on the wire followed by those still pending are exactly the bytes of all replies
    in order — nothing lost, nothing sent twice, nothing out of order; and `has_pending_writes` is false
    exactly when everything has gone out.  (`Connection::flush`, `send_frame`, `send_raw`.) -/
theorem write_path_delivers_exactly (evs : List WBuf.Ev) :
    (WBuf.run true {} evs).2 ++ WBuf.pending (WBuf.run true {} evs).1 = WBuf.sent evs := by
  have h := (WBuf.run_conserves evs {} (by simp [WBuf.Inv])).1
  simpa [WBuf.pending] using h

/-- … in particular once nothing is pending the client has received every reply byte. -/
theorem write_path_complete_when_drained (evs : List WBuf.Ev) (h : WBuf.pending (WBuf.run true {} evs).1 = []) :
    (WBuf.run true {} evs).2 = WBuf.sent evs := by
  have := write_path_delivers_exactly evs
  rw [h, List.append_nil] at this
  exact this

/-- TIE: the bookkeeping of `Connection::flush` as the translator reads it from connection.rs on this run is the
    modelled one (the unsent suffix is handed to the socket, the offset ADVANCES by what was accepted, the buffer
    is cleared only when everything went out, replies are appended), and a socket that takes no more right now
    (`WouldBlock`, the model's `write 0`) is not a failure: the rest stays pending (since 679ef7c; before, the
    connection was closed after 100 ms and the replies were lost). -/
theorem tree_write_path : Gen.writeOffsetAdvances = true ∧ Gen.wouldBlockKeepsPending = true := by decide

/-- Why the `+=` matters: with the offset ASSIGNED (`write_offset = n`) a reply that needs three partial writes
    repeats bytes on the wire — the client would read garbage after a large reply. -/
theorem write_path_fails_if_offset_assigned :
    (WBuf.run false {} [.send [1, 2, 3, 4], .write 1, .write 1, .write 1]).2 = [1, 2, 2] ∧
    WBuf.sent [.send [1, 2, 3, 4], .write 1, .write 1, .write 1] = [1, 2, 3, 4] := by decide

/-! ### Non-vacuity -/
example : (WBuf.run true {} [.send [1, 2, 3], .write 0, .write 2, .send [4], .write 1, .write 5]).2 = [1, 2, 3, 4] ∧
    WBuf.pending (WBuf.run true {} [.send [1, 2, 3], .write 0, .write 2, .send [4], .write 1, .write 5]).1 = [] := by decide
example : isCmd (.array [.bulk [71, 69, 84], .bulk [107, 13, 10]]) = true := by decide
example : (drain true [63, 13, 10]).1 = [Ev.err] ∧ ([63, 13, 10] : Bytes).dropWhile isNl = [63, 13, 10] := by
  constructor <;> rfl
example : (connRun (fun (n : Nat) _ => (n + 1, Frame.int n)) 0 []
    [[42, 49, 13], [10, 36, 49, 13, 10, 97, 13, 10, 42, 49, 13, 10, 36, 49, 13, 10], [98, 13, 10]]).replies
    = [.int 0, .int 1] := by rfl

end Ferrous.C05
