import FerrousSpec.Model.Groups
namespace Ferrous.C16
open Ferrous.Grp
theorem placeholder : agreeB (Code.newGroup Quirks.pinned (1, 0)) = true := by decide
end Ferrous.C16
