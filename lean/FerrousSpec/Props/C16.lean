/-
  C16 — consumer groups: exactly-once delivery under `>`, pending-list accounting, group administration.

  Property theorems only; helper lemmas live in FerrousSpec/Proofs/Groups*.lean.
  Model: FerrousSpec/Model/Groups.lean — `Code.*` transliterates src/storage/consumer_groups.rs and the group
  entry points of src/storage/stream.rs with ALL representations the Rust keeps (entries_by_id,
  entries_by_consumer, per-consumer pending_count, total_pending, min/max, last_delivered_id) and its quirks
  behind the switches of `Quirks` (`Quirks.pinned` = the tree as it is, `Quirks.fixed` = all four repairs);
  `Spec.*` is the property: a cursor and a finite map id → owner.
  Tie to the code: harness/src/bin/impl_grp.rs drives the real `Stream`/`ConsumerGroup` and compares
  `verif_dump()` after every operation with `Code`; lib/c16.py evaluates `Spec.gstep` and `Agree` on the
  implementation's own dumps.
-/
import FerrousSpec.Proofs.GroupsIdle
namespace Ferrous.C16
open Ferrous.Grp

/-! ### 1. The representations always describe the same pending set -/

/-- A freshly created group agrees (whatever the start id and whichever repairs are present). -/
theorem representations_agree_new (q : Quirks) (start : Id) : Agree (Code.newGroup q start) :=
  (good_newGroup q start).agree

/-- XACK (any id list: repeats, unknown ids) preserves agreement of `entries_by_id`, `entries_by_consumer`,
    `pending_count`, `total_pending` and `min/max` — for EVERY agreeing state. -/
theorem representations_agree_ack (g : Group) (h : Agree g) (ids : List Id) :
    Agree (Code.acknowledge g ids).1 := agree_acknowledge h ids

/-- XCLAIM (any claimer, any id list, idle test passing or not) preserves agreement — for every agreeing state. -/
theorem representations_agree_claim (g : Group) (h : Agree g) (c : Name) (elig : Bool) (ids : List Id) :
    Agree (Code.claim g c elig ids).1 := agree_claim h c elig ids

/-- XGROUP DELCONSUMER preserves agreement — for every agreeing state. -/
theorem representations_agree_delete_consumer (g : Group) (h : Agree g) (c : Name) :
    Agree (Code.deleteConsumer g c).1 := agree_deleteConsumer h c

/-- XGROUP CREATECONSUMER and SETID preserve agreement. -/
theorem representations_agree_admin (g : Group) (h : Agree g) (c : Name) (id : Id) :
    Agree (Code.createConsumer g c) ∧ Agree (Code.setId g id) :=
  ⟨agree_createConsumer h c, agree_setLast h id⟩

/-- A delivery (`add_pending`) of ids none of which is already pending preserves agreement. -/
theorem representations_agree_deliver_fresh (g : Group) (h : Agree g) (c : Name) (ids : List Id)
    (hnd : ids.Nodup) (hfresh : ∀ id ∈ ids, ∀ e ∈ g.byId, e.id ≠ id) :
    Agree (Code.addPending g c ids) := agree_addPending h c hnd hfresh

/-- Whole histories: starting from a new group over any strictly sorted stream, after ANY sequence of XADD, XDEL,
    XREADGROUP `>` (any consumer, any COUNT, with or without NOACK), XACK, XCLAIM, XAUTOCLAIM, DELCONSUMER,
    CREATECONSUMER, XPENDING — everything except the two re-delivering operations, XGROUP SETID and (on the
    pinned tree) XREADGROUP with an explicit id — the representations agree and no pending id lies beyond the
    cursor.  By induction over the operation list. -/
theorem representations_agree (q : Quirks) (stream : List Id) (lastId start : Id) (ops : List HOp)
    (hs : IdSorted stream) (hb : ∀ x ∈ stream, idLe x lastId = true)
    (hops : ∀ op ∈ ops, op.plainFor q = true) :
    Agree (Code.run q (Code.init q stream lastId start) ops).grp ∧
    ∀ e ∈ (Code.run q (Code.init q stream lastId start) ops).grp.byId,
      idLe e.id (Code.run q (Code.init q stream lastId start) ops).grp.lastDelivered = true := by
  have := good_run q ops (σ := Code.init q stream lastId start) ⟨hs, hb⟩ (good_newGroup q start)
    (fun op hop => by
      have h := hops op hop
      cases op with
      | add _ => rfl
      | del _ => rfl
      | g op => exact h)
  exact ⟨this.agree, this.behind⟩

/-- FULL STATEMENT for a tree with the repaired `add_pending` (`redeliverFix`; whatever the other switches): a
    delivery preserves agreement for EVERY id list — ids that are already pending change hands as with XCLAIM — and
    therefore the representations agree after EVERY history from a new group, XGROUP SETID (backwards too) and
    explicit-id reads included.  By induction over the operation list. -/
theorem representations_agree_fixed (q : Quirks) (hq : q.redeliverFix = true) (stream : List Id) (lastId start : Id)
    (ops : List HOp) :
    Agree (Code.run q (Code.init q stream lastId start) ops).grp ∧
    (∀ g c ids, Agree g → Agree (Code.addPendingFixed g c ids)) :=
  ⟨agree_run_fixed q hq ops (σ := Code.init q stream lastId start) (good_newGroup q start).agree,
   fun _ c ids h => agree_addPendingFixed h c ids⟩

/-- What agreement means for the observable counters: the consumer vectors are a duplicate-free cover of the
    keys of `entries_by_id` (same length in total) and each `pending_count` is the number of rows its consumer owns. -/
theorem representations_agree_counts (g : Group) (h : Agree g) :
    g.totalPending = g.byId.length ∧
    (∀ c l, alGet c g.byConsumer = some l → l.length = (g.byId.filter (fun e => e.owner == c)).length) ∧
    (∀ c n, alGet c g.consumers = some n → n = (g.byId.filter (fun e => e.owner == c)).length) := by
  refine ⟨h.total, fun c l hl => h.toAgreeCore.vec_length hl, ?_⟩
  intro c n hc
  have hr := mem_of_alGet hc
  rcases h.cnt₂ _ hr with h0 | ⟨p, hp, hpo⟩
  · simp only at h0
    subst h0
    symm
    rw [List.length_eq_zero_iff, List.filter_eq_nil_iff]
    intro e he ho
    obtain ⟨l, hl, hidl, _, hcn⟩ := h.toAgreeCore.owner_facts he
    have ho' : e.owner = c := by simpa using ho
    rw [ho', hc] at hcn
    simp only [Option.some.injEq] at hcn
    have := List.length_pos_of_mem hidl
    omega
  · simp only at hpo
    have hl : alGet c g.byConsumer = some p.2 := alGet_of_mem h.bcKeys (by rw [← hpo]; exact hp)
    obtain ⟨r, hr', hro, hrn⟩ := h.cnt₁ p hp
    have : r = (c, n) := pair_unique h.csKeys hr' hr (by rw [hro, hpo])
    subst this
    simp only at hrn
    rw [hrn]; exact h.toAgreeCore.vec_length hl

/-- WITNESS (row 21): delivering an id that is already pending breaks the agreement.  State after
    `XADD 1-0; XGROUP CREATE g 0; XREADGROUP g c1 >` agrees; re-delivering 1-0 to c2 (what XREADGROUP with an
    explicit id, or `>` after SETID 0, does) leaves 1-0 in c1's vector, total_pending 2 for one row. -/
theorem representations_agree_fails_on_redelivery :
    ∃ g : Group, Agree g ∧ ¬ Agree (Code.addPending g 2 [(1, 0)]) := by
  refine ⟨Code.addPending (Code.newGroup Quirks.pinned (0, 0)) 1 [(1, 0)], ?_, ?_⟩
  · exact agree_addPending (good_newGroup _ _).agree 1 (by simp) (by intro id _ e he; cases he)
  · intro h
    exact absurd h.total (by decide)

/-- The executable check used by the driver on the implementation's dumps accepts exactly the agreeing states. -/
theorem agreeB_iff (g : Group) : agreeB g = true ↔ Agree g := by
  simp only [agreeB, agreeClauses, List.all_cons, List.all_nil, Bool.and_true, Bool.and_eq_true,
    decide_eq_true_eq]
  constructor
  · rintro ⟨h1, h2, h3, h4, h5, h6, h7, h8, h9, h10, h11⟩
    exact { sorted := h1, bcKeys := h2, csKeys := h3, lists := h4, own₁ := h5, own₂ := h6, cnt₁ := h7, cnt₂ := h8,
            bmin := h9, bmax := h10, total := h11 }
  · intro h
    exact ⟨h.sorted, h.bcKeys, h.csKeys, h.lists, h.own₁, h.own₂, h.cnt₁, h.cnt₂, h.bmin, h.bmax, h.total⟩

/-- WITNESS at history level: `>` by c1, XGROUP SETID back to 0-0, `>` by c2 — the pinned code ends in a state
    whose representations disagree (1-0 is owned by c2 in entries_by_id but still in c1's vector; total 2). -/
theorem representations_agree_fails_after_setid_back :
    ¬ Agree (Code.run Quirks.pinned (Code.init Quirks.pinned [(1, 0)] (1, 0) (0, 0))
        [.g (.read 1 none none false), .g (.setid (0, 0)), .g (.read 2 none none false)]).grp := by
  rw [← agreeB_iff]; decide

/-- The same history on the repaired tree: the second read moves 1-0 from c1 to c2 (delivery count 2), every
    representation follows. -/
theorem setid_back_redelivery_moves_ownership_when_fixed :
    Agree (Code.run Quirks.fixed (Code.init Quirks.fixed [(1, 0)] (1, 0) (0, 0))
        [.g (.read 1 none none false), .g (.setid (0, 0)), .g (.read 2 none none false)]).grp ∧
    (Code.run Quirks.fixed (Code.init Quirks.fixed [(1, 0)] (1, 0) (0, 0))
        [.g (.read 1 none none false), .g (.setid (0, 0)), .g (.read 2 none none false)]).grp.byId = [⟨(1, 0), 2, 2⟩] := by
  constructor
  · rw [← agreeB_iff]; decide
  · decide

/-- WITNESS at history level: `>` then XREADGROUP with the explicit id 0 by the same consumer — on the pinned tree
    1-0 is twice in c1's vector and pending_count is 2 for one pending row; the repaired code leaves the state alone. -/
theorem representations_agree_fails_after_explicit_id_read :
    ¬ Agree (Code.run Quirks.pinned (Code.init Quirks.pinned [(1, 0)] (1, 0) (0, 0))
        [.g (.read 1 none none false), .g (.read 1 (some (0, 0)) none false)]).grp ∧
    Agree (Code.run Quirks.fixed (Code.init Quirks.fixed [(1, 0)] (1, 0) (0, 0))
        [.g (.read 1 none none false), .g (.read 1 (some (0, 0)) none false)]).grp := by
  constructor
  · rw [← agreeB_iff]; decide
  · rw [← agreeB_iff]; decide

/-! ### 2. Exactly-once delivery under `>` -/

/-- THE PROPERTY (prescribed behaviour): for a group created at `start` over any strictly sorted stream, after ANY
    history of XADD / XDEL / XREADGROUP `>` by any consumers with any COUNT, with or without NOACK / explicit-id
    history reads / XACK / XCLAIM / DELCONSUMER (everything but SETID, which re-positions the group):
    (1) the ids delivered under `>`, in delivery order over the whole history, are strictly increasing — so no
        entry is delivered twice, hence to exactly one consumer, and in id order;
    (2) every delivered id lies after the start position;
    (3) nothing is skipped: an entry still in the stream after the start position and not beyond the cursor has
        been delivered;
    (4) one more unbounded read delivers every entry of the stream after the start position that was not. -/
theorem exactly_once (stream : List Id) (lastId start : Id) (ops : List HOp)
    (hs : IdSorted stream) (hb : ∀ x ∈ stream, idLe x lastId = true)
    (hops : ∀ op ∈ ops, op.noSetId = true) :
    let σ := Spec.run (Spec.init stream lastId start) ops
    IdSorted (σ.log.map (·.1)) ∧
    (∀ d ∈ σ.log, idLt start d.1 = true) ∧
    (∀ x ∈ σ.stream, idLt start x = true → idLe x σ.grp.cursor = true → x ∈ σ.log.map (·.1)) ∧
    (∀ c, ∀ x ∈ σ.stream, idLt start x = true →
        x ∈ (Spec.hstep σ (.g (.read c none none false))).log.map (·.1)) := by
  intro σ
  have h : OnceInv start σ := onceInv_run ops (onceInv_init start hs hb) hops
  refine ⟨h.logSorted, h.logAfter, h.noSkip, ?_⟩
  intro c x hx hsx
  have h' := onceInv_hstep h (.g (.read c none none false)) rfl
  refine h'.noSkip x hx hsx ?_
  -- after an unbounded read the cursor is at or beyond every entry
  show idLe x ((rangeAfter σ.stream σ.grp.cursor none).getLast?.getD σ.grp.cursor) = true
  rcases idLt_total σ.grp.cursor x with hlt | heq | hgt
  · have hmem : x ∈ rangeAfter σ.stream σ.grp.cursor none := by
      rw [rangeAfter_none]; simp [hx, hlt]
    cases hl : (rangeAfter σ.stream σ.grp.cursor none).getLast? with
    | none => rw [List.getLast?_eq_none_iff] at hl; rw [hl] at hmem; cases hmem
    | some m => exact (sorted_rangeAfter h.sorted _ _).le_getLast hl x hmem
  · subst heq
    cases hl : (rangeAfter σ.stream σ.grp.cursor none).getLast? with
    | none => exact idLe_refl _
    | some m => exact idLe_of_lt (mem_rangeAfter (List.mem_of_getLast? hl)).2
  · cases hl : (rangeAfter σ.stream σ.grp.cursor none).getLast? with
    | none => exact idLe_of_lt hgt
    | some m => exact idLe_of_lt (idLt_trans hgt (mem_rangeAfter (List.mem_of_getLast? hl)).2)

/-- The code delivers exactly what the property prescribes — same deliveries to the same consumers in the same
    order, same cursor — on every history whose operations avoid the deviations that are still present in the
    tree described by `q` (see `HOp.plainFor`), for a group whose cursor starts where it should. -/
theorem code_delivers_as_prescribed (q : Quirks) (stream : List Id) (lastId start : Id) (ops : List HOp)
    (hq : q.startFix = true ∨ start = (0, 0)) (hops : ∀ op ∈ ops, op.plainFor q = true) :
    (Code.run q (Code.init q stream lastId start) ops).log = (Spec.run (Spec.init stream lastId start) ops).log ∧
    (Code.run q (Code.init q stream lastId start) ops).grp.lastDelivered =
      (Spec.run (Spec.init stream lastId start) ops).grp.cursor := by
  have h0 : Sim (Code.init q stream lastId start) (Spec.init stream lastId start) := by
    refine ⟨rfl, rfl, ?_, rfl⟩
    show (if q.startFix then start else (0, 0)) = start
    rcases hq with hq | hq
    · simp [hq]
    · subst hq; split <;> rfl
  have := sim_run q ops h0 hops
  exact ⟨this.log, this.cursor⟩

/-- FULL STATEMENT for the repaired code (`Quirks.fixed`: cursor initialised from the start id, NOACK advances,
    explicit ids read the consumer's history): exactly-once on every history without SETID, any start position. -/
theorem exactly_once_code_fixed (stream : List Id) (lastId start : Id) (ops : List HOp)
    (hs : IdSorted stream) (hb : ∀ x ∈ stream, idLe x lastId = true)
    (hops : ∀ op ∈ ops, op.noSetId = true) :
    let σ := Code.run Quirks.fixed (Code.init Quirks.fixed stream lastId start) ops
    IdSorted (σ.log.map (·.1)) ∧
    (∀ d ∈ σ.log, idLt start d.1 = true) ∧
    (∀ x ∈ σ.stream, idLt start x = true → idLe x σ.grp.lastDelivered = true → x ∈ σ.log.map (·.1)) := by
  intro σ
  have hplain : ∀ op ∈ ops, op.plainFor Quirks.fixed = true := by
    intro op hop
    have := hops op hop
    cases op with
    | add _ => rfl
    | del _ => rfl
    | g op =>
      cases op with
      | setid _ => cases this
      | read c frm count noack => cases frm <;> cases noack <;> rfl
      | _ => rfl
  have hsim := sim_run Quirks.fixed ops (σc := Code.init Quirks.fixed stream lastId start)
    (σs := Spec.init stream lastId start) ⟨rfl, rfl, rfl, rfl⟩ hplain
  obtain ⟨e1, e2, e3, _⟩ := exactly_once stream lastId start ops hs hb hops
  refine ⟨?_, ?_, ?_⟩
  · show IdSorted ((Code.run Quirks.fixed _ ops).log.map (·.1)); rw [hsim.log]; exact e1
  · show ∀ d ∈ (Code.run Quirks.fixed _ ops).log, _; rw [hsim.log]; exact e2
  · show ∀ x ∈ (Code.run Quirks.fixed _ ops).stream, _ → idLe x (Code.run Quirks.fixed _ ops).grp.lastDelivered = true →
      x ∈ (Code.run Quirks.fixed _ ops).log.map (·.1)
    rw [hsim.log, hsim.stream, hsim.cursor]; exact e3

/-- PARTIAL (the tree as pinned): exactly-once holds for groups created at 0-0 on histories without NOACK reads,
    explicit-id reads and SETID (`HOp.plainFor Quirks.pinned`, a decidable exclusion). -/
theorem exactly_once_partial (stream : List Id) (lastId : Id) (ops : List HOp)
    (hs : IdSorted stream) (hb : ∀ x ∈ stream, idLe x lastId = true)
    (hops : ∀ op ∈ ops, op.plainFor Quirks.pinned = true) :
    let σ := Code.run Quirks.pinned (Code.init Quirks.pinned stream lastId (0, 0)) ops
    IdSorted (σ.log.map (·.1)) ∧
    (∀ x ∈ σ.stream, idLt (0, 0) x = true → idLe x σ.grp.lastDelivered = true → x ∈ σ.log.map (·.1)) := by
  intro σ
  have hsim := sim_run Quirks.pinned ops (σc := Code.init Quirks.pinned stream lastId (0, 0))
    (σs := Spec.init stream lastId (0, 0)) ⟨rfl, rfl, rfl, rfl⟩ hops
  have hinv : OnceInv (0, 0) (Spec.run (Spec.init stream lastId (0, 0)) ops) :=
    onceInv_run ops (onceInv_init (0, 0) hs hb) (fun op hop => plainFor_noSetId (hops op hop))
  refine ⟨?_, ?_⟩
  · show IdSorted ((Code.run Quirks.pinned _ ops).log.map (·.1)); rw [hsim.log]; exact hinv.logSorted
  · show ∀ x ∈ (Code.run Quirks.pinned _ ops).stream, _ → idLe x (Code.run Quirks.pinned _ ops).grp.lastDelivered = true →
      x ∈ (Code.run Quirks.pinned _ ops).log.map (·.1)
    rw [hsim.log, hsim.stream, hsim.cursor]; exact hinv.noSkip

/-- WITNESS (row 21, NOACK): on the pinned tree two NOACK reads deliver 1-0 twice, to two consumers. -/
theorem exactly_once_fails_for_noack :
    (Code.run Quirks.pinned (Code.init Quirks.pinned [(1, 0)] (1, 0) (0, 0))
        [.g (.read 1 none none true), .g (.read 2 none none true)]).log = [((1, 0), 1), ((1, 0), 2)] ∧
    ¬ IdSorted ([((1, 0), 1), ((1, 0), 2)].map (fun d : Id × Name => d.1)) := by
  constructor
  · rfl
  · decide

/-- WITNESS (row 21, start ignored): a group created at `$` = 2-0 over the stream 1-0, 2-0 is delivered both old
    entries by its first read; the prescribed behaviour delivers nothing. -/
theorem exactly_once_fails_for_dollar :
    (Code.run Quirks.pinned (Code.init Quirks.pinned [(1, 0), (2, 0)] (2, 0) (2, 0))
        [.g (.read 1 none none false)]).log = [((1, 0), 1), ((2, 0), 1)] ∧
    (Spec.run (Spec.init [(1, 0), (2, 0)] (2, 0) (2, 0)) [.g (.read 1 none none false)]).log = [] ∧
    idLt (2, 0) (1, 0) = false := by
  refine ⟨rfl, rfl, rfl⟩

/-- The repaired code passes both witnesses. -/
theorem witnesses_pass_when_fixed :
    (Code.run Quirks.fixed (Code.init Quirks.fixed [(1, 0)] (1, 0) (0, 0))
        [.g (.read 1 none none true), .g (.read 2 none none true)]).log = [((1, 0), 1)] ∧
    (Code.run Quirks.fixed (Code.init Quirks.fixed [(1, 0), (2, 0)] (2, 0) (2, 0))
        [.g (.read 1 none none false)]).log = [] := by
  refine ⟨rfl, rfl⟩

/-- WITNESS (explicit id): on the pinned tree XREADGROUP with id 0 by c1 consumes the never-delivered entry 1-0
    (it becomes pending for c1 and the cursor moves), so `>` never delivers it. -/
theorem explicit_id_read_consumes_new_entries :
    (Code.run Quirks.pinned (Code.init Quirks.pinned [(1, 0)] (1, 0) (0, 0))
        [.g (.read 1 (some (0, 0)) none false), .g (.read 2 none none false)]).log = [] ∧
    (Code.run Quirks.pinned (Code.init Quirks.pinned [(1, 0)] (1, 0) (0, 0))
        [.g (.read 1 (some (0, 0)) none false)]).grp.lastDelivered = (1, 0) := by
  refine ⟨rfl, rfl⟩

/-! ### 3. XACK, XCLAIM, XPENDING, administration -/

/-- XACK on any state whose `entries_by_id` is a map (strictly sorted keys — in particular every agreeing state):
    the reply is the number of pending rows whose id occurs in the argument list — each counted once however often
    it is repeated, unknown ids counting nothing — and exactly those rows are removed; the cursor is untouched. -/
theorem xack_counts_once (g : Group) (hs : Sorted g.byId) (ids : List Id) :
    (Code.acknowledge g ids).2 = (g.byId.filter (fun e => ids.contains e.id)).length ∧
    (Code.acknowledge g ids).1.byId = g.byId.filter (fun e => !ids.contains e.id) ∧
    Grp.abs (Code.acknowledge g ids).1 = (Spec.ack (Grp.abs g) ids).1 ∧
    (Code.acknowledge g ids).2 = (Spec.ack (Grp.abs g) ids).2 := by
  obtain ⟨h1, h2⟩ := ackLoop_byId g ids 0 hs
  obtain ⟨h3, h4⟩ := acknowledge_refines g ids hs
  refine ⟨?_, h1, h3, h4⟩
  show (Code.ackLoop g ids 0).2 = _
  rw [h2, Nat.zero_add]

/-- Acknowledging twice acknowledges nothing the second time. -/
theorem xack_idempotent (g : Group) (h : Agree g) (ids : List Id) :
    (Code.acknowledge (Code.acknowledge g ids).1 ids).2 = 0 := by
  have h' := agree_acknowledge h ids
  rw [(xack_counts_once _ h'.sorted ids).1, (xack_counts_once g h.sorted ids).2.1]
  rw [List.filter_filter, List.length_eq_zero_iff, List.filter_eq_nil_iff]
  intro e _
  cases ids.contains e.id <;> simp

/-- XCLAIM: on every state, the pending set after the claim is the old one with every listed pending id now owned
    by the claimer (when the idle test passes; unchanged otherwise), the reply lists exactly the listed ids that
    were pending, the cursor is untouched — and on agreeing states all representations follow (the ids leave their
    previous owners' vectors and counters and enter the claimer's). -/
theorem xclaim_moves (g : Group) (c : Name) (elig : Bool) (ids : List Id) :
    Grp.abs (Code.claim g c elig ids).1 = (Spec.claim (Grp.abs g) c elig ids).1 ∧
    (Code.claim g c elig ids).2 = (Spec.claim (Grp.abs g) c elig ids).2 ∧
    (Agree g → Agree (Code.claim g c elig ids).1) :=
  ⟨(claim_refines g c elig ids).1, (claim_refines g c elig ids).2, fun h => agree_claim h c elig ids⟩

/-- XCLAIM's idle threshold is measured from the LAST delivery: after a successful claim of `id` at time `t` (which
    stamps the row with `t`, whether the row changed hands or was created by FORCE), any claim of `id` without FORCE
    and with min-idle `T` at a time `t'` with `t' - t < T` — in particular immediately, `t' = t`, for every `T > 0` —
    is refused: nothing is claimed, the owner, the delivery count and every other representation stay as the first
    claim left them (only the would-be claimer is created).  On every tree. -/
theorem claim_resets_idle (q : Quirks) (stream : List Id) (g : Group) (ts : Code.Times) (c c' : Name)
    (t t' T T' : Nat) (force : Bool) (id : Id)
    (h : (Code.claimT q stream (g, ts) c t T' force [id]).2 = [id]) (hT : t' - t < T) :
    let s1 := (Code.claimT q stream (g, ts) c t T' force [id]).1
    (Code.claimT q stream s1 c' t' T false [id]).2 = [] ∧
    (Code.claimT q stream s1 c' t' T false [id]).1 = (Code.createConsumer s1.1 c', s1.2) ∧
    Code.lastOf s1.2 id = t := by
  have hr : (Code.claimStepT q c t T' force stream (Code.createConsumer g c, ts) id).2 = true := by
    simp only [Code.claimT, Code.claimLoopT] at h
    cases hx : (Code.claimStepT q c t T' force stream (Code.createConsumer g c, ts) id).2 with
    | true => rfl
    | false => rw [hx] at h; simp at h
  intro s1
  have hs1 : s1 = (Code.claimStepT q c t T' force stream (Code.createConsumer g c, ts) id).1 := rfl
  have hlast : Code.lastOf s1.2 id = t := by
    rw [hs1]
    unfold Code.claimStepT at hr ⊢
    cases hf : pelFind id (Code.createConsumer g c, ts).1.byId with
    | some e =>
      rw [hf] at hr; simp only at hr ⊢
      simp only [hr, if_true]; exact lastOf_setLast ts id t
    | none =>
      rw [hf] at hr; simp only at hr ⊢
      split
      · exact lastOf_setLast ts id t
      · rename_i hc; rw [if_neg hc] at hr; cases hr
  have hstep : Code.claimStepT q c' t' T false stream (Code.createConsumer s1.1 c', s1.2) id =
      ((Code.createConsumer s1.1 c', s1.2), false) :=
    claimStepT_refused q c' t' T stream _ id (by show t' - Code.lastOf s1.2 id < T; rw [hlast]; exact hT)
  refine ⟨?_, ?_, hlast⟩
  · simp only [Code.claimT, Code.claimLoopT, hstep]; simp
  · simp only [Code.claimT, Code.claimLoopT, hstep]

/-- Once the threshold has elapsed since that last claim, the entry can be claimed again (the test is exactly
    `T ≤ now - last_delivery`). -/
theorem claim_allowed_after_idle (q : Quirks) (stream : List Id) (g : Group) (ts : Code.Times) (c : Name) (now T : Nat)
    (id : Id) (e : PEntry)
    (hp : pelFind id (Code.createConsumer g c).byId = some e) (hT : T ≤ now - Code.lastOf ts id) :
    (Code.claimT q stream (g, ts) c now T false [id]).2 = [id] ∧
    Code.lastOf (Code.claimT q stream (g, ts) c now T false [id]).1.2 id = now := by
  have hok : Code.idleOk now (Code.lastOf ts id) T false = true := by simp [Code.idleOk, hT]
  have hr : (Code.claimOne c true (Code.createConsumer g c) id).2 = true := by rw [claimOne_some hp]
  have hstep : Code.claimStepT q c now T false stream (Code.createConsumer g c, ts) id =
      (((Code.claimOne c true (Code.createConsumer g c) id).1, Code.setLast ts id now), true) := by
    unfold Code.claimStepT
    simp only [hp, Bool.false_and, hok, hr, if_true]
  constructor
  · simp only [Code.claimT, Code.claimLoopT, hstep, if_true]
  · simp only [Code.claimT, Code.claimLoopT, hstep]
    exact lastOf_setLast ts id now

/-- The timed claim is the Boolean one whenever the idle test has a uniform outcome and no row is created (min-idle 0:
    passes; a threshold larger than the clock: fails; FORCE on the pinned tree: passes) — which is how the untimed
    histories of the check use it — and it preserves the agreement of the representations whatever the times, the
    switches and FORCE are (row creation included). -/
theorem claim_timed (q : Quirks) (stream : List Id) (g : Group) (ts : Code.Times) (c : Name) (now minIdle : Nat)
    (force b : Bool) (ids : List Id) :
    ((∀ l, Code.idleOk now l minIdle (force && !q.forceFix) = b) → (q.forceFix && force) = false →
      (Code.claimT q stream (g, ts) c now minIdle force ids).1.1 = (Code.claim g c b ids).1 ∧
      (Code.claimT q stream (g, ts) c now minIdle force ids).2 = (Code.claim g c b ids).2) ∧
    (Agree g → Agree (Code.claimT q stream (g, ts) c now minIdle force ids).1.1 ∧
      (Code.claimT q stream (g, ts) c now minIdle force ids).1.1.lastDelivered = g.lastDelivered) := by
  constructor
  · intro h hnc
    exact claimLoopT_uniform q c now minIdle force b stream h hnc ids (Code.createConsumer g c, ts)
  · intro h
    exact claimLoopT_agree q c now minIdle force stream ids (Code.createConsumer g c, ts)
      (agree_createConsumer h c) (alGet_consCreate_self c g.consumers)

/-- XCLAIM as prescribed (tree with `forceFix`): an entry that is pending changes owner ONLY by a claim whose idle
    threshold it meets — with or without FORCE, a step whose threshold is not met leaves the group exactly as it
    was. -/
theorem xclaim_owner_changes_only_when_idle_met (q : Quirks) (hq : q.forceFix = true) (c : Name) (now T : Nat)
    (force : Bool) (stream : List Id) (s : Group × Code.Times) (id : Id) (e : PEntry)
    (hp : pelFind id s.1.byId = some e) (h : now - Code.lastOf s.2 id < T) :
    Code.claimStepT q c now T force stream s id = (s, false) :=
  claimStepT_refused_force q hq c now T force stream s id e hp h

/-- XCLAIM FORCE as prescribed (tree with `forceFix`): for an id that is pending for nobody, a row is created iff FORCE
    is given and the entry exists in the stream; it is exactly the row (id, claimer, delivery count 1), stamped now,
    with the claimer's counter and the total each one higher — and nothing else changes. -/
theorem xclaim_force_creates_missing_rows (q : Quirks) (hq : q.forceFix = true) (c : Name) (now T : Nat) (force : Bool)
    (stream : List Id) (s : Group × Code.Times) (id : Id) (hp : pelFind id s.1.byId = none) :
    Code.claimStepT q c now T force stream s id =
      (if force && stream.contains id then ((Code.addOne c s.1 id, Code.setLast s.2 id now), true) else (s, false)) ∧
    (Code.addOne c s.1 id).byId = pelInsert ⟨id, c, 1⟩ s.1.byId ∧
    (Code.addOne c s.1 id).totalPending = s.1.totalPending + 1 ∧
    (Code.addOne c s.1 id).lastDelivered = s.1.lastDelivered := by
  refine ⟨?_, rfl, rfl, rfl⟩
  unfold Code.claimStepT
  simp only [hp, hq, Bool.true_and]

/-- WITNESS (hunt d1): on the pinned tree FORCE is backwards.  c1 holds 1-0, delivered at time 0; at time 5 a claim
    with min-idle 3 600 000 and FORCE takes it (A), and FORCE on the existing, non-pending 3-0 creates nothing (B).
    The repaired tree refuses A and creates the row for B. -/
theorem xclaim_force_backwards_when_pinned :
    let g := Code.addPending (Code.newGroup Quirks.pinned (0, 0)) 1 [(1, 0)]
    (Code.claimT Quirks.pinned [(1, 0), (3, 0)] (g, []) 2 5 3600000 true [(1, 0)]).2 = [(1, 0)] ∧
    (Code.claimT Quirks.pinned [(1, 0), (3, 0)] (g, []) 3 5 0 true [(3, 0)]).2 = [] ∧
    (Code.claimT Quirks.fixed [(1, 0), (3, 0)] (g, []) 2 5 3600000 true [(1, 0)]).2 = [] ∧
    (Code.claimT Quirks.fixed [(1, 0), (3, 0)] (g, []) 3 5 0 true [(3, 0)]).2 = [(3, 0)] ∧
    (Code.claimT Quirks.fixed [(1, 0), (3, 0)] (g, []) 3 5 0 true [(3, 0), (9, 9)]).1.1.byId =
      [⟨(1, 0), 1, 1⟩, ⟨(3, 0), 3, 1⟩] := by
  refine ⟨by decide, by decide, by decide, by decide, by decide⟩

/-- WITNESS of what the idle test must not do: measured from the FIRST delivery (time 0) instead of the last one, the
    second claim at time 400 with threshold 300 would pass (`300 ≤ 400 - 0`); measured as prescribed it is refused. -/
theorem claim_idle_from_first_delivery_differs :
    Code.idleOk 400 0 300 false = true ∧ Code.idleOk 400 400 300 false = false := by decide

/-- XPENDING summary on agreeing states equals the actual pending set: the total is the number of pending rows, the
    bounds are the smallest and largest pending id, and the per-consumer rows are exactly the owners with the
    number of rows they own (consumers owning nothing are not listed). -/
theorem xpending_equals_actual (g : Group) (h : Agree g) :
    ∃ rows, Code.pendingInfo g = .summary (Grp.abs g).pending.length ((Grp.abs g).pending.head?.map (·.1))
        ((Grp.abs g).pending.getLast?.map (·.1)) rows ∧
      ∀ c n, (c, n) ∈ rows ↔
        (c, n) ∈ ((Grp.abs g).pending.map (·.2)).eraseDups.map (fun c => (c, Spec.countOf (Grp.abs g).pending c)) := by
  refine ⟨g.consumers.filter (fun p => p.2 > 0), ?_, ?_⟩
  · simp only [Code.pendingInfo, Grp.abs, List.length_map, List.head?_map, List.getLast?_map, h.bmin, h.bmax,
      Option.map_map]
    rfl
  · intro c n
    rw [pendingInfo_rows h.toAgreeCore, specInfo_rows]

/-- XPENDING with a range and no consumer filter, when the range is not reversed: the code returns exactly the
    pending rows with `s ≤ id ≤ e`, in id order, at most `count` — the same rows the property prescribes. -/
theorem xpending_range_equals_actual (q : Quirks) (g : Group) (s e : Option Id) (count : Nat)
    (hse : ∀ lo hi, s = some lo → e = some hi → idLe lo hi = true) :
    Code.pendingRange q g s e count none =
      .entries (((g.byId.filter (fun x => inRange s e x.id)).take count).map Code.showEntry) ∧
    Spec.pendingRange (Grp.abs g) s e count none =
      .entries (((g.byId.filter (fun x => inRange s e x.id)).take count).map (fun x => (x.id, x.owner, 0))) := by
  have hlo : ∀ x : Id, idLe (0, 0) x = true := by
    intro x; rw [idLe_iff, idLt_iff]
    rcases x with ⟨a, b⟩
    simp only [Prod.mk.injEq]; omega
  constructor
  · cases e with
    | none => cases s <;> simp [Code.pendingRange, inRange, hlo]
    | some hi =>
      cases s with
      | none =>
        have : idLt hi (0, 0) = false := by
          cases h : idLt hi (0, 0) with
          | false => rfl
          | true => rw [idLt_iff] at h; simp at h
        simp [Code.pendingRange, inRange, hlo, this]
      | some lo =>
        have : idLt hi lo = false := not_idLt_iff.mpr (hse lo hi rfl rfl)
        simp [Code.pendingRange, inRange, this]
  · simp only [Spec.pendingRange, Grp.abs, Bool.and_true, List.filter_map, ← List.map_take, List.map_map]
    rfl

/-- XPENDING with a consumer filter on a tree with the repair (`filterFix`), range not reversed: exactly the rows of
    that consumer with `s ≤ id ≤ e`, in id order, at most `count` — the rows the property prescribes. -/
theorem xpending_range_consumer_equals_actual (q : Quirks) (hq : q.filterFix = true) (g : Group) (s e : Option Id)
    (count : Nat) (c : Name) (hse : ∀ lo hi, s = some lo → e = some hi → idLe lo hi = true) :
    Code.pendingRange q g s e count (some c) =
      .entries (((g.byId.filter (fun x => inRange s e x.id && x.owner == c)).take count).map Code.showEntry) ∧
    Spec.pendingRange (Grp.abs g) s e count (some c) =
      .entries (((g.byId.filter (fun x => inRange s e x.id && x.owner == c)).take count).map
        (fun x => (x.id, x.owner, 0))) := by
  constructor
  · cases e with
    | none => simp [Code.pendingRange, hq]
    | some hi =>
      cases s with
      | none =>
        have : idLt hi (0, 0) = false := by
          cases h : idLt hi (0, 0) with
          | false => rfl
          | true => rw [idLt_iff] at h; simp at h
        simp [Code.pendingRange, hq, this]
      | some lo =>
        have : idLt hi lo = false := not_idLt_iff.mpr (hse lo hi rfl rfl)
        simp [Code.pendingRange, hq, this]
  · simp only [Spec.pendingRange, Grp.abs, List.filter_map, ← List.map_take, List.map_map]
    rfl

/-- WITNESS (defect 35): a reversed range on a group that has ever held a pending entry panics on the pinned
    tree; with the repair it is the empty list, as prescribed. -/
theorem xpending_range_panics_when_reversed :
    let g := Code.addPending (Code.newGroup Quirks.pinned (0, 0)) 1 [(1, 0)]
    Code.pendingRange Quirks.pinned g (some (5, 0)) (some (1, 0)) 10 none = .panic ∧
    Code.pendingRange Quirks.fixed g (some (5, 0)) (some (1, 0)) 10 none = .entries [] ∧
    Spec.pendingRange (Grp.abs g) (some (5, 0)) (some (1, 0)) 10 none = .entries [] := by
  refine ⟨rfl, rfl, rfl⟩

/-- WITNESS (new finding): with a consumer filter the code ignores the range: c1 owns 1-0 and 2-0, the range
    2-0..2-0 should list 2-0 only. -/
theorem xpending_consumer_filter_ignores_range :
    let g := Code.addPending (Code.newGroup Quirks.pinned (0, 0)) 1 [(1, 0), (2, 0)]
    Code.pendingRange Quirks.pinned g (some (2, 0)) (some (2, 0)) 10 (some 1) = .entries [((1, 0), 1, 1), ((2, 0), 1, 1)] ∧
    Spec.pendingRange (Grp.abs g) (some (2, 0)) (some (2, 0)) 10 (some 1) = .entries [((2, 0), 1, 0)] ∧
    Code.pendingRange Quirks.fixed g (some (2, 0)) (some (2, 0)) 10 (some 1) = .entries [((2, 0), 1, 1)] := by
  refine ⟨rfl, rfl, rfl⟩

/-- XGROUP DELCONSUMER on agreeing states: the reply is the number of rows the consumer owned, exactly those rows
    leave the pending set, the consumer disappears, the cursor is untouched. -/
theorem delconsumer_effect (g : Group) (h : Agree g) (c : Name) :
    Grp.abs (Code.deleteConsumer g c).1 = (Spec.delConsumer (Grp.abs g) c).1 ∧
    (Code.deleteConsumer g c).2 = (Spec.delConsumer (Grp.abs g) c).2 ∧
    alGet c (Code.deleteConsumer g c).1.consumers = none := by
  unfold Code.deleteConsumer
  cases hc : alGet c g.consumers with
  | none =>
    -- not a consumer: owns nothing
    have hnone : ∀ e ∈ g.byId, e.owner ≠ c := by
      intro e he ho
      obtain ⟨l, _, _, _, hcn⟩ := h.toAgreeCore.owner_facts he
      rw [ho, hc] at hcn; cases hcn
    refine ⟨?_, ?_, hc⟩
    · simp only [Grp.abs, Spec.delConsumer, List.filter_map]
      congr 1
      rw [List.filter_eq_self.mpr]
      intro e he; simp [hnone e he]
    · simp only [Grp.abs, Spec.delConsumer, List.filter_map, List.length_map]
      symm; rw [List.length_eq_zero_iff, List.filter_eq_nil_iff]
      intro e he; simp [hnone e he]
  | some n =>
    simp only [Code.removeConsumerEntries]
    cases hl : alGet c g.byConsumer with
    | none =>
      have hnone : ∀ e ∈ g.byId, e.owner ≠ c := by
        intro e he ho
        obtain ⟨l, hl', _, _, _⟩ := h.toAgreeCore.owner_facts he
        rw [ho, hl] at hl'; cases hl'
      refine ⟨?_, ?_, by simp [alGet_alErase]⟩
      · simp only [Grp.abs, Spec.delConsumer, List.filter_map]
        congr 1
        rw [List.filter_eq_self.mpr]
        intro e he; simp [hnone e he]
      · simp only [Grp.abs, Spec.delConsumer, List.filter_map, List.length_map]
        symm; rw [List.length_eq_zero_iff, List.filter_eq_nil_iff]
        intro e he; simp [hnone e he]
    | some l =>
      have hmemId : ∀ e ∈ g.byId, (e.id ∈ l ↔ e.owner = c) := by
        intro e he
        constructor
        · intro hin
          obtain ⟨e', he', hid', ho'⟩ := h.toAgreeCore.vec_owner hl hin
          rw [← sorted_unique h.sorted he' he hid']; exact ho'
        · intro ho
          obtain ⟨l', hl', hidl', _, _⟩ := h.toAgreeCore.owner_facts he
          rw [ho, hl] at hl'; cases hl'; exact hidl'
      refine ⟨?_, ?_, by simp [Code.updateBounds, alGet_alErase]⟩
      · simp only [Grp.abs, Spec.delConsumer, Code.updateBounds, List.filter_map]
        congr 2
        apply List.filter_congr
        intro e he
        by_cases ho : e.owner = c
        · simp [ho, (hmemId e he).mpr ho]
        · have : e.id ∉ l := fun hin => ho ((hmemId e he).mp hin)
          simp [ho, this]
      · simp only [Grp.abs, Spec.delConsumer, List.filter_map, List.length_map]
        exact h.toAgreeCore.vec_length hl

/-- XGROUP SETID moves the cursor and nothing else; CREATECONSUMER changes no pending entry and no cursor. -/
theorem setid_createconsumer_effect (g : Group) (id : Id) (c : Name) :
    Grp.abs (Code.setId g id) = { Grp.abs g with cursor := id } ∧
    (Code.setId g id).byConsumer = g.byConsumer ∧ (Code.setId g id).consumers = g.consumers ∧
    (Code.setId g id).totalPending = g.totalPending ∧
    Grp.abs (Code.createConsumer g c) = Grp.abs g :=
  ⟨rfl, rfl, rfl, rfl, rfl⟩

/-- XGROUP CREATE on the repaired tree: the new group has the requested cursor and nothing pending; a second CREATE
    is refused (BUSYGROUP) and changes nothing; DESTROY removes exactly that group. -/
theorem create_destroy_effect (s : St) (gname : Name) (start : Id) (h : alGet gname s.groups = none) :
    let s1 := (St.create Quirks.fixed s gname start).1
    (alGet gname s1.groups).map Grp.abs = some (Spec.newGroup start) ∧
    St.create Quirks.fixed s1 gname start = (s1, .busy) ∧
    alGet gname (St.destroy s1 gname).1.groups = none ∧
    (∀ other, other ≠ gname → alGet other s1.groups = alGet other s.groups ∧
        alGet other (St.destroy s1 gname).1.groups = alGet other s.groups) ∧
    s1.stream = s.stream := by
  have e1 : (St.create Quirks.fixed s gname start).1 =
      { s with groups := alSet gname (Code.newGroup Quirks.fixed start) s.groups, keyExists := true } := by
    simp [St.create, h]
  have hget : alGet gname (alSet gname (Code.newGroup Quirks.fixed start) s.groups) =
      some (Code.newGroup Quirks.fixed start) := by rw [alGet_alSet]; simp
  intro s1
  have hs1 : s1 = { s with groups := alSet gname (Code.newGroup Quirks.fixed start) s.groups, keyExists := true } := e1
  refine ⟨?_, ?_, ?_, ?_, ?_⟩
  · rw [hs1]; simp only [hget]; rfl
  · rw [hs1]; simp [St.create, hget]
  · rw [hs1]; simp [St.destroy, hget, alGet_alErase]
  · intro other hne
    rw [hs1]
    refine ⟨by simp [alGet_alSet, Ne.symm hne], ?_⟩
    simp [St.destroy, hget, alGet_alErase, alGet_alSet, Ne.symm hne]
  · rw [hs1]

/-- WITNESS (row 21, start ignored), at the level of XGROUP CREATE: on the pinned tree the cursor of a new group is
    0-0 whatever start id was asked for. -/
theorem create_ignores_start_when_pinned (start : Id) :
    (Code.newGroup Quirks.pinned start).lastDelivered = (0, 0) ∧
    (Code.newGroup Quirks.fixed start).lastDelivered = start := ⟨rfl, rfl⟩

/-- "These effects and no others": an operation on one group changes neither the stream nor any other group. -/
theorem group_ops_isolated (q : Quirks) (s : St) (gname other : Name) (op : GOp) (hne : other ≠ gname) :
    alGet other (St.gop q s gname op).1.groups = alGet other s.groups ∧
    (St.gop q s gname op).1.stream = s.stream ∧ (St.gop q s gname op).1.lastId = s.lastId := by
  unfold St.gop
  cases alGet gname s.groups with
  | none => exact ⟨rfl, rfl, rfl⟩
  | some grp => exact ⟨by simp [alGet_alSet, Ne.symm hne], rfl, rfl⟩

/-! ### 4. Handler level: all-or-nothing multi-stream reads, names, the border id -/

/-- A multi-stream XREADGROUP whose later stream fails is refused, and on a tree that validates before delivering
    (`multiFix`) it changes nothing — "a refused command changes nothing", "delivered under `>` exactly once". -/
theorem multi_stream_read_all_or_nothing (q : Quirks) (stream : List Id) (g : Group) (c : Name) (count : Option Nat)
    (noack : Bool) :
    (Code.multiReadFailing q stream g c count noack).2 = .refused ∧
    (q.multiFix = true → (Code.multiReadFailing q stream g c count noack).1 = g) := by
  unfold Code.multiReadFailing
  constructor
  · split <;> rfl
  · intro h; simp [h]

/-- WITNESS: on the pinned tree `XREADGROUP GROUP g c1 STREAMS s t > >` with no group g on t answers NOGROUP but has
    made 1-0 pending for c1 and moved the cursor of s: 1-0 is never delivered under `>` again. -/
theorem multi_stream_read_delivers_before_failing_when_pinned :
    let g := Code.newGroup Quirks.pinned (0, 0)
    (Code.multiReadFailing Quirks.pinned [(1, 0)] g 1 none false).1.byId = [⟨(1, 0), 1, 1⟩] ∧
    (Code.multiReadFailing Quirks.pinned [(1, 0)] g 1 none false).1.lastDelivered = (1, 0) ∧
    (Code.multiReadFailing Quirks.fixed [(1, 0)] g 1 none false).1 = g := by
  refine ⟨rfl, rfl, rfl⟩

/-- WITNESS: the lossy UTF-8 conversion stores the two distinct binary names (transported as 100 and 101) under one
    name, so they are one group / one consumer; the repaired tree refuses such names instead. -/
theorem binary_names_collide_when_lossy :
    Code.lossyName 100 = Code.lossyName 101 ∧ (100 : Name) ≠ 101 ∧ ∀ n, Code.isBinaryName n = false → Code.lossyName n = n := by
  refine ⟨rfl, by decide, ?_⟩
  intro n h
  simp only [Code.isBinaryName, Bool.or_eq_false_iff, decide_eq_false_iff_not] at h
  simp [Code.lossyName, h.1, h.2]

/-- The explicit id `18446744073709551615-18446744073709551615`: the property's reading is "the consumer's pending
    entries after it" — none, for ids that fit in 64 bits; the pinned handler reads it as `>` (WITNESS), the
    repaired one as what it says; every other explicit id is read as itself on both. -/
theorem explicit_max_id (q : Quirks) :
    Code.explicitFrom Quirks.pinned Code.maxId = none ∧
    Code.explicitFrom Quirks.fixed Code.maxId = some Code.maxId ∧
    (∀ a, a ≠ Code.maxId → Code.explicitFrom q a = some a) ∧
    (∀ (g : Spec.Group) c count,
      (∀ x ∈ g.pending, x.1.1 < 18446744073709551616 ∧ x.1.2 < 18446744073709551616) →
      Spec.readHist g c Code.maxId count = []) := by
  refine ⟨rfl, rfl, ?_, ?_⟩
  · intro a h; simp [Code.explicitFrom, h]
  · intro g c count hb
    have : g.pending.filter (fun x => x.2 == c && idLt Code.maxId x.1) = [] := by
      rw [List.filter_eq_nil_iff]
      intro x hx hp
      simp only [Bool.and_eq_true] at hp
      have h1 := hp.2
      rw [idLt_iff] at h1
      have := hb x hx
      simp only [Code.maxId] at h1
      omega
    unfold Spec.readHist
    simp only [this, List.map_nil]
    cases count <;> simp

/-- COUNT 0 (hunt d2): the property reads COUNT 0 as "no limit"; the repaired handler hands `read_group` no count, the
    pinned one the literal 0, for which nothing is ever delivered (WITNESS). -/
theorem count_zero_is_unlimited (q : Quirks) (stream : List Id) (a : Id) :
    Code.countFrom Quirks.fixed 0 = none ∧ Code.countFrom Quirks.pinned 0 = some 0 ∧
    (∀ n, n ≠ 0 → Code.countFrom q n = some n) ∧
    rangeAfter stream a (some 0) = [] ∧ rangeAfter stream a none = stream.filter (fun x => idLt a x) := by
  refine ⟨rfl, rfl, ?_, by simp [rangeAfter], rfl⟩
  intro n h; simp [Code.countFrom, h]

/-- A refused XGROUP CREATE (hunt d3): "administration has exactly these effects and no others" — on the repaired tree a
    refused `CREATE key g <bad id> MKSTREAM` leaves a missing key missing; the pinned tree has created it (WITNESS). -/
theorem refused_create_changes_nothing (q : Quirks) (existed : Bool) :
    (q.createParseFix = true → Code.refusedCreateLeavesKey q existed = existed) ∧
    Code.refusedCreateLeavesKey Quirks.pinned false = true := by
  refine ⟨?_, rfl⟩
  intro h; simp [Code.refusedCreateLeavesKey, h]

/-- XPENDING bounds (hunt d4): the repaired handler reads a bound as the property prescribes (`boundSpec`); the pinned
    one reads an incomplete id, an exclusive bound, `+` as a start and garbage as "unbounded" (WITNESSES), so the reply
    lists rows outside the requested range.  The prescribed reading of the hunter's examples. -/
theorem xpending_bounds (q : Quirks) (hq : q.boundFix = true) (isStart excl : Bool) (b : Code.Bound) :
    Code.boundCode q isStart excl b = (Code.boundSpec isStart excl b).map some ∧
    Code.boundCode Quirks.pinned true false (.ms 2) = some none ∧
    Code.boundCode Quirks.pinned true true (.full (2, 0)) = some none ∧
    Code.boundCode Quirks.pinned true false .plus = some none ∧
    Code.boundCode Quirks.pinned true false .junk = some none ∧
    Code.boundSpec true false (.ms 2) = some (2, 0) ∧
    Code.boundSpec false false (.ms 2) = some (2, 18446744073709551615) ∧
    Code.boundSpec true true (.full (2, 0)) = some (2, 1) ∧
    Code.boundSpec false true (.full (3, 0)) = some (2, 18446744073709551615) ∧
    Code.boundSpec true false .plus = some Code.maxId ∧
    Code.boundSpec true true .plus = none ∧
    Code.boundSpec false false .junk = none := by
  refine ⟨by simp [Code.boundCode, hq], rfl, rfl, rfl, rfl, rfl, rfl, rfl, rfl, rfl, rfl, rfl⟩

/-! ### Non-vacuity: concrete non-trivial instances of the hypotheses -/

/-- an agreeing state with two consumers, three pending rows, reached by real operations -/
example : Agree (Code.claim (Code.addPending (Code.addPending (Code.newGroup Quirks.pinned (0, 0)) 1 [(1, 0), (2, 0)]) 2 [(3, 0)])
    2 true [(1, 0)]).1 := by
  rw [← agreeB_iff]; decide
example : IdSorted [(1, 0), (1, 1), (3, 0)] ∧ ∀ x ∈ [((1, 0) : Id), (1, 1), (3, 0)], idLe x (3, 0) = true := by decide
example : ∀ op ∈ [HOp.add (4, 0), .del [(1, 0)], .g (.read 1 none (some 2) false), .g (.ack [(1, 0), (1, 0), (9, 9)]),
    .g (.claim 2 true [(2, 0)]), .g (.delc 1), .g (.read 3 none none false)], op.plainFor Quirks.pinned = true := by decide
example : (Code.run Quirks.pinned (Code.init Quirks.pinned [(1, 0), (2, 0), (3, 0)] (3, 0) (0, 0))
    [.g (.read 1 none (some 2) false), .add (4, 0), .g (.read 2 none none false)]).log =
    [((1, 0), 1), ((2, 0), 1), ((3, 0), 2), ((4, 0), 2)] := by rfl
example : (Code.acknowledge (Code.addPending (Code.newGroup Quirks.pinned (0, 0)) 1 [(1, 0), (2, 0)]) [(1, 0), (1, 0), (9, 9)]).2 = 1 := by rfl

end Ferrous.C16
