/-
  C11 — with appendonly enabled the AOF is a faithful redo log.

  Property theorems only; helper lemmas live in FerrousSpec/Proofs/Aof*.lean.
  Model: FerrousSpec/Model/Aof.lean (on top of the key-space machine `KS.step`): `Code.aofAppend`/`Code.fileAfter`
  (what `process_normal_command` writes), `log cfg h` (the commands in the file after history `h`; `Cfg.code w` = the
  code with write table `w`, `Cfg.fixed w` = what the property prescribes), `live` (the server after `h`),
  `replay` (the entries, in file order, on a fresh connection of an empty server, at any instants).
  Tie to the code: `Gen.writeCommands`, `Gen.aofDispatchNames`, `Gen.appendBeforeDispatch`, `Gen.appendSites`,
  `Gen.wakeLogs` are regenerated from src/network/server.rs on every run (translator/aof_tables.py); lib/c11.py
  compares the real file with `fileOf (log (Cfg.code Gen.writeCommands) h)` byte for byte and the two datasets
  (live server, fresh server fed the file) with `live` / `replayAt`.

  Agreement (`Agree`) = in every database the same keys in the same order with the same values, and a key has a
  deadline on one side iff it has one on the other (values + TTL presence; never remaining time).
-/
import FerrousSpec.Proofs.AofFrames
import FerrousSpec.Proofs.AofReadOnly
import FerrousSpec.Proofs.AofReplay
import FerrousSpec.Proofs.KsAtomic
import FerrousSpec.Props.C20
import FerrousSpec.Gen.Aof
namespace Ferrous.C11
open Ferrous Ferrous.KS Ferrous.Aof

/-! ### (1) The file is at all times a sequence of complete command frames -/

/-- The bytes `process_normal_command` has appended after any history are exactly the serialisations of the
    commands of `log`, one after the other (nothing else ever writes to the file). -/
theorem code_file_is_log (w : List String) (h : List Aof.Ev) :
    Code.fileAfter w [] h = fileOf (log (Cfg.code w) h) :=
  fileAfter_eq w h

/-- Every state-changing command that passed through `process_normal_command` is represented exactly once, in
    execution order: the log is the sub-list of the commands received whose name is in the table. -/
theorem logged_once_in_order (w : List String) (h : List Aof.Ev) :
    log (Cfg.code w) h = (rawsOf h).filter fun raw => isWrite w (nameOf raw) :=
  log_code_eq_filter w {} h

/-- For every list of commands — arguments arbitrary bytes (CR, LF, NUL, `*3\r\n…` included) — the concatenation of
    their serialisations is read back by a strict reader as exactly those commands, ending at a frame end. -/
theorem log_is_frames (cs : List (List Bytes)) (hw : ∀ c ∈ cs, cmdWf c) : readLog (fileOf cs) = (cs, .clean) :=
  readLog_fileOf cs hw

/-- The same holds at every frame boundary: the file cut after the `k`-th command is a prefix of the file and reads
    back as the first `k` commands. -/
theorem log_prefix_at_frame_end (cs : List (List Bytes)) (hw : ∀ c ∈ cs, cmdWf c) (k : Nat) :
    fileOf cs = fileOf (cs.take k) ++ fileOf (cs.drop k) ∧ readLog (fileOf (cs.take k)) = (cs.take k, .clean) := by
  constructor
  · rw [← fileOf_append, List.take_append_drop]
  · exact readLog_fileOf _ fun c hc => hw c (List.mem_of_mem_take hc)

/-- A `kill -9` in the middle of an append loses at most the last command: the file cut anywhere strictly inside the
    frame of one more command reads back as all complete commands before it, then "need more data" — never as a
    wrong command and never as garbage. -/
theorem log_torn_tail (cs : List (List Bytes)) (hw : ∀ c ∈ cs, cmdWf c) (c : List Bytes) (hc : cmdWf c)
    (p e : Bytes) (hpe : p ++ e = serCmd c) (hp : p ≠ []) (he : e ≠ []) :
    readLog (fileOf cs ++ p) = (cs, .torn p) :=
  readLog_torn cs hw c hc p e hpe hp he

/-- ferrous's own incremental parser (the one `AofEngine::load` uses), fed the file in ANY chunking, yields exactly
    the appended commands, no error and nothing else (C20's chunking independence + round trip). -/
theorem log_parses_under_any_chunking (cs : List (List Bytes)) (hw : ∀ c ∈ cs, cmdWf c) (chunks : List Bytes)
    (hfl : chunks.flatten = fileOf cs) :
    runChunks true [] chunks = cs.map fun c => Ferrous.Ev.frame (cmdFrame c) := by
  rw [C20.chunking_independent chunks, hfl, runWhole_fileOf cs hw]

/-! ### (2) The write table against the catalogue -/

/-- KEY LEMMA (what makes the hand-written catalogue trustworthy): a command of the key-space machine whose name is
    not in `Spec.writeNames` returns the database it was given — for all databases, arguments, instants, draws. -/
theorem readonly_never_changes_dataset (q : Quirks) (db : Db) (now : Nat) (name : String) (args : List Bytes)
    (obs : Option (List Bytes)) (h : ¬ name ∈ Spec.writeNames) : (stepDb q db now name args obs).1 = db :=
  stepDb_readonly q db now name args obs h

/-- … and every name in `Spec.writeNames` does change some database (`FLUSHALL`: the whole store). -/
theorem writeNames_all_mutate :
    (∀ n ∈ Spec.writeNames, n = "FLUSHALL" ∨
      ∃ w ∈ Spec.mutWitness, w.1 = n ∧ (stepDb Quirks.spec w.2.1 1000 n w.2.2 (some [[97]])).1 ≠ w.2.1) ∧
    (step Quirks.spec [[([107], ⟨.str [53], none⟩)]] 0 1000 [[70, 76, 85, 83, 72, 65, 76, 76]] none).1 ≠ [[([107], ⟨.str [53], none⟩)]] := by
  decide

/-- Every mutating command of the catalogue is in the regenerated table, except the listed ones. -/
theorem writes_are_logged_partial : ∀ n ∈ Spec.writeNames, n ∉ Spec.notLogged → n ∈ Gen.writeCommands := by decide

/-- The exception list is exact on the current tree: each listed name mutates and is missing from the table.
    (After `fix: add GETSET, HMSET, PEXPIRE to is_write_command` this theorem stops checking: `Spec.notLogged`
    becomes `[]` and `writes_are_logged_partial` is the full statement.) -/
theorem not_logged_exact : ∀ n ∈ Spec.notLogged, n ∈ Spec.writeNames ∧ n ∉ Gen.writeCommands := by decide

/-- The same for the dispatched commands outside the key-space machine that change the dataset. -/
theorem outside_writes_logged_partial : ∀ n ∈ Spec.outsideWrites, n ∉ Spec.notLoggedOutside → n ∈ Gen.writeCommands := by decide
theorem outside_not_logged_exact : ∀ n ∈ Spec.notLoggedOutside, n ∈ Spec.outsideWrites ∧ n ∉ Gen.writeCommands := by decide

/-- The catalogue is total: every name `process_normal_command` dispatches is classified (a command added to the
    server makes this fail until it is classified). -/
theorem catalogue_total :
    ∀ n ∈ Gen.aofDispatchNames, n ∈ KS.cmdNames ∨ n ∈ Spec.outsideWrites ∨ n ∈ Spec.outsideReads := by decide

/-- Nothing read-only is logged by name, except that EVAL/EVALSHA are logged whatever the script does. -/
theorem table_has_no_reads :
    ∀ n ∈ Gen.writeCommands, n ∈ Spec.writeNames ∨ n ∈ Spec.outsideWrites := by decide

/-- Where the log is written: once, in `process_normal_command`, before the dispatch and whatever the outcome;
    `wake_client` does not log; SELECT is not in the table; names forced off are not modelled commands. -/
theorem append_before_dispatch : Gen.appendBeforeDispatch = true := by decide
theorem single_append_site : Gen.appendSites = ["network/server.rs:process_normal_command"] := by decide
theorem wake_never_logs : Gen.wakeLogs = false := by decide
theorem select_never_logged : (Cfg.code Gen.writeCommands).wf = true := by decide
theorem forced_off_outside_catalogue : ∀ n ∈ Gen.writeForcedOff, n ∉ Spec.writeNames ∧ n ∉ Spec.outsideWrites := by decide

/-! ### (3) Replay = live -/

/-- PARTIAL (the code as it is): for every history inside the model all of whose events the current log covers —
    i.e. (`covered`, decidable) no mutating command outside the table, no SPOP, every logged command sent while the
    connection is in database 0, no blocked client served — and every replay of the file's entries, in file order on
    a fresh connection of an empty server, at ANY instants and with any random draws: if no deadline passes during
    the history or during the replay, the replayed dataset agrees with the live one in every database
    (values, TTL presence). -/
theorem replay_eq_live_partial (q : Quirks) (h : List Aof.Ev) (es : List REntry)
    (hes : es.map (·.cmd) = log (Cfg.code Gen.writeCommands) h)
    (hin : ∀ ev ∈ h, inModel ev = true)
    (hcov : coveredAll (Cfg.code Gen.writeCommands) h = true)
    (hqL : quietLive q {} h = true) (hqR : quietReplay q {} es = true) :
    Agree (live q h).store (replay q es).store :=
  replay_sim q (Cfg.code Gen.writeCommands) select_never_logged h {} {} {} es inv_init hes hin hcov hqL hqR

/-- FULL, for the prescribed log: with a table that contains every mutating command and EVAL (and not SELECT), a
    `SELECT` emitted whenever the database changes, and served pops logged as `LPOP`/`RPOP`, the statement holds for
    EVERY history of the model — all 16 databases, all four paths, refused commands included — except writes with a
    random outcome (SPOP), which need effect logging. -/
theorem replay_eq_live_fixed (q : Quirks) (w : List String) (hall : ∀ n ∈ Spec.writeNames, n ∈ w) (heval : "EVAL" ∈ w)
    (hsel : (Cfg.fixed w).wf = true) (h : List Aof.Ev) (es : List REntry)
    (hes : es.map (·.cmd) = log (Cfg.fixed w) h)
    (hin : ∀ ev ∈ h, inModel ev = true)
    (hdet : ∀ raw ∈ rawsOf h, ¬ Spec.randomWrites.contains (effName raw) = true)
    (hqL : quietLive q {} h = true) (hqR : quietReplay q {} es = true) :
    Agree (live q h).store (replay q es).store :=
  replay_sim q (Cfg.fixed w) hsel h {} {} {} es inv_init hes hin (coveredFrom_fixed w hall heval h {} hdet) hqL hqR

/-- The proposed repair of the table is enough for the names: the current table plus the listed exceptions satisfies
    the hypotheses of `replay_eq_live_fixed`. -/
theorem fixed_table_suffices :
    (∀ n ∈ Spec.writeNames, n ∈ Gen.writeCommands ++ Spec.notLogged) ∧ "EVAL" ∈ Gen.writeCommands ++ Spec.notLogged ∧
    (Cfg.fixed (Gen.writeCommands ++ Spec.notLogged)).wf = true := by decide

/-- A refused write is logged too (the code appends before it executes) and is harmless: the live dataset is
    unchanged (failure atomicity), and replaying the entry on any agreeing dataset, at any instant, leaves the two
    in agreement. -/
theorem refused_logged_harmless (q : Quirks) (w : List String) (st : LogSt) (c cR : Conn) (ve : Bool) (now now' : Nat)
    (obs obs' : Option (List Bytes)) (raw : List Bytes)
    (hw : isWrite w (nameOf raw) = true) (hs : nameOf raw ≠ "SELECT") (hr : effName raw ≠ "SPOP")
    (herr : isErr (KS.step q c.store c.cur now (effCmd raw) obs).2 = true)
    (hqL : quietStep c c.cur now = true) (hcur : cR.cur = c.cur) (hqR : quietStep cR cR.cur now' = true)
    (hA : Agree c.store cR.store) :
    (logEv (Cfg.code w) st (.cmd ve now obs raw)).1 = [raw] ∧
    (execEv q c (.cmd ve now obs raw)).store = c.store ∧
    Agree (execEv q c (.cmd ve now obs raw)).store (execRaw q cR now' obs' raw).store := by
  have hqL' := quietStep_eq hqL
  have hqR' := quietStep_eq hqR
  have hexec : execEv q c (.cmd ve now obs raw) = { c with store := (KS.step q c.store c.cur now (effCmd raw) obs).1 } := by
    simp only [execEv, hs, and_false, if_false]
    exact execRaw_not_select q c now obs raw hs
  have hsame : (KS.step q c.store c.cur now (effCmd raw) obs).1 = c.store := by
    rcases step_atomic q c.store c.cur now (effCmd raw) obs herr with h | h
    · exact h
    · rw [h, hqL', setDb_getDb_self]
  refine ⟨?_, ?_, ?_⟩
  · rw [logEv_code_cmd]; simp [hw]
  · rw [hexec]; exact hsame
  · rw [hexec, execRaw_not_select q cR now' obs' raw hs]
    simp only
    rw [hcur] at hqR' ⊢
    exact step_sim q c.store cR.store hA c.cur now now' (effCmd raw) obs obs' hqL' hqR'
      (Or.inl (by rw [nameOf_effCmd]; exact hr))

/-! ### Witnesses: the full statement is false for the code as it is

Histories are over keys `k`, `s`, `q`, values `v`, `w`; `t = 1000`, replay at `5000`. -/

def k : Bytes := [107]
def v : Bytes := [118]
def direct (raw : List Bytes) : Aof.Ev := .cmd false 1000 none raw
def codeLog (h : List Aof.Ev) : List (List Bytes) := log (Cfg.code Gen.writeCommands) h
def fixedLog (h : List Aof.Ev) : List (List Bytes) := log (Cfg.fixed (Gen.writeCommands ++ Spec.notLogged)) h

def hGetset : List Aof.Ev := [direct [strBytes "SET", k, v], direct [strBytes "GETSET", k, [119]]]
def hHmset : List Aof.Ev := [direct [strBytes "HMSET", k, [102], v]]
def hPexpire : List Aof.Ev := [direct [strBytes "SET", k, v], direct [strBytes "PEXPIRE", k, strBytes "100000"]]
def hOtherDb : List Aof.Ev := [direct [strBytes "SELECT", [50]], direct [strBytes "SET", k, v]]
def hWake : List Aof.Ev := [direct [strBytes "RPUSH", [113], v], .wake 0 1001 true [113]]
def hScript : List Aof.Ev := [direct (wrap [strBytes "SET", k, v])]

/-- GETSET is not logged: the file holds `SET k v` only and replays to the old value. -/
theorem replay_fails_getset :
    codeLog hGetset = [[strBytes "SET", k, v]] ∧ ¬ Agree (live Quirks.spec hGetset).store (replayAt Quirks.spec 5000 (codeLog hGetset)).store := by
  decide

/-- HMSET is not logged: the file stays empty. -/
theorem replay_fails_hmset :
    codeLog hHmset = [] ∧ ¬ Agree (live Quirks.spec hHmset).store (replayAt Quirks.spec 5000 (codeLog hHmset)).store := by
  decide

/-- PEXPIRE is not logged: the replayed key has no deadline (TTL presence differs). -/
theorem replay_fails_pexpire :
    codeLog hPexpire = [[strBytes "SET", k, v]] ∧
    ¬ Agree (live Quirks.spec hPexpire).store (replayAt Quirks.spec 5000 (codeLog hPexpire)).store := by
  decide

/-- SELECT is never logged: a write in database 2 replays into database 0. -/
theorem replay_fails_other_db :
    codeLog hOtherDb = [[strBytes "SET", k, v]] ∧
    getDb (live Quirks.spec hOtherDb).store 0 = [] ∧ getDb (live Quirks.spec hOtherDb).store 2 ≠ [] ∧
    getDb (replayAt Quirks.spec 5000 (codeLog hOtherDb)).store 0 ≠ [] ∧ getDb (replayAt Quirks.spec 5000 (codeLog hOtherDb)).store 2 = [] := by
  decide

/-- A random outcome is logged verbatim: live popped `a`, the replaying server may draw `b`. -/
theorem replay_fails_random_spop :
    let h : List Aof.Ev := [direct [strBytes "SADD", [115], [97], [98]], .cmd false 1001 (some [[97]]) [strBytes "SPOP", [115]]]
    codeLog h = [[strBytes "SADD", [115], [97], [98]], [strBytes "SPOP", [115]]] ∧
    ¬ Agree (live Quirks.spec h).store
        (replay Quirks.spec [⟨5000, none, [strBytes "SADD", [115], [97], [98]]⟩, ⟨5001, some [[98]], [strBytes "SPOP", [115]]⟩]).store := by
  decide

/-- The pop served to a blocked client bypasses the log: the element comes back on replay. -/
theorem replay_fails_wake :
    codeLog hWake = [[strBytes "RPUSH", [113], v]] ∧
    getDb (live Quirks.spec hWake).store 0 = [] ∧ getDb (replayAt Quirks.spec 5000 (codeLog hWake)).store 0 ≠ [] := by
  decide

/-- The script path is represented only because EVAL itself is in the table (the `redis.call`s are not logged):
    logged verbatim it replays to the same dataset, and without EVAL in the table the write is lost. -/
theorem script_path_logged_as_eval :
    codeLog hScript = [wrap [strBytes "SET", k, v]] ∧
    Agree (live Quirks.spec hScript).store (replayAt Quirks.spec 5000 (codeLog hScript)).store ∧
    log (Cfg.code (Gen.writeCommands.erase "EVAL")) hScript = [] ∧
    ¬ Agree (live Quirks.spec hScript).store (replayAt Quirks.spec 5000 (log (Cfg.code (Gen.writeCommands.erase "EVAL")) hScript)).store := by
  decide

/-- The prescribed log repairs each of the four: missing names, SELECT, served pop. -/
theorem fixed_log_repairs_witnesses :
    Agree (live Quirks.spec hGetset).store (replayAt Quirks.spec 5000 (fixedLog hGetset)).store ∧
    Agree (live Quirks.spec hHmset).store (replayAt Quirks.spec 5000 (fixedLog hHmset)).store ∧
    Agree (live Quirks.spec hPexpire).store (replayAt Quirks.spec 5000 (fixedLog hPexpire)).store ∧
    fixedLog hOtherDb = [selectCmd 2, [strBytes "SET", k, v]] ∧
    Agree (live Quirks.spec hOtherDb).store (replayAt Quirks.spec 5000 (fixedLog hOtherDb)).store ∧
    fixedLog hWake = [[strBytes "RPUSH", [113], v], popCmd true [113]] ∧
    Agree (live Quirks.spec hWake).store (replayAt Quirks.spec 5000 (fixedLog hWake)).store := by
  decide

/-! ### Non-vacuity: the hypotheses of the theorems are satisfiable by non-trivial histories -/

/-- a covered history through three paths (direct, EXEC, script) with a TTL, a refused write and reads -/
def hCovered : List Aof.Ev :=
  [direct [strBytes "SET", k, v, strBytes "EX", strBytes "100"],
   .cmd true 1001 none [strBytes "RPUSH", [108], [97], [98]],
   .cmd true 1001 none [strBytes "INCR", [108]],                 -- refused (wrong type), logged all the same
   direct (wrap [strBytes "HSET", [104], [102], v]),
   direct [strBytes "GET", k],
   .cmd false 1002 none [strBytes "SELECT", [51]],
   .cmd false 1003 none [strBytes "GET", k],
   .cmd false 1004 none [strBytes "SELECT", [48]],
   .cmd false 1005 none [strBytes "LPOP", [108]]]

example : (∀ ev ∈ hCovered, inModel ev = true) ∧ coveredAll (Cfg.code Gen.writeCommands) hCovered = true ∧
    quietLive Quirks.spec {} hCovered = true ∧ (codeLog hCovered).length = 5 ∧
    quietReplay Quirks.spec {} ((codeLog hCovered).map fun c => ⟨900000, none, c⟩) = true := by decide
example : ¬ coveredAll (Cfg.code Gen.writeCommands) hGetset = true ∧ ¬ coveredAll (Cfg.code Gen.writeCommands) hOtherDb = true ∧
    ¬ coveredAll (Cfg.code Gen.writeCommands) hWake = true := by decide
example : cmdWf [strBytes "SET", [13, 10, 42, 51, 13, 10], [0, 255]] := by
  constructor
  · decide
  · intro a ha; simp at ha; rcases ha with h | h | h <;> subst h <;> decide
example : readLog (fileOf [[strBytes "SET", k, [13, 10]], [strBytes "DEL", k]] ++ [42, 50, 13, 10, 36]) =
    ([[strBytes "SET", k, [13, 10]], [strBytes "DEL", k]], .torn [42, 50, 13, 10, 36]) := by decide
example : isErr (KS.step Quirks.spec (live Quirks.spec [direct [strBytes "RPUSH", [108], [97]]]).store 0 1001 [strBytes "INCR", [108]] none).2 = true := by
  decide

end Ferrous.C11
