/-
  C11 — the AOF is a faithful redo log (work in progress: table theorems first).
-/
import FerrousSpec.Model.Aof
import FerrousSpec.Gen.Aof
namespace Ferrous.C11
open Ferrous Ferrous.KS Ferrous.Aof

theorem writes_are_logged_partial :
    ∀ n ∈ Spec.writeNames, n ∉ Spec.notLogged → n ∈ Gen.writeCommands := by decide

end Ferrous.C11
