/-
  C10 — the dump on disk is always complete, loadable and per-key consistent.

  Property theorems only; helper lemmas live in FerrousSpec/Proofs/RdbSave*.lean and Rdb*.lean.
  Model: FerrousSpec/Model/RdbSave.lean on top of Model/Rdb.lean (the codec of C09):
    (i)   `cSnapshot` = the `write_raw` calls of one save, `Sys`/`run` = two file names, inodes, save
          runs that open/write/rename, the `bgsave_in_progress` flag; switch `exclusive` (SAVE refuses
          during a background save);
    (ii)  `krun` = the save loop seen from one key, read step by read step, interleaved with client
          commands; switch `atomic` (value, TTL and sorted-set members read under one lock);
    (iii) `loaderAllocs` = the loader's allocations; switch `bounded` (`read_string` reads in chunks).
  Tie to the code: lib/c10.py drives the real server over TCP with the `VERIF` hooks (fail the n-th
  write for every n, park BGSAVE between its reads, SAVE during a parked BGSAVE) and the real loader
  in-process on every prefix / corruption, against these models.
-/
import FerrousSpec.Proofs.RdbSaveChunks
import FerrousSpec.Proofs.RdbSaveFs
import FerrousSpec.Proofs.RdbSaveKey
import FerrousSpec.Proofs.RdbSnapshot
import FerrousSpec.Proofs.RdbTotal
namespace Ferrous.C10
open Ferrous Ferrous.Rdb Ferrous.RdbSave

/-! ### (1) a save is a sequence of write calls; a failure at any of them -/

/-- The `write_raw` calls of a complete save concatenate to exactly the snapshot of C09, so a
    completed run leaves a file for which every C09 theorem (loadable, round trip) holds. -/
theorem save_calls_are_the_snapshot (ver : Bytes) (d : Dataset) (t : Nat) :
    (cSnapshot ver d t).flatten = encSnapshot ver d t :=
  cSnapshot_flatten ver d t

/-- A save (SAVE: `bg = false`, BGSAVE/auto-save: `bg = true`) that fails at its `n`-th write call —
    for EVERY sequence of calls, EVERY `n`, EVERY previous content of the two files: the dump name
    still holds exactly what it held (or is still absent), the tmp file holds the bytes of the
    calls before the failing one, no save is running, the flag is clear; and ANY following save
    that is not made to fail leaves exactly its own bytes under the dump name. -/
theorem failed_save_keeps_old_dump (x bg : Bool) (s : Sys) (hidle : s.procs = []) (hflag : s.flag = false)
    (hn : NamesOK s.fs) (chunks : List Bytes) (n : Nat) (h1 : 1 ≤ n) (h2 : n ≤ chunks.length) :
    let s1 := run x s (startEv bg ⟨chunks, some n⟩ :: soloEvents chunks.length)
    dumpContent s1.fs = dumpContent s.fs ∧
    tmpContent s1.fs = some (chunks.take (n - 1)).flatten ∧
    s1.procs = [] ∧ s1.flag = false ∧ s1.log = .failed :: s.log ∧
    ∀ (bg' : Bool) (chunks' : List Bytes),
      dumpContent (run x s1 (startEv bg' ⟨chunks', none⟩ :: soloEvents chunks'.length)).fs = some chunks'.flatten := by
  intro s1
  obtain ⟨a1, a2, a3, a4, a5, a6⟩ := saveRun_fail x bg s hidle hflag hn chunks n h1 h2
  refine ⟨a3, a4, a1, a2, a6, ?_⟩
  intro bg' chunks'
  exact (saveRun_ok x bg' s1 a1 a2 a5 chunks').2.2.1

/-- … in particular the save after a failure writes the complete snapshot of the dataset it sees,
    and that file loads back (C09) — for every well-formed dataset.  (`escDataset`: the dataset as the
    writer sees it under C09's escape rule for lists headed by the stream marker; the identity without
    the rule, and then such lists are excluded as in C09.) -/
theorem save_after_failure_is_loadable (x bg bg' : Bool) (old : Option Bytes) (chunks : List Bytes) (n : Nat)
    (h1 : 1 ≤ n) (h2 : n ≤ chunks.length) (fix : Fix) (ver : Bytes) (d : Dataset) (t t' : Nat)
    (hver : ver.length < 2 ^ 32) (ht : t < 2 ^ 64) (hwf : datasetWF (escDataset fix.listEscape d) = true)
    (hm : anyEntry (fun e => startsWithMarker e.val) d = false ∨ fix.listEscape = true)
    (hs : anyEntry (fun e => isEmptyStream e.val) d = false ∨ fix.keepEmptyStream = true) :
    let w := escDataset fix.listEscape d
    let s1 := run x (initSys old) (startEv bg ⟨chunks, some n⟩ :: soloEvents chunks.length)
    let s2 := run x s1 (startEv bg' ⟨cSnapshot ver w t, none⟩ :: soloEvents (cSnapshot ver w t).length)
    dumpContent s1.fs = old ∧
    dumpContent s2.fs = some (saveSnapshot fix.listEscape ver d t) ∧
    decSnapshot fix (saveSnapshot fix.listEscape ver d t) t' = .ok (loadedDataset fix t t' d) := by
  intro w s1 s2
  have hinit : (initSys old).procs = [] ∧ (initSys old).flag = false := by cases old <;> simp [initSys]
  have h := failed_save_keeps_old_dump x bg (initSys old) hinit.1 hinit.2 (namesOK_init old) chunks n h1 h2
  refine ⟨?_, ?_, ?_⟩
  · rw [h.1]; cases old <;> simp [initSys, dumpContent]
  · have := h.2.2.2.2.2 bg' (cSnapshot ver w t)
    rw [cSnapshot_flatten] at this
    exact this
  · exact decSnapshot_encSnapshot fix ver d t t' (by simpa [two32] using hver) (by simpa [two64] using ht)
      (datasetOk_of_wf fix d hwf hm hs)

/-- The in-progress flag is cleared on BOTH outcomes of a background save (a panic inside the thread
    is outside the model), it is set while the run is under way, and a second BGSAVE is refused
    while it is set. -/
theorem bgsave_flag_cleared (x : Bool) (s : Sys) (hidle : s.procs = []) (hflag : s.flag = false) (hn : NamesOK s.fs)
    (chunks : List Bytes) :
    (run x s (.startBgsave ⟨chunks, none⟩ :: soloEvents chunks.length)).flag = false ∧
    (∀ n, 1 ≤ n → n ≤ chunks.length →
      (run x s (.startBgsave ⟨chunks, some n⟩ :: soloEvents chunks.length)).flag = false) ∧
    (∀ fa, (run x s [.startBgsave ⟨chunks, fa⟩, .step 0]).flag = true) ∧
    (∀ fa j, (run x s [.startBgsave ⟨chunks, fa⟩, .startBgsave j]).log = .refused :: s.log ∧
             (run x s [.startBgsave ⟨chunks, fa⟩, .startBgsave j]).procs.length = 1) := by
  refine ⟨(saveRun_ok x true s hidle hflag hn chunks).2.1, ?_, ?_, ?_⟩
  · intro n h1 h2
    exact (saveRun_fail x true s hidle hflag hn chunks n h1 h2).2.1
  · intro fa
    have := start_open x s true ⟨chunks, fa⟩ hidle hflag
    simp only [if_true] at this
    rw [this]
  · intro fa j
    simp [run, step, hidle, hflag, mkProc]

/-- THE INVARIANT: whatever saves (SAVE, BGSAVE, auto-save) are started, whichever of their writes
    fail, however their file operations are scheduled — at EVERY instant the dump name is absent or
    holds a file that some completed save wrote in full (or the initial one).  `Good` is any
    predicate satisfied by the initial dump and by the complete output of every save in the
    schedule, e.g. "is `encSnapshot` of some dataset".  Server with the repair (`exclusive`). -/
theorem dump_always_complete_or_absent (Good : Bytes → Prop) (old : Option Bytes) (evs : List Ev)
    (hold : ∀ b, old = some b → Good b) (hjobs : jobsGood Good evs) :
    ∀ b, dumpContent (run true (initSys old) evs).fs = some b → Good b := by
  intro b hb
  have := inv_run (Good := Good) true evs (initSys old) (inv_init Good old hold) hjobs (Or.inl rfl)
  unfold dumpContent at hb
  cases hd : (run true (initSys old) evs).fs.dump with
  | none => rw [hd] at hb; cases hb
  | some i =>
    rw [hd] at hb
    simp at hb
    rw [← hb]
    exact this.dump i hd

/-- The same for the server as it is, provided no SAVE is issued while the in-progress flag is set
    (decidable on the schedule). -/
theorem dump_always_complete_or_absent_partial (Good : Bytes → Prop) (old : Option Bytes) (evs : List Ev)
    (hold : ∀ b, old = some b → Good b) (hjobs : jobsGood Good evs)
    (hx : noSaveDuringBgsave false (initSys old) evs = true) :
    ∀ b, dumpContent (run false (initSys old) evs).fs = some b → Good b := by
  intro b hb
  have := inv_run (Good := Good) false evs (initSys old) (inv_init Good old hold) hjobs (Or.inr hx)
  unfold dumpContent at hb
  cases hd : (run false (initSys old) evs).fs.dump with
  | none => rw [hd] at hb; cases hb
  | some i =>
    rw [hd] at hb
    simp at hb
    rw [← hb]
    exact this.dump i hd

/-- witness (`concurrent_save_safe` is false today): BGSAVE opens the tmp file, SAVE opens the SAME
    file (truncating it), writes, renames it over the dump and answers OK; then the background run
    writes its own bytes at its own offset into what is now the dump, and its rename fails.
    The dump ends up as a mix (`[1,2,3,9,9]`) that neither save wrote.  With the repair the SAVE is
    refused and the dump is the background save's complete file. -/
theorem concurrent_save_safe_fails :
    let evs : List Ev := [.startBgsave ⟨[[1, 2, 3]], none⟩, .step 0, .startSave ⟨[[9, 9, 9, 9, 9]], none⟩,
      .step 1, .step 1, .step 1, .step 0, .step 0]
    dumpContent (run false (initSys none) evs).fs = some [1, 2, 3, 9, 9] ∧
    (run false (initSys none) evs).log = [.failed, .saved] ∧
    noSaveDuringBgsave false (initSys none) evs = false ∧
    dumpContent (run true (initSys none) evs).fs = some [1, 2, 3] ∧
    (run true (initSys none) evs).log = [.saved, .refused] := by
  refine ⟨by decide, by decide, by decide, by decide, by decide⟩

/-- THE INVARIANT for EVERY saver the server has, with the save lock of b09a77b: SAVE, BGSAVE, the
    auto-save thread calling `bgsave` at any moment (also in the middle of a SAVE, which the flag does
    not prevent), and SHUTDOWN's save (which looks at no flag at all).  Savers wait for the lock in any
    number and get the lock in any order; whichever of their writes fail — at EVERY instant the dump
    name is absent or holds a file that some completed save wrote in full (or the initial one).
    No hypothesis on the schedule. -/
theorem dump_always_complete_or_absent_locked (Good : Bytes → Prop) (old : Option Bytes) (evs : List EvL)
    (hold : ∀ b, old = some b → Good b) (hjobs : jobsGoodL Good evs) :
    ∀ b, dumpContent (runL (initSysL old) evs).core.fs = some b → Good b := by
  intro b hb
  have := (invL_run (Good := Good) evs (initSysL old) (invL_init Good old hold) hjobs).core
  unfold dumpContent at hb
  cases hd : (runL (initSysL old) evs).core.fs.dump with
  | none => rw [hd] at hb; cases hb
  | some i =>
    rw [hd] at hb
    simp at hb
    rw [← hb]
    exact this.dump i hd

/-- non-vacuity, and the schedule of `concurrent_save_safe_fails` with the lock: a background save has
    opened the temporary file; SHUTDOWN's save is started, cannot get the lock while the lock is held
    (`grant` changes nothing), the background save completes, then the second save runs alone: both
    succeed and the dump is the second one's complete file. -/
example :
    let evs : List EvL := [.bgsave ⟨[[1, 2, 3]], none⟩, .grant 0, .step, .shutdown ⟨[[9, 9, 9, 9, 9]], none⟩,
      .grant 0, .step, .step, .grant 0, .step, .step, .step]
    dumpContent (runL (initSysL none) evs).core.fs = some [9, 9, 9, 9, 9] ∧
    (runL (initSysL none) evs).core.log = [.saved, .saved] ∧ (runL (initSysL none) evs).flag = false ∧
    dumpContent (runL (initSysL none) (evs.take 7)).core.fs = some [1, 2, 3] := by
  refine ⟨by decide, by decide, by decide, by decide⟩

/-! ### (2) a snapshot taken while clients keep writing -/

/-- `per_key_consistent`, with value, TTL and sorted-set members read under one lock: for EVERY
    initial state of the key and EVERY interleaving of the saver's step with client commands
    (grow, shrink, delete, expire, replace, PERSIST, in-place sorted-set changes …), what the saver
    wrote for the key — value, declared length, deadline — is the key's state at ONE instant of
    the save. -/
theorem per_key_consistent (itemsFirst : Bool) (st : KeyState) (evs : List KEv) (r : Rec)
    (h : (krun true itemsFirst (kinit st) evs).phase = .done (some r)) :
    r.consistent (krun true itemsFirst (kinit st) evs).hist := by
  have hj := J_run true itemsFirst evs (kinit st) (J_init true st)
  exact hj.2.2.2 r h (hj.2.1 rfl).2

/-- The save loop as it is (four separate reads): the same, for EVERY interleaving in which no
    command on the key runs between the saver's first and last read of it (decidable: `disturbed`). -/
theorem per_key_consistent_partial (itemsFirst : Bool) (st : KeyState) (evs : List KEv) (r : Rec)
    (h : (krun false itemsFirst (kinit st) evs).phase = .done (some r))
    (hq : (krun false itemsFirst (kinit st) evs).disturbed = false) :
    r.consistent (krun false itemsFirst (kinit st) evs).hist :=
  (J_run false itemsFirst evs (kinit st) (J_init false st)).2.2.2 r h hq

/-- With the sorted-set items materialised before their number is written (the smaller repair), for
    EVERY interleaving the declared length equals the number of items written: the length/items
    mismatch that makes a dump unloadable cannot occur (the value/TTL mismatch still can). -/
theorem zset_length_matches_items (atomic : Bool) (st : KeyState) (evs : List KEv) (r : Rec)
    (h : (krun atomic true (kinit st) evs).phase = .done (some r)) :
    r.zlen = (if isZset r.val then some (zitems r.val).length else none) :=
  (lenOK_run atomic evs (kinit st) ⟨by simp [kinit], by simp [kinit]⟩).2 r h

/-- A consistent record is written as exactly the pair C09's writer emits for that state, so a dump
    holding it is `encSnapshot` of a dataset (and loads back, C09). -/
theorem consistent_record_is_a_snapshot (ver : Bytes) (t db : Nat) (k : Bytes) (r : Rec) (hist : List KeyState)
    (hc : r.consistent hist) (ht : ∀ d, r.ttl = some d → t ≤ d) :
    fileOf ver t db (recBytes t k r) = encSnapshot ver [(db, [⟨k, r.val, r.ttl⟩])] t := by
  rw [recBytes_consistent t k r hist hc ht, fileOf_eq_encSnapshot]

/-- witness: `SET k v1 PX …` (deadline 5000); the saver reads the value; a client runs `SET k v2`
    (no TTL); the saver reads the TTL.  Written: `(v1, no TTL)` — a state the key never had. -/
theorem per_key_consistent_fails_ttl :
    let m := krun false false (kinit (some (.str [118, 49], some 5000)))
      [.saver, .cmd (.set (.str [118, 50]) none), .saver]
    m.phase = .done (some ⟨.str [118, 49], none, none⟩) ∧
    m.hist = [some (.str [118, 50], none), some (.str [118, 49], some 5000)] ∧
    ¬ (⟨.str [118, 49], none, none⟩ : Rec).consistent m.hist ∧ m.disturbed = true := by
  refine ⟨by decide, by decide, by decide, by decide⟩

/-- witness: sorted set `{a, b, c}`; the saver writes the length 3; a client runs `ZREM z c`; the
    saver gets 2 items.  The record declares 3 members and holds 2 — and the resulting file is
    UNLOADABLE: the loader takes the EOF opcode for the third member's length byte
    (`0xFF >> 6 = 3`: invalid length encoding). -/
theorem per_key_consistent_fails_zset_unloadable :
    let m := krun false false (kinit (some (.zset [([97], 1), ([98], 2), ([99], 3)], none)))
      [.saver, .saver, .saver, .cmd (.zmutate [([97], 1), ([98], 2)]), .saver]
    m.phase = .done (some ⟨.zset [([97], 1), ([98], 2)], some 3, none⟩) ∧
    ¬ (⟨.zset [([97], 1), ([98], 2)], some 3, none⟩ : Rec).consistent m.hist ∧
    ∀ fix : Fix, decSnapshot fix
      (fileOf [48, 46, 49, 46, 48] 1000 0 (recBytes 1000 [122] ⟨.zset [([97], 1), ([98], 2)], some 3, none⟩)) 2000 =
        .error .badLength := by
  refine ⟨by decide, by decide, ?_⟩
  intro fix
  have h : decSnapshotT fix
      (fileOf [48, 46, 49, 46, 48] 1000 0 (recBytes 1000 [122] ⟨.zset [([97], 1), ([98], 2)], some 3, none⟩)) 2000 =
      .err .badLength [9, 5, 5, 1, 1, 1, 1] := by
    obtain ⟨a, b, c⟩ := fix
    cases a <;> cases b <;> cases c <;> decide
  unfold decSnapshot
  rw [h]

/-- witness: the saver writes the length 2 of `{a, b}`; a client adds `0` (rank 0); the saver gets the
    first two members by rank, `{0, a}` — loadable, but a set the key never held. -/
theorem per_key_consistent_fails_zset_grow :
    let m := krun false false (kinit (some (.zset [([97], 1), ([98], 2)], none)))
      [.saver, .saver, .saver, .cmd (.zmutate [([48], 0), ([97], 1), ([98], 2)]), .saver]
    m.phase = .done (some ⟨.zset [([48], 0), ([97], 1)], some 2, none⟩) ∧
    ¬ (⟨.zset [([48], 0), ([97], 1)], some 2, none⟩ : Rec).consistent m.hist := by
  refine ⟨by decide, by decide⟩

/-! ### (3) loading arbitrary bytes -/

/-- `loader_total`: on EVERY byte string the loader model answers with a dataset or with one of the
    loader's own errors (never because of the model's recursion budget), … -/
theorem loader_total (fix : Fix) (bs : Bytes) (now : Nat) :
    (∃ d, decSnapshot fix bs now = .ok d) ∨ (∃ e, decSnapshot fix bs now = .error e ∧ e ≠ .fuel) := by
  unfold decSnapshot
  cases h : decSnapshotT fix bs now with
  | ok s r al => exact Or.inl ⟨s, rfl⟩
  | err e al =>
    refine Or.inr ⟨e, rfl, ?_⟩
    intro he
    subst he
    exact decSnapshotT_never_fuel fix bs now al h

/-- … and never reads past the end of the file. -/
theorem loader_consumes_at_most_input (fix : Fix) (bs : Bytes) (now : Nat) (s : Store) (r : Bytes) (al : List Nat)
    (h : decSnapshotT fix bs now = .ok s r al) : r.length ≤ bs.length :=
  decSnapshotT_rest_le fix bs now s r al h

/-- `loader_alloc_bounded`, with `read_string` reading in bounded chunks: for EVERY byte string,
    every buffer the loader obtains for a length field is at most as large as the file. -/
theorem loader_alloc_bounded (fix : Fix) (bs : Bytes) (now : Nat) :
    ∀ a ∈ loaderAllocs true fix bs now, a ≤ bs.length := by
  intro a ha
  unfold loaderAllocs traceOf at ha
  cases h : decSnapshotT fix bs now with
  | ok s r al =>
    rw [h] at ha
    exact decSnapshotT_allocs_le fix bs now a (by rw [h]; exact ha)
  | err e al =>
    rw [h] at ha
    cases e with
    | shortString w v =>
      simp only [if_true, List.mem_append, List.mem_singleton] at ha
      cases ha with
      | inl ha => exact decSnapshotT_allocs_le fix bs now a (by rw [h]; exact ha)
      | inr ha =>
        have := decSnapshotT_short_avail_le fix bs now w v al h
        rw [ha]
        exact Nat.le_trans (Nat.min_le_right w v) this
    | eof => exact decSnapshotT_allocs_le fix bs now a (by rw [h]; exact ha)
    | badLength => exact decSnapshotT_allocs_le fix bs now a (by rw [h]; exact ha)
    | badMagic => exact decSnapshotT_allocs_le fix bs now a (by rw [h]; exact ha)
    | badVersion => exact decSnapshotT_allocs_le fix bs now a (by rw [h]; exact ha)
    | unknownType t => exact decSnapshotT_allocs_le fix bs now a (by rw [h]; exact ha)
    | wrongType => exact decSnapshotT_allocs_le fix bs now a (by rw [h]; exact ha)
    | invalidDb => exact decSnapshotT_allocs_le fix bs now a (by rw [h]; exact ha)
    | badExpire => exact decSnapshotT_allocs_le fix bs now a (by rw [h]; exact ha)
    | fuel => exact decSnapshotT_allocs_le fix bs now a (by rw [h]; exact ha)

/-- For the loader as it is (`vec![0u8; len]`) every allocation that is followed by a successful read
    is bounded by the file; only the failing one is not. -/
theorem loader_alloc_bounded_partial (fix : Fix) (bs : Bytes) (now : Nat)
    (h : ∀ w v al, decSnapshotT fix bs now ≠ .err (.shortString w v) al) :
    ∀ a ∈ loaderAllocs false fix bs now, a ≤ bs.length := by
  intro a ha
  unfold loaderAllocs traceOf at ha
  cases hd : decSnapshotT fix bs now with
  | ok s r al =>
    rw [hd] at ha
    exact decSnapshotT_allocs_le fix bs now a (by rw [hd]; exact ha)
  | err e al =>
    rw [hd] at ha
    cases e with
    | shortString w v => exact absurd hd (h w v al)
    | eof => exact decSnapshotT_allocs_le fix bs now a (by rw [hd]; exact ha)
    | badLength => exact decSnapshotT_allocs_le fix bs now a (by rw [hd]; exact ha)
    | badMagic => exact decSnapshotT_allocs_le fix bs now a (by rw [hd]; exact ha)
    | badVersion => exact decSnapshotT_allocs_le fix bs now a (by rw [hd]; exact ha)
    | unknownType t => exact decSnapshotT_allocs_le fix bs now a (by rw [hd]; exact ha)
    | wrongType => exact decSnapshotT_allocs_le fix bs now a (by rw [hd]; exact ha)
    | invalidDb => exact decSnapshotT_allocs_le fix bs now a (by rw [hd]; exact ha)
    | badExpire => exact decSnapshotT_allocs_le fix bs now a (by rw [hd]; exact ha)
    | fuel => exact decSnapshotT_allocs_le fix bs now a (by rw [hd]; exact ha)

/-- witness: 15 bytes make the loader as it is allocate 4 294 967 295 bytes; with the bounded read
    the same file costs nothing. -/
theorem loader_alloc_bounded_fails :
    loaderAllocs false Fix.code (header ++ [250, 128, 255, 255, 255, 255]) 0 = [4294967295] ∧
    (header ++ [250, 128, 255, 255, 255, 255]).length = 15 ∧
    loaderAllocs true Fix.code (header ++ [250, 128, 255, 255, 255, 255]) 0 = [0] := by
  refine ⟨by decide, by decide, by decide⟩

/-! ### Non-vacuity -/

/-- a save of 26 calls (one string key with a TTL) — the number `VERIF RDBWRITES` reports -/
example : (cSnapshot [48, 46, 49, 46, 48] [(0, [⟨[107], .str [118, 49], some 100000⟩])] 1000).length = 26 := by decide
/-- the hypotheses of `failed_save_keeps_old_dump`: an idle server with an old dump; failure at call 5 of 26 -/
example : (initSys (some [1, 2, 3])).procs = [] ∧ (initSys (some [1, 2, 3])).flag = false := by decide
example : tmpContent (run false (initSys (some [1, 2, 3]))
    (startEv false ⟨cSnapshot [48, 46, 49, 46, 48] [(0, [⟨[107], .str [118, 49], none⟩])] 1000, some 5⟩ :: soloEvents 24)).fs =
    some [82, 69, 68, 73, 83, 48, 48, 48, 57, 250, 9] := by decide
/-- a schedule satisfying the exclusion of `dump_always_complete_or_absent_partial`: a failing BGSAVE, then a SAVE -/
example : noSaveDuringBgsave false (initSys none)
    [.startBgsave ⟨[[1], [2]], some 2⟩, .step 0, .step 0, .step 0, .startSave ⟨[[3]], none⟩, .step 0, .step 0, .step 0] = true := by
  decide
/-- an undisturbed interleaving: commands before and after the saver's reads of the key -/
example : (krun false false (kinit (some (.zset [([97], 1)], some 9)))
    [.cmd (.ttl none), .saver, .saver, .saver, .saver, .cmd .del]).disturbed = false ∧
    (krun false false (kinit (some (.zset [([97], 1)], some 9)))
    [.cmd (.ttl none), .saver, .saver, .saver, .saver, .cmd .del]).phase = .done (some ⟨.zset [([97], 1)], some 1, none⟩) := by
  decide

end Ferrous.C10
