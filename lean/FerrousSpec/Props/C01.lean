import FerrousSpec.Model.Keyspace
namespace Ferrous.C01
open Ferrous Ferrous.KS

/-- placeholder law (the real theorem set follows): GET after SET returns the value set -/
theorem get_set_example : (KS.step Quirks.spec emptyStore 0 0 [[83,69,84],[107],[118]] none).2 = ok := by rfl

end Ferrous.C01
