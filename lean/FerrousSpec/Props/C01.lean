/-
  C01 — string and key-space commands follow the Redis reference semantics.

  `KS.step Quirks.spec` is the reference semantics (Model/Keyspace.lean); the same function is
  the model of the code (no quirk switch is on for these commands on the current tree), tied to
  the server by the correspondence run of lib/c01.py.  Property theorems only.
-/
import FerrousSpec.Proofs.KsLaws
import FerrousSpec.Proofs.KsGlob
set_option linter.unusedSimpArgs false
namespace Ferrous.C01
open Ferrous Ferrous.KS

/-- One client operation: database index, time, command words, observed random outcome. -/
structure Op where
  db : Nat
  now : Nat
  cmd : List Bytes
  obs : Option (List Bytes)

def run (q : Quirks) (s : Store) (ops : List Op) : Store :=
  ops.foldl (fun s o => (step q s o.db o.now o.cmd o.obs).1) s

/-- (1) Failure atomicity, for every command of the machine and every argument list: a command
    answered with an error leaves the dataset exactly as it was (up to dropping entries that had
    already expired, which no command can see). -/
theorem refused_leaves_dataset (q : Quirks) (s : Store) (i now : Nat) (cmd : List Bytes) (obs : Option (List Bytes))
    (h : isErr (step q s i now cmd obs).2 = true) :
    (step q s i now cmd obs).1 = s ∨ (step q s i now cmd obs).1 = setDb s i (purge now (getDb s i)) :=
  step_atomic q s i now cmd obs h

/-- (2) Typing invariant over all histories: after any sequence of commands from the empty server,
    in every database keys are unique, set members and hash fields are unique, and no empty
    list/set/hash is stored. -/
theorem reachable_wellformed (q : Quirks) (ops : List Op) : StoreOk (run q emptyStore ops) := by
  suffices h : ∀ s, StoreOk s → StoreOk (run q s ops) from h _ StoreOk_empty
  induction ops with
  | nil => intro s hs; exact hs
  | cons o r ih => intro s hs; exact ih _ (step_pres q s o.db o.now o.cmd o.obs hs)

/-! ### Laws that pin the reference semantics down (all databases `db`, all keys and values) -/

/-- GET after SET returns the value set. -/
theorem get_set (db : Db) (now : Nat) (k v : Bytes) :
    (cmdSet db now [k, v]).2 = ok ∧ (cmdGet (cmdSet db now [k, v]).1 [k]).2 = bulk v := by
  simp [cmdSet, parseSetOpts, cmdGet, lookup_insert_self]

/-- SET does not touch any other key. -/
theorem set_frames_other_keys (db : Db) (now : Nat) (k v k' : Bytes) (h : k' ≠ k) :
    lookup (cmdSet db now [k, v]).1 k' = lookup db k' := by
  simp [cmdSet, parseSetOpts, lookup_insert_other _ _ _ _ h]

/-- SET clears a time-to-live; SET … EX keeps none but its own. -/
theorem set_clears_ttl (db : Db) (now : Nat) (k v : Bytes) :
    lookup (cmdSet db now [k, v]).1 k = some { val := .str v, deadline := none } := by
  simp [cmdSet, parseSetOpts, lookup_insert_self]

/-- SET NX writes iff the key is absent; SET XX iff it is present; otherwise nil and no change. -/
theorem set_nx_xx (db : Db) (now : Nat) (k v : Bytes) :
    ((lookup db k).isSome = true → cmdSet db now [k, v, [78, 88]] = (db, nil)) ∧
    ((lookup db k).isSome = false → cmdSet db now [k, v, [88, 88]] = (db, nil)) := by
  constructor <;> intro h <;>
    simp [cmdSet, parseSetOpts, upperBytes, upper, h]

/-- SETNX is SET NX with an integer reply. -/
theorem setnx_eq_set_nx (db : Db) (now : Nat) (k v : Bytes) :
    (cmdSetnx db [k, v]).1 = (cmdSet db now [k, v, [78, 88]]).1 := by
  cases h : (lookup db k).isSome <;>
    simp [cmdSetnx, cmdSet, parseSetOpts, upperBytes, upper, h, mkStr]

/-- APPEND concatenates and returns the new length; the time-to-live survives — up to the 512 MB limit, beyond
    which it is refused and changes nothing. -/
theorem append_is_concat (db : Db) (k b v : Bytes) (d : Option Nat)
    (h : lookup db k = some ⟨.str b, d⟩) :
    cmdAppend db [k, v] =
      if b.length + v.length ≤ 536870912 then (insert db k ⟨.str (b ++ v), d⟩, nat (b.length + v.length)) else (db, err) := by
  by_cases hl : b.length + v.length ≤ 536870912
  · have : ¬ (b.length + v.length > 536870912) := by omega
    simp [cmdAppend, h, hl, this]
  · have : b.length + v.length > 536870912 := by omega
    simp [cmdAppend, h, hl, this]

/-- STRLEN is the length of what GET returns (0 for a missing key). -/
theorem strlen_eq_length_get (db : Db) (k b : Bytes) (d : Option Nat) (h : lookup db k = some ⟨.str b, d⟩) :
    (cmdStrlen db [k]).2 = nat b.length ∧ (cmdGet db [k]).2 = bulk b := by
  simp [cmdStrlen, cmdGet, h]

/-- GETRANGE 0 -1 is the whole string. -/
theorem getrange_full (b : Bytes) : slice b (getrangeSel b.length 0 (-1)) = b := by
  by_cases h : b.length = 0
  · have : b = [] := List.length_eq_zero_iff.mp h
    subst this; simp [slice, getrangeSel]
  · have hsel : getrangeSel b.length 0 (-1) = some (0, b.length - 1) := by
      unfold getrangeSel
      simp only []
      repeat' split
      all_goals first | omega | (simp; omega)
    rw [hsel]
    simp only [slice, List.drop_zero]
    apply List.take_of_length_le
    omega

/-- GETRANGE never reads outside the string: the selected window lies within `[0, len)`, for all
    integer bounds (this is the statement whose violation crashed the pinned server). -/
theorem getrange_in_bounds (len : Nat) (s e : Int) (a c : Nat) (h : getrangeSel len s e = some (a, c)) :
    a ≤ c ∧ c < len := by
  unfold getrangeSel at h
  simp only [] at h
  repeat' split at h
  all_goals first | (simp at h; done) | (simp at h; omega)

/-- INCRBY adds; the result is stored in canonical decimal and the time-to-live survives; an
    increment that leaves the i64 range is refused and changes nothing. -/
theorem incrby_add (db : Db) (k b : Bytes) (d : Option Nat) (cur delta : Int)
    (h : lookup db k = some ⟨.str b, d⟩) (hp : parseInt b = some cur) :
    incrBy db k delta =
      if cur + delta < i64Min ∨ cur + delta > i64Max then (db, err)
      else (insert db k ⟨.str (intDigits (cur + delta)), d⟩, int (cur + delta)) := by
  simp [incrBy, h, hp]

/-- DECRBY n is INCRBY −n, and DECRBY by i64::MIN (whose negation does not exist) is refused. -/
theorem decrby_eq_incrby_neg (db : Db) (k n : Bytes) (v : Int) (hp : parseInt n = some v) :
    cmdIncrbyDecrby db (-1) [k, n] = if v = i64Min then (db, err) else incrBy db k (-v) := by
  simp only [cmdIncrbyDecrby, hp]
  split
  · rename_i h; simp [h.2]
  · rename_i h
    have : ¬ v = i64Min := fun hv => h ⟨by decide, hv⟩
    simp [this]

/-- RENAME moves the value together with its time-to-live; the old name is gone. -/
theorem rename_moves_value_and_ttl (db : Db) (a b : Bytes) (e : Entry) (hdb : DbOk db)
    (hab : a ≠ b) (h : lookup db a = some e) :
    (cmdRename db false [a, b]).2 = ok ∧
    lookup (cmdRename db false [a, b]).1 b = some e ∧
    lookup (cmdRename db false [a, b]).1 a = none := by
  simp [cmdRename, h, hab, lookup_insert_self]
  rw [lookup_insert_other _ _ _ _ hab, lookup_erase_self _ _ hdb.1]

/-- DEL removes the key: EXISTS then counts it as absent. -/
theorem del_then_exists (db : Db) (k : Bytes) (hdb : DbOk db) :
    (cmdExists (cmdDel db [k]).1 [k]).2 = int 0 := by
  unfold cmdDel
  simp only [List.isEmpty_cons, Bool.false_eq_true, if_false, delKeys]
  split
  · simp [delKeys, cmdExists, lookup_erase_self _ _ hdb.1, nat, int]
  · rename_i h
    simp at h
    simp [delKeys, cmdExists, h, nat, int]

/-- MGET is the list of per-key GETs, with nil for keys that are missing or hold another type. -/
theorem mget_eq_map_get (db : Db) (ks : List Bytes) (h : ks ≠ []) :
    (cmdMget db ks).2 = .array (ks.map fun k => match (cmdGet db [k]).2 with
      | .bulk b => .bulk b
      | _ => nil) := by
  have : ks.isEmpty = false := by cases ks <;> simp at h ⊢
  simp only [cmdMget, this]
  simp only [Bool.false_eq_true, if_false]
  congr 1
  apply List.map_congr_left
  intro k _
  simp only [cmdGet]
  cases hl : lookup db k with
  | none => simp [nil, bulk]
  | some e =>
    obtain ⟨v, d⟩ := e
    cases v <;> simp [nil, bulk, wrongType]

/-- RANDOMKEY, when the relation accepts the observed outcome, returned a key that exists. -/
theorem randomkey_mem (db : Db) (obs : Option (List Bytes)) (k : Bytes)
    (h : (cmdRandomkey db [] obs).2 = bulk k) : (lookup db k).isSome = true := by
  unfold cmdRandomkey at h
  simp only [List.isEmpty_nil, Bool.not_true, Bool.false_eq_true, if_false] at h
  split at h
  · rename_i k' heq
    split at h
    · rename_i hk
      simp [bulk] at h
      subst h
      exact hk
    · simp [bulk] at h
  · split at h <;> simp [bulk, nil] at h

/-- KEYS answers exactly the keys of the database the pattern matches, every one of them and
    nothing else, never changes the dataset, and lists as many names as there are matching keys
    (no duplicates when the key names are distinct, which `reachable_wellformed` gives). -/
theorem keys_sound_complete (db : Db) (p : Bytes) :
    ∃ l : List Bytes, cmdKeys db [p] = (db, bulks l) ∧
      (∀ k, k ∈ l ↔ (k ∈ db.map (·.1) ∧ glob p k = true)) ∧
      l.length = ((db.map (·.1)).filter fun k => glob p k).length := by
  refine ⟨sortBytes ((db.map (·.1)).filter fun k => glob p k), rfl, ?_, length_sortBytes _⟩
  intro k
  rw [mem_sortBytes, List.mem_filter]

/-- The matcher on the two pattern forms nearly every client sends: a pattern without special
    bytes (`*` `?` `[` `\`) selects exactly the key of that name, for EVERY such pattern and key … -/
theorem glob_literal (p s : Bytes) (hp : p.all plain = true) : glob p s = decide (p = s) :=
  globF_literal p _ s hp (by omega)

/-- … and `*` selects every key. -/
theorem glob_star_all (s : Bytes) : glob [42] s = true :=
  globF_star_all s _ (by simp; omega)

/-- `KEYS *` lists every key of the database. -/
theorem keys_star_lists_all (db : Db) (k : Bytes) (hk : k ∈ db.map (·.1)) :
    ∃ l : List Bytes, cmdKeys db [[42]] = (db, bulks l) ∧ k ∈ l := by
  obtain ⟨l, h1, h2, _⟩ := keys_sound_complete db [42]
  exact ⟨l, h1, (h2 k).mpr ⟨hk, glob_star_all k⟩⟩

/-- Character classes at the edges of `stringmatchlen` (tests of the model on literals, labelled as
    such: the general statement for classes is the refinement proved for the engine's matcher in
    C19): reversed range, escapes inside a class, unterminated class, `a-]` as a range, lone `[^`. -/
example : glob [91, 99, 45, 97, 93] [98] = true ∧ glob [91, 92, 93, 93] [93] = true ∧
    glob [91, 97, 92, 45, 99, 93] [98] = false ∧ glob [91, 97, 92, 45, 99, 93] [45] = true ∧
    glob [91, 97, 98] [98] = true ∧ glob [91, 97, 45, 93] [95] = true ∧ glob [91, 94] [120] = true ∧
    glob [91] [91] = false ∧ glob [91, 93] [93] = false := by decide

/-- FLUSHDB empties the selected database only; FLUSHALL empties all of them. -/
theorem flushdb_only_selected (q : Quirks) (s : Store) (i j now : Nat) (hij : j ≠ i) :
    getDb (step q s i now [[70, 76, 85, 83, 72, 68, 66]] none).1 j = getDb s j := by
  have hname : String.ofList ((upperBytes [70, 76, 85, 83, 72, 68, 66]).map fun b => Char.ofNat b) = "FLUSHDB" := by decide
  simp only [step, hname]
  simp [stepDb, getDb, setDb, List.getD, List.getElem?_set, hij.symm]

theorem flushall_all (q : Quirks) (s : Store) (i j now : Nat) :
    getDb (step q s i now [[70, 76, 85, 83, 72, 65, 76, 76]] none).1 j = [] := by
  have hname : String.ofList ((upperBytes [70, 76, 85, 83, 72, 65, 76, 76]).map fun b => Char.ofNat b) = "FLUSHALL" := by decide
  simp only [step, hname]
  simp [getDb, List.getD]
  cases h : s[j]? <;> simp [h]

/-! ### Non-vacuity -/

example : isErr (step Quirks.spec emptyStore 0 0 [[71, 69, 84]] none).2 = true := by rfl
example : DbOk [([107], ⟨.str [118], none⟩), ([108], ⟨.list [[97]], some 5⟩)] := by
  refine ⟨by decide, ?_⟩
  intro p hp
  simp at hp
  rcases hp with h | h <;> subst h <;> simp [valOk]
example : getrangeSel 3 0 (-10) = some (0, 0) ∧ getrangeSel 3 (-2) (-1) = some (1, 2) ∧ getrangeSel 3 (-1) (-3) = none := by decide

end Ferrous.C01
