/-
  C04 — a sorted set always holds each member once with its latest score, ordered by score and
  then by member bytes; every query answers consistently with that order; NaN is never stored;
  a refused multi-member ZADD adds nothing; removing the last member removes the key.

  Property theorems only; helper lemmas live in FerrousSpec/Proofs/ZSet*.lean.
  Model: FerrousSpec/Model/ZSet.lean — `Code.*` transliterates src/storage/skiplist.rs (the tower
  height of every new node is an argument: all statements quantify over it) and the zset functions
  of src/storage/engine.rs / the ZADD, ZINCRBY, ZPOP* handlers of src/network/server.rs;
  `Spec.*` is the sorted list of `(score, member)`.
  Tie to the code: lib/c04.py drives the real `SkipList<Vec<u8>, f64>` (level dump after every
  operation), the real `StorageEngine` z-functions and the real server over TCP with the same
  operation lines as the Lean driver `drv_zset`.

  `fixed = true` is the prescribed behaviour (proposed repairs, pending_repo_patches/C04_*);
  `fixed = false` is the tree as it is.
-/
import FerrousSpec.Proofs.ZSetEngine
import FerrousSpec.Gen.Expiry
namespace Ferrous.C04
open Ferrous Ferrous.ZSet Ferrous.ZSet.Code

/-! ## 1. The skip list keeps its structure for every operation sequence and every tower height -/

/-- Every state reachable from the empty skip list by inserts (any tower height `h`, any non-NaN
    score, colliding or not) and removes satisfies: level 0 is strictly sorted by (score, member);
    every level is a sublist of the one below; the key index is exactly level 0 read as a map
    (and is a map: one entry per key); `length` is the number of nodes; no member occurs twice. -/
theorem skiplist_inv (ops : List Op) :
    (level0 (run ops)).Pairwise (fun a b => centLt a b = true) ∧
    SubChain (run ops).levels ∧
    (∀ m s, (m, s) ∈ (run ops).keyIndex ↔ (s, m) ∈ level0 (run ops)) ∧
    (run ops).keyIndex.Pairwise (fun a b => bytesLt a.1 b.1 = true) ∧
    (run ops).length = (level0 (run ops)).length ∧
    ((level0 (run ops)).map Prod.snd).Nodup := by
  have h : Inv (run ops) := inv_run_from ops _ inv_empty
  refine ⟨h.sorted0, h.chain, h.idxMap, h.idxSorted, h.len, ?_⟩
  have hw := (abs_wf h).2
  rw [level0_eq_lift_abs h, List.map_map]
  exact hw

/-- One step: `insert` with ANY height preserves the invariant (non-NaN score). -/
theorem skiplist_inv_insert (sl : SkipList) (h : Inv sl) (height : Nat) (m : Bytes) (s : Score) :
    Inv (Code.insert height m (.num s) sl).1 :=
  inv_insert h height m s

/-- One step: `remove` preserves the invariant. -/
theorem skiplist_inv_remove (sl : SkipList) (h : Inv sl) (m : Bytes) : Inv (remove m sl).1 :=
  inv_remove h m

/-- The executable invariant check printed by the driver accepts the empty list
    (and, by `skiplist_inv`, the correspondence run checks it on every reached state). -/
theorem invB_empty : invB Code.empty = true := by decide

/-! ## 2. Level 0 is the prescribed sorted set -/

/-- `insert` on the skip list = "member once, with the latest score, in order" on the sorted list,
    and it reports the previous score. -/
theorem abs_refines_insert (sl : SkipList) (h : Inv sl) (height : Nat) (m : Bytes) (s : Score) :
    abs (Code.insert height m (.num s) sl).1 = Spec.zadd m s (abs sl) ∧
    (Code.insert height m (.num s) sl).2 = (Spec.zscore m (abs sl)).map CScore.num := by
  refine ⟨abs_insert h height m s, ?_⟩
  rw [(insert_eq h height m s).2, remove_old, getScore_refines h]

/-- `remove` on the skip list = removal of the member from the sorted list. -/
theorem abs_refines_remove (sl : SkipList) (h : Inv sl) (m : Bytes) :
    abs (remove m sl).1 = Spec.zrem m (abs sl) ∧
    (remove m sl).2 = (Spec.zscore m (abs sl)).map CScore.num := by
  refine ⟨abs_remove h m, ?_⟩
  rw [remove_old, getScore_refines h]

/-- The tower heights are unobservable: two well-formed lists that agree on level 0, index and
    length still agree after the same insert with different heights / the same remove. -/
theorem height_irrelevant (sl sl' : SkipList) (h : Inv sl) (h' : Inv sl') (e : obs sl = obs sl')
    (a b : Nat) (m : Bytes) (s : Score) :
    obs (Code.insert a m (.num s) sl).1 = obs (Code.insert b m (.num s) sl').1 ∧
    obs (remove m sl).1 = obs (remove m sl').1 :=
  ⟨(obs_insert h h' e a b m s).1, (obs_remove h h' e m).1⟩

/-- The Spec operations keep "strictly sorted, each member once", and ZADD leaves the member with
    exactly the new score while touching no other member. -/
theorem spec_wellformed (z : Spec.ZSet) (h : Spec.WF z) (m : Bytes) (s : Score) :
    Spec.WF (Spec.zadd m s z) ∧ Spec.WF (Spec.zrem m z) ∧
    Spec.zscore m (Spec.zadd m s z) = some s ∧
    (∀ m', m' ≠ m → Spec.zscore m' (Spec.zadd m s z) = Spec.zscore m' z) ∧
    Spec.zscore m (Spec.zrem m z) = none := by
  have hw := Spec.wf_zadd h m s
  refine ⟨hw, Spec.wf_zrem h m, ?_, ?_, ?_⟩
  · exact (Spec.zscore_eq_some hw).mpr (Spec.mem_zadd.mpr (Or.inl rfl))
  · intro m' hne
    cases hz : Spec.zscore m' z with
    | none =>
      apply Spec.zscore_eq_none.mpr
      intro s' hs'
      rcases Spec.mem_zadd.mp hs' with e | ⟨hm, _⟩
      · exact hne (Prod.mk.inj e).2
      · exact Spec.zscore_eq_none.mp hz s' hm
    | some s' =>
      exact (Spec.zscore_eq_some hw).mpr (Spec.mem_zadd.mpr (Or.inr ⟨Spec.zscore_some_mem hz, hne⟩))
  · apply Spec.zscore_eq_none.mpr
    intro s' hs'
    exact (Spec.mem_zrem.mp hs').2 rfl

/-- How the two zeros are ordered: -0.0 and +0.0 COMPARE EQUAL (as in Redis and as Rust's
    `partial_cmp` says), so between two members they are ordered by member bytes, in either
    assignment, exactly like any other pair of equal scores — and the code's comparator
    (`compare_nodes == Less`) is that order. -/
theorem zeros_compare_equal (a b : Bytes) (h : a ≠ b) :
    entLt (.fin 0, a) (.nzero, b) = bytesLt a b ∧ entLt (.nzero, a) (.fin 0, b) = bytesLt a b ∧
    ccmpLt (.num (.fin 0), a) (.num .nzero, b) = bytesLt a b ∧
    ccmpLt (.num .nzero, a) (.num (.fin 0), b) = bytesLt a b := by
  refine ⟨?_, ?_, ?_, ?_⟩ <;> simp [entLt, ccmpLt, CScore.lt, CScore.eqv, Score.lt, Score.eqv, Score.cls, Score.mag, h]

/-- …but they are different VALUES, and the set holds the latest one: re-scoring a member from +0.0
    to -0.0 (or back) replaces the stored score in the node and in the key index, for every tower
    height, although the two scores compare equal (no "unchanged" shortcut is sound here). -/
theorem zero_sign_is_latest_score (sl : SkipList) (h : Inv sl) (h1 h2 : Nat) (m : Bytes) :
    let s1 := (Code.insert h1 m (.num (.fin 0)) sl).1
    let s2 := (Code.insert h2 m (.num .nzero) s1).1
    let s3 := (Code.insert h1 m (.num (.fin 0)) s2).1
    getScore m s2 = some (.num .nzero) ∧ (CScore.num .nzero, m) ∈ level0 s2 ∧ (CScore.num (.fin 0), m) ∉ level0 s2 ∧
    getScore m s3 = some (.num (.fin 0)) ∧ (CScore.num (.fin 0), m) ∈ level0 s3 ∧ (CScore.num .nzero, m) ∉ level0 s3 := by
  intro s1 s2 s3
  have i1 : Inv s1 := inv_insert h h1 m _
  have i2 : Inv s2 := inv_insert i1 h2 m _
  have i3 : Inv s3 := inv_insert i2 h1 m _
  have key : ∀ (t : SkipList) (ht : Nat) (s : Score) (hi : Inv t),
      getScore m (Code.insert ht m (.num s) t).1 = some (.num s) ∧
      (CScore.num s, m) ∈ level0 (Code.insert ht m (.num s) t).1 ∧
      ∀ s', s' ≠ s → (CScore.num s', m) ∉ level0 (Code.insert ht m (.num s) t).1 := by
    intro t ht s hi
    have hi' := inv_insert hi ht m s
    have hmem : (CScore.num s, m) ∈ level0 (Code.insert ht m (.num s) t).1 := by
      rw [level0_insert hi]; exact mem_insSorted.mpr (Or.inl rfl)
    refine ⟨?_, hmem, ?_⟩
    · exact (idxGet_eq_some hi'.idxSorted).mpr ((hi'.idxMap m _).mpr hmem)
    · intro s' hne hm'
      exact hne (CScore.num.inj (hi'.member_unique hm' hmem))
  have k2 := key s1 h2 .nzero i1
  have k3 := key s2 h1 (.fin 0) i2
  exact ⟨k2.1, k2.2.1, k2.2.2 _ (by simp), k3.1, k3.2.1, k3.2.2 _ (by simp)⟩

/-! ## 3. Any sequence of commands on a key -/

/-- After ANY sequence of ZADD / ZINCRBY / ZREM / ZPOPMIN / ZPOPMAX (any tower heights, any
    non-NaN scores and sums) the key holds a well-formed NON-EMPTY skip list or is absent, and what
    it holds is exactly the Spec set after the same commands — for the tree as it is and for the
    repaired one alike. -/
theorem engine_refines (fixed : Bool) (cs : List Cmd) :
    KeyInv (runCmds fixed cs) ∧ absKey (runCmds fixed cs) = Spec.runCmds cs ∧
    Spec.WF (Spec.runCmds cs) := by
  have h := runCmds_refines_from fixed cs none keyInv_none
  have hw := wf_absKey h.1
  rw [h.2] at hw
  exact ⟨h.1, h.2, hw⟩

/-- Removing the last member removes the key: after ZREM the key is absent exactly when the
    prescribed set is empty (and an existing key is never empty). -/
theorem last_removed_deletes_key (k : ZKey) (hk : KeyInv k) (m : Bytes) :
    ((Code.zrem m k).1 = none ↔ Spec.zrem m (absKey k) = []) ∧
    (Code.zrem m k).2 = (Spec.zscore m (absKey k)).isSome := by
  have h := zrem_refines hk m
  exact ⟨by rw [← h.2.1, keyInv_absKey_nil h.1], h.2.2⟩

/-- ZADD of one pair / ZINCRBY with the sum `sum`: the stored set is the Spec's, the reply of ZADD
    is "was it new". -/
theorem zadd_zincrby_refine (k : ZKey) (hk : KeyInv k) (height : Nat) (m : Bytes) (s : Score) :
    absKey (Code.zadd height m (.num s) k).1 = Spec.zadd m s (absKey k) ∧
    (Code.zadd height m (.num s) k).2 = (Spec.zscore m (absKey k)).isNone ∧
    absKey (Code.zincrby height m (.num s) k).1 = Spec.zincrby m s (absKey k) ∧
    (Code.zincrby height m (.num s) k).2 = .num s :=
  ⟨(zadd_refines hk height m s).2.1, (zadd_refines hk height m s).2.2, (zadd_refines hk height m s).2.1, rfl⟩

/-! ## 4. Queries answer consistently with the order -/

/-- ZSCORE / ZCARD read the stored set. -/
theorem zscore_zcard_agree (k : ZKey) (hk : KeyInv k) (m : Bytes) :
    Code.zscore m k = (Spec.zscore m (absKey k)).map CScore.num ∧
    Code.zcard k = Spec.zcard (absKey k) := by
  cases k with
  | none => exact ⟨rfl, rfl⟩
  | some sl =>
    have h := (hk sl rfl).1
    exact ⟨getScore_refines h m, (abs_length h).symm⟩

/-- ZRANK = number of entries below the member = its index in `ZRANGE 0 -1`;
    ZREVRANK = n - 1 - ZRANK. -/
theorem zrank_eq_index_in_zrange_all (z : Spec.ZSet) (h : Spec.WF z) (m : Bytes) (r : Nat)
    (hr : Spec.zrank m z = some r) :
    (∃ s, (Spec.zrange z 0 (-1))[r]? = some (s, m) ∧ Spec.zscore m z = some s) ∧
    Spec.zrevrank m z = some (z.length - 1 - r) := by
  rw [Spec.zrange_all]
  cases hs : Spec.zscore m z with
  | none => simp [Spec.zrank, hs] at hr
  | some s =>
    obtain ⟨l1, l2, hz, h1, h2⟩ := Spec.zrank_decomp h (Spec.zscore_some_mem hs)
    rw [hr] at h1
    have hr' : r = l1.length := Option.some.inj h1
    refine ⟨⟨s, ?_, rfl⟩, ?_⟩
    · rw [hz, hr']; simp
    · rw [h2, hz, hr']; simp

/-- Conversely the member found at index `r` of the full range has rank `r`. -/
theorem zrank_of_index (z : Spec.ZSet) (h : Spec.WF z) (m : Bytes) (s : Score) (r : Nat)
    (hi : z[r]? = some (s, m)) : Spec.zrank m z = some r := by
  have hm : (s, m) ∈ z := List.mem_of_getElem? hi
  obtain ⟨l1, l2, hz, h1, _⟩ := Spec.zrank_decomp h hm
  rw [h1]
  congr 1
  -- the entry occurs once: its position is unique
  have hnd : z.Nodup := by
    apply h.1.imp
    intro a b hab e
    exact entLt_strictTotal.ne hab e
  have h2 : z[l1.length]? = some (s, m) := by rw [hz]; simp
  have hlt1 : l1.length < z.length := by rw [hz]; simp
  exact (List.getElem?_inj hlt1 hnd).mp (h2.trans hi.symm)

/-- The skip list's rank walk and the engine's ZRANK / ZREVRANK compute exactly that. -/
theorem zrank_refines (k : ZKey) (hk : KeyInv k) (m : Bytes) :
    Code.zrank m false k = Spec.zrank m (absKey k) ∧
    Code.zrank m true k = Spec.zrevrank m (absKey k) := by
  cases k with
  | none => exact ⟨rfl, rfl⟩
  | some sl =>
    have h := (hk sl rfl).1
    have hw := abs_wf h
    simp only [Code.zrank, absKey, getRank_refines h m, Bool.false_eq_true, if_false, if_true]
    refine ⟨by simp, ?_⟩
    cases hr : Spec.zrank m (abs sl) with
    | none =>
      have : Spec.zscore m (abs sl) = none := by
        cases hs : Spec.zscore m (abs sl) with
        | none => rfl
        | some s => simp [Spec.zrank, hs] at hr
      simp [Spec.zrevrank, this]
    | some r =>
      rw [(zrank_eq_index_in_zrange_all _ hw m r hr).2, abs_length h]
      rfl

/-- ZRANGEBYSCORE is the filter `lo ≤ score ≤ hi` of the ordered set (the skip-list walk
    "skip while < lo, take while ≤ hi" computes it), ZREVRANGEBYSCORE its reverse, ZCOUNT its length. -/
theorem zrangebyscore_eq_filter (k : ZKey) (hk : KeyInv k) (lo hi : Score) :
    Code.zrangebyscore (.num lo) (.num hi) false k = (Spec.zrangebyscore (absKey k) lo hi).map lift ∧
    Code.zrangebyscore (.num lo) (.num hi) true k = (Spec.zrevrangebyscore (absKey k) lo hi).map lift ∧
    Code.zcount (.num lo) (.num hi) k = Spec.zcount (absKey k) lo hi ∧
    Spec.zcount (absKey k) lo hi = (Spec.zrangebyscore (absKey k) lo hi).length := by
  have hc : Spec.zcount (absKey k) lo hi = (Spec.zrangebyscore (absKey k) lo hi).length := by
    simp [Spec.zcount, Spec.zrangebyscore, List.countP_eq_length_filter]
  cases k with
  | none => exact ⟨rfl, rfl, rfl, hc⟩
  | some sl =>
    have h := (hk sl rfl).1
    have hr := rangeByScore_refines h lo hi
    refine ⟨?_, ?_, ?_, hc⟩
    · simp [Code.zrangebyscore, absKey, hr]
    · simp [Code.zrangebyscore, absKey, hr, Spec.zrevrangebyscore]
    · rw [hc]
      simp [Code.zcount, Code.zrangebyscore, absKey, hr]

/-- ZREVRANGE is the reverse slice of the forward order, and `ZREVRANGE 0 -1` is the whole set reversed. -/
theorem zrevrange_eq_reverse_slice (z : Spec.ZSet) (start stop : Int) :
    Spec.zrevrange z start stop =
      (match Spec.rangeIdx z.length start stop with
       | none => []
       | some (a, b) => (slice z (z.length - 1 - b) (z.length - 1 - a)).reverse) ∧
    Spec.zrevrange z 0 (-1) = z.reverse := by
  constructor
  · unfold Spec.zrevrange
    cases hr : Spec.rangeIdx z.length start stop with
    | none => rfl
    | some p =>
      obtain ⟨a, b⟩ := p
      have hw := rangeIdx_wf hr
      exact slice_reverse z hw.1 hw.2
  · unfold Spec.zrevrange
    cases z with
    | nil => simp [Spec.rangeIdx]
    | cons e r =>
      rw [Spec.rangeIdx_zero_neg_one _ (by simp)]
      have := slice_full (e :: r).reverse (by simp)
      simpa using this

/-- ZPOPMIN pops the head of the order, ZPOPMAX its last entry; what remains is the set without
    that member; they are what `ZRANGE 0 0` / `ZRANGE -1 -1` show. -/
theorem zpopmin_is_head (z : Spec.ZSet) (h : Spec.WF z) (e : Entry) (r : Spec.ZSet)
    (hp : Spec.zpopmin z = some (e, r)) :
    (∀ x ∈ r, entLt e x = true) ∧ r = Spec.zrem e.2 z ∧ Spec.zrange z 0 0 = [e] := by
  cases z with
  | nil => simp [Spec.zpopmin] at hp
  | cons e' r' =>
    simp only [Spec.zpopmin, Option.some.injEq, Prod.mk.injEq] at hp
    obtain ⟨rfl, rfl⟩ := hp
    exact ⟨(List.pairwise_cons.mp h.1).1, (zrem_head h).symm, by simp [spec_zrange_zero_zero]⟩

theorem zpopmax_is_last (z : Spec.ZSet) (h : Spec.WF z) (e : Entry) (r : Spec.ZSet)
    (hp : Spec.zpopmax z = some (e, r)) :
    (∀ x ∈ r, entLt x e = true) ∧ r = Spec.zrem e.2 z ∧ Spec.zrange z (-1) (-1) = [e] := by
  unfold Spec.zpopmax at hp
  cases hl : z.getLast? with
  | none => simp [hl] at hp
  | some e' =>
    simp only [hl, Option.some.injEq, Prod.mk.injEq] at hp
    obtain ⟨rfl, rfl⟩ := hp
    obtain ⟨ys, hys⟩ := List.getLast?_eq_some_iff.mp hl
    subst hys
    rw [List.dropLast_concat]
    refine ⟨?_, (zrem_last h).symm, ?_⟩
    · intro x hx
      exact (List.pairwise_append.mp h.1).2.2 x hx e' (by simp)
    · rw [spec_zrange_last]; simp

/-- The pop loops of `handle_zpopmin` / `handle_zpopmax` do exactly that, step by step. -/
theorem zpop_refines (k : ZKey) (hk : KeyInv k) (fixed : Bool) :
    (match Spec.zpopmin (absKey k) with
     | none => Code.zpop fixed false k = (k, none)
     | some (e, r) => (Code.zpop fixed false k).2 = some (lift e) ∧ absKey (Code.zpop fixed false k).1 = r) ∧
    (match Spec.zpopmax (absKey k) with
     | none => Code.zpop fixed true k = (k, none)
     | some (e, r) => (Code.zpop fixed true k).2 = some (lift e) ∧ absKey (Code.zpop fixed true k).1 = r) := by
  have h1 := zpop_min_refines hk fixed
  have h2 := zpop_max_refines hk fixed
  constructor
  · cases hz : Spec.zpopmin (absKey k) with
    | none => rw [hz] at h1; exact h1
    | some p => rw [hz] at h1; exact ⟨h1.1, h1.2.1⟩
  · cases hz : Spec.zpopmax (absKey k) with
    | none => rw [hz] at h2; exact h2
    | some p => rw [hz] at h2; exact ⟨h2.1, h2.2.1⟩

/-! ## 5. Rank-range index arithmetic, for all `len > 0`, `start`, `stop : Int` -/

/-- FULL statement (repaired arithmetic): what `StorageEngine::zrange` passes to `range_by_rank`
    selects exactly Redis' index interval, forward and (mirrored) reverse. -/
theorem zrangeIdx_refines (len : Nat) (hl : 0 < len) (start stop : Int) :
    normIv len (zrangeIdx true false len start stop) = Spec.rangeIdx len start stop ∧
    normIv len (zrangeIdx true true len start stop) = (Spec.rangeIdx len start stop).map (flipIv len) :=
  ⟨zrangeIdx_fwd_fixed len hl start stop, zrangeIdx_rev_fixed len hl start stop⟩

/-- The arithmetic AS IT IS agrees with Redis' rule exactly on the arguments outside `zrangeDev`
    (an iff: the exclusion predicate is exact). -/
theorem zrangeIdx_refines_partial (len : Nat) (hl : 0 < len) (start stop : Int) :
    (normIv len (zrangeIdx false false len start stop) = Spec.rangeIdx len start stop ↔
      zrangeDev false len start stop = false) ∧
    (normIv len (zrangeIdx false true len start stop) = (Spec.rangeIdx len start stop).map (flipIv len) ↔
      zrangeDev true len start stop = false) :=
  ⟨zrangeIdx_fwd_iff len hl start stop, zrangeIdx_rev_iff len hl start stop⟩

/-- Replies: ZRANGE / ZREVRANGE of the engine = the Spec's on the stored set — always for the
    repaired arithmetic, and outside `zrangeDev` for the tree as it is. -/
theorem zrange_refines (k : ZKey) (hk : KeyInv k) (fixed rev : Bool) (start stop : Int)
    (hd : fixed = true ∨ zrangeDev rev (Code.zcard k) start stop = false) :
    Code.zrange fixed start stop rev k =
      (if rev then Spec.zrevrange (absKey k) start stop else Spec.zrange (absKey k) start stop).map lift :=
  ZSet.zrange_refines hk fixed rev start stop hd

/-- A three-member set `a:1 b:2 c:3` built by real operations. -/
def abc : List Cmd := [.zadd 0 [97] (.fin 1), .zadd 1 [98] (.fin 2), .zadd 0 [99] (.fin 3)]

/-- WITNESS (defect 16): on the tree as it is, `ZRANGE k 0 -100` on three members returns one
    member where the empty reply is prescribed. -/
theorem zrange_fwd_fails :
    Code.zrange false 0 (-100) false (runCmds false abc) = [(.num (.fin 1), [97])] ∧
    Spec.zrange (Spec.runCmds abc) 0 (-100) = [] ∧
    zrangeDev false 3 0 (-100) = true := by decide

/-- WITNESS (defect 16): `ZREVRANGE k 5 10` on three members returns one member (the lowest),
    `ZREVRANGE k 0 -100` the highest; both must be empty. -/
theorem zrange_rev_fails :
    Code.zrange false 5 10 true (runCmds false abc) = [(.num (.fin 1), [97])] ∧
    Spec.zrevrange (Spec.runCmds abc) 5 10 = [] ∧
    Code.zrange false 0 (-100) true (runCmds false abc) = [(.num (.fin 3), [99])] ∧
    Spec.zrevrange (Spec.runCmds abc) 0 (-100) = [] ∧
    zrangeDev true 3 5 10 = true ∧ zrangeDev true 3 0 (-100) = true := by decide

/-! ## 6. NaN is never stored; a refused ZADD adds nothing -/

/-- FULL statement (repaired handlers): a ZADD carrying an unparsable or NaN score anywhere is
    refused with the key untouched, and a ZINCRBY whose sum is NaN likewise. -/
theorem refused_zadd_adds_nothing (ps : List (Option CScore × Bytes)) (hs : List Nat) (k : ZKey)
    (hne : ps ≠ []) (hv : Spec.validPairs ps = none) :
    Code.zaddCmd true hs ps k 0 = (k, none) ∧ Spec.zaddCmd ps (absKey k) = (absKey k, false) := by
  refine ⟨zaddCmd_fixed_refuses ps hs k 0 hne hv, ?_⟩
  simp [Spec.zaddCmd, hv]

theorem nan_never_stored (height : Nat) (m : Bytes) (k : ZKey) :
    Code.zincrbyCmd true height m .nan k = (k, none) ∧
    Code.zaddCmd true [height] [(some .nan, m)] k 0 = (k, none) := by
  constructor
  · simp [Code.zincrbyCmd]
  · simp [Code.zaddCmd]

/-- PARTIAL statement for the handler as it is (and the full one for the repaired handler): when
    every score of the command is a number, all pairs are applied in order — the stored set is the
    Spec's, nothing is NaN, and the reply is the number of members that were new. -/
theorem zadd_cmd_partial (fixed : Bool) (ps : List (Option CScore × Bytes)) (vs : List (Score × Bytes))
    (hs : List Nat) (k : ZKey) (hk : KeyInv k) (hv : Spec.validPairs ps = some vs) :
    KeyInv (Code.zaddCmd fixed hs ps k 0).1 ∧
    absKey (Code.zaddCmd fixed hs ps k 0).1 = (Spec.zaddCmd ps (absKey k)).1 ∧
    (Code.zaddCmd fixed hs ps k 0).2 = some ((Spec.zaddCmd ps (absKey k)).1.length - (absKey k).length) := by
  have h := zaddCmd_valid fixed ps vs hs k 0 hk hv
  simp only [Spec.zaddCmd, hv]
  exact ⟨h.1, h.2.1, by rw [h.2.2, Nat.zero_add]⟩

/-- WITNESS (defect 18a): on the tree as it is `ZADD z 1 a nope b` answers an error but has added `a`. -/
theorem refused_zadd_fails :
    (Code.zaddCmd false [0] [(some (.num (.fin 1)), [97]), (none, [98])] none 0).2 = none ∧
    absKey (Code.zaddCmd false [0] [(some (.num (.fin 1)), [97]), (none, [98])] none 0).1 = [(.fin 1, [97])] ∧
    Spec.zaddCmd [(some (.num (.fin 1)), [97]), (none, [98])] [] = ([], false) := by decide

/-- WITNESS (defect 18b): `ZADD z nan n` stores a NaN node.  Re-scoring the member then leaves TWO
    nodes for one member (the NaN node cannot be unlinked because `NaN == NaN` is false), and after
    ZREM the key index is empty while the chain still holds the NaN node: the member can never be
    removed and the key never disappears — `skiplist_inv` fails without the non-NaN hypothesis. -/
theorem nan_stored_fails :
    let s1 := (Code.insert 0 [110] .nan Code.empty).1
    let s2 := (Code.insert 0 [110] (.num (.fin 1)) s1).1
    let s3 := (remove [110] s2).1
    level0 s1 = [(.nan, [110])] ∧
    level0 s2 = [(.num (.fin 1), [110]), (.nan, [110])] ∧ s2.keyIndex = [([110], .num (.fin 1))] ∧ s2.length = 2 ∧
    level0 s3 = [(.nan, [110])] ∧ s3.keyIndex = [] ∧ s3.length = 1 ∧
    invB s1 = false ∧ invB s2 = false ∧ invB s3 = false ∧
    (Code.zrem [110] (some s3)).1 = some s3 := by decide

/-- WITNESS (defect 18c): ZINCRBY whose sum is NaN (`+inf` then `-inf`) is stored by the tree as it is. -/
theorem zincrby_nan_fails :
    absKey (Code.zincrbyCmd false 0 [110] .nan none).1 = [] ∧
    (Code.zincrbyCmd false 0 [110] .nan none).1 ≠ none ∧
    (Spec.zincrbyCmd .nan [110] []).2 = none := by decide

/-! ## 7. One command is ONE step of the sorted-set machine (one storage call, one lock scope, one deadline test) -/

/-- Tie to the code: the translator reads that handle_zadd / handle_zrem / handle_zpopmin / handle_zpopmax and the
    script executor each make exactly one storage call (`zadd_many`, `zrem_many`, `zpop`) and no per-member
    `storage.zadd(` / `storage.zrem(` call (translator/expiry_tables.py, regenerated on every run).  That each of
    these functions reaches the shard once and holds its write lock to the end is read off their bodies by
    lib/c04.py (`source_switches`: one `get_shard(`, one `.write()`, both in front of the loop). -/
theorem tree_zset_one_call : Gen.zsetOneCall = true := by decide

/-- An accepted multi-member `ZADD k pairs` (tree since db4c992): whatever the environment does — the key's
    deadline passing before the call (`deadAt = some 0`), during it or after it (`some (i+1)`, `none`) — the stored
    set is the fold of the single inserts over the state at ONE instant (the live set, or the empty set when the key
    was dead at that instant), the reply is the number of members that were new at that instant, and there is NO
    intermediate state another reader (a BGSAVE copy, another connection) could observe between two pairs. -/
theorem zadd_is_one_step (hs : List Nat) (vs : List (Score × Bytes)) (deadAt : Option Nat) (k : ZKey) (hk : KeyInv k) :
    KeyInv (zaddSched true hs vs deadAt k).1 ∧
    absKey (zaddSched true hs vs deadAt k).1 = Spec.zaddAll vs (if deadAt = some 0 then [] else absKey k) ∧
    (zaddSched true hs vs deadAt k).2.1 =
      (Spec.zaddAll vs (if deadAt = some 0 then [] else absKey k)).length - (if deadAt = some 0 then [] else absKey k).length ∧
    (zaddSched true hs vs deadAt k).2.2 = [] := by
  unfold zaddSched
  simp only [if_true]
  by_cases hd : deadAt = some 0
  · have h := zaddMany_refines vs hs none 0 keyInv_none
    simp only [hd, if_true]
    exact ⟨h.1, h.2.1, by rw [h.2.2]; simp [absKey], trivial⟩
  · have h := zaddMany_refines vs hs k 0 hk
    simp only [hd, if_false]
    exact ⟨h.1, h.2.1, by rw [h.2.2]; simp, trivial⟩

/-- WITNESS (hunt d1/d2, the loop before db4c992): with one storage call per pair, the deadline falling between
    the two pairs of `ZADD z 0 a 1 b` on `{seed:-1}` leaves `{b}` (without the old key's TTL) although the reply says 2
    — neither all pairs on the live key nor all pairs on a fresh one — and a reader between the calls sees the
    half-applied `{seed, a}`. -/
theorem zadd_per_pair_not_one_step :
    let k := runCmds false [.zadd 0 [115] (.fin (-1))]
    let r := zaddSched false [0, 0] [(.fin 0, [97]), (.fin 1, [98])] (some 1) k
    absKey r.1 = [(.fin 1, [98])] ∧ r.2.1 = 2 ∧
    r.2.2.map absKey = [[(.fin (-1), [115]), (.fin 0, [97])]] ∧
    absKey r.1 ≠ Spec.zaddAll [(.fin 0, [97]), (.fin 1, [98])] (absKey k) ∧
    absKey r.1 ≠ Spec.zaddAll [(.fin 0, [97]), (.fin 1, [98])] [] := by decide

/-- `ZREM k members` and `ZPOPMIN/ZPOPMAX k count` are single steps too: the storage calls `zrem_many` / `zpop`
    compute, on the one state they lock, exactly the prescribed result and reply. -/
theorem zrem_zpop_one_step (k : ZKey) (hk : KeyInv k) (ms : List Bytes) (max : Bool) (count : Nat) :
    (KeyInv (zremMany ms k 0).1 ∧ absKey (zremMany ms k 0).1 = Spec.zremAll ms (absKey k) ∧
      (zremMany ms k 0).2 = (absKey k).length - (Spec.zremAll ms (absKey k)).length) ∧
    (KeyInv (zpopMany max count k []).1 ∧ absKey (zpopMany max count k []).1 = (Spec.zpopN max count (absKey k)).1 ∧
      (zpopMany max count k []).2 = ((Spec.zpopN max count (absKey k)).2).map lift) := by
  have h1 := zremMany_refines ms k 0 hk
  have h2 := zpopMany_refines max count k [] hk
  exact ⟨⟨h1.1, h1.2.1, by rw [h1.2.2]; simp⟩, ⟨h2.1, h2.2.1, by rw [h2.2.2]; simp⟩⟩

/-! ## 8. Argument validation of the range commands; the empty pop reply -/

/-- FULL (repaired handlers/parsers): after the bounds only WITHSCORES is accepted, anything else is a syntax
    error; a NaN score bound is refused, any other pair of bounds is passed on unchanged; a pop that pops nothing
    answers the empty array. -/
theorem range_arguments_checked (opt : Option Bool) (lo hi : CScore) :
    Code.rangeOption true opt = Spec.rangeOption opt ∧
    Code.scoreBounds true lo hi = (Spec.scoreBounds lo hi).map (fun p => (CScore.num p.1, CScore.num p.2)) ∧
    zpopEmptyIsNull true = false := by
  refine ⟨?_, ?_, rfl⟩
  · cases opt with
    | none => rfl
    | some b => cases b <;> rfl
  · cases lo <;> cases hi <;> simp [Code.scoreBounds, Spec.scoreBounds]

/-- PARTIAL (handlers as they are): WITHSCORES or nothing after the bounds, and numeric bounds, are treated as prescribed. -/
theorem range_arguments_partial (opt : Option Bool) (ho : opt ≠ some false) (lo hi : Score) :
    Code.rangeOption false opt = Spec.rangeOption opt ∧
    Code.scoreBounds false (.num lo) (.num hi) = (Spec.scoreBounds (.num lo) (.num hi)).map (fun p => (CScore.num p.1, CScore.num p.2)) := by
  constructor
  · cases opt with
    | none => rfl
    | some b => cases b with
      | true => rfl
      | false => exact absurd rfl ho
  · simp [Code.scoreBounds, Spec.scoreBounds]

/-- WITNESS (hunt d3): as they are the handlers answer `ZRANGE z 0 -1 REV` / `… WITHSCORE` / `ZRANGEBYSCORE z 1 3 LIMIT`
    as the plain command, and a NaN bound reaches `range_by_score`: on `a:1 b:2 c:3`, `ZCOUNT z nan 2` counts 2
    (a NaN minimum acts like -inf) and `ZCOUNT z 1 nan` counts 0 where "min or max is not a float" is prescribed. -/
theorem range_arguments_fail :
    Code.rangeOption false (some false) = some false ∧ Spec.rangeOption (some false) = none ∧
    Code.scoreBounds false .nan (.num (.fin 2)) = some (.nan, .num (.fin 2)) ∧ Spec.scoreBounds .nan (.num (.fin 2)) = none ∧
    Code.zcount .nan (.num (.fin 2)) (runCmds false abc) = 2 ∧
    Code.zcount (.num (.fin 1)) .nan (runCmds false abc) = 0 ∧
    Code.zrangebyscore .nan .nan false (runCmds false abc) = [] := by decide

/-- WITNESS (hunt d4): as they are ZPOPMIN / ZPOPMAX answer the null array when nothing is popped. -/
theorem zpop_empty_reply_fails : zpopEmptyIsNull false = true ∧ (zpopMany false 5 none []).2 = [] ∧
    (zpopMany true 0 (runCmds false abc) []).2 = [] := by decide

/-! ## Non-vacuity: concrete non-trivial instances of the hypotheses -/

/-- a reachable three-level state with colliding scores, ±inf, a re-score across a neighbour and a removal -/
def demoOps : List Op :=
  [.ins 2 [98] (.fin 5), .ins 0 [97] (.fin 5), .ins 1 [99] .ninf, .ins 0 [100] .pinf,
   .ins 3 [97] (.fin 7), .rem [99], .ins 0 [101] (.fin 0)]

example : level0 (run demoOps) =
    [(.num (.fin 0), [101]), (.num (.fin 5), [98]), (.num (.fin 7), [97]), (.num .pinf, [100])] := by decide
example : (run demoOps).levels.length = 4 ∧ invB (run demoOps) = true := by decide
example : Inv (run demoOps) := inv_run_from demoOps _ inv_empty
example : KeyInv (runCmds false abc) ∧ absKey (runCmds false abc) = [(.fin 1, [97]), (.fin 2, [98]), (.fin 3, [99])] :=
  ⟨(engine_refines false abc).1, by decide⟩
example : Spec.WF [(.ninf, [1]), (.fin (-3), [9]), (.fin 0, []), (.fin 0, [0]), (.fin 0, [0, 0]), (.pinf, [7])] := by
  refine ⟨by decide, by decide⟩
example : Spec.validPairs [(some (.num (.fin 1)), [97]), (some (.num .pinf), [98])] = some [(.fin 1, [97]), (.pinf, [98])] := by decide
example : Spec.validPairs [(some (.num (.fin 1)), [97]), (some .nan, [98])] = none := by decide
example : zrangeDev false 3 1 (-100) = false ∧ zrangeDev true 3 2 10 = false := by decide
example : absKey (runCmds false [.zadd 0 [97] (.fin 0), .zadd 2 [98] .nzero, .zadd 1 [97] .nzero, .zincrby 0 [98] (.fin 0)]) =
    [(.nzero, [97]), (.fin 0, [98])] := by decide
example : Spec.zrank [98] (Spec.runCmds abc) = some 1 ∧ Spec.zrevrank [98] (Spec.runCmds abc) = some 1 := by decide

end Ferrous.C04
