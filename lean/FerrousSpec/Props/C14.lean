/-
  C14 — pub/sub delivers exactly once per matching subscription; acknowledgement counts;
  nothing after unsubscribe / disconnect; publish order; the glob matcher.

  Property theorems only; helper lemmas live in FerrousSpec/Proofs/PubSub*.lean.
  Model: FerrousSpec/Model/PubSub.lean — `Code`: the three maps of `PubSubManager`
  (src/pubsub.rs) with subscribe / psubscribe / unsubscribe / punsubscribe /
  unsubscribe_all / publish (switch `dedup`: `true` = the `seen_connections`
  de-duplication of the tree as pinned, `false` = after the proposed fix) and the matcher
  `pattern_matches`; `Spec`: the flat set of subscriptions held, one delivery per matching
  subscription, the meaning of `* ? [...] \x` (Redis's glob).  All history theorems quantify over every list of
  operations from the empty manager.
  Tie to the code: translator/pubsub_consts.py regenerates `Gen.pubsubDedup` (is the
  de-duplication still in `publish`?) and `Gen.pubsubGlobArms` (the arms of the matcher's
  `match`) from src/pubsub.rs on every run; lib/c14.py executes the same histories on the real
  `PubSubManager` / `pattern_matches` (in-process) and on the real server over TCP with the
  model switch set from the same extraction.
-/
import FerrousSpec.Proofs.PubSubSess
import FerrousSpec.Gen.PubSub
namespace Ferrous.C14
open Ferrous Ferrous.PubSub

/-! ### (1) The three maps stay mutual inverses -/

/-- After every history: a connection is listed under a channel (pattern) iff that channel
    (pattern) is listed under the connection; every key occurs once in each map; no channel
    or pattern is mapped to an empty or duplicated set of connections; no connection's lists
    contain duplicates.  (`channel_subs`, `pattern_subs`, `conn_subs` of `PubSubManager`.) -/
theorem maps_agree (ops : List Op) :
    let st := Code.after {} ops
    (∀ ch c, (∃ cs, (ch, cs) ∈ st.channels ∧ c ∈ cs) ↔ (∃ i, (c, i) ∈ st.subs ∧ ch ∈ i.1)) ∧
    (∀ p c, (∃ cs, (p, cs) ∈ st.patterns ∧ c ∈ cs) ↔ (∃ i, (c, i) ∈ st.subs ∧ p ∈ i.2)) ∧
    (st.channels.map (·.1)).Nodup ∧ (st.patterns.map (·.1)).Nodup ∧ (st.subs.map (·.1)).Nodup ∧
    (∀ e ∈ st.channels, e.2 ≠ [] ∧ e.2.Nodup) ∧ (∀ e ∈ st.patterns, e.2 ≠ [] ∧ e.2.Nodup) ∧
    (∀ e ∈ st.subs, e.2.1.Nodup ∧ e.2.2.Nodup) := by
  intro st
  obtain ⟨h1, h2, h3, h4, h5⟩ := (Inv.init.after ops).raw
  exact ⟨h1 .chan, h1 .pat, h2 .chan, h2 .pat, h3, h4 .chan, h4 .pat, fun e he => ⟨h5 .chan e he, h5 .pat e he⟩⟩

/-- For histories a client can produce (SUBSCRIBE / PSUBSCRIBE carry at least one name — the
    handlers' arity check) no connection keeps an entry without subscriptions, i.e.
    `is_subscribed` is true exactly for connections that hold something. -/
theorem no_empty_entries (ops : List Op) (hops : ∀ op ∈ ops, Code.clientOp op = true) :
    ∀ e ∈ (Code.after {} ops).subs, e.2 ≠ ([], []) := by
  intro e he
  have hn : NoEmptyInfo (Code.after {} ops) :=
    NoEmptyInfo.after (by intro c i h; cases h) ops hops
  exact hn e.1 e.2 ((mem_iff_aget (Inv.init.after ops).keysSubs e.1 e.2).1 he)

/-- Witness that the hypothesis is needed: `subscribe(conn, vec![])` through the library API
    leaves an entry without subscriptions behind (`is_subscribed(1)` is then true). -/
theorem empty_entry_after_empty_subscribe :
    (Code.after {} [Op.subscribe 1 .chan []]).subs = [(1, ([], []))] := by decide

/-! ### (2) Acknowledgements carry the remaining subscription count -/

/-- FULL STATEMENT (the tree now, `idle = true`): after every history, what the server writes in
    answer to SUBSCRIBE / PSUBSCRIBE / UNSUBSCRIBE / PUNSUBSCRIBE is exactly what is prescribed:
    one confirmation per name, each carrying the number of subscriptions (channels + patterns)
    the client holds right after that name was processed (`spec_ack_is_count`); without names one
    per subscription of that kind held, or — when none is held — a single confirmation with a nil
    name and the count.  No exception for clients that hold nothing. -/
theorem ack_count_correct (dedup : Bool) (ops : List Op) (c : ConnId) (k : Kind) :
    (∀ xs, Code.emit dedup true (Code.after {} ops) (.subscribe c k xs) =
           Spec.emit (Spec.after [] ops) (.subscribe c k xs)) ∧
    (∀ xs, Code.emit dedup true (Code.after {} ops) (.unsubscribe c k xs) =
           Spec.emit (Spec.after [] ops) (.unsubscribe c k xs)) :=
  ⟨fun xs => emit_subscribe_eq (Rel.init.after ops) dedup true c k xs,
   fun xs => emit_unsubscribe_eq (Rel.init.after ops) dedup c k xs⟩

/-- The same one level down, for the library API: the `SubResult`s `PubSubManager` returns are the
    prescribed acknowledgements, except that `unsubscribe` / `punsubscribe` return none at all for a
    connection without an entry (the handlers then write the confirmations themselves). -/
theorem manager_results_eq_spec (ops : List Op) (op : Op) :
    (Code.apply (Code.after {} ops) op).2 =
      if Code.silent (Code.after {} ops) op then [] else (Spec.apply (Spec.after [] ops) op).2 :=
  ((Rel.init.after ops).next op).2

/-- WITNESS: without the handlers' fallback (`idle = false`, the tree as pinned) a client holding
    nothing gets no confirmation where one with count 0 is due. -/
theorem acks_missing_without_fallback :
    Code.emit true false {} (.unsubscribe 1 .chan (some [[97]])) = [] ∧
    Spec.emit [] (.unsubscribe 1 .chan (some [[97]])) = [(1, .ack ⟨.chan, true, [97], 0, false⟩)] ∧
    Code.emit true false {} (.unsubscribe 1 .pat none) = [] ∧
    Spec.emit [] (.unsubscribe 1 .pat none) = [(1, .ackNil .pat 0)] := by decide

/-- Tie to the code: `handle_unsubscribe` and `handle_punsubscribe` contain the fallback, so the
    full statement speaks about the current tree.  Fails to check if it is removed. -/
theorem tree_acks_when_idle : Gen.pubsubAcksWhenIdle = true := by decide

/-- What the spec's acknowledgement count is: the size of the client's subscription set at that
    moment (also in the nil-name confirmation). -/
theorem spec_ack_is_count (k : Kind) (c : ConnId) (s : Spec.State) (x : Bytes) :
    (Spec.sub1 k c s x).2.count = Spec.count (Spec.sub1 k c s x).1 c ∧
    (Spec.unsub1 k c s x).2.count = Spec.count (Spec.unsub1 k c s x).1 c ∧
    (Spec.heldBy s c k = [] → Spec.unsubEvents k c s none = [.ackNil k (Spec.count s c)]) :=
  ⟨rfl, rfl, fun h => by simp [Spec.unsubEvents, h]⟩

/-- The per-connection map of the code represents the spec's set after every history: same
    names, same order, for every connection and kind. -/
theorem held_eq_spec (ops : List Op) (c : ConnId) :
    (match aget (Code.after {} ops).subs c with
      | some i => i
      | none => ([], [])) =
    (Spec.heldBy (Spec.after [] ops) c .chan, Spec.heldBy (Spec.after [] ops) c .pat) := by
  have h := Rel.init.after ops
  rw [h.heldEq, h.heldEq]
  unfold held info
  cases aget (Code.after {} ops).subs c <;> rfl

/-! ### (3) PUBLISH: one delivery per matching subscription -/

/-- FULL STATEMENT (holds for the code without the de-duplication, `dedup = false`): after
    every history the receivers of a PUBLISH are, up to order, exactly one per subscription
    (channel or pattern, of any connection) matching the channel, and the integer reply is
    their number. -/
theorem publish_eq_spec (ops : List Op) (ch : Bytes) :
    (publish false (Code.after {} ops) ch).Perm (Spec.deliveries (Spec.after [] ops) ch) ∧
    (publish false (Code.after {} ops) ch).length = (Spec.deliveries (Spec.after [] ops) ch).length := by
  have h : (publish false (Code.after {} ops) ch).Perm (Spec.deliveries (Spec.after [] ops) ch) := by
    simpa [publish] using candidates_perm_spec (Inv.init.after ops) (Rel.init.after ops) ch
  exact ⟨h, h.length_eq⟩

/-- PARTIAL (the tree as pinned, `dedup = true`): the same holds whenever no connection holds two
    subscriptions matching the channel. -/
theorem publish_eq_spec_partial (ops : List Op) (ch : Bytes)
    (hno : ((Spec.deliveries (Spec.after [] ops) ch).map (·.1)).Nodup) :
    (publish true (Code.after {} ops) ch).Perm (Spec.deliveries (Spec.after [] ops) ch) ∧
    (publish true (Code.after {} ops) ch).length = (Spec.deliveries (Spec.after [] ops) ch).length := by
  have h := publish_dedup_perm_spec (Inv.init.after ops) (Rel.init.after ops) ch hno
  exact ⟨h, h.length_eq⟩

/-- WITNESS: with the de-duplication a client subscribed to `news` and to the pattern `n*` gets
    ONE frame and PUBLISH answers 1, where the property prescribes a `message` and a `pmessage`
    (reply 2). -/
theorem publish_dedup_fails :
    let ops := [Op.subscribe 1 .chan [[110, 101, 119, 115]], Op.subscribe 1 .pat [[110, 42]]]
    publish true (Code.after {} ops) [110, 101, 119, 115] = [(1, none)] ∧
    Spec.deliveries (Spec.after [] ops) [110, 101, 119, 115] = [(1, none), (1, some [110, 42])] := by
  decide

/-- Hence the full statement is false for the tree as pinned. -/
theorem publish_eq_spec_fails_with_dedup :
    ¬ ∀ (ops : List Op) (ch : Bytes),
      (publish true (Code.after {} ops) ch).length = (Spec.deliveries (Spec.after [] ops) ch).length := by
  intro h
  have := h [Op.subscribe 1 .chan [[110, 101, 119, 115]], Op.subscribe 1 .pat [[110, 42]]] [110, 101, 119, 115]
  rw [publish_dedup_fails.1, publish_dedup_fails.2] at this
  cases this

/-- What the pinned code does instead, exactly: every connection holding at least one matching
    subscription receives exactly one frame (and nobody else anything). -/
theorem publish_dedup_one_per_connection (ops : List Op) (ch : Bytes) :
    ((publish true (Code.after {} ops) ch).map (·.1)).Nodup ∧
    ∀ c, c ∈ (publish true (Code.after {} ops) ch).map (·.1) ↔
         c ∈ (Spec.deliveries (Spec.after [] ops) ch).map (·.1) := by
  refine ⟨by simpa [publish] using nodup_conns_dedupGo [] _, ?_⟩
  intro c
  have hp := candidates_perm_spec (Inv.init.after ops) (Rel.init.after ops) ch
  simp only [publish, if_true, conns_dedupGo]
  rw [(hp.map (·.1)).mem_iff]
  simp

/-- "…and to nobody else", both variants: whoever receives a frame holds, at that moment, the
    subscription the frame names, and it matches the channel. -/
theorem delivered_only_to_subscribers (dedup : Bool) (ops : List Op) (ch : Bytes) (c : ConnId) (o : Option Bytes)
    (h : (c, o) ∈ publish dedup (Code.after {} ops) ch) :
    match o with
    | none => (⟨c, .chan, ch⟩ : Spec.Sub) ∈ Spec.after [] ops
    | some p => (⟨c, .pat, p⟩ : Spec.Sub) ∈ Spec.after [] ops ∧ Spec.glob p ch = true := by
  have hp := candidates_perm_spec (Inv.init.after ops) (Rel.init.after ops) ch
  have hm := hp.mem_iff.1 (mem_publish h)
  cases o with
  | none => exact (Spec.mem_deliveries_none _ _ _).1 hm
  | some p => exact (Spec.mem_deliveries_some _ _ _ _).1 hm

/-- The statement about the tree as it is NOW (switch regenerated from src/pubsub.rs): the
    exclusion hypothesis is only needed while the de-duplication is in the source; once it is
    removed this is the full statement. -/
theorem publish_eq_spec_this_tree (ops : List Op) (ch : Bytes)
    (hno : Gen.pubsubDedup = true → ((Spec.deliveries (Spec.after [] ops) ch).map (·.1)).Nodup) :
    (publish Gen.pubsubDedup (Code.after {} ops) ch).Perm (Spec.deliveries (Spec.after [] ops) ch) := by
  cases h : Gen.pubsubDedup with
  | true => exact (publish_eq_spec_partial ops ch (hno h)).1
  | false => exact (publish_eq_spec ops ch).1

/-! ### (4) Nothing after unsubscribing or disconnecting -/

/-- After its disconnect (`unsubscribe_all`) a connection id receives no `message` / `pmessage`
    frame, whatever the other clients do, until it subscribes again.  Both variants of publish. -/
theorem nothing_after_disconnect (dedup idle : Bool) (ops1 ops2 : List Op) (c : ConnId)
    (hops : ∀ op ∈ ops2, op.subscribesAs c = false) :
    msgsOf (received (Code.log dedup idle {} (ops1 ++ Op.disconnect c :: ops2)) c) =
    msgsOf (received (Code.log dedup idle {} ops1) c) := by
  rw [Code.log_append, received_append, msgsOf_append]
  suffices h : msgsOf (received (Code.log dedup idle (Code.after {} ops1) (Op.disconnect c :: ops2)) c) = [] by
    rw [h, List.append_nil]
  rw [msgs_eq_blocks]
  simp only [Code.blocks]
  rw [List.flatten_eq_nil_iff]
  intro b hb
  have hinv : Inv (Code.next (Code.after {} ops1) (Op.disconnect c)) := (Inv.init.after ops1).next _
  cases hbe : b with
  | nil => rfl
  | cons e es =>
    exfalso
    subst hbe
    have he : e ∈ e :: es := List.mem_cons_self
    -- `e` is a frame of some block, hence a message on some channel `ch`, but `c` is quiet on every channel
    have hmsg : ∃ ch, e.chan? = some ch := by
      have : e ∈ (Code.blocks dedup (Code.next (Code.after {} ops1) (Op.disconnect c)) ops2 c).flatten :=
        List.mem_flatten.2 ⟨_, hb, he⟩
      rw [← msgs_eq_blocks dedup idle] at this
      exact chan_of_isMsg (isMsg_of_mem_msgsOf this)
    obtain ⟨ch, hch⟩ := hmsg
    have hq : quiet (Code.next (Code.after {} ops1) (Op.disconnect c)) c ch := by
      have hh : ∀ k, held (Code.next (Code.after {} ops1) (Op.disconnect c)) c k = [] := by
        intro k
        simp only [Code.next, Code.apply]
        rw [held_unsubscribeAll]
        simp
      exact ⟨by rw [hh]; simp, by rw [hh]; intro p hp; cases hp⟩
    exact quiet_blocks dedup ops2 _ hinv hq hops _ hb e he hch

/-- After UNSUBSCRIBE from `ch` (named, or without arguments) by a connection none of whose
    patterns matches `ch`, no frame published on `ch` reaches it, whatever the other clients do,
    until it subscribes again.  Both variants of publish. -/
theorem nothing_after_unsubscribe (dedup idle : Bool) (ops1 ops2 : List Op) (c : ConnId) (ch : Bytes)
    (xs : Option (List Bytes)) (hx : ∀ l, xs = some l → ch ∈ l)
    (hpat : ∀ p ∈ Spec.heldBy (Spec.after [] ops1) c .pat, Spec.glob p ch = false)
    (hops : ∀ op ∈ ops2, op.subscribesAs c = false) :
    ∀ e ∈ received (Code.log dedup idle (Code.after {} (ops1 ++ [Op.unsubscribe c .chan xs])) ops2) c,
      e.chan? ≠ some ch := by
  intro e he hch
  have hmsg : e.isMsg = true := by cases e <;> simp_all [Event.chan?, Event.isMsg]
  have hm : e ∈ msgsOf (received (Code.log dedup idle (Code.after {} (ops1 ++ [Op.unsubscribe c .chan xs])) ops2) c) :=
    List.mem_filter.2 ⟨he, hmsg⟩
  rw [msgs_eq_blocks] at hm
  obtain ⟨b, hb, heb⟩ := List.mem_flatten.1 hm
  have hinv : Inv (Code.after {} (ops1 ++ [Op.unsubscribe c .chan xs])) := Inv.init.after _
  have hq : quiet (Code.after {} (ops1 ++ [Op.unsubscribe c .chan xs])) c ch := by
    refine ⟨not_held_after_unsubscribe ops1 c .chan xs ch hx, ?_⟩
    intro p hp
    rw [Code.after_append] at hp
    have hp' := held_next_subset (st := Code.after {} ops1) (op := Op.unsubscribe c .chan xs) rfl .pat p hp
    rw [← (Rel.init.after ops1).heldEq] at hp'
    rw [globBytes_eq_spec]
    exact hpat p hp'
  exact quiet_blocks dedup ops2 _ hinv hq hops b hb e heb hch

/-- After PUNSUBSCRIBE from pattern `p` (named, or without arguments) no `pmessage` naming `p`
    reaches the connection, whatever the other clients do, until it subscribes again. -/
theorem nothing_after_punsubscribe (dedup idle : Bool) (ops1 ops2 : List Op) (c : ConnId) (p : Bytes)
    (xs : Option (List Bytes)) (hx : ∀ l, xs = some l → p ∈ l)
    (hops : ∀ op ∈ ops2, op.subscribesAs c = false) :
    ∀ ch m, Event.pmessage p ch m ∉
      received (Code.log dedup idle (Code.after {} (ops1 ++ [Op.unsubscribe c .pat xs])) ops2) c := by
  intro ch m he
  have hm : Event.pmessage p ch m ∈
      msgsOf (received (Code.log dedup idle (Code.after {} (ops1 ++ [Op.unsubscribe c .pat xs])) ops2) c) :=
    List.mem_filter.2 ⟨he, rfl⟩
  rw [msgs_eq_blocks] at hm
  obtain ⟨b, hb, heb⟩ := List.mem_flatten.1 hm
  exact quietPat_blocks dedup ops2 _ (Inv.init.after _) (not_held_after_unsubscribe ops1 c .pat xs p hx)
    hops b hb ch m heb

/-! ### (5) Publish order, bytes intact -/

/-- The `message` / `pmessage` frames in a connection's stream are the concatenation, in the
    order of the history's PUBLISH operations, of one block per PUBLISH; a block consists of the
    frames for that PUBLISH's receivers equal to the connection, each carrying the published
    channel and payload (and the receiver's pattern) unchanged (`msgBlock`).  In particular a
    stream only ever grows at its end (`Code.log_append`). -/
theorem publish_order_preserved (dedup idle : Bool) (ops : List Op) (c : ConnId) :
    msgsOf (received (Code.log dedup idle {} ops) c) = (Code.blocks dedup {} ops c).flatten :=
  msgs_eq_blocks dedup idle {} ops c

/-- The log of a longer history extends the log of the shorter one (nothing is inserted,
    reordered or retracted), hence so does every connection's stream. -/
theorem stream_append_only (dedup idle : Bool) (ops1 ops2 : List Op) (c : ConnId) :
    received (Code.log dedup idle {} (ops1 ++ ops2)) c =
      received (Code.log dedup idle {} ops1) c ++ received (Code.log dedup idle (Code.after {} ops1) ops2) c := by
  rw [Code.log_append, received_append]

/-- FULL STATEMENT (`dedup = false`): block by block, a connection receives — up to the order of
    frames within one PUBLISH — exactly one frame per subscription it holds that matches. -/
theorem stream_eq_spec (ops : List Op) (c : ConnId) :
    BlocksPerm (Code.blocks false {} ops c) (Spec.blocks [] ops c) :=
  blocks_perm_spec Inv.init Rel.init ops c

/-- PARTIAL (`dedup = true`, the tree as pinned): the same for histories in which no connection
    ever holds two subscriptions matching a published channel. -/
theorem stream_eq_spec_partial (ops : List Op) (c : ConnId) (hno : Spec.neverOverlap [] ops) :
    BlocksPerm (Code.blocks true {} ops c) (Spec.blocks [] ops c) :=
  blocks_dedup_perm_spec Inv.init Rel.init ops c hno

/-- WITNESS for the streams: the subscriber of `news` + `n*` reads one frame where two are prescribed. -/
theorem stream_dedup_fails :
    let ops := [Op.subscribe 1 .chan [[110, 101, 119, 115]], Op.subscribe 1 .pat [[110, 42]], Op.publish 2 [110, 101, 119, 115] [120]]
    Code.blocks true {} ops 1 = [[.message [110, 101, 119, 115] [120]]] ∧
    Spec.blocks [] ops 1 = [[.message [110, 101, 119, 115] [120], .pmessage [110, 42] [110, 101, 119, 115] [120]]] := by
  decide

/-! ### (6) The glob matcher -/

/-- `pattern_matches` (pub/sub calls the server's one glob matcher, the star-backtracking loop of
    src/storage/engine.rs: all patterns, all texts, any number of `*`, classes included) computes
    the declarative meaning of the pattern. -/
theorem glob_correct (p s : Bytes) : globBytes p s = Spec.glob p s := globBytes_eq_spec p s

/-- …which is the relation generated by: `*` any run of bytes; every other element exactly one
    byte it accepts — `?` any byte, `\x` the byte `x`, a class `[…]`/`[^…]` a byte that is /
    is not one of its members (Redis's rules for reading a class: `Spec.classParse`), a final
    `\` and every other byte itself. -/
theorem glob_correct_rel (p s : Bytes) : globBytes p s = true ↔ Spec.Glob p s := by
  rw [globBytes_eq_spec]; exact glob_iff_Glob p s

/-- The code's walk over a class is the spec's reading of it: matched iff `c` is one of the
    members, and it stops where the class ends. -/
theorem class_walk_correct (c : Nat) (q : Bytes) :
    classGo c q false = ((Spec.classParse q).1.any (·.has c), (Spec.classParse q).2) := by
  rw [classGo_eq c q.length q false (Nat.le_refl _)]; simp

/-- Tie to the code: `pubsub::pattern_matches` is exactly one call of the engine matcher, the arms
    of that matcher's `match` are the five that `gstep` transliterates and the `if`s of its `[`
    arm are those of `classGo`, in order; stops checking when any of this changes. -/
theorem tree_glob_grammar :
    Gen.pubsubMatcherIsEngine = true ∧
    Gen.pubsubGlobArms = ["b'?'", "b'*'", "b'['", "b'\\\\' if p_idx + 1 < pattern_chars.len()", "_"] ∧
    Gen.pubsubClassConds = ["negate", "pattern_chars[i] == b'\\\\' && i + 1 < pattern_chars.len()", "pattern_chars[i] == c",
      "pattern_chars[i] == b']'", "i + 2 < pattern_chars.len() && pattern_chars[i + 1] == b'-'", "c >= lo && c <= hi",
      "pattern_chars[i] == c", "matched != negate"] := by decide

/-- WITNESS for the matcher pub/sub had before (only `* ? \x`): a class was three literal bytes, so
    `PSUBSCRIBE h[ae]llo` received nothing published on `hello`; the prescribed meaning delivers it. -/
theorem class_pattern_matches :
    Spec.glob [104, 91, 97, 101, 93, 108, 108, 111] [104, 101, 108, 108, 111] = true ∧
    Spec.glob [104, 91, 97, 101, 93, 108, 108, 111] [104, 91, 97, 101, 93, 108, 108, 111] = false := by decide

/-- The loop's iteration budget in the model is never the reason for an answer. -/
theorem glob_fuel_irrelevant (p s : Bytes) (fuel : Nat) (h : globFuel p s ≤ fuel) :
    globLoop fuel p s none = globBytes p s := globLoop_fuel_irrelevant p s fuel h

/-! ### (7) Connections: the close event, subscriber context -/

/-- The switches of the connection layer as the translator reads them off the current tree. -/
def treeQuirks : Quirks := ⟨Gen.pubsubReleasesAtClose, Gen.pubsubSubscriberGate⟩

/-- A session (commands of clients, close events, blocking) executes core pub/sub operations: its
    pub/sub state is the core model's state after the operations it really executed, so every
    theorem above speaks about it. -/
theorem session_runs_pubsub (q : Quirks) (l : List LOp) :
    (Sess.run q {} l).1.st = Code.after {} (Sess.run q {} l).2 :=
  Sess.run_state q l {}

/-- FULL STATEMENT (`releaseAtClose = true`): from the moment the server marks connection `c` as
    closing (CLIENT KILL by another client, its QUIT, a protocol error), in every interleaving of
    whatever all clients and the server do afterwards, and for as long as `c` has not been removed,
    no PUBLISH on any channel delivers to `c` or counts it. -/
theorem nothing_after_close (q : Quirks) (hq : q.releaseAtClose = true) (dedup : Bool) (l1 l2 : List LOp) (c : ConnId)
    (hl : LOp.op (.disconnect c) ∉ l2) (ch : Bytes) :
    ∀ d ∈ publish dedup (Sess.run q {} (l1 ++ .close c :: l2)).1.st ch, d.1 ≠ c := by
  rw [Sess.run_append]
  simp only [Sess.run]
  have hinv1 : Inv (Sess.run q {} l1).1.st := Inv.sess_run l1 {} Inv.init
  have hstep : Sess.step q (Sess.run q {} l1).1 (.close c) =
      ({ st := unsubscribeAll (Sess.run q {} l1).1.st c, closed := sins (Sess.run q {} l1).1.closed c,
         blocked := (Sess.run q {} l1).1.blocked }, [.disconnect c]) := by
    rw [Sess.step_close, if_pos hq]
  obtain ⟨hinv, hh⟩ := closed_quiet_run q c l2 (Sess.step q (Sess.run q {} l1).1 (.close c)).1
    (hinv1.sess_step _) (by rw [hstep]; exact (mem_sins _ _ _).2 (Or.inr rfl))
    (by intro k; rw [hstep]; simp only; rw [held_unsubscribeAll]; simp) hl
  intro d hd e
  obtain ⟨d1, d2⟩ := d
  simp only at e
  subst e
  exact no_delivery_of_quiet hinv ⟨by rw [hh]; simp, by rw [hh]; intro p hp; cases hp⟩ d2 hd

/-- WITNESS (`releaseAtClose = false`, the tree before the repair): the closed connection is still
    delivered to and counted until it is physically removed — `SUBSCRIBE a` by 1, the server closes 1,
    `PUBLISH a` still has the receiver 1. -/
theorem close_lag_delivers :
    publish false (Sess.run ⟨false, true⟩ {} [.op (.subscribe 1 .chan [[97]]), .close 1]).1.st [97] = [(1, none)] ∧
    publish false (Sess.run ⟨true, true⟩ {} [.op (.subscribe 1 .chan [[97]]), .close 1]).1.st [97] = [] := by decide

/-- Subscriber context (`gate = true`): from a connection that holds subscriptions, any command other
    than (P)SUBSCRIBE, (P)UNSUBSCRIBE, PING, QUIT — also PUBLISH, also one that would block — changes
    nothing: no state change, nothing executed, nobody blocked. -/
theorem gate_refuses (q : Quirks) (hq : q.gate = true) (s : Sess) (c : ConnId) (hs : subscribed s.st c = true) :
    (∀ b, Sess.step q s (.cmd c b) = (s, [])) ∧ (∀ ch m, Sess.step q s (.op (.publish c ch m)) = (s, [])) := by
  constructor
  · intro b
    rcases Sess.step_cmd_cases q s c b with h | ⟨hg, _⟩
    · exact h
    · simp [hq, hs] at hg
  · intro ch m
    rcases Sess.step_op_cases q s (.publish c ch m) c rfl with h | ⟨hn, h⟩
    · exact h
    · simp only [Sess.step, Op.sender, Op.isPublish, hn, if_false, hq, hs, Bool.and_self, if_true]

/-- FULL STATEMENT (`gate = true`): in every reachable session no connection that a PUBLISH delivers
    to is blocked — the event loop serves every receiver, no delivery is ever deferred. -/
theorem never_deferred (q : Quirks) (hq : q.gate = true) (dedup : Bool) (l : List LOp) (ch : Bytes) :
    ∀ d ∈ publish dedup (Sess.run q {} l).1.st ch, d.1 ∉ (Sess.run q {} l).1.blocked := by
  intro d hd hb
  have hidle : BlockedIdle (Sess.run q {} l).1 := BlockedIdle.run hq l {} (by intro c hc; cases hc)
  have hsub := subscribed_of_delivery (Inv.sess_run l {} Inv.init) hd
  rw [hidle d.1 hb] at hsub
  cases hsub

/-- WITNESS (`gate = false`, the tree before the repair): `SUBSCRIBE a` by 1, then a blocking command by
    1 (`BLPOP nolist 0`): 1 is blocked and a PUBLISH on `a` counts a delivery to it. -/
theorem deferred_without_gate :
    (Sess.run ⟨true, false⟩ {} [.op (.subscribe 1 .chan [[97]]), .cmd 1 true]).1.blocked = [1] ∧
    publish false (Sess.run ⟨true, false⟩ {} [.op (.subscribe 1 .chan [[97]]), .cmd 1 true]).1.st [97] = [(1, none)] ∧
    (Sess.run ⟨true, true⟩ {} [.op (.subscribe 1 .chan [[97]]), .cmd 1 true]).1.blocked = [] := by decide

/-! ### Non-vacuity: concrete non-trivial instances -/

/-- a history with overlapping channel/pattern subscriptions, named and blanket unsubscribes, a disconnect -/
def exampleOps : List Op :=
  [.subscribe 1 .chan [[110, 101, 119, 115], [97]], .subscribe 2 .pat [[110, 42], [42]], .subscribe 1 .pat [[110, 63, 119, 115]],
   .publish 3 [110, 101, 119, 115] [0, 255, 13, 10], .unsubscribe 1 .chan (some [[110, 101, 119, 115]]), .unsubscribe 2 .pat none,
   .publish 3 [110, 101, 119, 115] [1], .disconnect 1, .publish 3 [110, 101, 119, 115] [2]]

example : Code.log false true {} exampleOps = Spec.log [] exampleOps := by decide
-- a client holding nothing unsubscribes by name, and without names (nil-name confirmation):
example : Code.log false true {} [.unsubscribe 1 .chan (some [[97], [98]]), .subscribe 1 .pat [[42]], .unsubscribe 1 .chan none] =
    [(1, .ack ⟨.chan, true, [97], 0, false⟩), (1, .ack ⟨.chan, true, [98], 0, false⟩), (1, .ack ⟨.pat, false, [42], 1, true⟩),
     (1, .ackNil .chan 1)] := by decide
example : ∀ op ∈ exampleOps, Code.clientOp op = true := by decide
example : Spec.deliveries (Spec.after [] (exampleOps.take 3)) [110, 101, 119, 115] =
    [(1, none), (2, some [110, 42]), (2, some [42]), (1, some [110, 63, 119, 115])] := by decide
-- hypothesis of `publish_eq_spec_partial` / `stream_eq_spec_partial` is satisfiable with two receivers:
example : ((Spec.deliveries (Spec.after [] [.subscribe 1 .chan [[97]], .subscribe 2 .pat [[42]]]) [97]).map (·.1)).Nodup := by decide
example : Spec.neverOverlap [] [.subscribe 1 .chan [[97]], .subscribe 2 .pat [[42]], .publish 3 [97] [1]] := by
  simp only [Spec.neverOverlap]; decide
-- hypotheses of `nothing_after_unsubscribe`:
example : ∀ p ∈ Spec.heldBy (Spec.after [] [.subscribe 1 .chan [[97]], .subscribe 1 .pat [[98, 42]]]) 1 .pat, Spec.glob p [97] = false := by decide
example : ∀ op ∈ [Op.subscribe 2 .chan [[97]], Op.publish 2 [97] [1]], op.subscribesAs 1 = false := by decide
-- the matcher on a pattern with two stars, an escape and a `?`:
example : globBytes [42, 97, 42, 92, 42, 63] [120, 97, 121, 97, 42, 122] = true := by decide
example : Spec.Glob [110, 42] [110, 101] :=
  .tok (t := .lit 110) (p' := [42]) 110 rfl rfl (.starEat 101 (p' := []) rfl (.starSkip (p' := []) rfl (.done rfl)))
-- Redis's rules for classes, one by one ( [ = 91, ] = 93, ^ = 94, - = 45, \ = 92 ):
example : Spec.glob [91, 92, 93, 93] [93] = true := by decide                       -- `[\]]`: the member `]`
example : Spec.glob [91, 99, 45, 97, 93] [98] = true := by decide                   -- `[c-a]` = `[a-c]`
example : Spec.glob [91, 97, 45, 93, 120, 93] [94] = true ∧ Spec.glob [91, 97, 45, 93, 120, 93] [120] = true := by decide  -- `[a-]x]`: `a-]` is a range
example : Spec.glob [91, 97, 98] [98] = true ∧ Spec.glob [91, 97, 98] [98, 98] = false := by decide   -- `[ab` runs to the end
example : Spec.glob [91, 94] [0] = true ∧ Spec.glob [91, 94] [] = false := by decide                  -- `[^` alone: any one byte
example : Spec.glob [91] [91] = false ∧ Spec.glob [91, 93] [93] = false ∧ Spec.glob [91, 93] [] = false := by decide  -- `[`, `[]`: nothing
example : Spec.glob [91, 94, 120, 93, 63] [97, 98] = true ∧ Spec.glob [91, 94, 120, 93, 63] [120, 98] = false := by decide  -- `[^x]?`
example : Spec.glob [91, 97, 92, 45, 99, 93] [45] = true ∧ Spec.glob [91, 97, 92, 45, 99, 93] [98] = false := by decide      -- `[a\-c]`: three members
example : globBytes [42, 91, 97, 45, 99, 93, 42, 91, 94, 120, 93] [122, 98, 122, 121] = true := by decide

end Ferrous.C14
