/-
  C14 — pub/sub delivers once per matching subscription (work in progress: witnesses first).
-/
import FerrousSpec.Model.PubSub
namespace Ferrous.C14
open Ferrous Ferrous.PubSub

/-- Witness: with the `seen_connections` de-duplication a client subscribed to `news` and to the
    pattern `n*` gets ONE frame and PUBLISH answers 1, where the property prescribes two deliveries. -/
theorem publish_dedup_fails :
    let ops := [Op.subscribe 1 .chan [[110, 101, 119, 115]], Op.subscribe 1 .pat [[110, 42]]]
    publish true (Code.after {} ops) [110, 101, 119, 115] = [(1, none)] ∧
    Spec.deliveries (Spec.after [] ops) [110, 101, 119, 115] = [(1, none), (1, some [110, 42])] := by
  decide

end Ferrous.C14
