/-
  C18 — each of the numbered databases is an independent key space.

  `KS.step q store i now cmd obs` (Model/Keyspace.lean, tied to the server by C01/C03) runs one command on
  database `i`; `Dbs.exec w q state now c request` (Model/Dbs.lean, tied to the server by lib/c18.py) is one
  request of connection `c` — sent directly, queued in MULTI and run by EXEC, run from a script, or completed
  later as a blocking pop — and decides WHICH `i` every command gets.  `Switches.fixed` is the prescribed
  machine; `codeSwitches` (Proofs/DbsCode.lean) is the machine as /repo's source has it today, read off the
  dispatch table that the translator regenerates on every run (Gen/Dispatch.lean).  Since /repo commits b74cb7f
  (EVALSHA passes `db`), 0c66cae (script FLUSHDB/DBSIZE/KEYS get `db`) and 2147747 (SELECT inside MULTI) the two
  coincide (`code_is_the_spec`, re-proved against the regenerated table on every run), so every theorem about the
  prescribed machine is a theorem about the code variant; the `…_fails` witnesses and `…_partial` theorems are kept
  as statements about the OLD switch values (they describe what each of those commits repaired, and what a
  regression would bring back).  Every store access of the
  machine is logged with the database used (`db`) and the database the property prescribes (`sel`: the
  selection of the connection at that moment; for a served blocking pop the database recorded when it blocked).

  Property theorems only; helper lemmas are in Proofs/Dbs*.lean.
-/
import FerrousSpec.Proofs.DbsSelect
import FerrousSpec.Proofs.DbsCode
set_option linter.unusedSimpArgs false
set_option linter.unusedVariables false
namespace Ferrous.C18
open Ferrous Ferrous.KS Ferrous.Dbs

/-! ### 1. The key-space machine touches one database -/

/-- Frame rule: for every command of the key-space machine except FLUSHALL, every argument list, every
    store and every `i ≠ j`: executing the command on database `i` leaves database `j` exactly as it was. -/
theorem frame_rule (q : Quirks) (s : Store) (i j now : Nat) (cmd : List Bytes) (obs : Option (List Bytes))
    (hij : j ≠ i) (hf : isFlushAll cmd = false) :
    getDb (KS.step q s i now cmd obs).1 j = getDb s j :=
  step_frame q s i j now cmd obs hij hf

/-- Reads are local too: what a command executed on database `i` answers, and what database `i` holds
    afterwards, is the same on any two servers whose database `i` is the same — whatever the other
    fifteen databases contain. -/
theorem reads_only_selected (q : Quirks) (s s' : Store) (i now : Nat) (cmd : List Bytes) (obs : Option (List Bytes))
    (hl : s.length = s'.length) (h : getDb s i = getDb s' i) :
    (KS.step q s i now cmd obs).2 = (KS.step q s' i now cmd obs).2 ∧
    getDb (KS.step q s i now cmd obs).1 i = getDb (KS.step q s' i now cmd obs).1 i :=
  ⟨(step_local q s s' i now cmd obs ⟨hl, h⟩).1, (step_local q s s' i now cmd obs ⟨hl, h⟩).2.2⟩

/-- Isolation over arbitrary command sequences: after ANY sequence of commands executed on any databases,
    database `j` holds exactly what it would hold had only the commands executed on `j` (and the FLUSHALLs,
    which by definition concern every database) been run, in the same order. -/
theorem isolation_over_accesses (q : Quirks) (s : Store) (j : Nat) (as : List Access) :
    getDb (runAcc q s as) j = getDb (runAcc q s (as.filter (concerns j))) j :=
  runAcc_isolated q s j as

/-! ### 2. The connection machine: which database each path uses -/

/-- The machine touches the dataset only through `KS.step` on the logged databases — for every setting of the
    switches, every request, every state. -/
theorem machine_store_is_fold_of_accesses (w : Switches) (q : Quirks) (st : State) (now c : Nat) (r : Req) :
    ∃ as, (exec w q st now c r).1.log = st.log ++ as ∧ (exec w q st now c r).1.store = runAcc q st.store as := by
  obtain ⟨as, h1, h2, _⟩ := (exec_tr w q st now c r).1
  exact ⟨as, h1, h2⟩

/-- In the prescribed machine EVERY access of EVERY history — direct, run by EXEC, made by a script (EVAL or
    EVALSHA), or the pop that serves a blocked client later — uses exactly the database prescribed for it. -/
theorem fixed_paths_use_selection (q : Quirks) (st : State) (evs : List Dbs.Ev) :
    ∃ as, (run Switches.fixed q st evs).log = st.log ++ as ∧ ∀ a ∈ as, a.db = a.sel := by
  obtain ⟨as, h1, _, h3⟩ := run_logs Switches.fixed q evs st
  refine ⟨as, h1, fun a ha => ?_⟩
  rcases h3 a ha with h | h | h
  · exact h
  · exact absurd h.1 (by simp [Switches.fixed])
  · exact absurd h.1 (by simp [Switches.fixed])

/-- Any switches (the code as it was, and any regression of that kind): an access uses another database than the
    prescribed one only on the script path, and then it is database 0 — through EVALSHA, or for FLUSHDB/DBSIZE/KEYS inside any script. -/
theorem code_paths_use_selection_partial (w : Switches) (q : Quirks) (st : State) (evs : List Dbs.Ev) :
    ∃ as, (run w q st evs).log = st.log ++ as ∧
      ∀ a ∈ as, a.db ≠ a.sel →
        a.db = 0 ∧ ((w.evalshaDb0 = true ∧ a.path = .script true) ∨
                    (w.scriptDbCmdsDb0 = true ∧ (∃ b, a.path = .script b) ∧ scriptDbCmds.contains (nameOf a.cmd) = true)) := by
  obtain ⟨as, h1, _, h3⟩ := run_logs w q evs st
  refine ⟨as, h1, fun a ha hne => ?_⟩
  rcases h3 a ha with h | h | h
  · exact absurd h hne
  · exact ⟨h.2.2, Or.inl ⟨h.1, h.2.1⟩⟩
  · exact ⟨h.2.2.2, Or.inr ⟨h.1, h.2.1, h.2.2.1⟩⟩

/-- Frame rule lifted to the connection machine, all four paths: a request of connection `c`, which has database
    `i` selected, that neither selects nor flushes everything (`Clean`, also for what EXEC finds in the queue) leaves
    every database `j ≠ i` untouched — whether its commands run directly, from the queue, inside a script, or as the
    pop serving a client that was blocked (in database `i`: the registry is per database). -/
theorem conn_step_frame (q : Quirks) (st : State) (now c i j : Nat) (r : Req)
    (hsel : (st.conns c).db = i) (hw : st.wakes = [])
    (hr : Clean false r) (hq : reqName r = "EXEC" → ∀ x ∈ (st.conns c).queue, Clean false x) (hj : j ≠ i) :
    getDb (exec Switches.fixed q st now c r).1.store j = getDb st.store j := by
  have hB := (exec_B Switches.fixed q i false c st now r hr hq ⟨hsel, by simp [hw]⟩).1
  have hA := (exec_tr Switches.fixed q st now c r).1
  apply Logs.frame (q := q)
  refine Logs.mono ?_ (Logs.both hA hB)
  rintro a ⟨hd, hs, hf, _⟩
  have hdb : a.db = a.sel := by
    rcases hd with h | h | h
    · exact h
    · exact absurd h.1 (by simp [Switches.fixed])
    · exact absurd h.1 (by simp [Switches.fixed])
  simp only [concerns, hf, Bool.or_false, beq_eq_false_iff_ne, ne_eq]
  rw [hdb, hs]; exact fun e => hj e.symm

/-- The same for any switches, outside the deviations: when the connection has database 0
    selected, or when the request (and the queue) contains no script. -/
theorem conn_step_frame_partial (w : Switches) (q : Quirks) (st : State) (now c i j : Nat) (ns : Bool) (r : Req)
    (hsel : (st.conns c).db = i) (hw : st.wakes = [])
    (hr : Clean ns r) (hq : reqName r = "EXEC" → ∀ x ∈ (st.conns c).queue, Clean ns x)
    (hex : i = 0 ∨ ns = true) (hj : j ≠ i) :
    getDb (exec w q st now c r).1.store j = getDb st.store j := by
  have hB := (exec_B w q i ns c st now r hr hq ⟨hsel, by simp [hw]⟩).1
  have hA := (exec_tr w q st now c r).1
  apply Logs.frame (q := q)
  refine Logs.mono ?_ (Logs.both hA hB)
  rintro a ⟨hd, hs, hf, hp⟩
  have hdb : a.db = i := by
    rcases hd with h | h | h
    · rw [h, hs]
    · rcases hex with h0 | h1
      · rw [h.2.2, h0]
      · exact absurd h.2.1 (hp h1 true)
    · rcases hex with h0 | h1
      · rw [h.2.2.2, h0]
      · obtain ⟨b, hb⟩ := h.2.1
        exact absurd hb (hp h1 b)
  simp only [concerns, hf, Bool.or_false, beq_eq_false_iff_ne, ne_eq]
  rw [hdb]; exact fun e => hj e.symm

/-- Isolation over arbitrary interleaved histories of several connections (prescribed machine): after any
    history, database `j` holds exactly what results from running, in order, the commands that were executed
    with selection `j` (plus the FLUSHALLs) — the commands executed under any other selection, by whatever
    connection and through whatever path, do not matter. -/
theorem isolation_over_histories (q : Quirks) (st : State) (evs : List Dbs.Ev) (j : Nat) :
    ∃ as, (run Switches.fixed q st evs).log = st.log ++ as ∧
      getDb (run Switches.fixed q st evs).store j =
        getDb (runAcc q st.store (as.filter fun a => a.sel == j || isFlushAll a.cmd)) j := by
  obtain ⟨as, h1, h2, h3⟩ := run_logs Switches.fixed q evs st
  refine ⟨as, h1, ?_⟩
  rw [h2, runAcc_isolated]
  have : as.filter (concerns j) = as.filter (fun a => a.sel == j || isFlushAll a.cmd) := by
    apply List.filter_congr
    intro a ha
    have hdb : a.db = a.sel := by
      rcases h3 a ha with h | h | h
      · exact h
      · exact absurd h.1 (by simp [Switches.fixed])
      · exact absurd h.1 (by simp [Switches.fixed])
    simp [concerns, hdb]
  rw [this]

/-- Any switch setting equals the prescribed machine — same replies, same deliveries, same post-state — on every
    request outside the three deviations: no EVALSHA, no FLUSHDB/DBSIZE/KEYS inside a script, no SELECT waiting in
    the queue of a transaction (each only as far as the corresponding switch is on). -/
theorem code_is_spec_partial (w : Switches) (q : Quirks) (st : State) (now c : Nat) (r : Req)
    (hr : Benign w false r) (hq : ∀ x ∈ (st.conns c).queue, Benign w true x) :
    exec w q st now c r = exec Switches.fixed q st now c r :=
  exec_eq_fixed w q st now c r hr hq

/-! ### 3. SELECT -/

/-- SELECT with anything but exactly one argument that `usize::from_str` accepts and that is below 16 is refused
    and changes nothing: the selection of every connection, the dataset, the MULTI state all stay (any switches). -/
theorem select_out_of_range_refused_keeps (w : Switches) (q : Quirks) (st : State) (now c : Nat)
    (n : Bytes) (args : List Bytes) (obs : Option (List Bytes))
    (hn : nameOf (n :: args) = "SELECT") (hb : (st.conns c).blocked = false) (hm : (st.conns c).inMulti = false)
    (hw : st.wakes = []) (hbad : selectArg args = none) :
    (exec w q st now c (.plain (n :: args) obs)).2.reply = some err ∧
    (exec w q st now c (.plain (n :: args) obs)).1.conns = st.conns ∧
    (exec w q st now c (.plain (n :: args) obs)).1.store = st.store := by
  simp [exec, reqName, hn, hb, hm, dispatch, doSelect, hbad, processWakes_nil q now st hw]

/-- what "refused" covers: wrong arity; every text that is not an unsigned decimal number (optional `+`); every
    number ≥ 16, however large (also beyond 2^64); everything starting with `-` -/
theorem select_refused_arguments :
    (∀ args : List Bytes, args.length ≠ 1 → selectArg args = none) ∧
    (∀ a : Bytes, parseU64 a = none → selectArg [a] = none) ∧
    (∀ k : Nat, 16 ≤ k → selectArg [natDigits k] = none) ∧
    (∀ t : Bytes, selectArg [45 :: t] = none) := by
  refine ⟨selectArg_arity, ?_, ?_, selectArg_neg⟩
  · intro a h; exact (selectArg_none_iff a).mpr (Or.inl h)
  · intro k hk
    rw [selectArg_natDigits]
    have : ¬ k < numDbs := by unfold numDbs; omega
    simp [this]

/-- a valid SELECT (direct path) answers OK and selects that database on this connection; the dataset is untouched -/
theorem select_valid_selects (w : Switches) (q : Quirks) (st : State) (now c k : Nat)
    (n : Bytes) (args : List Bytes) (obs : Option (List Bytes))
    (hn : nameOf (n :: args) = "SELECT") (hb : (st.conns c).blocked = false) (hm : (st.conns c).inMulti = false)
    (hw : st.wakes = []) (hok : selectArg args = some k) :
    (exec w q st now c (.plain (n :: args) obs)).2.reply = some ok ∧
    ((exec w q st now c (.plain (n :: args) obs)).1.conns c).db = k ∧ k < 16 ∧
    (exec w q st now c (.plain (n :: args) obs)).1.store = st.store := by
  have hk := selectArg_some_lt hok
  simp [exec, reqName, hn, hb, hm, dispatch, doSelect, hok, processWakes_nil, updConn, hw]
  exact hk

/-- The selection is per connection: whatever connection `c` sends — through any path, with any switches —
    the selection, the MULTI state and the queue of every OTHER connection stay as they were. -/
theorem selection_per_connection (w : Switches) (q : Quirks) (st : State) (now c c' : Nat) (r : Req) (h : c' ≠ c) :
    ((exec w q st now c r).1.conns c').db = (st.conns c').db ∧
    ((exec w q st now c r).1.conns c').inMulti = (st.conns c').inMulti ∧
    ((exec w q st now c r).1.conns c').queue = (st.conns c').queue :=
  (exec_tr w q st now c r).2 c' h

/-- … hence over whole histories (requests, time-outs of blocked clients, hang-ups): whatever the other connections do, in
    any interleaving and through any path, a connection that sends nothing keeps its selection (and its open transaction). -/
theorem selection_untouched_by_others (w : Switches) (q : Quirks) (c' : Nat) (evs : List Dbs.Ev) :
    ∀ (st : State), (∀ e ∈ evs, e.conn ≠ c') →
      ((run w q st evs).conns c').db = (st.conns c').db ∧ ((run w q st evs).conns c').inMulti = (st.conns c').inMulti ∧
      ((run w q st evs).conns c').queue = (st.conns c').queue := by
  induction evs with
  | nil => intro st _; exact ⟨rfl, rfl, rfl⟩
  | cons e rest ih =>
    intro st h
    have h1 := (stepEv_tr w q st e).2 c' (fun x => h e (by simp) x.symm)
    have h2 := ih (stepEv w q st e) (fun x hx => h x (by simp [hx]))
    simp only [run, List.foldl_cons] at h2 ⊢
    exact ⟨h2.1.trans h1.1, h2.2.1.trans h1.2.1, h2.2.2.trans h1.2.2⟩

/-! ### 4. FLUSHDB and FLUSHALL -/

/-- FLUSHDB sent by a connection with database `i` selected empties database `i` and nothing else. -/
theorem flushdb_only_selected (q : Quirks) (st : State) (now c i : Nat) (n : Bytes) (obs : Option (List Bytes))
    (hn : nameOf [n] = "FLUSHDB") (hsel : (st.conns c).db = i) (hi : i < st.store.length)
    (hb : (st.conns c).blocked = false) (hm : (st.conns c).inMulti = false) (hw : st.wakes = []) :
    getDb (exec Switches.fixed q st now c (.plain [n] obs)).1.store i = [] ∧
    ∀ j, j ≠ i → getDb (exec Switches.fixed q st now c (.plain [n] obs)).1.store j = getDb st.store j := by
  constructor
  · have hne : ∀ s : String, s ≠ "FLUSHDB" → ¬ nameOf [n] = s := fun s hs e => hs (e.symm.trans hn)
    simp [exec, reqName, hb, hm, dispatch, hne, access, step_flushdb q _ _ now n obs hn, processWakes_nil, hw, hsel,
      getDb_setDb_self _ _ _ hi]
  · intro j hj
    refine conn_step_frame q st now c i j (.plain [n] obs) hsel hw ?_ ?_ hj
    · simp [Clean, hn]
    · intro he; simp [reqName, hn] at he

/-- FLUSHALL empties all of them, whatever is selected. -/
theorem flushall_all (q : Quirks) (st : State) (now c j : Nat) (n : Bytes) (obs : Option (List Bytes))
    (hn : nameOf [n] = "FLUSHALL")
    (hb : (st.conns c).blocked = false) (hm : (st.conns c).inMulti = false) (hw : st.wakes = []) :
    getDb (exec Switches.fixed q st now c (.plain [n] obs)).1.store j = [] := by
  have hne : ∀ s : String, s ≠ "FLUSHALL" → ¬ nameOf [n] = s := fun s hs e => hs (e.symm.trans hn)
  simp [exec, reqName, hb, hm, dispatch, hne, access, step_flushall q _ _ now n obs hn, processWakes_nil, hw,
    getDb_flushed]

/-! ### 5. Tables regenerated from the source -/

set_option maxRecDepth 20000

/-- commands that read or write the key space of ONE database: they must be handed the connection's `db` -/
def dataNames : List String :=
  (KS.cmdNames.filter fun n => n != "FLUSHALL") ++
  ["ZREM", "ZSCORE", "ZCARD", "ZRANK", "ZREVRANK", "ZRANGE", "ZREVRANGE", "ZRANGEBYSCORE", "ZREVRANGEBYSCORE", "ZCOUNT",
   "ZINCRBY", "ZPOPMIN", "ZPOPMAX",
   "XRANGE", "XREVRANGE", "XLEN", "XREAD", "XTRIM", "XDEL", "XGROUP", "XREADGROUP", "XACK", "XCLAIM", "XPENDING", "XINFO",
   "SCAN", "HSCAN", "SSCAN", "ZSCAN", "EVAL", "EVALSHA", "BLPOP", "BRPOP", "MEMORY"]

/-- everything else the dispatch knows: connection, server, persistence, replication, introspection, all-database commands -/
def nonDataNames : List String :=
  ["VERIF", "PING", "ECHO", "SELECT", "FLUSHALL", "SLEEP", "CONFIG", "SAVE", "BGSAVE", "LASTSAVE", "BGREWRITEAOF", "INFO", "SLOWLOG",
   "CLIENT", "AUTH", "REPLICAOF", "SLAVEOF", "SYNC", "PSYNC", "QUIT", "COMMAND", "SHUTDOWN", "SCRIPT",
   "PUBLISH",   -- PUBLISH has an arm since b37919c (a queued PUBLISH run by EXEC); no key space involved
   "UNWATCH"]   -- UNWATCH has an arm since 7dd14e2 (a queued UNWATCH run by EXEC answers OK); no key space involved

/-- Every arm of the dispatch is classified: a command added to the server without deciding whether it touches
    the key space breaks this theorem. -/
theorem every_command_classified : ∀ c ∈ Gen.Dispatch.dispatch, c.1 ∈ dataNames ∨ c.1 ∈ nonDataNames := by decide

theorem classification_disjoint : ∀ n ∈ dataNames, n ∉ nonDataNames := by decide

/-- Every data command is handed the database the connection has selected — full statement, no exception list
    (until b74cb7f the EVALSHA arm was the one exception; dropping `db` from any data arm breaks this theorem). -/
theorem every_data_command_gets_db : ∀ c ∈ Gen.Dispatch.dispatch, c.1 ∈ dataNames → c.2 = true := by decide

/-- in particular both script entry points -/
theorem eval_and_evalsha_get_db : ("EVAL", true) ∈ Gen.Dispatch.dispatch ∧ ("EVALSHA", true) ∈ Gen.Dispatch.dispatch := by decide

/-- no data command is answered before the dispatch (where no database index is in sight) -/
theorem pre_dispatch_not_data : ∀ n ∈ Gen.Dispatch.preDispatch, n ∉ dataNames := by decide

/-- every command of the key-space machine is an arm of the server's dispatch -/
theorem model_vocabulary_dispatched : ∀ n ∈ KS.cmdNames, (n, true) ∈ Gen.Dispatch.dispatch ∨ (n, false) ∈ Gen.Dispatch.dispatch := by decide

/-- The code variant IS the prescribed machine: read off the regenerated tables, no switch is on (EVALSHA's arm passes
    `db`, `execute_database` gets `db`, `handle_exec` executes a queued SELECT on the real connection); 16 databases,
    one blocking registry each.  A regression at any of the three sites flips a generated constant and breaks this. -/
theorem code_is_the_spec :
    codeSwitches = Switches.fixed ∧
    Gen.Dispatch.numDatabases = numDbs ∧ Gen.Dispatch.blockingRegistries = numDbs ∧ emptyStore.length = numDbs := by decide

/-- Hence, for the machine as the source has it today: every access of every history, on all four paths, uses the
    database prescribed for it … -/
theorem code_paths_use_selection (q : Quirks) (st : State) (evs : List Dbs.Ev) :
    ∃ as, (run codeSwitches q st evs).log = st.log ++ as ∧ ∀ a ∈ as, a.db = a.sel := by
  rw [code_is_the_spec.1]; exact fixed_paths_use_selection q st evs

/-- … the numbered databases are isolated over arbitrary interleaved histories … -/
theorem code_isolation_over_histories (q : Quirks) (st : State) (evs : List Dbs.Ev) (j : Nat) :
    ∃ as, (run codeSwitches q st evs).log = st.log ++ as ∧
      getDb (run codeSwitches q st evs).store j =
        getDb (runAcc q st.store (as.filter fun a => a.sel == j || isFlushAll a.cmd)) j := by
  rw [code_is_the_spec.1]; exact isolation_over_histories q st evs j

/-- … and a request that neither selects nor flushes everything leaves every database but the selected one untouched. -/
theorem code_conn_step_frame (q : Quirks) (st : State) (now c i j : Nat) (r : Req)
    (hsel : (st.conns c).db = i) (hw : st.wakes = [])
    (hr : Clean false r) (hq : reqName r = "EXEC" → ∀ x ∈ (st.conns c).queue, Clean false x) (hj : j ≠ i) :
    getDb (exec codeSwitches q st now c r).1.store j = getDb st.store j := by
  rw [code_is_the_spec.1]; exact conn_step_frame q st now c i j r hsel hw hr hq hj

/-! ### 6. SELECT inside MULTI -/

/-- Prescribed (what Redis does): a SELECT queued in a transaction is executed by EXEC like any other command — the
    commands queued after it run on the newly selected database and the selection stays after the transaction.
    Stated for `MULTI; SELECT k; cmd; EXEC` with any valid SELECT spelling, any ordinary command (one that cannot serve a
    blocked client) and any state. -/
theorem select_in_multi (q : Quirks) (st : State) (now c k : Nat) (e n0 a n : Bytes) (args : List Bytes) (obs : Option (List Bytes))
    (he : nameOf [e] = "EXEC") (hn : nameOf [n0, a] = "SELECT") (hk : selectArg [a] = some k)
    (h1 : nameOf (n :: args) ≠ "SELECT") (h2 : nameOf (n :: args) ≠ "BLPOP") (h3 : nameOf (n :: args) ≠ "BRPOP")
    (h4 : nameOf (n :: args) ≠ "LPUSH") (h5 : nameOf (n :: args) ≠ "RPUSH")
    (h6 : nameOf (n :: args) ≠ "RENAME") (h7 : nameOf (n :: args) ≠ "RENAMENX")
    (hb : (st.conns c).blocked = false) (hm : (st.conns c).inMulti = true)
    (hq : (st.conns c).queue = [.plain [n0, a] none, .plain (n :: args) obs]) (hw : st.wakes = []) :
    (exec Switches.fixed q st now c (.plain [e] none)).2.reply
        = some (.array [ok, (KS.step q st.store k now (n :: args) obs).2]) ∧
    (exec Switches.fixed q st now c (.plain [e] none)).1.store = (KS.step q st.store k now (n :: args) obs).1 ∧
    ((exec Switches.fixed q st now c (.plain [e] none)).1.conns c).db = k ∧
    ((exec Switches.fixed q st now c (.plain [e] none)).1.conns c).inMulti = false := by
  have hne : ∀ s : String, s ≠ "EXEC" → ¬ nameOf [e] = s := fun s hs x => hs (x.symm.trans he)
  simp [exec, reqName, he, hne, hb, hm, hq, execQueue, dispatch, hn, doSelect, hk, h1, h2, h3, h4, h5, h6, h7, updConn, access,
    processWakes_nil, hw, Switches.fixed]

/-- `MULTI; SELECT 1; SET k v; EXEC` by connection 1 on an empty server -/
def selectInMultiWitness : List Dbs.Ev :=
  [.req 1000 1 (.plain [wMULTI] none), .req 1000 1 (.plain [wSELECT, [49]] none), .req 1000 1 (.plain [wSET, [107], [118]] none),
   .req 1000 1 (.plain [wEXEC] none)]

/-- The code before commit 2147747 (switch `execSelectNoop`) violated it (witness, replayed on the server by lib/c18.py's
    corpus, where it must now behave as prescribed): EXEC re-dispatched with connection id 0, the queued SELECT answered OK
    and selected nothing — `k` lands in database 0, database 1 stays empty and
    the selection is still 0; the prescribed machine puts `k` into database 1 and leaves 1 selected. -/
theorem select_in_multi_fails :
    ((run { execSelectNoop := true } {} {} selectInMultiWitness).conns 1).db = 0 ∧
    getDb (run { execSelectNoop := true } {} {} selectInMultiWitness).store 1 = [] ∧
    getDb (run { execSelectNoop := true } {} {} selectInMultiWitness).store 0 = [([107], ⟨.str [118], none⟩)] ∧
    ((run Switches.fixed {} {} selectInMultiWitness).conns 1).db = 1 ∧
    getDb (run Switches.fixed {} {} selectInMultiWitness).store 1 = [([107], ⟨.str [118], none⟩)] ∧
    getDb (run Switches.fixed {} {} selectInMultiWitness).store 0 = [] := by decide

/-- What did hold for that code: a transaction whose queue contains no SELECT was executed exactly as prescribed. -/
theorem select_in_multi_partial (q : Quirks) (st : State) (now c : Nat) (r : Req)
    (hq : ∀ x ∈ (st.conns c).queue, ∀ a o, x = .plain a o → nameOf a ≠ "SELECT") :
    exec { execSelectNoop := true } q st now c r = exec Switches.fixed q st now c r := by
  apply exec_eq_fixed
  · cases r with
    | plain a o => simp [Benign]
    | script sha cmds pcs => simp [Benign]
  · intro x hx
    cases x with
    | plain a o => intro _; exact hq _ hx a o rfl
    | script sha cmds pcs => simp [Benign]

/-! ### 7. Witnesses for the script path -/

/-- `SELECT 3` by connection 1 -/
def select3 : List Dbs.Ev := [.req 1000 1 (.plain [wSELECT, [51]] none)]

/-- EVALSHA on database 0 (switch `evalshaDb0`, the code before commit b74cb7f) violates the frame rule of the connection
    machine (the exact negation of `conn_step_frame` for that switch): connection 1 has database 3 selected, its EVALSHA of a script doing `SET k v` changes database 0
    and leaves database 3 empty. -/
theorem evalsha_isolation_fails :
    ∃ (st : State) (now c i j : Nat) (r : Req),
      (st.conns c).db = i ∧ st.wakes = [] ∧ Clean false r ∧ reqName r ≠ "EXEC" ∧ j ≠ i ∧
      getDb (exec { evalshaDb0 := true } {} st now c r).1.store j ≠ getDb st.store j ∧
      getDb (exec { evalshaDb0 := true } {} st now c r).1.store i = [] := by
  refine ⟨run {} {} {} select3, 1000, 1, 3, 0, .script true [[wSET, [107], [118]]], by decide, by decide, ?_, by decide, by decide,
    by decide, by decide⟩
  simp only [Clean, List.mem_singleton, forall_eq, true_and]
  decide

/-- `SET zero 1` by connection 2 (database 0); `SELECT 3; SET three 1` by connection 1 -/
def twoDbs : List Dbs.Ev :=
  [.req 1000 2 (.plain [wSET, [122], [49]] none), .req 1000 1 (.plain [wSELECT, [51]] none), .req 1000 1 (.plain [wSET, [116], [49]] none)]

/-- FLUSHDB / DBSIZE from a script acting on database 0 (switch `scriptDbCmdsDb0`, the code before commit 0c66cae;
    same negation, for the second switch): with database 3
    selected, `EVAL "return redis.call('FLUSHDB')" 0` empties database 0 and leaves database 3 as it was, and
    `redis.call('DBSIZE')` counts database 0. -/
theorem script_flushdb_isolation_fails :
    ∃ (st : State) (now c i j : Nat) (r : Req),
      (st.conns c).db = i ∧ st.wakes = [] ∧ Clean false r ∧ reqName r ≠ "EXEC" ∧ j ≠ i ∧
      getDb (exec { scriptDbCmdsDb0 := true } {} st now c r).1.store j ≠ getDb st.store j ∧
      getDb (exec { scriptDbCmdsDb0 := true } {} st now c r).1.store i = getDb st.store i ∧ getDb st.store i ≠ [] := by
  refine ⟨run {} {} {} twoDbs, 1000, 1, 3, 0, .script false [[wFLUSHDB]], by decide, by decide, ?_, by decide, by decide,
    by decide, by decide, by decide⟩
  simp only [Clean, List.mem_singleton, forall_eq, true_and]
  decide

/-! ### Non-vacuity: the hypotheses are satisfiable, and the served path is really exercised -/

example : ({} : State).wakes = [] ∧ (({} : State).conns 1).blocked = false ∧ (({} : State).conns 1).inMulti = false ∧
    ({} : State).store.length = 16 := by decide
example : Clean false (.plain [wGET, [107]] none) := by simp only [Clean]; decide
example : Clean false (.script true [[wSET, [107], [118]], [wGET, [107]]]) := by
  simp only [Clean, true_and]; intro x hx; simp at hx; rcases hx with h | h <;> subst h <;> decide
example : selectArg [[43, 53]] = some 5 ∧ selectArg [[48, 48, 55]] = some 7 ∧ selectArg [[49, 54]] = none ∧
    selectArg [[45, 48]] = none ∧ selectArg [[]] = none ∧ selectArg [[32, 49]] = none ∧ selectArg [[49, 46, 48]] = none ∧
    selectArg [] = none ∧ selectArg [[49], [50]] = none := by decide
/-- connection 1 blocks in database 3 (`SELECT 3; BLPOP l 0`); connection 2 pushes to `l` in database 0 (nobody is
    served), selects 3 and pushes again: the pop that serves connection 1 runs on database 3, the element pushed in
    database 0 is still there. -/
example :
    let evs : List Dbs.Ev :=
      [.req 1 1 (.plain [wSELECT, [51]] none), .req 2 1 (.plain [[66, 76, 80, 79, 80], [108], [48]] none),
       .req 3 2 (.plain [[82, 80, 85, 83, 72], [108], [97]] none), .req 4 2 (.plain [wSELECT, [51]] none),
       .req 5 2 (.plain [[82, 80, 85, 83, 72], [108], [98]] none)]
    (run Switches.fixed {} {} evs).log.map (fun a => (a.path, a.db, a.sel)) =
        [(.direct, 3, 3), (.direct, 0, 0), (.direct, 3, 3), (.served, 3, 3)] ∧
    getDb (run Switches.fixed {} {} evs).store 0 = [([108], ⟨.list [[97]], none⟩)] ∧
    getDb (run Switches.fixed {} {} evs).store 3 = [] ∧
    ((run Switches.fixed {} {} evs).conns 1).blocked = false := by decide

/-- the wake-up is carried out at the end of the pushing command itself (also inside EXEC): connection 2 waits on `k`
    (`BRPOP k 0`), connection 1 runs `MULTI; LPUSH k a; RPUSH k b; EXEC` — the waiter gets `a` before the second push. -/
example :
    let evs : List Dbs.Ev :=
      [.req 1 2 (.plain [[66, 82, 80, 79, 80], [107], [48]] none), .req 2 1 (.plain [wMULTI] none),
       .req 3 1 (.plain [[76, 80, 85, 83, 72], [107], [97]] none), .req 4 1 (.plain [[82, 80, 85, 83, 72], [107], [98]] none),
       .req 5 1 (.plain [wEXEC] none)]
    (run Switches.fixed {} {} evs).log.map (fun a => (a.path, a.db)) = [(.direct, 0), (.exec, 0), (.served, 0), (.exec, 0)] ∧
    getDb (run Switches.fixed {} {} evs).store 0 = [([107], ⟨.list [[98]], none⟩)] ∧
    ((run Switches.fixed {} {} evs).conns 2).blocked = false ∧ (run Switches.fixed {} {} evs).outbox = [] := by decide

/-- multi-key waits, re-selection and reuse of key names: connection 1 waits on `a` and `b` in database 15
    (`SELECT 15; BLPOP a b 0`) and is served through `a`; it then selects database 2 and waits on `b` again.  A push
    to `b` in database 15 (where it once waited) serves nobody and stays in database 15; the push to `b` in database 2
    serves it.  A time-out and a hang-up touch no database. -/
example :
    let evs : List Dbs.Ev :=
      [.req 1 1 (.plain [wSELECT, [49, 53]] none), .req 2 1 (.plain [[66, 76, 80, 79, 80], [97], [98], [48]] none),
       .req 3 2 (.plain [wSELECT, [49, 53]] none), .req 4 2 (.plain [[82, 80, 85, 83, 72], [97], [120]] none),
       .req 5 1 (.plain [wSELECT, [50]] none), .req 6 1 (.plain [[66, 76, 80, 79, 80], [98], [48]] none),
       .req 7 2 (.plain [[82, 80, 85, 83, 72], [98], [121]] none),
       .req 8 3 (.plain [wSELECT, [50]] none), .req 9 3 (.plain [[82, 80, 85, 83, 72], [98], [122]] none),
       .req 10 3 (.plain [[66, 76, 80, 79, 80], [99], [48, 46, 49]] none), .timeout 3, .close 2]
    (run Switches.fixed {} {} evs).log.map (fun a => (a.path, a.db, a.sel)) =
        [(.direct, 15, 15), (.direct, 15, 15), (.direct, 15, 15), (.served, 15, 15), (.direct, 2, 2), (.direct, 15, 15),
         (.direct, 2, 2), (.served, 2, 2), (.direct, 2, 2)] ∧
    getDb (run Switches.fixed {} {} evs).store 15 = [([98], ⟨.list [[121]], none⟩)] ∧
    getDb (run Switches.fixed {} {} evs).store 2 = [] ∧
    (run Switches.fixed {} {} evs).waiting = [] ∧ ((run Switches.fixed {} {} evs).conns 3).blocked = false := by decide

/-- `redis.pcall` is handed the same database as `redis.call`: with database 9 selected, a script that pcalls a failing command
    (`GET` without a key), goes on, pcalls `SET k v` and then `FLUSHDB` — every access is on database 9, database 0 keeps its
    key, and the failed pcall did not abort the script. -/
example :
    let evs : List Dbs.Ev :=
      [.req 1 2 (.plain [wSET, [122], [49]] none), .req 2 1 (.plain [wSELECT, [57]] none),
       .req 3 1 (.script false [[wGET], [wSET, [107], [118]], [wDBSIZE], [wFLUSHDB]] [true, true, false, true])]
    (run Switches.fixed {} {} evs).log.map (fun a => (a.path, a.db, a.sel)) =
        [(.direct, 0, 0), (.script false, 9, 9), (.script false, 9, 9), (.script false, 9, 9), (.script false, 9, 9)] ∧
    getDb (run Switches.fixed {} {} evs).store 9 = [] ∧
    getDb (run Switches.fixed {} {} evs).store 0 = [([122], ⟨.str [49], none⟩)] := by decide

end Ferrous.C18
