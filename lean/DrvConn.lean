import FerrousSpec.Drv.Conn
def main : IO Unit := Ferrous.Drv.Conn.main
