import FerrousSpec.Drv.Groups
def main : IO Unit := Ferrous.Drv.Groups.main
