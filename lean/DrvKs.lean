import FerrousSpec.Drv.Keyspace
def main : IO Unit := Ferrous.Drv.Keyspace.main
