import FerrousSpec.Drv.Tx
def main : IO Unit := Ferrous.Drv.Tx.main
