import FerrousSpec.Drv.Scan
def main : IO Unit := Ferrous.Drv.Scan.main
