import FerrousSpec.Drv.Expiry
def main : IO Unit := Ferrous.Drv.Expiry.main
