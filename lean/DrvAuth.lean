import FerrousSpec.Drv.Auth
def main : IO Unit := Ferrous.Drv.Auth.main
