import FerrousSpec.Drv.Watch
def main : IO Unit := Ferrous.Drv.Watch.main
