import FerrousSpec.Drv.Blocking
def main : IO Unit := Ferrous.Drv.Blocking.main
