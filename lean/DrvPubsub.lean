import FerrousSpec.Drv.PubSub
def main : IO Unit := Ferrous.Drv.PubSub.main
