import FerrousSpec.Drv.Aof
def main : IO Unit := Ferrous.Drv.Aof.main
