import FerrousSpec.Model.Bytes
import FerrousSpec.Model.Resp
import FerrousSpec.Drv.Resp
