-- Root of the library: every model, proof and property module (so `lake build` checks them all).
import FerrousSpec.Model.Bytes
import FerrousSpec.Model.Resp
import FerrousSpec.Drv.Resp
import FerrousSpec.Props.C20
