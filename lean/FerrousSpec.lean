-- Root of the library: every model, proof and property module (so `lake build` checks them all).
import FerrousSpec.Model.Bytes
import FerrousSpec.Model.Resp
import FerrousSpec.Drv.Resp
import FerrousSpec.Props.C20
import FerrousSpec.Model.PubSub
import FerrousSpec.Drv.PubSub
import FerrousSpec.Props.C14
import FerrousSpec.Model.Stream
import FerrousSpec.Drv.Stream
import FerrousSpec.Props.C15
