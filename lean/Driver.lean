/-
  Line-protocol driver: `driver <family>` reads requests on stdin, one per line,
  and answers one line each from the executable Lean models.
-/
import FerrousSpec.Drv.Resp

def main (args : List String) : IO UInt32 := do
  match args with
  | ["resp"] => Ferrous.Drv.Resp.main; return 0
  | _ => IO.eprintln "usage: driver <family>"; return 2
