import FerrousSpec.Drv.Resp
def main : IO Unit := Ferrous.Drv.Resp.main
