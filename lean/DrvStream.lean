import FerrousSpec.Drv.Stream
def main : IO Unit := Ferrous.Drv.Stream.main
