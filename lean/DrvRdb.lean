import FerrousSpec.Drv.Rdb
def main : IO Unit := Ferrous.Drv.Rdb.main
