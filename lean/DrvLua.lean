import FerrousSpec.Drv.Lua
def main : IO Unit := Ferrous.Drv.Lua.main
