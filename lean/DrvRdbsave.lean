import FerrousSpec.Drv.RdbSave
def main : IO Unit := Ferrous.Drv.RdbSave.main
