import FerrousSpec.Drv.Dbs
def main : IO Unit := Ferrous.Drv.Dbs.main
