#!/bin/sh
# Build the framework from files on disk only (offline): translator -> Lean library + driver -> Rust harness -> ferrous binary.
set -e
cd "$(dirname "$0")"
export CARGO_NET_OFFLINE=true
mkdir -p .cache evidence replays
python3 translator/extract.py
(cd lean && lake build)
[ -f harness/Cargo.lock ] || cp /repo/Cargo.lock harness/Cargo.lock
(cd harness && cargo build --offline --quiet --bins)
python3 - <<'PY'
import sys
sys.path.insert(0, "lib")
import common
common.build_server()
PY
echo setup done
