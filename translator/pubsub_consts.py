"""C14: facts about pub/sub that the Lean model takes as switches -> Gen/PubSub.lean.

Called from extract.py (and imported by lib/c14.py, so that the check and the generated Lean
file read the source with the same patterns).  Extracted:
  * `PubSubManager::publish` (src/pubsub.rs): does it still push a receiver only
    `if seen_connections.insert(conn_id)` (one delivery per connection) ?
  * `pattern_matches` (src/pubsub.rs) is exactly one call of the server's glob matcher
    `crate::storage::engine::pattern_matches(pattern, channel)`;
  * that matcher (src/storage/engine.rs): the arms of `match pattern_chars[p_idx]` — the grammar the model's
    `gstep` transliterates (`?`, `*`, `[`, `\\` with the guard `p_idx + 1 < len`, `_`) — and the conditions of
    the `if`s of its `[` arm, in order (the class walk the model's `classGo` transliterates);
  * `handle_unsubscribe` / `handle_punsubscribe` (src/network/server.rs): do they confirm with the
    remaining count when the manager returned no result (client holds nothing) ?
  * `process_connection` / the CLIENT arm (src/network/server.rs): are subscriptions released at the moment a
    connection is marked as closing?  `process_frame`: is there a subscriber-context gate?
  * `Server::cleanup_connections` (src/network/server.rs): does it still skip closing
    connections for which `pubsub.is_subscribed(id)` (a dead subscriber stays subscribed) ?
"""
import re


def facts(src, strip_comments, fn_body):
    """dict(dedup: bool|None, glob_arms: list|None, keeps_dead: bool|None); None = not recognised"""
    out = {"dedup": None, "glob_arms": None, "keeps_dead": None, "acks_when_idle": None, "matcher_is_engine": None, "class_conds": None,
           "releases_at_close": None, "subscriber_gate": None}
    ps = strip_comments(src("pubsub.rs"))
    body = fn_body(ps, "publish")
    if body is not None and "receivers.push" in body:
        out["dedup"] = bool(re.search(r"seen_connections\s*\.\s*insert\s*\(", body))
    pm = fn_body(ps, "pattern_matches")
    if pm is not None:
        out["matcher_is_engine"] = re.sub(r"\s+", "", pm) == "crate::storage::engine::pattern_matches(pattern,channel)"
    en = strip_comments(src("storage/engine.rs"))
    em = fn_body(en, "pattern_matches")
    if em is not None:
        m = re.search(r"match\s+pattern_chars\s*\[\s*p_idx\s*\]\s*\{", em)
        if m:
            # top-level arms of the match: text before each `=>` at brace depth 0
            i, depth, arms, start, blocks = m.end(), 0, [], m.end(), {}
            while i < len(em):
                ch = em[i]
                if ch == "{":
                    if depth == 0:
                        bstart = i
                    depth += 1
                elif ch == "}":
                    if depth == 0:
                        break
                    depth -= 1
                    if depth == 0:
                        start = i + 1
                        if arms:
                            blocks[arms[-1]] = em[bstart + 1:i]
                elif depth == 0 and em.startswith("=>", i):
                    arms.append(re.sub(r"\s+", " ", em[start:i]).strip(" ,"))
                    i += 1
                i += 1
            out["glob_arms"] = arms
            blk = blocks.get("b'['")
            if blk is not None:
                out["class_conds"] = [re.sub(r"\s+", " ", c).strip() for c in re.findall(r"\bif\s+([^{}]*?)\s*\{", blk)]
    sv = strip_comments(src("network/server.rs"))
    fb = []
    for fn in ("handle_unsubscribe", "handle_punsubscribe"):
        hb = fn_body(sv, fn)
        if hb is None or ("pubsub.unsubscribe(" not in hb.replace(" ", "") and "pubsub.punsubscribe(" not in hb.replace(" ", "")):
            fb.append(None)
        else:
            # `if results.is_empty() { … confirmations with the remaining count, nil name when none was given … }`
            fb.append(bool(re.search(r"if\s+results\s*\.\s*is_empty\s*\(\s*\)", hb) and "null_bulk" in hb
                           and re.search(r"get_subscription_info\s*\(", hb)))
    if None not in fb and len(set(fb)) == 1:
        out["acks_when_idle"] = fb[0]
    pc = fn_body(sv, "process_connection")
    if pc is not None and "should_close" in pc:
        # subscriptions released at the moment a connection is marked as closing: on the QUIT / protocol-error path
        # (`if should_close { … self.pubsub.unsubscribe_all(id) … }` in process_connection) and on the CLIENT KILL
        # path (`self.release_closing_subscribers()` after handle_client, and that function exists)
        a = bool(re.search(r"if\s+should_close\s*\{\s*let\s+_\s*=\s*self\s*\.\s*pubsub\s*\.\s*unsubscribe_all\s*\(\s*id\s*\)", pc))
        b = bool(re.search(r"handle_client\s*\([^;]*?\)\s*\}\s*;\s*self\s*\.\s*release_closing_subscribers\s*\(\s*\)", sv, re.S))
        rc = fn_body(sv, "release_closing_subscribers")
        c = rc is not None and "is_closing" in rc and bool(re.search(r"pubsub\s*\.\s*unsubscribe_all\s*\(", rc))
        out["releases_at_close"] = a and b and c
    pf = fn_body(sv, "process_frame")
    if pf is not None and "NOAUTH" in pf:
        out["subscriber_gate"] = bool(re.search(
            r'self\s*\.\s*pubsub\s*\.\s*is_subscribed\s*\(\s*conn_id\s*\)\s*&&\s*!\s*matches!\s*\(\s*command\s*\.\s*as_str\s*\(\s*\)\s*,\s*'
            r'"SUBSCRIBE"\s*\|\s*"UNSUBSCRIBE"\s*\|\s*"PSUBSCRIBE"\s*\|\s*"PUNSUBSCRIBE"\s*\|\s*"PING"\s*\|\s*"QUIT"\s*\)', pf))
    cb = fn_body(sv, "cleanup_connections")
    if cb is not None and "is_closing" in cb:
        out["keeps_dead"] = bool(re.search(r"pubsub\s*\.\s*is_subscribed\s*\(", cb))
    return out


def lean_str(s):
    return '"' + s.replace("\\", "\\\\").replace('"', '\\"') + '"'


def generate(src, strip_comments, fn_body, header):
    f = facts(src, strip_comments, fn_body)
    lines = [header, "namespace Ferrous.Gen", ""]
    if f["dedup"] is None:
        lines.append('def pubsubDedup : Bool := extraction_failed "PubSubManager::publish not recognised in src/pubsub.rs"')
    else:
        lines.append("/-- `PubSubManager::publish` pushes a receiver only `if seen_connections.insert(conn_id)`:")
        lines.append("    one delivery per connection (true) instead of one per matching subscription (false). -/")
        lines.append("def pubsubDedup : Bool := %s" % ("true" if f["dedup"] else "false"))
    if f["matcher_is_engine"] is None:
        lines.append('def pubsubMatcherIsEngine : Bool := extraction_failed "pattern_matches not found in src/pubsub.rs"')
    else:
        lines.append("/-- `pubsub::pattern_matches` is exactly `crate::storage::engine::pattern_matches(pattern, channel)` -/")
        lines.append("def pubsubMatcherIsEngine : Bool := %s" % ("true" if f["matcher_is_engine"] else "false"))
    if f["glob_arms"] is None:
        lines.append('def pubsubGlobArms : List String := extraction_failed "match pattern_chars[p_idx] not found in pattern_matches (src/storage/engine.rs)"')
    else:
        lines.append("/-- the arms of `match pattern_chars[p_idx]` in `pattern_matches` (src/storage/engine.rs), whitespace-normalised -/")
        lines.append("def pubsubGlobArms : List String := [%s]" % ", ".join(lean_str(a) for a in f["glob_arms"]))
    if f["class_conds"] is None:
        lines.append('def pubsubClassConds : List String := extraction_failed "the `[` arm of pattern_matches (src/storage/engine.rs) was not found"')
    else:
        lines.append("/-- the conditions of the `if`s in the `[` arm of that matcher, in source order -/")
        lines.append("def pubsubClassConds : List String := [%s]" % ", ".join(lean_str(a) for a in f["class_conds"]))
    if f["keeps_dead"] is None:
        lines.append('def pubsubKeepsDeadSubscribers : Bool := extraction_failed "Server::cleanup_connections not recognised in src/network/server.rs"')
    else:
        lines.append("/-- `Server::cleanup_connections` skips closing connections that hold subscriptions (true):")
        lines.append("    a subscriber that went away stays subscribed until writes to it fail. -/")
        lines.append("def pubsubKeepsDeadSubscribers : Bool := %s" % ("true" if f["keeps_dead"] else "false"))
    if f["acks_when_idle"] is None:
        lines.append('def pubsubAcksWhenIdle : Bool := extraction_failed "handle_unsubscribe / handle_punsubscribe not recognised or not uniform (src/network/server.rs)"')
    else:
        lines.append("/-- `handle_unsubscribe` / `handle_punsubscribe` write confirmations themselves when the manager returned")
        lines.append("    no result (`if results.is_empty()`: one per name given or one with a nil name, with the remaining count). -/")
        lines.append("def pubsubAcksWhenIdle : Bool := %s" % ("true" if f["acks_when_idle"] else "false"))
    if f["releases_at_close"] is None:
        lines.append('def pubsubReleasesAtClose : Bool := extraction_failed "Server::process_connection (should_close) not recognised in src/network/server.rs"')
    else:
        lines.append("/-- subscriptions are released at the moment a connection is marked as closing (QUIT / protocol error in")
        lines.append("    process_connection, CLIENT KILL via release_closing_subscribers) and not only when it is removed -/")
        lines.append("def pubsubReleasesAtClose : Bool := %s" % ("true" if f["releases_at_close"] else "false"))
    if f["subscriber_gate"] is None:
        lines.append('def pubsubSubscriberGate : Bool := extraction_failed "Server::process_frame (authentication gate) not recognised in src/network/server.rs"')
    else:
        lines.append("/-- subscriber context: process_frame refuses everything but (P)SUBSCRIBE, (P)UNSUBSCRIBE, PING, QUIT from a")
        lines.append("    connection for which pubsub.is_subscribed -/")
        lines.append("def pubsubSubscriberGate : Bool := %s" % ("true" if f["subscriber_gate"] else "false"))
    lines += ["", "end Ferrous.Gen", ""]
    return "\n".join(lines)
