"""C02: facts about expiry in the storage engine -> Gen/Expiry.lean.

Called from extract.py (`gen_expiry`) and imported by lib/c02.py (`facts`), which sends the same
facts to the Lean driver as a `cfg` line, so that the driver never imports a generated file.

Per `pub fn` of `impl StorageEngine` (src/storage/engine.rs), from its brace-matched body:
  testsExpiry   mentions `is_expired(` (directly), or reads the value through `self.get(` / `self.get_string(`,
                or `get_shard` itself tests expiry (a central lazy-expiry helper) and the function calls `get_shard`
  reaps         ... and removes the entry from `data` and `expiring_keys` when the test fires
  compares      compares `expires_at` with a clock reading of its own (`ttl`)
  writesIndex   `expiring_keys.insert(`
  removesIndex  `expiring_keys.remove(` / `expiring_keys.clear(`
  mutates       `data.insert(` / `data.remove(` / `data.clear(` / `mark_modified(` / `set_expiration(` / `clear_expiration(`
  readsData     looks at `data` at all (the universe of the lazily-checked / not lazily-checked split)
and for the sweeper (`expiration_cleanup_loop`): collects from the index with `<= now`; re-tests the stored
value (`is_expired(`) after taking the write lock.  The heuristics are validated by the dynamic matrix of lib/c02.py:
a table entry contradicted by observed behaviour is a correspondence failure.
"""
import re

SHRINK_FNS = ["lpop", "rpop", "ltrim", "lrem", "srem", "spop", "hdel", "zrem"]
# overwrite / clear without looking at what is stored: no lazy test is needed for them to behave as prescribed
BLIND_FNS = ["set_value", "set_string", "set_string_ex", "flush_db"]
TTL_ARMS_EXPECTED = [
    "duration.as_secs() == 0 && duration.subsec_millis() == 0 => -2",
    "duration.as_secs() == 0 && duration.subsec_millis() > 0 => 1",
    "nanos > 0 => (secs + 1) as i64",
    "else => secs as i64",
]


def _norm(s):
    return re.sub(r"\s+", " ", s).strip()


def impl_fns(text):
    """(name, body) of every `fn` inside `impl StorageEngine { ... }`."""
    m = re.search(r"\bimpl\s+StorageEngine\s*\{", text)
    if not m:
        return None
    i, depth = m.end(), 1
    while i < len(text) and depth:
        if text[i] == "{":
            depth += 1
        elif text[i] == "}":
            depth -= 1
        i += 1
    block = text[m.end():i - 1]
    out = []
    for fm in re.finditer(r"\b(pub\s+)?fn\s+(\w+)\b[^{;]*\{", block):
        # only functions at nesting depth 0 of the impl block
        if block.count("{", 0, fm.start()) != block.count("}", 0, fm.start()):
            continue
        j, d = fm.end(), 1
        while j < len(block) and d:
            if block[j] == "{":
                d += 1
            elif block[j] == "}":
                d -= 1
            j += 1
        out.append((fm.group(2), bool(fm.group(1)), block[fm.end():j - 1]))
    return out


def facts(src, strip_comments, fn_body):
    """dict of everything extracted; `errors` lists the patterns that no longer match."""
    errors = []
    text = strip_comments(src("storage/engine.rs"))
    fns = impl_fns(text)
    res = {"errors": errors, "fns": [], "sweeperRechecks": False, "sweeperCollectsFromIndex": False,
           "centralLazy": False, "expiredIsStrict": False, "ttlComparesStrict": False,
           "ttlArms": [], "ttlLastMsFixed": False, "zsetOneCall": False, "scriptClockFrozen": False, "pttlFloorsMillis": False, "snapshotReadsThroughGet": False}
    if not fns:
        errors.append("impl StorageEngine not found in storage/engine.rs")
        return res
    bodies = {n: b for n, _, b in fns}
    gs = bodies.get("get_shard")
    if gs is None:
        errors.append("get_shard not found")
        gs = ""
    central = "is_expired(" in gs
    res["centralLazy"] = central
    for name, is_pub, body in fns:
        if not is_pub or name in ("new", "new_in_memory", "with_config"):
            continue
        direct = "is_expired(" in body
        via_get = bool(re.search(r"\bself\.get(_string)?\(", body))
        via_central = central and "get_shard(" in body
        reaps_direct = direct and "data.remove(" in body and "expiring_keys.remove(" in body
        tests = direct or via_get or via_central
        # `get` reaps; functions that read through it inherit that; a central helper reaps by construction
        reaps = reaps_direct or via_get or via_central
        f = {
            "name": name,
            "testsExpiry": tests,
            "reaps": bool(tests and reaps),
            "compares": bool(re.search(r"expires_at\s*[<>]=?\s*now|now\s*[<>]=?\s*expires_at", body)),
            "writesIndex": "expiring_keys.insert(" in body,
            "removesIndex": bool(re.search(r"expiring_keys\.(remove|clear)\(", body)),
            "mutates": bool(re.search(r"data\.(insert|remove|clear)\(|mark_modified\(|set_expiration\(|clear_expiration\(", body)) or
                       bool(re.search(r"\bself\.(set_value|incr_by|expire)\(", body)),
            "readsData": bool(re.search(r"\.data\.(get|get_mut|remove|insert|keys|iter|contains_key)\(", body)) or via_get or
                         bool(re.search(r"\bself\.(set_value|incr_by|expire|ttl|exists)\(", body)),
        }
        res["fns"].append(f)
    # a function that works through another storage function of the engine looks at `data` too (zcount -> zrangebyscore)
    changed = True
    while changed:
        changed = False
        by = {x["name"]: x for x in res["fns"]}
        for x in res["fns"]:
            if not x["readsData"]:
                for callee in re.findall(r"\bself\.(\w+)\(", bodies.get(x["name"], "")):
                    if callee in by and by[callee]["readsData"]:
                        x["readsData"] = True
                        changed = True
                        break
    # a function that only delegates (no access to `data` of its own) is lazily checked iff everything it delegates to is
    changed = True
    while changed:
        changed = False
        by = {x["name"]: x for x in res["fns"]}
        for x in res["fns"]:
            body = bodies.get(x["name"], "")
            if x["testsExpiry"] or ".data." in body:
                continue
            callees = [by[c] for c in re.findall(r"\bself\.(\w+)\(", body) if c in by and by[c]["readsData"]]
            if callees and all(c["testsExpiry"] for c in callees):
                x["testsExpiry"] = True
                x["reaps"] = all(c["reaps"] for c in callees)
                changed = True
    if not any(f["name"] == "get" and f["testsExpiry"] and f["reaps"] for f in res["fns"]):
        errors.append("`get` no longer tests and removes an expired entry (the anchor of the lazy-expiry heuristics)")
    # sweeper
    sw = bodies.get("expiration_cleanup_loop")
    if sw is None:
        errors.append("expiration_cleanup_loop not found")
    else:
        res["sweeperCollectsFromIndex"] = bool(re.search(r"expiring_keys\.iter\(\)", sw) and re.search(r"\*?expires_at\s*<=\s*now", sw))
        if not res["sweeperCollectsFromIndex"]:
            errors.append("sweeper collect phase (expiring_keys.iter() ... expires_at <= now) not recognised")
        w = sw.find(".write()")
        if w < 0:
            errors.append("sweeper delete phase (shard.write()) not found")
        else:
            res["sweeperRechecks"] = "is_expired(" in sw[w:]
    # value.rs: the comparison operators
    val = strip_comments(src("storage/value.rs"))
    ie = fn_body(val, "is_expired") or ""
    res["expiredIsStrict"] = bool(re.search(r"(Instant|clock)::now\(\)\s*>\s*expires_at", ie))
    if not res["expiredIsStrict"] and not re.search(r"(Instant|clock)::now\(\)\s*>=\s*expires_at", ie):
        errors.append("ValueMetadata::is_expired comparison not recognised")
    tb = bodies.get("ttl", "")
    res["ttlComparesStrict"] = bool(re.search(r"if\s+expires_at\s*>\s*now", tb))
    if not res["ttlComparesStrict"]:
        errors.append("StorageEngine::ttl comparison (expires_at > now) not recognised")
    pt = bodies.get("pttl", "")
    res["pttlFloorsMillis"] = bool(re.search(r"duration\.as_millis\(\)\s+as\s+i64", pt))
    if not res["pttlFloorsMillis"]:
        errors.append("StorageEngine::pttl (duration.as_millis() as i64) not recognised")
    # handle_ttl: the if-chain on Some(duration)
    srv = strip_comments(src("network/server.rs"))
    ht = fn_body(srv, "handle_ttl") or ""
    m = re.search(r"Some\(duration\)\s*=>\s*\{(.*?)Ok\(RespFrame::Integer\(remaining_seconds\)\)", ht, re.S)
    arms = []
    if m:
        chain = m.group(1)
        a = re.search(r"if\s+(.*?)\{\s*(-?\d+)\s*\}\s*else\s+if\s+(.*?)\{\s*(-?\d+)\s*\}\s*else\s*\{(.*)\}\s*;", chain, re.S)
        if a:
            arms.append("%s => %s" % (_norm(a.group(1)), a.group(2)))
            arms.append("%s => %s" % (_norm(a.group(3)), a.group(4)))
            inner = a.group(5)
            b = re.search(r"if\s+(.*?)\{\s*(.*?)\s*\}\s*else\s*\{\s*(.*?)\s*\}", inner, re.S)
            if b and re.search(r"let\s+secs\s*=\s*duration\.as_secs\(\)", inner) and re.search(r"let\s+nanos\s*=\s*duration\.subsec_nanos\(\)", inner):
                arms.append("%s => %s" % (_norm(b.group(1)), _norm(b.group(2))))
                arms.append("else => %s" % _norm(b.group(3)))
    res["ttlArms"] = arms
    res["ttlLastMsFixed"] = bool(arms) and bool(re.match(r"duration\.(is_zero\(\)|as_nanos\(\) == 0) =>", arms[0]))
    if len(arms) != 4:
        errors.append("handle_ttl arithmetic (if-chain on Some(duration)) not recognised")
    # multi-member sorted-set writes: one storage call per command (zadd_many / zrem_many / zpop), or one per member?
    exe = strip_comments(src("storage/commands/executor.rs"))
    hz = {n: fn_body(srv, n) or "" for n in ("handle_zadd", "handle_zrem", "handle_zpopmin", "handle_zpopmax")}
    ex = fn_body(exe, "execute_sorted_set") or ""
    one = ("storage.zadd_many(" in hz["handle_zadd"] and "storage.zrem_many(" in hz["handle_zrem"] and
           "storage.zpop(" in hz["handle_zpopmin"] and "storage.zpop(" in hz["handle_zpopmax"] and
           not any(re.search(r"storage\.(zadd|zrem)\(", b) for b in hz.values()) and
           "storage.zadd_many(" in ex and "storage.zrem_many(" in ex and "storage.zpop(" in ex and
           not re.search(r"storage\.(zadd|zrem)\(", ex))
    per = (re.search(r"storage\.zadd\(", hz["handle_zadd"]) and re.search(r"storage\.zrem\(", hz["handle_zrem"]) and
           re.search(r"storage\.zrem\(", hz["handle_zpopmin"]) and re.search(r"storage\.zrem\(", hz["handle_zpopmax"]) and
           "zadd_many(" not in hz["handle_zadd"] + ex)
    res["zsetOneCall"] = bool(one)
    if not one and not per:
        errors.append("sorted-set write handlers (handle_zadd/zrem/zpopmin/zpopmax, execute_sorted_set) are neither all per-member loops nor all single storage calls")
    # one script / one EXEC = one clock reading: storage::clock, frozen by EVAL / EVALSHA / EXEC, read by every expiry site
    import os as _os
    try:
        clock = strip_comments(src("storage/clock.rs"))
    except OSError:
        clock = ""
    lua_cmd = strip_comments(src("storage/commands/lua.rs"))
    # the function that evaluates: handle_eval_with_publish since 2c7061f (handle_eval_with_db is its wrapper), else handle_eval_with_db
    he = fn_body(lua_cmd, "handle_eval_with_publish") or fn_body(lua_cmd, "handle_eval_with_db") or ""
    hx = fn_body(srv, "handle_exec") or ""
    hsha = fn_body(srv, "handle_evalsha_command") or ""
    sites = {
        "clock.rs now/freeze": bool(re.search(r"pub fn now\(\)", clock) and re.search(r"pub fn freeze\(\)", clock) and "impl Drop for" in clock),
        "is_expired": "clock::now()" in (fn_body(val, "is_expired") or "") and "Instant::now()" not in (fn_body(val, "is_expired") or ""),
        "with_expiration": "clock::now()" in (fn_body(val, "with_expiration") or ""),
        "set_expiration": "clock::now()" in (fn_body(val, "set_expiration") or "") and "Instant::now()" not in (fn_body(val, "set_expiration") or ""),
        "set_string_nx_ex": "Instant::now()" not in bodies.get("set_string_nx_ex", ""),
        "expire": "Instant::now()" not in bodies.get("expire", ""),
        "ttl": "clock::now()" in bodies.get("ttl", "") and "Instant::now()" not in bodies.get("ttl", ""),
        "sweeper": "clock::now()" in (sw or "") and "Instant::now()" not in (sw or ""),
        "EVAL/EVALSHA freeze before eval": bool(re.search(r"clock::freeze\(\).*\.eval\(", he, re.S)) and bool(re.search(r"handle_eval_with_(?:db|publish)\(", hsha)),
        "EXEC freeze": "clock::freeze()" in hx,
    }
    res["scriptClockFrozen"] = all(sites.values())
    if any(sites[k] for k in sites if k not in ("set_string_nx_ex", "expire")) and not all(sites.values()):
        errors.append("storage clock only partly in place: missing " + ", ".join(k for k, v_ in sites.items() if not v_))
    # rdb.rs: the snapshot reads every value through `get` (lazily checked)
    rdb = strip_comments(src("storage/rdb.rs"))
    reads = re.findall(r"storage\.(get|get_with_ttl)\(\s*db\w*\s*,\s*&key\s*\)", rdb)
    lazy_now = {x["name"] for x in res["fns"] if x["testsExpiry"]}
    res["snapshotReadsThroughGet"] = len(reads) >= 2 and all(r_ in lazy_now for r_ in reads)
    return res


def derived(f):
    fns = f["fns"]
    by = {x["name"]: x for x in fns}
    lazy = sorted(x["name"] for x in fns if x["testsExpiry"])
    reaping = sorted(x["name"] for x in fns if x["reaps"])
    not_lazy = sorted(x["name"] for x in fns if x["readsData"] and not x["testsExpiry"] and x["name"] not in BLIND_FNS)

    def g(name, key):
        return bool(by.get(name, {}).get(key, False))
    return {
        "lazyChecked": lazy,
        "reaping": reaping,
        "notLazy": not_lazy,
        "setValueDropsStale": g("set_value", "removesIndex"),
        "setNxDropsStale": g("set_string_nx", "removesIndex"),
        "renameMovesIndex": g("rename", "writesIndex") and g("rename", "removesIndex"),
        "emptiedDropsIndex": all(g(n, "removesIndex") for n in SHRINK_FNS + [n for n in ("zrem_many", "zpop") if n in by]),
    }


def lean_bool(b):
    return "true" if b else "false"


def lean_strs(xs):
    return "[" + ", ".join('"%s"' % x.replace("\\", "\\\\").replace('"', '\\"') for x in xs) + "]"


def generate(src, strip_comments, fn_body, header):
    f = facts(src, strip_comments, fn_body)
    d = derived(f)
    L = [header, "namespace Ferrous.Gen", ""]
    if f["errors"]:
        L.append('def expiryFacts : Unit := extraction_failed "%s"' % "; ".join(f["errors"]).replace('"', "'"))
    L.append("/-- per `pub fn` of `impl StorageEngine`: (name, testsExpiry, reaps, writesIndex, removesIndex, mutates) -/")
    L.append("def expiryStorageFns : List (String × Bool × Bool × Bool × Bool × Bool) := [")
    rows = ['  ("%s", %s, %s, %s, %s, %s)' % (x["name"], lean_bool(x["testsExpiry"]), lean_bool(x["reaps"]), lean_bool(x["writesIndex"]),
                                            lean_bool(x["removesIndex"]), lean_bool(x["mutates"])) for x in f["fns"]]
    L.append(",\n".join(rows) + "]")
    L.append("/-- storage functions that test the stored deadline before acting (`is_expired()`, directly or through `get`) -/")
    L.append("def lazyChecked : List String := %s" % lean_strs(d["lazyChecked"]))
    L.append("/-- ... and remove the expired entry from `data` and `expiring_keys` when the test fires -/")
    L.append("def reaping : List String := %s" % lean_strs(d["reaping"]))
    L.append("/-- storage functions that look at `data` WITHOUT testing the stored deadline (blind overwrites %s excluded) -/" % ", ".join(BLIND_FNS))
    L.append("def notLazy : List String := %s" % lean_strs(d["notLazy"]))
    L.append("/-- `get_shard` itself tests expiry (a central lazy-expiry helper) -/")
    L.append("def centralLazy : Bool := %s" % lean_bool(f["centralLazy"]))
    L.append("/-- sweeper phase 1 iterates `expiring_keys` and collects `expires_at <= now` -/")
    L.append("def sweeperCollectsFromIndex : Bool := %s" % lean_bool(f["sweeperCollectsFromIndex"]))
    L.append("/-- sweeper phase 2 re-tests the STORED value (`is_expired()`) after taking the write lock -/")
    L.append("def sweeperRechecks : Bool := %s" % lean_bool(f["sweeperRechecks"]))
    L.append("/-- `set_value` removes the index entry (`expiring_keys.remove`) -/")
    L.append("def setValueDropsStale : Bool := %s" % lean_bool(d["setValueDropsStale"]))
    L.append("/-- `set_string_nx` removes the index entry -/")
    L.append("def setNxDropsStale : Bool := %s" % lean_bool(d["setNxDropsStale"]))
    L.append("/-- `rename` writes and removes index entries -/")
    L.append("def renameMovesIndex : Bool := %s" % lean_bool(d["renameMovesIndex"]))
    L.append("/-- all of %s remove the index entry -/" % ", ".join(SHRINK_FNS))
    L.append("def emptiedDropsIndex : Bool := %s" % lean_bool(d["emptiedDropsIndex"]))
    L.append("/-- `ValueMetadata::is_expired` is `Instant::now() > expires_at` (strict) -/")
    L.append("def expiredIsStrict : Bool := %s" % lean_bool(f["expiredIsStrict"]))
    L.append("/-- `StorageEngine::ttl` answers the remaining time `if expires_at > now`, zero otherwise -/")
    L.append("def ttlComparesStrict : Bool := %s" % lean_bool(f["ttlComparesStrict"]))
    L.append("/-- the if-chain of `handle_ttl` on `Some(duration)`, whitespace-normalised: condition => result -/")
    L.append("def ttlArms : List String := %s" % lean_strs(f["ttlArms"]))
    L.append("/-- the first arm of that chain answers -2 only for a ZERO duration (repair of the last-millisecond -2) -/")
    L.append("def ttlLastMsFixed : Bool := %s" % lean_bool(f["ttlLastMsFixed"]))
    L.append("/-- ZADD / ZREM / ZPOPMIN / ZPOPMAX (server handlers and script executor) make ONE storage call per command")
    L.append("    (`zadd_many`, `zrem_many`, `zpop`): the deadline is tested once per command, not once per member -/")
    L.append("def zsetOneCall : Bool := %s" % lean_bool(f["zsetOneCall"]))
    L.append("/-- every expiry site of the storage layer reads `storage::clock::now()`, and EVAL / EVALSHA (around `LuaEngine::eval`) and EXEC")
    L.append("    (`handle_exec`) hold `storage::clock::freeze()`: one script / one transaction = one clock reading -/")
    L.append("def scriptClockFrozen : Bool := %s" % lean_bool(f["scriptClockFrozen"]))
    L.append("/-- `pttl` is `duration.as_millis() as i64` -/")
    L.append("def pttlFloorsMillis : Bool := %s" % lean_bool(f["pttlFloorsMillis"]))
    L.append("/-- the RDB writer reads every value through `storage.get` / `storage.get_with_ttl`, both lazily checked -/")
    L.append("def snapshotReadsThroughGet : Bool := %s" % lean_bool(f["snapshotReadsThroughGet"]))
    L += ["", "end Ferrous.Gen", ""]
    return "\n".join(L)
