"""C11: the AOF write-command table and the facts about where the log is appended -> Gen/Aof.lean.

Everything is extracted from src/network/server.rs (brace-matched function bodies, comments stripped):

* `writeCommands`  — every string literal inside the `matches!( … )` of `is_write_command`
* `writeForcedOff` — names `is_write_command` answers `false` for before looking at the list (`if command == "X"`)
* `dispatchNames`  — every name that is an arm of `match command_name.as_str()` in `process_normal_command`
* `appendBeforeDispatch` — `append_command(parts)` sits in `if self.is_write_command(&command_name)` BEFORE the dispatch
  `match` and does not look at the result (so refused commands are logged as well)
* `appendSites`    — every function of src/ (outside storage/aof.rs and replication/) that calls `.append_command(`
* `wakeLogs`       — does `wake_client` append to the log (itself or through a Server method it calls)? (pops served to blocked clients)
* `blockingPopLogged` — the same for the immediate pop of `handle_blpop` / `handle_brpop`
* `execSelectSelects` — `handle_exec` runs a queued SELECT through `handle_select(cmd_parts, conn_id)` (it selects)
* `randomByEffect` — SPOP / `XADD key *` are excluded from the verbatim append and appended after the dispatch as `effect_entry(…)`
* `evalshaAsEval`  — EVALSHA is excluded likewise and `handle_evalsha_command` appends the `EVAL script …` it stands for
* `flushPerAppend` — per arm of `match self.config.fsync_policy` in `AofEngine::append_command`: is there a `writer.flush()`?
* `selectTracked`  — the entry is written through `append_command_in_db(db, parts)`, which emits `SELECT db` on a database change

`facts()` returns the same as a Python dict (used by lib/c11.py to configure the driver without importing a
generated file that may be `extraction_failed`).
"""
import os
import re


APPEND_CALL = r"\.\s*(?:append_command(?:_in_db)?|end_command)\s*\("


def paren_block(text, start):
    """text[start] is just after an opening '('; returns the content up to the matching ')'."""
    depth, i = 1, start
    in_str = False
    while i < len(text) and depth:
        c = text[i]
        if in_str:
            if c == "\\":
                i += 1
            elif c == '"':
                in_str = False
        elif c == '"':
            in_str = True
        elif c == "(":
            depth += 1
        elif c == ")":
            depth -= 1
        i += 1
    return text[start:i - 1] if depth == 0 else None


def brace_block(text, start):
    """text[start] is just after an opening '{'; returns the content up to the matching '}' (string-aware)."""
    depth, i = 1, start
    in_str = False
    while i < len(text) and depth:
        c = text[i]
        if in_str:
            if c == "\\":
                i += 1
            elif c == '"':
                in_str = False
        elif c == '"':
            in_str = True
        elif c == "{":
            depth += 1
        elif c == "}":
            depth -= 1
        i += 1
    return text[start:i - 1] if depth == 0 else None


def top_level_arms(block):
    """string-literal patterns of the arms at nesting depth 0 of a match block: `"A" | "B" =>`"""
    names = []
    depth = 0
    i = 0
    in_str = False
    # walk and remember the text at depth 0 only
    flat = []
    while i < len(block):
        c = block[i]
        if in_str:
            if depth == 0:
                flat.append(c)
            if c == "\\":
                i += 1
                if depth == 0 and i < len(block):
                    flat.append(block[i])
            elif c == '"':
                in_str = False
        elif c == '"':
            in_str = True
            if depth == 0:
                flat.append(c)
        elif c in "{([":
            depth += 1
        elif c in "})]":
            depth -= 1
        elif depth == 0:
            flat.append(c)
        i += 1
    flat = "".join(flat)
    for m in re.finditer(r'((?:"[^"\n]*"\s*\|\s*)*"[^"\n]*")\s*=>', flat):
        names += re.findall(r'"([^"\n]*)"', m.group(1))
    return names


def facts(src, strip_comments, fn_body, repo=None):
    out = {"errors": []}
    server = strip_comments(src("network/server.rs"))
    # ---- the write table
    body = fn_body(server, "is_write_command")
    out["writeCommands"] = None
    out["writeForcedOff"] = []
    if body is None:
        out["errors"].append("fn is_write_command not found in network/server.rs")
    else:
        m = re.search(r"\bmatches!\s*\(", body)
        inner = paren_block(body, m.end()) if m else None
        if inner is None:
            out["errors"].append("matches!( … ) not found in is_write_command")
        else:
            head = inner.split(",", 1)
            lits = re.findall(r'"([^"\n]*)"', head[1] if len(head) == 2 else "")
            if not lits or re.sub(r"\s+", "", head[0]) != "command":
                out["errors"].append("matches!(command, \"…\" | …) in is_write_command has an unexpected shape")
            else:
                out["writeCommands"] = lits
        out["writeForcedOff"] = re.findall(r'\bif\s+command\s*==\s*"([^"\n]*)"', body)
    # ---- where the log is appended
    pnc = fn_body(server, "process_normal_command")
    out["dispatchNames"] = None
    out["appendBeforeDispatch"] = None
    out["selectTracked"] = None
    out["randomByEffect"] = None
    out["evalshaAsEval"] = None
    if pnc is None:
        out["errors"].append("fn process_normal_command not found in network/server.rs")
    else:
        mm = re.search(r"\bmatch\s+command_name\s*\.\s*as_str\s*\(\s*\)\s*\{", pnc)
        block = brace_block(pnc, mm.end()) if mm else None
        if block is None:
            out["errors"].append("match command_name.as_str() { … } not found in process_normal_command")
        else:
            names = top_level_arms(block)
            if len(names) < 20:
                out["errors"].append("dispatch match of process_normal_command yielded only %d names" % len(names))
            else:
                out["dispatchNames"] = names
            before = pnc[:mm.start()]
            ap = re.search(r"if\s+let\s+Some\s*\(\s*aof\s*\)\s*=\s*&\s*self\s*\.\s*aof_engine\s*\{\s*"
                           r"(?:if\s+let\s+Err\s*\(\s*\w+\s*\)\s*=\s*aof\s*\.\s*begin_command\s*\(\s*\)\s*\{[^;]*;\s*\}\s*)?"
                           r"if\s+self\s*\.\s*is_write_command\s*\(\s*&\s*command_name\s*\)\s*(&&\s*!\s*logged_by_effect\s*)?\{\s*"
                           r"if\s+let\s+Err\s*\(\s*\w+\s*\)\s*=\s*aof\s*\.\s*"
                           r"(append_command\s*\(\s*parts\s*\)|append_command_in_db\s*\(\s*db\s*,\s*parts\s*\))", before)
            n_sites = len(re.findall(APPEND_CALL, pnc))
            if n_sites == 0:
                out["errors"].append("process_normal_command no longer calls append_command")
            else:
                out["appendBeforeDispatch"] = bool(ap) and n_sites == 1
                # SELECT tracking: the entry is written through append_command_in_db(db, parts), which (storage/aof.rs) writes a
                # `SELECT db` entry first whenever the previous entry ran in another database
                aof_rs = strip_comments(src("storage/aof.rs"))
                indb = fn_body(aof_rs, "append_command_in_db")
                if indb is not None and re.search(r"self\s*\.\s*write_command_in_db\s*\(\s*db\s*,", indb):
                    indb = fn_body(aof_rs, "write_command_in_db")      # (the entry may be held back first: begin_command / end_command)
                tracked = bool(ap) and "append_command_in_db" in ap.group(2) and indb is not None and \
                    bool(re.search(r'from_string\s*\(\s*"SELECT"\s*\)', indb)) and bool(re.search(r"!=\s*Some\s*\(\s*db\s*\)|!=\s*db\b", indb))
                out["selectTracked"] = tracked
                # by-effect logging: `logged_by_effect = Self::is_logged_by_effect(&command_name, parts)` excludes the command from the
                # append before the dispatch; after the dispatch `effect_entry(&command_name, parts, resp)` is appended
                ibe, ee = fn_body(server, "is_logged_by_effect"), fn_body(server, "effect_entry")
                after = pnc[mm.start():]
                by_effect = bool(ap) and bool(ap.group(1)) and ibe is not None and ee is not None and \
                    bool(re.search(r"let\s+logged_by_effect\s*=\s*Self\s*::\s*is_logged_by_effect\s*\(\s*&\s*command_name\s*,\s*parts\s*\)", before)) and \
                    bool(re.search(r"if\s+logged_by_effect\s*\{.*?Self\s*::\s*effect_entry\s*\(\s*&\s*command_name\s*,\s*parts\s*,\s*resp\s*\).*?self\s*\.\s*log_effect\s*\(\s*db\s*,", after, re.S))
                names = set(re.findall(r'"([A-Z]+)"', ibe or ""))
                out["randomByEffect"] = by_effect and {"SPOP", "XADD"} <= names and '"SREM"' in (ee or "")
                # EVALSHA: excluded from the verbatim append, and handle_evalsha_command appends the EVAL it stands for
                hev = fn_body(server, "handle_evalsha_command")
                m_log = re.search(r"self\s*\.\s*log_effect\s*\(\s*db\s*,\s*&\s*eval_parts\s*\)", hev or "")
                m_run = re.search(r"handle_eval_with_(?:db|publish)\s*\(", hev or "")      # (_with_publish since 2c7061f)
                # appended BEFORE the script runs (whatever its outcome: scripts are not rolled back)
                out["evalshaAsEval"] = by_effect and "EVALSHA" in names and bool(m_log) and bool(m_run) and m_log.start() < m_run.start()
    # ---- every other caller of append_command (AofEngine): which functions log?
    sites = []
    for rel, text in all_sources(src, strip_comments, repo):
        if rel.startswith("replication/") or rel == "storage/aof.rs":
            continue
        for m in re.finditer(r"\bfn\s+(\w+)\b[^{;]*\{", text):
            b = brace_block(text, m.end())
            if b is not None and re.search(APPEND_CALL, b):
                sites.append("%s:%s" % (rel, m.group(1)))
    out["appendSites"] = sorted(set(sites))
    # ---- every arm of the fsync policy in AofEngine::append_command hands the entry to the OS (`writer.flush()`)
    aof_src = strip_comments(src("storage/aof.rs"))
    apc = fn_body(aof_src, "append_command")
    out["flushPerAppend"] = None
    if apc is None:
        out["errors"].append("fn append_command not found in storage/aof.rs")
    else:
        arms = []
        for pol in ("Always", "EverySecond", "No"):
            m = re.search(r"FsyncPolicy\s*::\s*%s\s*=>\s*\{" % pol, apc)
            b = brace_block(apc, m.end()) if m else None
            if b is None:
                out["errors"].append("arm FsyncPolicy::%s not found in append_command" % pol)
                arms = None
                break
            arms.append((pol, bool(re.search(r"\bwriter\s*\.\s*flush\s*\(\s*\)", b))))
        if arms is not None:
            # a flush after the match covers every arm
            mm2 = re.search(r"match\s+self\s*\.\s*config\s*\.\s*fsync_policy\s*\{", apc)
            tail = apc[mm2.end() + len(brace_block(apc, mm2.end()) or ""):] if mm2 else ""
            after_all = bool(re.search(r"\bwriter\s*\.\s*flush\s*\(\s*\)", tail))
            out["flushPerAppend"] = [(p, f or after_all) for p, f in arms]

    # ---- expiry: the storage engine reports the keys it removes because their TTL elapsed (lazy path, get, WATCH, sweeper), the
    #      server logs `DEL key` for each ahead of the entries of the command that was running (held back by begin_command /
    #      end_command) and, for the sweeper, once per loop iteration
    eng = strip_comments(src("storage/engine.rs"))
    gs, sw, lek = fn_body(eng, "get_shard"), fn_body(eng, "expiration_cleanup_loop"), fn_body(server, "log_expired_keys")
    run_loop = fn_body(server, "run")
    if gs is None or sw is None or pnc is None or run_loop is None:
        out["errors"].append("get_shard / expiration_cleanup_loop / run not found")
        out["expiryLogged"] = None
    else:
        mm3 = re.search(r"\bmatch\s+command_name\s*\.\s*as_str\s*\(\s*\)\s*\{", pnc)
        out["expiryLogged"] = bool(
            re.search(r"\bnote_expired\s*\(", gs) and re.search(r"\bnote_expired\s*\(", sw) and lek is not None and
            re.search(r"take_expired_keys\s*\(", lek) and re.search(r'from_string\s*\(\s*"DEL"\s*\)', lek) and re.search(r"\.\s*end_command\s*\(", lek) and
            mm3 and re.search(r"\.\s*begin_command\s*\(", pnc[:mm3.start()]) and re.search(r"self\s*\.\s*log_expired_keys\s*\(", pnc[mm3.start():]) and
            re.search(r"self\s*\.\s*log_expired_keys\s*\(", run_loop) and re.search(r"track_expired_keys\s*\(\s*true\s*\)", server))
    # ---- XCLAIM logged by its effect
    ibe2, ee2 = fn_body(server, "is_logged_by_effect"), fn_body(server, "effect_entry")
    out["xclaimByEffect"] = bool(ibe2 and ee2 and '"XCLAIM"' in ibe2 and re.search(r'"XCLAIM"\s*=>', ee2))
    # ---- a torn tail is cut off before the writer is opened
    finit2, ftr = fn_body(aof_src, "init"), fn_body(aof_src, "truncate_torn_tail")
    if finit2 is None:
        out["tornTailTruncated"] = None
    else:
        m_tr = re.search(r"self\s*\.\s*truncate_torn_tail\s*\(", finit2)
        m_op = re.search(r"OpenOptions\s*::\s*new", finit2)
        out["tornTailTruncated"] = bool(m_tr and m_op and m_tr.start() < m_op.start() and ftr and re.search(r"\.\s*set_len\s*\(", ftr))

    # ---- SELECT tracking across restarts: `last_db` starts unknown (None) and becomes Some(0) only for an empty file
    fnew, finit = fn_body(aof_src, "new"), fn_body(aof_src, "init")
    if fnew is None or finit is None:
        out["errors"].append("AofEngine::new / init not found in storage/aof.rs")
        out["lastDbUnknownOnInheritedFile"] = None
    else:
        out["lastDbUnknownOnInheritedFile"] = \
            bool(re.search(r"last_db\s*:\s*Arc\s*::\s*new\s*\(\s*Mutex\s*::\s*new\s*\(\s*None\s*\)\s*\)", fnew)) and \
            bool(re.search(r"if\s+file\s*\.\s*metadata\s*\(\s*\)\s*\?\s*\.\s*len\s*\(\s*\)\s*==\s*0\s*\{\s*\*\s*self\s*\.\s*last_db\s*\.\s*lock\s*\(\s*\)\s*\.\s*unwrap\s*\(\s*\)\s*=\s*Some\s*\(\s*0\s*\)", finit)) and \
            len(re.findall(r"last_db", finit)) == 1

    # ---- EXEC and a queued SELECT: run through handle_select with the connection's id (selects, never appended)?
    hexec = fn_body(server, "handle_exec")
    if hexec is None:
        out["errors"].append("fn handle_exec not found in network/server.rs")
        out["execSelectSelects"] = None
    else:
        out["execSelectSelects"] = bool(re.search(r"self\s*\.\s*handle_select\s*\(\s*&?\s*cmd_parts\s*,\s*conn_id\s*\)", hexec))

    def logs(fn, depth=3):
        """does `fn` append to the log — itself or through methods of Server it calls?  None: function not found"""
        body = fn_body(server, fn)
        if body is None:
            return None
        if re.search(APPEND_CALL, body):
            return True
        if depth > 0:
            for callee in set(re.findall(r"\bself\s*\.\s*(log_\w+)\s*\(", body)):
                if logs(callee, depth - 1):
                    return True
        return False

    out["wakeLogs"] = logs("wake_client")
    # … unconditionally: right after the pop, not only when the woken client could still be served
    wk = fn_body(server, "wake_client")
    if wk is not None and out["wakeLogs"]:
        i_log = re.search(r"self\s*\.\s*log_blocking_pop\s*\(", wk)
        i_served = re.search(r"\bserved\b", wk)
        out["wakeLogsWhateverServed"] = bool(i_log) and (i_served is None or i_log.start() < i_served.start())
    else:
        out["wakeLogsWhateverServed"] = None if wk is None else False
    if out["wakeLogs"] is None:
        out["errors"].append("fn wake_client not found in network/server.rs")
    bl, br = logs("handle_blpop"), logs("handle_brpop")
    if bl is None or br is None:
        out["errors"].append("fn handle_blpop / handle_brpop not found in network/server.rs")
        out["blockingPopLogged"] = None
    elif bl != br:
        out["errors"].append("handle_blpop and handle_brpop differ in whether they log the immediate pop")
        out["blockingPopLogged"] = None
    else:
        out["blockingPopLogged"] = bl
    return out


def all_sources(src, strip_comments, repo):
    repo = repo or os.environ.get("FERROUS_REPO", "/repo")
    root = os.path.join(repo, "src")
    res = []
    for d, _, files in os.walk(root):
        for f in sorted(files):
            if f.endswith(".rs"):
                rel = os.path.relpath(os.path.join(d, f), root)
                res.append((rel, strip_comments(src(rel))))
    res.sort()
    return res


def lean_str_list(xs):
    return "[" + ", ".join('"%s"' % x.replace("\\", "\\\\").replace('"', '\\"') for x in xs) + "]"


def generate(src, strip_comments, fn_body, header, repo=None):
    f = facts(src, strip_comments, fn_body, repo)
    L = [header, "namespace Ferrous.Gen", ""]

    def failed(name, ty, what):
        L.append('def %s : %s := extraction_failed "%s"' % (name, ty, what.replace('"', "'")))

    err = "; ".join(f["errors"])
    L.append("/-- every string literal of the `matches!` list of `Server::is_write_command` (network/server.rs): the names whose")
    L.append("    commands `process_normal_command` appends to the AOF -/")
    if f["writeCommands"] is None:
        failed("writeCommands", "List String", err or "write table not found")
    else:
        L.append("def writeCommands : List String :=\n  %s" % lean_str_list(f["writeCommands"]))
    L.append("")
    L.append("/-- names `is_write_command` answers `false` for before consulting the list -/")
    L.append("def writeForcedOff : List String := %s" % lean_str_list(f["writeForcedOff"]))
    L.append("")
    L.append("/-- every name dispatched by `match command_name.as_str()` in `process_normal_command` -/")
    if f["dispatchNames"] is None:
        failed("aofDispatchNames", "List String", err or "dispatch match not found")
    else:
        L.append("def aofDispatchNames : List String :=\n  %s" % lean_str_list(f["dispatchNames"]))
    L.append("")
    L.append("/-- `append_command(parts)` is called exactly once in `process_normal_command`, guarded only by")
    L.append("    `is_write_command(&command_name)`, before the dispatch `match` (refused commands are logged too) -/")
    if f["appendBeforeDispatch"] is None:
        failed("appendBeforeDispatch", "Bool", err or "append site not found")
    else:
        L.append("def appendBeforeDispatch : Bool := %s" % ("true" if f["appendBeforeDispatch"] else "false"))
    L.append("")
    L.append("/-- every function outside storage/aof.rs and replication/ that calls `.append_command(` (file:function) -/")
    L.append("def appendSites : List String := %s" % lean_str_list(f["appendSites"]))
    L.append("")
    L.append("/-- does `wake_client` (the pop performed for a blocked client being served) append to the log? -/")
    if f["wakeLogs"] is None:
        failed("wakeLogs", "Bool", err or "wake_client not found")
    else:
        L.append("def wakeLogs : Bool := %s" % ("true" if f["wakeLogs"] else "false"))
    L.append("")
    L.append("/-- EXEC runs a queued SELECT through `handle_select(cmd_parts, conn_id)`: it changes the connection's database")
    L.append("    (and does not pass through `process_normal_command`) -/")
    if f["execSelectSelects"] is None:
        failed("execSelectSelects", "Bool", err or "handle_exec not found")
    else:
        L.append("def execSelectSelects : Bool := %s" % ("true" if f["execSelectSelects"] else "false"))
    L.append("")
    L.append("/-- do `handle_blpop`/`handle_brpop` log the pop they perform at once on a non-empty list? -/")
    if f["blockingPopLogged"] is None:
        failed("blockingPopLogged", "Bool", err or "handle_blpop/handle_brpop not recognised")
    else:
        L.append("def blockingPopLogged : Bool := %s" % ("true" if f["blockingPopLogged"] else "false"))
    L.append("")
    L.append("/-- is a `SELECT db` entry written whenever the database of an entry differs from that of the previous one")
    L.append("    (`append_command_in_db(db, parts)` in process_normal_command + its definition in storage/aof.rs)? -/")
    if f["selectTracked"] is None:
        failed("selectTracked", "Bool", err or "append site not found")
    else:
        L.append("def selectTracked : Bool := %s" % ("true" if f["selectTracked"] else "false"))
    L.append("")
    L.append("/-- does `wake_client` log the pop right after making it, whether or not the woken client can still be served? -/")
    L.append("def wakeLogsWhateverServed : Bool := %s" % ("true" if f.get("wakeLogsWhateverServed") else "false"))
    L.append("")
    L.append("/-- `last_db` starts unknown (`None`) and `init()` sets it to `Some(0)` only for an empty file: after a restart on an")
    L.append("    inherited file the first entry is preceded by a SELECT -/")
    if f["lastDbUnknownOnInheritedFile"] is None:
        failed("lastDbUnknownOnInheritedFile", "Bool", err or "AofEngine::new/init not recognised")
    else:
        L.append("def lastDbUnknownOnInheritedFile : Bool := %s" % ("true" if f["lastDbUnknownOnInheritedFile"] else "false"))
    L.append("")
    L.append("/-- is the removal of a key whose time to live elapsed (lazy path, sweeper) appended as `DEL key`, ahead of the entries of the")
    L.append("    command that was running? -/")
    if f["expiryLogged"] is None:
        failed("expiryLogged", "Bool", err or "expiry sites not recognised")
    else:
        L.append("def expiryLogged : Bool := %s" % ("true" if f["expiryLogged"] else "false"))
    L.append("")
    L.append("/-- is XCLAIM (whose outcome depends on idle times, i.e. on the clock) logged by its effect? -/")
    L.append("def xclaimByEffect : Bool := %s" % ("true" if f.get("xclaimByEffect") else "false"))
    L.append("")
    L.append("/-- does `AofEngine::init` cut an unfinished last frame off the file before it opens the writer? -/")
    L.append("def tornTailTruncated : Bool := %s" % ("true" if f.get("tornTailTruncated") else "false"))
    L.append("")
    L.append("/-- per fsync policy: does `AofEngine::append_command` hand the entry to the OS (`writer.flush()`) on every append?")
    L.append("    (then a reader of the file sees every acknowledged entry; fsync — durability against power loss — is another matter) -/")
    if f["flushPerAppend"] is None:
        failed("flushPerAppend", "List (String × Bool)", err or "append_command not recognised")
    else:
        L.append("def flushPerAppend : List (String × Bool) := [%s]" % ", ".join('("%s", %s)' % (p, "true" if b else "false") for p, b in f["flushPerAppend"]))
    L.append("")
    L.append("/-- are SPOP and `XADD key *` appended after the dispatch by their effect (`is_logged_by_effect`, `effect_entry`:")
    L.append("    `SREM key members…`, `XADD key <assigned id> …`) instead of verbatim before it? -/")
    if f["randomByEffect"] is None:
        failed("randomByEffect", "Bool", err or "append site not found")
    else:
        L.append("def randomByEffect : Bool := %s" % ("true" if f["randomByEffect"] else "false"))
    L.append("")
    L.append("/-- is EVALSHA appended as the `EVAL script …` it stands for (by `handle_evalsha_command`) instead of verbatim? -/")
    if f["evalshaAsEval"] is None:
        failed("evalshaAsEval", "Bool", err or "append site not found")
    else:
        L.append("def evalshaAsEval : Bool := %s" % ("true" if f["evalshaAsEval"] else "false"))
    L += ["", "end Ferrous.Gen", ""]
    return "\n".join(L)
