"""C19: facts about the SCAN family that the Lean model takes as parameters -> Gen/ScanConsts.lean.

Called from extract.py.  Extracted from `StorageEngine::{scan,hscan,sscan,zscan}` in
src/storage/engine.rs:
  * the three loop constants (`count == 0 -> 10`, `min(scan_count, 1000)`, `examined < max * 10`),
    which must be the same in all four functions;
  * whether the cursor is still a rank (an index into the list that is sorted on every call);
  * whether the three collection scans still have their "everything at once" fast path.
"""
import re

FNS = ("scan", "hscan", "sscan", "zscan")


def generate(src, strip_comments, fn_body, header):
    text = strip_comments(src("storage/engine.rs"))
    lines = [header, "import FerrousSpec.Model.Scan", "namespace Ferrous.Gen", ""]
    consts = []
    rank = []
    slot = []
    for fn in FNS:
        body = fn_body(text, fn)
        if body is None:
            consts.append(None)
            rank.append(None)
            slot.append(None)
            continue
        d = re.findall(r"if\s+count\s*==\s*0\s*\{\s*(\d+)\s*\}\s*else\s*\{\s*count\s*\}", body)
        c = re.findall(r"min\(\s*scan_count\s*,\s*(\d+)\s*\)", body)
        f = re.findall(r"_examined\s*<\s*max_scan_count\s*\*\s*(\d+)", body)
        consts.append((int(d[0]), int(c[0]), int(f[0])) if len(d) == 1 and len(c) == 1 and len(f) == 1 else None)
        rank.append(bool(re.search(r"\.sort(_by)?\(", body)
                         and re.search(r"cursor\s+as\s+usize", body)
                         and re.search(r"current_pos\s+as\s+u64", body)
                         and re.search(r"if\s+current_pos\s*>=\s*\w+\.len\(\)\s*\{\s*0\s*\}", body)))
        # the slot cursor: sorted by name, then stably by scan_slot; start = partition_point(scan_slot < cursor); the loop
        # goes on inside a group of equal slots; next cursor = scan_slot of the first unexamined element (0 at the end)
        slot.append(bool(re.search(r"\.sort(_by)?\([^;]*\)\s*;\s*\w+\.sort_by_cached_key\(\s*\|\w+\|\s*scan_slot\(", body)
                         and re.search(r"let\s+start_pos\s*=\s*\w+\.partition_point\(\s*\|\w+\|\s*scan_slot\([^)]*\)\s*<\s*cursor\s*\)", body)
                         and re.search(r"while\s*\([^\n]*_examined\s*<\s*max_scan_count\s*\*\s*\d+[^\n]*\)\s*\|\|\s*same_slot_as_previous\(\s*&\w+\s*,\s*start_pos\s*,\s*current_pos\s*,", body)
                         and re.search(r"if\s+current_pos\s*>=\s*\w+\.len\(\)\s*\{\s*0\s*\}\s*else\s*\{\s*scan_slot\(\s*&\w+\[current_pos\]", body)
                         and not re.search(r"cursor\s+as\s+usize|current_pos\s+as\s+u64", body)))
    # MATCH: on String::from_utf8_lossy text through pattern_matches(&str, &str), or on the bytes?
    pm = re.search(r"fn\s+pattern_matches\s*\(\s*pattern\s*:\s*&\s*(str|\[u8\])\s*,\s*text\s*:\s*&\s*(str|\[u8\])\s*\)", text)
    lossy = []
    for fn in FNS:
        body = fn_body(text, fn) or ""
        if "pattern_matches(" not in body or pm is None or pm.group(1) != pm.group(2):
            lossy.append(None)
        else:
            lossy.append(pm.group(1) == "str" and "from_utf8_lossy" in body)
    # scan_slot itself: FNV-1a 64 of the name, cut to 53 bits; same_slot_as_previous as modelled
    slot_fn = fn_body(text, "scan_slot")
    prev_fn = fn_body(text, "same_slot_as_previous")
    slot_ok = bool(slot_fn and prev_fn
                   and re.search(r"0xcbf29ce484222325", slot_fn) and re.search(r"0x100000001b3", slot_fn)
                   and re.search(r"hash\s*\^=\s*byte\s+as\s+u64\s*;\s*hash\s*=\s*hash\.wrapping_mul\(FNV_PRIME\)", slot_fn)
                   and re.search(r"hash\s*>>\s*11\s*$", slot_fn.strip())
                   and re.search(r"pos\s*>\s*start\s*&&\s*pos\s*<\s*items\.len\(\)\s*&&\s*scan_slot\(name\(&items\[pos\]\)\)\s*==\s*scan_slot\(name\(&items\[pos\s*-\s*1\]\)\)", prev_fn))
    use_slot = None
    if None not in slot and None not in rank:
        if all(slot) and slot_ok and not any(rank):
            use_slot = True
        elif all(rank) and not any(slot):
            use_slot = False
    # handle_scan: is the TYPE value lower-cased before the engine compares it with the lower-case type names?
    hs = fn_body(strip_comments(src("storage/commands/scan.rs")), "handle_scan") or ""
    tm = re.search(r"type_filter\s*=\s*Some\(\s*String::from_utf8_lossy\(t\)\s*\.(to_ascii_lowercase|to_lowercase|to_string)\(\)\s*\)", hs)
    engine_exact = bool(re.search(r"if\s+value_type\s*!=\s*type_name\s*\{\s*continue;", fn_body(text, "scan") or ""))
    type_fold = None
    if tm and engine_exact:
        type_fold = tm.group(1) in ("to_ascii_lowercase", "to_lowercase")
    if None in consts or len(set(consts)) != 1 or None in lossy or len(set(lossy)) != 1 or use_slot is None or type_fold is None:
        lines.append('def scanCfg : Ferrous.Scan.Cfg := extraction_failed "scan loop constants / MATCH call / cursor scheme not recognised or not uniform: %s %s rank=%s slot=%s slot_fn=%s type_fold=%s"' % (consts, lossy, rank, slot, slot_ok, type_fold))
    else:
        d, c, f = consts[0]
        lines.append("/-- `count == 0 -> %d`, `min(scan_count, %d)`, `examined < max_scan_count * %d` in scan/hscan/sscan/zscan;" % (d, c, f))
        lines.append("    MATCH %s;" % ("goes through `String::from_utf8_lossy` and `pattern_matches(&str, &str)`" if lossy[0] else "compares bytes (`pattern_matches(&[u8], &[u8])`)"))
        lines.append("    TYPE value %s by handle_scan;" % ("lower-cased (`to_ascii_lowercase`)" if type_fold else "passed as given"))
        lines.append("    cursor: %s. -/" % ("the slot (`scan_slot`, FNV-1a 64 >> 11) of the next element in the order of (slot, name)" if use_slot
                                        else "a rank in the list sorted by name"))
        lines.append("def scanCfg : Ferrous.Scan.Cfg := ⟨%d, %d, %d, %s, %s, %s⟩" % (d, c, f, "true" if lossy[0] else "false", "true" if use_slot else "false",
                                                                                   "true" if type_fold else "false"))
    # the `[` arm of pattern_matches: Redis's stringmatchlen walk (member by member) or the old "find the first ]" scan
    pm_body = fn_body(text, "pattern_matches") or ""
    redis_walk = bool(re.search(r"pattern_chars\[i\]\s*==\s*b'\\\\'\s*&&\s*i\s*\+\s*1\s*<\s*pattern_chars\.len\(\)", pm_body)
                      and re.search(r"else\s+if\s+pattern_chars\[i\]\s*==\s*b'\]'\s*\{\s*i\s*\+=\s*1\s*;\s*break\s*;", pm_body)
                      and re.search(r"i\s*\+\s*2\s*<\s*pattern_chars\.len\(\)\s*&&\s*pattern_chars\[i\s*\+\s*1\]\s*==\s*b'-'", pm_body)
                      and re.search(r"pattern_chars\[i\]\.min\(pattern_chars\[i\s*\+\s*2\]\)\s*,\s*pattern_chars\[i\]\.max\(pattern_chars\[i\s*\+\s*2\]\)", pm_body)
                      and re.search(r"let\s+negate\s*=\s*i\s*<\s*pattern_chars\.len\(\)\s*&&\s*pattern_chars\[i\]\s*==\s*b'\^'", pm_body)
                      and re.search(r"if\s+matched\s*!=\s*negate\s*\{\s*p_idx\s*=\s*i\s*;", pm_body))
    first_bracket = bool(re.search(r"position\(\|&c\|\s*c\s*==\s*b?'\]'\)", pm_body))
    if redis_walk and not first_bracket:
        lines.append("/-- the `[` arm of `pattern_matches` walks the class member by member as Redis's stringmatchlen does. -/")
        lines.append("def globClassRedis : Bool := true")
    elif first_bracket and not redis_walk:
        lines.append("/-- the `[` arm of `pattern_matches` closes the class at the first `]` (the matcher before d22f9c4). -/")
        lines.append("def globClassRedis : Bool := false")
    else:
        lines.append('def globClassRedis : Bool := extraction_failed "the class arm of pattern_matches is not recognised"')
    if None in rank:
        lines.append('def scanCursorIsRank : Bool := extraction_failed "scan/hscan/sscan/zscan not found"')
    else:
        lines.append("/-- every scan sorts a freshly collected list and uses the cursor as an index into it")
        lines.append("    (`cursor as usize` ... `current_pos as u64`, 0 at the end). -/")
        lines.append("def scanCursorIsRank : Bool := %s" % ("true" if all(rank) else "false"))
    lines += ["", "end Ferrous.Gen", ""]
    return "\n".join(lines)
