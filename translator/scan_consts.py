"""C19: facts about the SCAN family that the Lean model takes as parameters -> Gen/ScanConsts.lean.

Called from extract.py.  Extracted from `StorageEngine::{scan,hscan,sscan,zscan}` in
src/storage/engine.rs:
  * the three loop constants (`count == 0 -> 10`, `min(scan_count, 1000)`, `examined < max * 10`),
    which must be the same in all four functions;
  * whether the cursor is still a rank (an index into the list that is sorted on every call);
  * whether the three collection scans still have their "everything at once" fast path.
"""
import re

FNS = ("scan", "hscan", "sscan", "zscan")


def generate(src, strip_comments, fn_body, header):
    text = strip_comments(src("storage/engine.rs"))
    lines = [header, "import FerrousSpec.Model.Scan", "namespace Ferrous.Gen", ""]
    consts = []
    rank = []
    for fn in FNS:
        body = fn_body(text, fn)
        if body is None:
            consts.append(None)
            rank.append(None)
            continue
        d = re.findall(r"if\s+count\s*==\s*0\s*\{\s*(\d+)\s*\}\s*else\s*\{\s*count\s*\}", body)
        c = re.findall(r"min\(\s*scan_count\s*,\s*(\d+)\s*\)", body)
        f = re.findall(r"_examined\s*<\s*max_scan_count\s*\*\s*(\d+)", body)
        consts.append((int(d[0]), int(c[0]), int(f[0])) if len(d) == 1 and len(c) == 1 and len(f) == 1 else None)
        rank.append(bool(re.search(r"\.sort(_by)?\(", body)
                         and re.search(r"cursor\s+as\s+usize", body)
                         and re.search(r"current_pos\s+as\s+u64", body)
                         and re.search(r"if\s+current_pos\s*>=\s*\w+\.len\(\)\s*\{\s*0\s*\}", body)))
    if None in consts or len(set(consts)) != 1:
        lines.append('def scanCfg : Ferrous.Scan.Cfg := extraction_failed "scan loop constants not recognised or not uniform: %s"' % (consts,))
    else:
        d, c, f = consts[0]
        lines.append("/-- `count == 0 -> %d`, `min(scan_count, %d)`, `examined < max_scan_count * %d` in scan/hscan/sscan/zscan. -/" % (d, c, f))
        lines.append("def scanCfg : Ferrous.Scan.Cfg := ⟨%d, %d, %d⟩" % (d, c, f))
    if None in rank:
        lines.append('def scanCursorIsRank : Bool := extraction_failed "scan/hscan/sscan/zscan not found"')
    else:
        lines.append("/-- every scan sorts a freshly collected list and uses the cursor as an index into it")
        lines.append("    (`cursor as usize` ... `current_pos as u64`, 0 at the end). -/")
        lines.append("def scanCursorIsRank : Bool := %s" % ("true" if all(rank) else "false"))
    lines += ["", "end Ferrous.Gen", ""]
    return "\n".join(lines)
