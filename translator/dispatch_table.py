"""C18 (and later C05/C11/C17): the dispatch table of `Server::process_normal_command` and the facts that
decide which database index every execution path hands to a command.

generate(src, strip_comments, fn_body, HEADER) -> text of lean/FerrousSpec/Gen/Dispatch.lean

Extracted (all syntactically local):
  * `dispatch : List (String × Bool)`  — every arm `"NAME" => <expr>` of `match command_name.as_str()` in
    `process_normal_command` (src/network/server.rs): the name, and whether the handler expression mentions the
    variable `db` (the database index process_frame read from the connection);
  * `preDispatch : List String` — names `process_frame` answers itself, before the dispatch
    (auth gate arms, MONITOR, MULTI/EXEC/DISCARD/WATCH/UNWATCH, pub/sub, AUTH, REPLCONF) plus SYNC/PSYNC which
    `process_connection` answers itself;
  * `execSelectEffective : Bool` — does `handle_exec` make a queued SELECT take effect?  (false: `process_command_parts`
    re-dispatches with the literal connection id 0, so `handle_select(parts, 0)` finds no connection);
  * `scriptDatabaseCmdsGetDb : Bool` — does `UnifiedCommandExecutor::execute` hand `db` to `execute_database`
    (FLUSHDB / DBSIZE / KEYS called from a script)?
  * `numDatabases`, `blockingRegistries : Nat`.
A pattern that no longer matches yields `extraction_failed "<what>"` (does not elaborate).
"""
import re


def _skip_literal(t, i):
    """if a string / char literal starts at t[i], return the index after it, else None"""
    c = t[i]
    if c == '"':
        j = i + 1
        while j < len(t):
            if t[j] == "\\":
                j += 2
                continue
            if t[j] == '"':
                return j + 1
            j += 1
        return len(t)
    if c == "'":
        # char literal 'x' or '\x' (lifetimes have no closing quote)
        m = re.match(r"'(\\.[^']*|[^\\'])'", t[i:])
        if m:
            return i + m.end()
    return None


def _match_close(t, i):
    """t[i] is an opening bracket; index after its matching close (string/char literals skipped)"""
    pairs = {"{": "}", "(": ")", "[": "]"}
    stack = [pairs[t[i]]]
    j = i + 1
    while j < len(t) and stack:
        k = _skip_literal(t, j)
        if k is not None:
            j = k
            continue
        c = t[j]
        if c in pairs:
            stack.append(pairs[c])
        elif c in "})]":
            if stack and c == stack[-1]:
                stack.pop()
        j += 1
    return j


def match_arms(body, scrutinee_re):
    """arms of the first `match <scrutinee> {` in body: list of (pattern_text, expr_text); None if absent"""
    m = re.search(r"\bmatch\s+" + scrutinee_re + r"\s*\{", body)
    if not m:
        return None
    start = m.end() - 1
    end = _match_close(body, start)
    inner = body[start + 1:end - 1]
    arms = []
    i = 0
    n = len(inner)
    while i < n:
        # pattern: up to `=>` at depth 0
        j = i
        depth = 0
        pat_end = None
        while j < n:
            k = _skip_literal(inner, j)
            if k is not None:
                j = k
                continue
            c = inner[j]
            if c in "({[":
                j = _match_close(inner, j)
                continue
            if inner.startswith("=>", j):
                pat_end = j
                break
            j += 1
        if pat_end is None:
            break
        pat = inner[i:pat_end].strip()
        # expression: a block `{...}` (optionally followed by a comma) or up to the next `,` at depth 0
        j = pat_end + 2
        while j < n and inner[j].isspace():
            j += 1
        e0 = j
        if j < n and inner[j] == "{":
            j = _match_close(inner, j)
            expr = inner[e0:j]
            while j < n and inner[j].isspace():
                j += 1
            if j < n and inner[j] == ",":
                j += 1
        else:
            while j < n:
                k = _skip_literal(inner, j)
                if k is not None:
                    j = k
                    continue
                c = inner[j]
                if c in "({[":
                    j = _match_close(inner, j)
                    continue
                if c == ",":
                    break
                j += 1
            expr = inner[e0:j]
            j += 1
        arms.append((pat, expr.strip()))
        i = j
    return arms


def names_of_pattern(pat):
    """`"A" | "B"` (possibly preceded by attributes) -> ["A", "B"]; [] for `_`, guards etc."""
    pat = re.sub(r"#\[[^\]]*\]", "", pat).strip()
    if not re.fullmatch(r'"[A-Za-z_]+"(\s*\|\s*"[A-Za-z_]+")*', pat):
        return []
    return re.findall(r'"([A-Za-z_]+)"', pat)


def facts(src, strip_comments, fn_body):
    """dict of extracted facts; a value None means `extraction failed` (with the reason under key+'_why')"""
    out = {}
    server = strip_comments(src("network/server.rs"))
    # ---- dispatch table
    body = fn_body(server, "process_normal_command")
    table = None
    arms = None
    if body is not None:
        arms = match_arms(body, r"command_name\.as_str\(\)")
        if arms:
            table = []
            for pat, expr in arms:
                for nm in names_of_pattern(pat):
                    table.append((nm, bool(re.search(r"\bdb\b", expr))))
    if not table or len(table) < 20 or not any(p.strip() == "_" for p, _ in arms):
        out["dispatch"] = None
        out["dispatch_why"] = "arms of `match command_name.as_str()` in process_normal_command not recognised"
    else:
        seen = set()
        dup = [n for n, _ in table if n in seen or seen.add(n)]
        if dup:
            out["dispatch"] = None
            out["dispatch_why"] = "duplicate dispatch arms: %s" % dup
        else:
            out["dispatch"] = table
    # ---- names handled before the dispatch
    pf = fn_body(server, "process_frame")
    pre = None
    if pf is not None and "should_queue_command" in pf and "process_normal_command" in pf:
        # everything process_frame answers itself: up to the hand-over to the dispatch (the CLIENT PAUSE exemption
        # `_ if !matches!(.., "AUTH" | "CLIENT" | "QUIT")` just before it is not a handler); the MULTI-queue test sits
        # inside this region (before the pub/sub arms since b37919c, after them before)
        cut = pf.index("process_normal_command")
        m = re.search(r"_\s+if\s+!\s*matches!", pf[:cut])
        head = pf[:m.start()] if m else pf[:cut]
        pre = []
        for nm in re.findall(r'"([A-Z_]+)"\s*(?:=>|\|)', head) + re.findall(r'==\s*"([A-Z_]+)"', head) + \
                re.findall(r'\|\s*"([A-Z_]+)"\s*\)', head):
            if nm not in pre:
                pre.append(nm)
        pc = fn_body(server, "process_connection") or ""
        for nm in re.findall(r'command\s*==\s*"(SYNC|PSYNC)"', pc):
            if nm not in pre:
                pre.append(nm)
    if not pre or "EXEC" not in pre or "MULTI" not in pre:
        out["preDispatch"] = None
        out["preDispatch_why"] = "names handled by process_frame before the dispatch not recognised"
    else:
        out["preDispatch"] = pre
    # ---- does a SELECT queued in MULTI take effect at EXEC?
    he = fn_body(server, "handle_exec")
    pcp = fn_body(server, "process_command_parts")
    eff = None
    if he is not None:
        if re.search(r"\bhandle_select\s*\(\s*[^,()]+,\s*conn_id\s*\)", he):
            eff = True
        elif pcp is not None and re.search(r"process_normal_command\(\s*parts\s*,\s*db\s*,\s*0\s*\)", pcp) \
                and re.search(r"process_command_parts\(", he):
            eff = False
        elif pcp is not None and re.search(r"process_normal_command\(\s*parts\s*,\s*db\s*,\s*conn_id\s*\)", pcp) \
                and re.search(r"process_command_parts\([^)]*conn_id[^)]*\)", he):
            eff = True
    out["execSelectEffective"] = eff
    out["execSelectEffective_why"] = "how handle_exec re-dispatches queued commands (connection id) not recognised"
    # ---- script path: Command::Database gets the db?
    ex = strip_comments(src("storage/commands/executor.rs"))
    exb = fn_body(ex, "execute")
    m = re.search(r"Command::Database\(\s*\w+\s*\)\s*=>\s*self\.execute_database\(([^)]*)\)", exb or "")
    if m:
        out["scriptDatabaseCmdsGetDb"] = bool(re.search(r"\bdb\b", m.group(1)))
    else:
        out["scriptDatabaseCmdsGetDb"] = None
    out["scriptDatabaseCmdsGetDb_why"] = "`Command::Database(..) => self.execute_database(..)` not found in UnifiedCommandExecutor::execute"
    # ---- are the clients blocked on a key served when a list appears under it without LPUSH/RPUSH (script, RENAME)?
    if body is not None:
        out["sweepAfterScript"] = bool(re.search(r"blocked_keys\s*\(", body) and re.search(r"serve_key\s*\(", body))
    else:
        out["sweepAfterScript"] = None
    out["sweepAfterScript_why"] = "process_normal_command not found"
    # ---- counts
    eng = strip_comments(src("storage/engine.rs"))
    m = re.search(r"pub fn new\(\)\s*->\s*Arc<Self>\s*\{\s*Self::with_config\(\s*(\d+)\s*,", eng)
    out["numDatabases"] = int(m.group(1)) if m else None
    out["numDatabases_why"] = "StorageEngine::new() -> with_config(<n>, ..) not found"
    m = re.search(r"BlockingManager::new\(\s*(\d+)\s*\)", server)
    out["blockingRegistries"] = int(m.group(1)) if m else None
    out["blockingRegistries_why"] = "BlockingManager::new(<n>) not found in server.rs"
    return out


def generate(src, strip_comments, fn_body, HEADER):
    f = facts(src, strip_comments, fn_body)
    L = [HEADER, "namespace Ferrous.Gen.Dispatch", ""]

    def failed(key):
        return 'extraction_failed "%s"' % f.get(key + "_why", key).replace('"', "'")

    L.append("/-- arms of `match command_name.as_str()` in `Server::process_normal_command`: (name, the handler expression mentions `db`) -/")
    if f["dispatch"] is None:
        L.append("def dispatch : List (String × Bool) := " + failed("dispatch"))
    else:
        L.append("def dispatch : List (String × Bool) := [")
        L.append(",\n".join('  ("%s", %s)' % (n, "true" if b else "false") for n, b in f["dispatch"]))
        L.append("]")
    L.append("")
    L.append("/-- names answered by `process_frame` itself, before the dispatch (plus SYNC/PSYNC, answered by `process_connection`) -/")
    if f["preDispatch"] is None:
        L.append("def preDispatch : List String := " + failed("preDispatch"))
    else:
        L.append("def preDispatch : List String := [" + ", ".join('"%s"' % n for n in f["preDispatch"]) + "]")
    L.append("")
    for key, doc in (("execSelectEffective", "`handle_exec` lets a queued SELECT change the connection's database (false: queued commands are re-dispatched with connection id 0)"),
                     ("scriptDatabaseCmdsGetDb", "`UnifiedCommandExecutor::execute` passes `db` to `execute_database` (FLUSHDB/DBSIZE/KEYS from scripts)"),
                     ("sweepAfterScript", "after EVAL/EVALSHA/RENAME/RENAMENX `process_normal_command` serves every key of the database that has a waiter and an element (`blocked_keys` + `serve_key`)")):
        L.append("/-- %s -/" % doc)
        v = f[key]
        L.append("def %s : Bool := %s" % (key, failed(key) if v is None else ("true" if v else "false")))
        L.append("")
    for key, doc in (("numDatabases", "`StorageEngine::new()` creates this many databases"),
                     ("blockingRegistries", "`BlockingManager::new(n)`: one registry per database")):
        L.append("/-- %s -/" % doc)
        v = f[key]
        L.append("def %s : Nat := %s" % (key, failed(key) if v is None else str(v)))
        L.append("")
    L += ["end Ferrous.Gen.Dispatch", ""]
    return "\n".join(L)
