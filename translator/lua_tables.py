"""C12: facts about Lua scripting that the Lean theorems consume as tables -> Gen/Lua.lean.

Called from extract.py (`gen_lua()`), and imported by lib/c12.py so that the check and the generated
Lean file read the source with the same patterns.  Extracted from /repo/src:

  * `storage/lua_engine.rs: execute_unified_redis_command` — the string literals of the refusal arms
    (every `match cmd_name.as_str()` arm whose body returns `handle_command_error_with_context`):
    `Gen.luaBlocked`;
  * `storage/lua_engine.rs: create_lua_context` and `script_load` — the `dangerous_functions` array
    whose entries are set to `mlua::Nil` in a loop: `Gen.luaSandboxRemoved` (the intersection of the
    two contexts; EVAL's is the one that runs scripts);
  * `storage/commands/executor.rs: CommandParser::parse` — the command names the executor knows
    (anything else inside a script is "unknown command"): `Gen.luaExecutorCommands`;
  * the EVAL path `process_normal_command "EVAL"` → `handle_eval_with_db` → `LuaEngine::eval` →
    `execute_unified_redis_command` → `LuaCommandAdapter::execute_lua_command` →
    `UnifiedCommandExecutor::execute`: no thread spawn / channel / async hand-off / `.await` in any
    of these bodies: `Gen.evalIsSynchronous` (coarse, as C07's `execIsSynchronous`);
  * what bounds a script's memory (`Gen.luaScriptMemoryLimit`: bytes given to set_memory_limit in create_lua_context, 0 = none);
  * what bounds a script's run time (`Gen.luaScriptTimeLimit`: the limit in ms of the count hook in LuaEngine::eval, 0 = none; DESIGN §6 row 12);
  * the conversion arms the model's quirk switches stand for (`Gen.luaQuirksSeen`: name, as seen in
    the source now) — informational for the theorems, used by lib/c12.py to drive the model.
"""
import re


def _match_arms(body, head_re):
    """top-level arms `pattern => body` of the first `match` whose head matches head_re:
    list of (pattern_text, body_text)"""
    m = re.search(head_re, body)
    if not m:
        return None
    i = m.end()
    depth = 0
    arms = []
    start = i
    pat = None
    n = len(body)
    while i < n:
        ch = body[i]
        if ch == '"':
            j = i + 1
            while j < n and body[j] != '"':
                j += 2 if body[j] == "\\" else 1
            i = j + 1
            continue
        if ch in "{(":
            depth += 1
        elif ch in "})":
            if depth == 0:
                break
            depth -= 1
            if depth == 0 and ch == "}" and pat is not None:
                arms.append((pat, body[start:i + 1]))
                pat = None
                start = i + 1
        elif depth == 0 and body.startswith("=>", i) and pat is None:
            pat = body[start:i].strip(" ,\n\t")
            start = i + 2
            i += 1
        elif depth == 0 and ch == "," and pat is not None:
            arms.append((pat, body[start:i]))
            pat = None
            start = i + 1
        i += 1
    return arms


SYNC_BAD = re.compile(r"thread::spawn|\.await\b|\basync\b|mpsc::|\.send\(|crossbeam|tokio::|spawn\(")


def facts(src, strip_comments, fn_body):
    out = {"blocked": None, "removed_eval": None, "removed_load": None, "executor": None,
           "sync": None, "sync_why": "", "quirks": {}, "time_limit": None, "memory_limit": None, "reply_depth_limit": None, "bytecode_refused": None}
    eng = strip_comments(src("storage/lua_engine.rs"))
    body = fn_body(eng, "execute_unified_redis_command")
    if body is not None:
        arms = _match_arms(body, r"match\s+cmd_name\s*\.\s*as_str\s*\(\s*\)\s*\{")
        if arms:
            blocked = []
            fallthrough = False
            for pat, b in arms:
                names = re.findall(r'"([A-Za-z_]+)"', pat)
                if pat.strip() == "_":
                    fallthrough = "execute_lua_command" in b
                    continue
                if names and "return" in b and "handle_command_error_with_context" in b and "execute_lua_command" not in b:
                    blocked += names
            if fallthrough and blocked:
                out["blocked"] = blocked

    def removed(fn):
        b = fn_body(eng, fn)
        if b is None:
            return None
        m = re.search(r"let\s+dangerous_functions\s*=\s*\[([^\]]*)\]\s*;", b)
        loop = re.search(r"for\s+(\w+)\s+in\s+&?\s*dangerous_functions\s*\{[^}]*globals\s*\.\s*set\s*\(\s*\*?\s*\1\s*,\s*mlua::Nil\s*\)", b, re.S)
        if not m or not loop:
            return None
        return re.findall(r'"([A-Za-z_.]+)"', m.group(1))
    out["removed_eval"] = removed("create_lua_context")
    out["removed_load"] = removed("script_load")

    ex = strip_comments(src("storage/commands/executor.rs"))
    pbody = None
    m = re.search(r"impl\s+CommandParser\s*\{", ex)
    if m:
        pbody = fn_body(ex[m.end():], "parse")
    if pbody is not None:
        arms = _match_arms(pbody, r"match\s+cmd_name\s*\.\s*as_str\s*\(\s*\)\s*\{")
        if arms:
            names = []
            for pat, b in arms:
                if pat.strip() == "_":
                    continue
                names += re.findall(r'"([A-Za-z_]+)"', pat)
            if names:
                out["executor"] = names

    # ---- the EVAL path is synchronous
    srv = strip_comments(src("network/server.rs"))
    lua_cmd = strip_comments(src("storage/commands/lua.rs"))
    pieces = []
    missing = []
    m = re.search(r'"EVAL"\s*=>\s*\{', srv)
    if m:
        i, depth = m.end(), 1
        while i < len(srv) and depth:
            depth += {"{": 1, "}": -1}.get(srv[i], 0)
            i += 1
        pieces.append(("server.rs EVAL arm", srv[m.end():i]))
    else:
        missing.append("EVAL arm")
    # the function that evaluates: handle_eval_with_publish since 2c7061f (handle_eval_with_db is its one-line wrapper)
    EVALFN = "handle_eval_with_publish" if fn_body(lua_cmd, "handle_eval_with_publish") is not None else "handle_eval_with_db"
    for text, fn, label in ((srv, "handle_evalsha_command", "server.rs"), (lua_cmd, EVALFN, "lua.rs"),
                            (eng, "eval", "lua_engine.rs"), (eng, "create_lua_context", "lua_engine.rs"),
                            (eng, "execute_unified_redis_command", "lua_engine.rs"),
                            (eng, "resp_frame_to_lua_value", "lua_engine.rs"),
                            (ex, "execute_lua_command", "executor.rs"), (ex, "execute", "executor.rs")):
        b = fn_body(text, fn)
        if b is None:
            missing.append(fn)
        else:
            pieces.append(("%s: %s" % (label, fn), b))
    if missing:
        out["sync_why"] = "not found: " + ", ".join(missing)
    else:
        bad = [lab for lab, b in pieces if SYNC_BAD.search(b)]
        calls_ok = (bool(re.search(r"handle_eval_with_(?:db|publish)\(", pieces[0][1])) and "lua_engine.eval(" in dict(pieces)["lua.rs: " + EVALFN]
                    and "execute_lua_command(" in dict(pieces)["lua_engine.rs: execute_unified_redis_command"]
                    and "self.executor.execute(" in dict(pieces)["executor.rs: execute_lua_command"])
        out["sync"] = (not bad) and calls_ok
        out["sync_why"] = ("hand-off found in " + ", ".join(bad)) if bad else ("" if calls_ok else "call chain not recognised")

    # ---- the conversion arms behind the model's quirk switches (True = the deviating form is in the source)
    q = {}
    r2l = fn_body(eng, "resp_frame_to_lua_value")
    if r2l is not None:
        m = re.search(r"RespFrame::BulkString\(None\)\s*=>\s*Ok\(LuaValue::(\w+)", r2l)
        if m:
            q["nilBulkIsNil"] = m.group(1) == "Nil"
        m = re.search(r"RespFrame::SimpleString\(bytes\)\s*=>\s*\{(.*?)\n\s*\}\s*\n\s*RespFrame::", r2l, re.S)
        if m:
            q["statusIsString"] = "create_table" not in m.group(1)
        arm = re.search(r"RespFrame::BulkString\(Some\(bytes\)\)\s*=>\s*\{(.*?)\n\s{12}\}", r2l, re.S)
        ksa = fn_body(eng, "setup_keys_and_args")
        if arm and ksa is not None:
            q["lossyStrings"] = "from_utf8_lossy" in arm.group(1) or "from_utf8_lossy" in ksa
    herr = fn_body(eng, "handle_command_error_with_context")
    if herr is not None:
        m = re.search(r"if\s+is_pcall\s*\{(.*?)\}\s*else", herr, re.S)
        if m:
            q["pcallErrIsNil"] = bool(re.search(r"Ok\(LuaValue::Nil\)", m.group(1)))
    l2r = fn_body(eng, "lua_value_to_resp")
    if l2r is not None:
        m = re.search(r"LuaValue::Boolean\(b\)\s*=>\s*\{(.*?)\n\s{12}\}", l2r, re.S)
        if m:
            q["falseIsZero"] = "Integer(0)" in m.group(1)
        q["fracIsBulk"] = bool(re.search(r'format!\("\{:\.17\}"', l2r))
        q["emptyTableIsNil"] = bool(re.search(r"if\s+items\.is_empty\(\)\s*\{\s*RespFrame::BulkString\(None\)", l2r))
        q["okErrTablesIgnored"] = not re.search(r'"(ok|err)"', l2r)
    ubody = fn_body(eng, "execute_unified_redis_command")
    if ubody is not None:
        q["utf8ArgsOnly"] = bool(re.search(r"s\.to_str\(\)", ubody)) and "Invalid UTF-8" in ubody
    esha = fn_body(srv, "handle_evalsha_command")
    if esha is not None:
        if re.search(r"handle_eval_with_\w+\s*\([^;]*\bdb\b", esha):      # handle_eval_with_db / _with_publish(.., db, ..)
            q["evalshaDb0"] = False
        elif re.search(r"lua::handle_eval\s*\(", esha):
            q["evalshaDb0"] = True
    out["quirks"] = q
    # ---- is there any bound on how long a script may run?  The limit in milliseconds, 0 = none: a count hook installed on the
    #      EVAL path (LuaEngine::eval / create_lua_context) that compares the elapsed time with a `const ...: Duration`
    ev = fn_body(eng, "eval")
    ctx = fn_body(eng, "create_lua_context")
    if ev is not None and ctx is not None:
        body = ev + ctx + (fn_body(eng, "install_time_limit_hook") or "")
        hook = re.search(r"\.\s*set_(?:global_)?hook\s*\(\s*HookTriggers::new\(\)\s*\.\s*every_nth_instruction\s*\(", body)
        if not hook:
            out["time_limit"] = 0 if not re.search(r"set_hook|set_global_hook|set_interrupt|HookTriggers", body) else None
        else:
            m = re.search(r"\.elapsed\(\)\s*(?:<|>=|>)\s*([A-Z_][A-Z0-9_]*)", body)
            c = m and re.search(r"const\s+" + m.group(1) + r"\s*:\s*(?:std::time::)?Duration\s*=\s*(?:std::time::)?Duration::from_(secs|millis)\(\s*([0-9_]+)\s*\)\s*;", eng)
            if c:
                out["time_limit"] = int(c.group(2).replace("_", "")) * (1000 if c.group(1) == "secs" else 1)
    # ---- precompiled chunks: does the state scripts run in refuse them?  (string.dump removed, loadstring replaced by a loader that
    #      tests the bytecode signature byte 0x1b)
    if ctx is not None:
        out["bytecode_refused"] = bool(re.search(r'\.set\(\s*"dump"\s*,\s*mlua::Nil\s*\)', ctx)) and bool(re.search(r"0x1[bB]", ctx)) \
            and bool(re.search(r'globals\s*\.\s*set\(\s*"loadstring"', ctx))
    # ---- the nesting depth at which the return-value conversion stops (0 = it recurses without limit)
    l2r_body = fn_body(eng, "lua_value_to_resp")
    if l2r_body is not None:
        m = re.search(r"if\s+depth\s*(>=?)\s*((?:[a-z_]+::)*[A-Z_][A-Z0-9_]*|[0-9_]+)", l2r_body)
        if not m:
            out["reply_depth_limit"] = 0 if not re.search(r"\bdepth\b", l2r_body) else None
        elif m.group(2)[0].isdigit():
            out["reply_depth_limit"] = int(m.group(2).replace("_", "")) - (1 if m.group(1) == ">=" else 0)
        else:
            name = m.group(2).split("::")[-1]
            where = strip_comments(src("protocol/parser.rs")) if "parser::" in m.group(2) else eng
            c = re.search(r"const\s+" + name + r"\s*:\s*usize\s*=\s*([0-9_]+)\s*;", where) or \
                re.search(r"const\s+" + name + r"\s*:\s*usize\s*=\s*([0-9_]+)\s*;", strip_comments(src("protocol/parser.rs")))
            if c:
                # the limit is the deepest ACCEPTED depth: `depth > N` accepts N, `depth >= N` accepts N - 1
                out["reply_depth_limit"] = int(c.group(1).replace("_", "")) - (1 if m.group(1) == ">=" else 0)
    # ---- the bound on a script's memory in bytes, 0 = none: `lua.set_memory_limit(CONST)` on the state scripts run in
    if ev is not None and ctx is not None:
        m = re.search(r"\.\s*set_memory_limit\s*\(\s*([A-Z_][A-Z0-9_]*|[0-9_]+(?:\s*<<\s*[0-9]+)?)\s*\)", ev + ctx)
        if not m:
            out["memory_limit"] = 0 if "set_memory_limit" not in eng else None
        else:
            expr = m.group(1)
            if not expr[0].isdigit():
                c = re.search(r"const\s+" + expr + r"\s*:\s*usize\s*=\s*([0-9_]+(?:\s*<<\s*[0-9]+)?(?:\s*\*\s*[0-9_]+)*)\s*;", eng)
                expr = c.group(1) if c else None
            if expr is not None:
                v = 1
                for fct in expr.split("*"):
                    a = fct.replace("_", "").split("<<")
                    v *= int(a[0]) << (int(a[1]) if len(a) > 1 else 0)
                out["memory_limit"] = v
    return out


QUIRK_NAMES = ["nilBulkIsNil", "statusIsString", "lossyStrings", "pcallErrIsNil", "falseIsZero", "fracIsBulk",
               "emptyTableIsNil", "okErrTablesIgnored", "utf8ArgsOnly", "evalshaDb0"]


def lean_list(xs):
    return "[" + ", ".join('"%s"' % x for x in xs) + "]"


def generate(src, strip_comments, fn_body, header):
    f = facts(src, strip_comments, fn_body)
    L = [header, "namespace Ferrous.Gen", ""]
    if f["blocked"] is None:
        L.append('def luaBlocked : List String := extraction_failed "refusal arms of execute_unified_redis_command (src/storage/lua_engine.rs) not recognised"')
    else:
        L.append("/-- command names refused inside scripts: the string literals of the arms of `match cmd_name.as_str()` in")
        L.append("    `execute_unified_redis_command` that return `handle_command_error_with_context` (src/storage/lua_engine.rs) -/")
        L.append("def luaBlocked : List String := %s" % lean_list(f["blocked"]))
    if f["removed_eval"] is None or f["removed_load"] is None:
        L.append('def luaSandboxRemoved : List String := extraction_failed "dangerous_functions loop not recognised in create_lua_context / script_load (src/storage/lua_engine.rs)"')
    else:
        both = [x for x in f["removed_eval"] if x in f["removed_load"]]
        L.append("/-- globals set to nil before a script runs (`dangerous_functions` in `create_lua_context`, also present in `script_load`) -/")
        L.append("def luaSandboxRemoved : List String := %s" % lean_list(both))
    if f["executor"] is None:
        L.append('def luaExecutorCommands : List String := extraction_failed "CommandParser::parse (src/storage/commands/executor.rs) not recognised"')
    else:
        L.append("/-- the command names `CommandParser::parse` accepts: what `redis.call` can reach at all (anything else: unknown command) -/")
        L.append("def luaExecutorCommands : List String := %s" % lean_list(f["executor"]))
    if f["sync"] is None:
        L.append('def evalIsSynchronous : Bool := extraction_failed "EVAL path not recognised: %s"' % f["sync_why"].replace('"', "'"))
    else:
        L.append("/-- EVAL arm → handle_eval_with_db → LuaEngine::eval → execute_unified_redis_command → execute_lua_command → executor.execute:")
        L.append("    plain nested calls, no thread spawn / channel / async hand-off / .await in any of these bodies%s -/" % ((" (" + f["sync_why"] + ")") if f["sync_why"] else ""))
        L.append("def evalIsSynchronous : Bool := %s" % ("true" if f["sync"] else "false"))
    if f["time_limit"] is None:
        L.append('def luaScriptTimeLimit : Nat := extraction_failed "LuaEngine::eval / create_lua_context: script time-limit hook not recognised"')
    else:
        L.append("/-- the bound on a script's run time in milliseconds, 0 = none: `LuaEngine::eval` (EVAL and EVALSHA, a fresh Lua state per script)")
        L.append("    installs a count hook (`every_nth_instruction`) that compares `start_time.elapsed()` with a `const ...: Duration` and raises a Lua error -/")
        L.append("def luaScriptTimeLimit : Nat := %d" % f["time_limit"])
    if f["bytecode_refused"] is None:
        L.append('def luaBytecodeRefused : Bool := extraction_failed "create_lua_context not recognised"')
    else:
        L.append("/-- `create_lua_context` removes `string.dump` and replaces `loadstring` by a loader that refuses chunks beginning with the bytecode")
        L.append("    signature 0x1b (Lua 5.1 executes precompiled chunks without validation) -/")
        L.append("def luaBytecodeRefused : Bool := %s" % ("true" if f["bytecode_refused"] else "false"))
    if f["reply_depth_limit"] is None:
        L.append('def luaReplyDepthLimit : Nat := extraction_failed "depth test of lua_value_to_resp (src/storage/lua_engine.rs) not recognised"')
    else:
        L.append("/-- the largest number of tables around a value that `lua_value_to_resp(value, depth)` still converts (`if depth >= MAX_NESTING` gives up:")
        L.append("    MAX_NESTING - 1), 0 = it recurses without limit; the constant is resolved in src/protocol/parser.rs -/")
        L.append("def luaReplyDepthLimit : Nat := %d" % f["reply_depth_limit"])
    if f["memory_limit"] is None:
        L.append('def luaScriptMemoryLimit : Nat := extraction_failed "set_memory_limit in create_lua_context / LuaEngine::eval not recognised"')
    else:
        L.append("/-- the bound on the memory of a script's Lua state in bytes, 0 = none: `lua.set_memory_limit(CONST)` in `create_lua_context` (the state every")
        L.append("    EVAL / EVALSHA runs in); an allocation beyond it raises Lua's 'not enough memory' error -/")
        L.append("def luaScriptMemoryLimit : Nat := %d" % f["memory_limit"])
    seen = [(k, f["quirks"][k]) for k in QUIRK_NAMES if k in f["quirks"]]
    L.append("/-- the deviating form of each conversion arm as the source has it now (quirk switch of Model/Lua.lean, present?) ; an arm that was not recognised is absent -/")
    L.append("def luaQuirksSeen : List (String × Bool) := [%s]" % ", ".join('("%s", %s)' % (k, "true" if v else "false") for k, v in seen))
    L += ["", "end Ferrous.Gen", ""]
    return "\n".join(L)
