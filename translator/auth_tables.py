"""C17: the order of processing around the authentication gate -> Gen/Auth.lean.

Called from extract.py (`gen_auth`).  Extracted from src/network/server.rs (comments stripped,
brace-matched function bodies, anchored regular expressions):

  preGate            names compared with `command` in the frame loop of `process_connection` BEFORE
                     `self.process_frame(` whose `if` block calls a `self.handle_*` function and does not
                     test the connection state first (today: SYNC, PSYNC -> handle_sync_command)
  preGateGuarded     the same special cases when the block has exactly the shape of the fix: the connection's state
                     is read under the lock, `if password.is_some() && !authenticated { NOAUTH } else { handler }`
  preGateUnknownGuard  the same special cases when the handler call depends on any OTHER condition: the extraction
                     cannot tell whether that condition is an authentication test, so the model makes no
                     prediction for these names and the table theorem `tree_preGate_guards_understood` fails
  authAllow          the arms of the `match command.as_str()` inside the gate
                     `if self.config.password.is_some() && conn_status != ConnectionState::Authenticated`
                     of `process_frame`, each with the kind of its right-hand side
  gateDefaultRefuses the `_` arm of that match returns the NOAUTH error
  gateIsFirst        nothing that can act on the server precedes the gate inside `process_frame`
  allCommandNames    every command name the server compares against: depth-0 string arms of
                     `match command_name.as_str()` in `process_normal_command`, every name matched in
                     `process_frame`, every name matched in the frame loop of `process_connection`
  authenticatedWriters  the functions (in all of src/) that assign `ConnectionState::Authenticated`
  blockedWriters        the functions that assign `ConnectionState::Blocked`
  passwordRuntimeWrites assignments to a `password` field outside src/config and src/main*.rs

  deferral           how `Connection::deferred_frames` is filled and drained (absent | blocked-only | unknown:..)
  unreadable         what could not be read.  A pattern that is not found does NOT stop the Lean build: the table gets an inert
                     default, the reason is listed here, `tree_source_readable` (Props/C17) fails, `drv_auth` answers `unknown`
                     for everything and the TCP run searches with the property's own oracle.
"""
import os
import re

NAME = r'"([A-Z][A-Z0-9_]*)"'


def match_brace(text, open_idx):
    """index just after the brace that closes text[open_idx] == '{'; None if unbalanced"""
    depth = 0
    i = open_idx
    in_str = False
    while i < len(text):
        c = text[i]
        if in_str:
            if c == "\\":
                i += 1
            elif c == '"':
                in_str = False
        elif c == '"':
            in_str = True
        elif c == "{":
            depth += 1
        elif c == "}":
            depth -= 1
            if depth == 0:
                return i + 1
        i += 1
    return None


def depth0_arms(body):
    """(pattern text, rhs text) of the arms at depth 0 of a match body"""
    arms = []
    i, n = 0, len(body)
    start = 0
    depth = 0
    in_str = False
    arrow = None
    while i < n:
        c = body[i]
        if in_str:
            if c == "\\":
                i += 1
            elif c == '"':
                in_str = False
        elif c == '"':
            in_str = True
        elif c in "{([":
            depth += 1
        elif c in "})]":
            depth -= 1
            if depth == 0 and c == "}" and arrow is not None:
                # a block arm ends at its closing brace (an optional comma follows)
                j = i + 1
                while j < n and body[j] in " \t\r\n":
                    j += 1
                if j < n and body[j] == ",":
                    j += 1
                if body[arrow + 2:i + 1].lstrip().startswith("{"):
                    arms.append((body[start:arrow].strip(), body[arrow + 2:i + 1].strip()))
                    start, arrow, i = j, None, j
                    continue
        elif depth == 0 and arrow is None and body.startswith("=>", i):
            arrow = i
            i += 1
        elif depth == 0 and c == "," and arrow is not None:
            arms.append((body[start:arrow].strip(), body[arrow + 2:i].strip()))
            start, arrow = i + 1, None
        i += 1
    if arrow is not None and body[arrow + 2:].strip():
        arms.append((body[start:arrow].strip(), body[arrow + 2:].strip()))
    return arms


def arm_names(pattern):
    """string literals of an arm pattern like `"A" | "B"` (attributes such as #[cfg(..)] are skipped)"""
    pattern = re.sub(r"#\[[^\]]*\]", "", pattern).strip()
    if re.fullmatch(r'%s(\s*\|\s*%s)*' % (NAME, NAME), pattern):
        return re.findall(NAME, pattern)
    return []


def lean_str(s):
    return '"' + s.replace("\\", "\\\\").replace('"', '\\"') + '"'


def lean_list(xs):
    return "[" + ", ".join(lean_str(x) for x in xs) + "]"


def uniq(xs):
    out = []
    for x in xs:
        if x not in out:
            out.append(x)
    return out


def enclosing_fn(text, pos):
    ms = list(re.finditer(r"\bfn\s+(\w+)", text[:pos]))
    return ms[-1].group(1) if ms else "?"


def generate(src, strip_comments, fn_body, header, repo):
    text = strip_comments(src("network/server.rs"))
    L = [header, "namespace Ferrous.Gen", ""]
    failed = []

    def fail(decl, ty, what):
        """A shape this extraction cannot read does NOT stop the Lean build (the driver must still run so that the TCP
        search can go on with the property's own oracle): the table gets an inert default, the reason goes into
        `Gen.unreadable`, the table theorem `tree_source_readable` fails, and the driver predicts nothing (`unknown`)."""
        failed.append("%s: %s" % (decl, what))
        default = {"Bool": "false"}.get(ty, "[]")
        L.append("/-- UNREADABLE (%s): inert default, see `unreadable` -/" % what.replace("-/", "- /"))
        L.append("def %s : %s := %s" % (decl, ty, default))

    # ---------------------------------------------------------------- (a) the connection loop before process_frame
    pc = fn_body(text, "process_connection")
    loop_names = []
    section = None
    if pc is not None:
        # the loop over the parsed frames that contains the call of process_frame: `for frame in <expr> {` or
        # `while let Some(frame) = <expr> {` (the innermost such header before the call)
        b = pc.find("self.process_frame(")
        heads = [m for m in re.finditer(r"(?:for\s+frame\s+in\s+[^{};]+|while\s+let\s+Some\(\s*frame\s*\)\s*=\s*[^{};]+)\{", pc) if m.end() < b]
        if b > 0 and heads:
            a = heads[-1]
            end = match_brace(pc, a.end() - 1)
            if end is not None and end > b:          # the call is inside this loop
                section = pc[a.end():b]
    if section is None:
        fail("preGate", "List String", "frame loop of process_connection (`for frame in ..` / `while let Some(frame) = ..` around self.process_frame() not found")
        fail("preGateGuarded", "List String", "frame loop of process_connection not found")
        fail("preGateUnknownGuard", "List (String × String)", "frame loop of process_connection not found")
    else:
        special = []       # (names, handler, guard) guard: "none" | "auth" | "unknown:<text>"
        covered = []       # spans of handler calls inside recognised special cases
        # the one guard this extraction understands (whitespace-normalised text of the whole block): the
        # connection's own state is read under the lock and the handler is called only in the `else` of
        # `if password.is_some() && !authenticated`
        canonical = re.compile(
            r'let authenticated = self\.connections\.with_connection\(id, \|conn\| \{ conn\.state == ConnectionState::Authenticated \}\)'
            r'\.unwrap_or\(false\); if self\.config\.password\.is_some\(\) && !authenticated \{ \w+ = Some\(RespFrame::error\("NOAUTH [^"]*"\)\); \} '
            r'else \{ \w+ = Some\(self\.handle_\w+\([^;]*\)\?\); \}')
        for m in re.finditer(r'\bif\s+((?:command\s*==\s*%s\s*(?:\|\|\s*)?)+)\{' % NAME, section):
            names = re.findall(NAME, m.group(1))
            end = match_brace(section, m.end() - 1)
            if end is None:
                continue
            block = section[m.end():end - 1]
            norm = re.sub(r"\s+", " ", block).strip()
            for hm in re.finditer(r"self\s*\.\s*(handle_\w+)\s*\(", block):
                before = block[:hm.start()]
                if not re.search(r"\b(if|else|match|while|for)\b|\?|&&|\|\|", before):
                    guard = "none"                      # the handler call is the first thing the block does
                elif canonical.fullmatch(norm):
                    guard = "auth"
                else:
                    conds = re.findall(r"\bif\s+([^{]*)\{", before)
                    guard = "unknown:" + re.sub(r"\s+", " ", conds[-1] if conds else before[-60:]).strip()
                special.append((names, hm.group(1), guard))
                covered.append((m.end() + hm.start(), m.end() + hm.end()))
        # any other way of reaching a handler before the gate is not understood by this extraction
        stray = [hm for hm in re.finditer(r"self\s*\.\s*(handle_\w+|process_normal_command|process_command_parts)\s*\(", section)
                 if not any(s <= hm.start() < e for s, e in covered)]
        if stray:
            fail("preGate", "List String", "handler call before process_frame outside an `if command == ..` block: %s" % stray[0].group(1))
            fail("preGateGuarded", "List String", "see preGate")
            fail("preGateUnknownGuard", "List (String × String)", "see preGate")
        else:
            pre = uniq([n for ns, _, g in special if g == "none" for n in ns])
            pre_g = uniq([n for ns, _, g in special if g == "auth" for n in ns if n not in pre])
            pre_u = uniq([(n, g[8:]) for ns, _, g in special if g.startswith("unknown:") for n in ns])
            L.append("/-- names special-cased in the frame loop of `process_connection` BEFORE `process_frame` (hence before the")
            L.append("    authentication gate) whose block calls %s without any condition -/" % (
                ", ".join(uniq(["`%s`" % h for _, h, g in special if g == "none"])) or "a handler"))
            L.append("def preGate : List String := %s" % lean_list(pre))
            L.append("/-- the same special cases when the block is exactly: read `conn.state == ConnectionState::Authenticated` under the")
            L.append("    lock; `if password.is_some() && !authenticated { NOAUTH } else { handler }` -/")
            L.append("def preGateGuarded : List String := %s" % lean_list(pre_g))
            L.append("/-- special cases whose handler call depends on a condition this extraction cannot interpret (name, condition):")
            L.append("    the model makes NO prediction for these names (driver class `unknown`) and `tree_preGate_guards_understood` fails -/")
            L.append("def preGateUnknownGuard : List (String × String) := [%s]" % ", ".join("(%s, %s)" % (lean_str(n), lean_str(c)) for n, c in pre_u))
        loop_names = re.findall(NAME, section)

    # ---------------------------------------------------------------- (a') name normalisation and QUIT in the frame loop
    loop_norm_ok = pc is not None and bool(re.search(r"let\s+command\s*=\s*String::from_utf8_lossy\(bytes\)\.to_uppercase\(\)\s*;", pc))
    pf0 = fn_body(text, "process_frame") or ""
    nm = re.search(r"let\s+command\s*=\s*match\s+cmd_frame\s*\{\s*RespFrame::BulkString\(Some\(bytes\)\)\s*=>\s*\{(.*?)\}\s*_\s*=>", pf0, re.S)
    arm = re.sub(r"\s+", " ", nm.group(1)).strip() if nm else None
    if not loop_norm_ok or arm is None:
        fail("frameNameTrimmed", "Bool", "command-name normalisation of process_connection / process_frame not found")
    elif arm == "String::from_utf8_lossy(bytes).to_uppercase()":
        L.append("/-- `process_frame` takes the command name as `String::from_utf8_lossy(bytes).to_uppercase()`, like the frame loop (false), or")
        L.append("    trims it first (true: `.trim().to_uppercase()`) -/")
        L.append("def frameNameTrimmed : Bool := false")
    elif re.fullmatch(r"let cmd_raw = String::from_utf8_lossy\(bytes\); let cmd_clean = cmd_raw\.trim\(\)\.to_uppercase\(\); cmd_clean", arm) or \
            arm == "String::from_utf8_lossy(bytes).trim().to_uppercase()":
        L.append("/-- `process_frame` trims the command name before upper-casing it (the frame loop does not) -/")
        L.append("def frameNameTrimmed : Bool := true")
    else:
        fail("frameNameTrimmed", "Bool", "command-name normalisation of process_frame has an unknown shape: %s" % arm[:120])
    if pc is not None:
        sets_close = bool(re.search(r'if\s+command\s*==\s*"QUIT"\s*\{\s*should_close\s*=\s*true;\s*\}', pc))
        breaks = bool(re.search(r"responses\.push\(response\);\s*if\s+should_close\s*\{\s*break;\s*\}", pc))
        other_break = len(re.findall(r"\bshould_close\b", pc))
    if pc is None or not sets_close:
        fail("quitEndsBatch", "Bool", "`if command == \"QUIT\" { should_close = true; }` not found in process_connection")
    else:
        L.append("/-- QUIT (name as the frame loop normalises it) sets `should_close`; true: `responses.push(response); if should_close { break; }` —")
        L.append("    the frames that follow QUIT in the same read are neither executed nor answered; false: they are all executed first -/")
        L.append("def quitEndsBatch : Bool := %s" % ("true" if breaks else "false"))

    # ---------------------------------------------------------------- (b) the gate of process_frame
    pf = fn_body(text, "process_frame")
    frame_names = []
    gate = None
    if pf is not None:
        gate = re.search(r"if\s+self\.config\.password\.is_some\(\)\s*&&\s*conn_status\s*!=\s*ConnectionState::Authenticated\s*\{", pf)
        frame_names = re.findall(NAME + r"\s*(?:=>|\|)", pf) + re.findall(r"\|\s*" + NAME, pf) + \
            re.findall(r"command(?:\.as_str\(\))?\s*==\s*" + NAME, pf)
    if pf is None or gate is None:
        fail("authAllow", "List (String × String)", "gate `if self.config.password.is_some() && conn_status != ConnectionState::Authenticated` not found in process_frame")
        fail("gateDefaultRefuses", "Bool", "gate not found")
        fail("gateIsFirst", "Bool", "gate not found")
    else:
        end = match_brace(pf, gate.end() - 1)
        block = pf[gate.end():end - 1] if end else ""
        mm = re.search(r"match\s+command\.as_str\(\)\s*\{", block)
        mend = match_brace(block, mm.end() - 1) if mm else None
        if not mm or mend is None or block[mend:].strip() or block[:mm.start()].strip():
            fail("authAllow", "List (String × String)", "the gate block is not a single `match command.as_str()`")
            fail("gateDefaultRefuses", "Bool", "see authAllow")
        else:
            arms = depth0_arms(block[mm.end():mend - 1])
            allow, default, bad = [], None, None
            for pat, rhs in arms:
                rhs1 = re.sub(r"\s+", " ", rhs)
                if pat == "_":
                    default = rhs1
                    continue
                ns = arm_names(pat)
                if not ns:
                    bad = pat
                    continue
                if re.fullmatch(r"return self\.handle_auth\(parts, conn_id\)", rhs1):
                    kind = "auth"
                elif re.fullmatch(r"return self\.handle_ping\(parts\)", rhs1):
                    kind = "ping"
                elif re.fullmatch(r"return Ok\(RespFrame::ok\(\)\)", rhs1):
                    kind = "okOnly"
                else:
                    kind = "other:" + rhs1
                for n in ns:
                    allow.append((n, kind))
            if bad is not None or default is None:
                fail("authAllow", "List (String × String)", "unrecognised arm in the gate match: %s" % (bad if bad is not None else "no `_` arm"))
                fail("gateDefaultRefuses", "Bool", "see authAllow")
            else:
                L.append("/-- arms of the `match` inside the gate `if self.config.password.is_some() && conn_status != ConnectionState::Authenticated`")
                L.append("    of `process_frame`: (name, what the arm does): auth = `return self.handle_auth(parts, conn_id)`,")
                L.append("    ping = `return self.handle_ping(parts)`, okOnly = `return Ok(RespFrame::ok())`, anything else verbatim -/")
                L.append("def authAllow : List (String × String) := [%s]" % ", ".join("(%s, %s)" % (lean_str(n), lean_str(k)) for n, k in allow))
                L.append("/-- the `_` arm of that match is `return Ok(RespFrame::error(\"NOAUTH ...\"))` -/")
                L.append("def gateDefaultRefuses : Bool := %s" % (
                    "true" if re.fullmatch(r'return Ok\(RespFrame::error\("NOAUTH [^"]*"\)\)', default) else "false"))
        before = pf[:gate.start()]
        acts = re.search(r"self\s*\.\s*(handle_\w+|process_normal_command|monitor_subscribers|pubsub|storage|replication)\b|transactions::", before)
        L.append("/-- inside `process_frame` nothing that can act on the server (handler call, storage, pubsub, replication,")
        L.append("    transactions) precedes the gate -/")
        L.append("def gateIsFirst : Bool := %s" % ("false" if acts else "true"))

    # ---------------------------------------------------------------- (c) every command name the server knows
    pn = fn_body(text, "process_normal_command")
    disp = []
    if pn is not None:
        mm = re.search(r"match\s+command_name\.as_str\(\)\s*\{", pn)
        mend = match_brace(pn, mm.end() - 1) if mm else None
        if mm and mend:
            for pat, _ in depth0_arms(pn[mm.end():mend - 1]):
                disp += arm_names(pat)
    if len(disp) < 20:
        fail("allCommandNames", "List String", "dispatch `match command_name.as_str()` of process_normal_command not found or implausibly small (%d arms)" % len(disp))
    else:
        allnames = uniq(disp + frame_names + loop_names)
        L.append("/-- every command name the server compares a request against: the %d string arms of the dispatch `match` in" % len(uniq(disp)))
        L.append("    `process_normal_command`, the names matched in `process_frame`, the names matched in the frame loop of `process_connection` -/")
        L.append("def allCommandNames : List String := %s" % lean_list(allnames))

    # ---------------------------------------------------------------- (d) who writes the connection state / the password
    auth_w, blocked_w, pw_w = [], [], []
    for root, _, files in os.walk(os.path.join(repo, "src")):
        for f in sorted(files):
            if not f.endswith(".rs"):
                continue
            rel = os.path.relpath(os.path.join(root, f), os.path.join(repo, "src"))
            t = strip_comments(src(rel))
            for m in re.finditer(r"\bstate\s*=\s*(?:\w+::)*ConnectionState::(\w+)", t):
                who = "%s::%s" % (rel, enclosing_fn(t, m.start()))
                if m.group(1) == "Authenticated":
                    auth_w.append(who)
                elif m.group(1) == "Blocked":
                    blocked_w.append(who)
            if not (rel.startswith("config" + os.sep) or rel.startswith("main") or rel.startswith("bin" + os.sep)):
                for m in re.finditer(r"\bpassword\s*=[^=]", t):
                    pw_w.append("%s::%s" % (rel, enclosing_fn(t, m.start())))
    L.append("/-- functions that assign `ConnectionState::Authenticated` to a connection (all of src/) -/")
    L.append("def authenticatedWriters : List String := %s" % lean_list(sorted(set(auth_w))))
    L.append("/-- functions that assign `ConnectionState::Blocked` to a connection -/")
    L.append("def blockedWriters : List String := %s" % lean_list(sorted(set(blocked_w))))
    L.append("/-- assignments to a `password` field outside src/config, src/main*.rs, src/bin (the password is fixed at start-up) -/")
    L.append("def passwordRuntimeWrites : List String := %s" % lean_list(sorted(set(pw_w))))
    # ---------------------------------------------------------------- (e) frames kept back for later execution
    # `Connection::deferred_frames`: the rest of a batch behind a blocking command that blocked.  The facts the model rests on:
    # the list is per connection, it is filled only in process_connection and only when `is_connection_blocked(id)`, and it is
    # drained only into the frames of the SAME connection's next process_connection (where every frame meets the gate again).
    fills, drains = [], []
    for root, _, files in os.walk(os.path.join(repo, "src")):
        for f in sorted(files):
            if not f.endswith(".rs"):
                continue
            rel = os.path.relpath(os.path.join(root, f), os.path.join(repo, "src"))
            t = strip_comments(src(rel))
            for m in re.finditer(r"\bdeferred_frames\b", t):
                ctx = re.sub(r"\s+", " ", t[max(0, m.start() - 60):m.end() + 40])
                who = "%s::%s" % (rel, enclosing_fn(t, m.start()))
                if re.match(r"\s*=[^=]", t[m.end():m.end() + 4]):
                    fills.append((who, m.start(), rel))
                elif re.search(r"append\(&mut conn\.deferred_frames\)", ctx):
                    drains.append(who)
                elif re.search(r"deferred_frames: Vec<RespFrame>|deferred_frames: Vec::new\(\)", ctx):
                    pass                                   # declaration / initialisation
                else:
                    fills.append((who + " (unrecognised use: %s)" % ctx.strip()[:60], -1, rel))
    if not fills and not drains:
        deferral = "absent"
    else:
        okf = True
        for who, pos, rel in fills:
            if pos < 0 or who != "network/server.rs::process_connection":
                okf = False
                continue
            before = re.sub(r"\s+", " ", text[max(0, pos - 400):pos]) if rel == "network/server.rs" else ""
            # `if self.is_connection_blocked(id) { let rest .. = frames.by_ref().collect(); if !rest.is_empty() { self.connections.with_connection(id, |conn| { conn.`
            if not re.search(r"if self\.is_connection_blocked\(id\) \{ let rest: Vec<RespFrame> = \w+\.by_ref\(\)\.collect\(\); if !rest\.is_empty\(\) \{ "
                             r"self\.connections\.with_connection\(id, \|conn\| \{ conn\.$", before):
                okf = False
        okd = all(d == "network/server.rs::process_connection" for d in drains) and len(drains) == 1
        deferral = "blocked-only" if okf and okd and fills else "unknown:fills=%s drains=%s" % ([w for w, _, _ in fills], drains)
    L.append("/-- frames kept back for later execution (`Connection::deferred_frames`): \"absent\"; \"blocked-only\" = filled only in")
    L.append("    process_connection under `if self.is_connection_blocked(id)` with the rest of the same batch and drained only into the")
    L.append("    same connection's next process_connection (each frame then meets the gate); anything else is \"unknown:..\" -/")
    L.append("def deferral : String := %s" % lean_str(deferral))
    # ---------------------------------------------------------------- (f) connection ids and the substitute ids of indirect execution
    # Commands run inside EXEC (process_command_parts) are handed a literal connection id instead of the issuer's.  Whatever a
    # handler does to "the connection" then happens to the connection with THAT id, if one exists: the literal ids must lie
    # below the first id the accept loop hands out.
    m = re.search(r"static\s+CONN_ID_COUNTER\s*:\s*AtomicU64\s*=\s*AtomicU64::new\(\s*(\d+)\s*\)\s*;", text)
    acc = fn_body(text, "accept_single_connection") or ""
    if not m or not re.search(r"let\s+id\s*=\s*CONN_ID_COUNTER\.fetch_add\(\s*1\s*,", acc):
        fail("connIdStart", "Nat", "CONN_ID_COUNTER initial value / `let id = CONN_ID_COUNTER.fetch_add(1, ..)` in accept_single_connection not found")
        L[-1] = "def connIdStart : Nat := 0"
    else:
        L.append("/-- the first connection id the accept loop hands out (`static CONN_ID_COUNTER = AtomicU64::new(..)`, `fetch_add(1)`) -/")
        L.append("def connIdStart : Nat := %s" % m.group(1))
    subs = []
    sigs = {}
    for fm in re.finditer(r"\bfn\s+(\w+)\s*\(\s*&(?:mut\s+)?self\s*,([^)]*)\)", text):
        params = [x.strip().split(":")[0].strip() for x in fm.group(2).split(",") if x.strip()]
        if "conn_id" in params:
            sigs[fm.group(1)] = params.index("conn_id")
    for name, idx in sigs.items():
        for cm in re.finditer(r"self\s*\.\s*%s\s*\(" % re.escape(name), text):
            i, depth, args, cur = cm.end(), 1, [], ""
            while i < len(text) and depth:
                ch = text[i]
                if ch in "([{":
                    depth += 1
                elif ch in ")]}":
                    depth -= 1
                    if depth == 0:
                        break
                if ch == "," and depth == 1:
                    args.append(cur.strip())
                    cur = ""
                else:
                    cur += ch
                i += 1
            args.append(cur.strip())
            if idx < len(args) and re.fullmatch(r"\d+(?:u64)?", args[idx]):
                subs.append((int(args[idx].replace("u64", "")), "%s called from %s" % (name, enclosing_fn(text, cm.start()))))
    L.append("/-- literal connection ids passed where a handler expects the issuing connection's id (execution inside EXEC):")
    L.append("    %s -/" % ("; ".join("%d: %s" % sw for sw in subs) or "none"))
    L.append("def substituteConnIds : List Nat := [%s]" % ", ".join(str(i) for i, _ in subs))

    # ---------------------------------------------------------------- (g) where the password comes from
    cfg = strip_comments(src("config/mod.rs"))
    body = re.sub(r"\s+", " ", fn_body(cfg, "apply_cli_args") or "")
    if re.search(r"if let Some\(password\) = args\.password \{ self\.network\.password = Some\(password\); \}", body) and \
            len(re.findall(r"\.password\s*=", body)) == 1:
        cli_rule = "if-given"
    elif re.search(r"self\.network\.password = args\.password;", body) and len(re.findall(r"\.password\s*=", body)) == 1:
        cli_rule = "always"
    else:
        cli_rule = "unknown:" + ";".join(re.findall(r"[^;{}]*\.password\s*=[^;]*;", body))[:120]
    L.append("/-- `Config::apply_cli_args`: \"if-given\" = `if let Some(password) = args.password { self.network.password = Some(password); }`")
    L.append("    (a command-line password overrides the file's, its absence leaves the file's in place); \"always\" = the field is")
    L.append("    assigned `args.password` unconditionally (no command-line password WIPES the file's) -/")
    L.append("def cliPasswordRule : String := %s" % lean_str(cli_rule))
    prs = strip_comments(src("config/parser.rs"))
    # the `requirepass` arm assigns the password from the line's value: verbatim, or its single redis.conf argument (which of the two: requirepassValue below)
    file_ok = bool(re.search(r'"requirepass"\s*=>\s*\{\s*config\.network\.password\s*=\s*Some\(value\.to_string\(\)\);\s*\}', prs)) or \
        bool(re.search(r'"requirepass"\s*=>\s*\{\s*let mut args = split_config_args\(value\).*?config\.network\.password\s*=\s*Some\(args\.remove\(0\)\);\s*\}', prs, re.S))
    mainrs = re.sub(r"\s+", " ", strip_comments(src("main.rs")))
    order_ok = bool(re.search(r"let mut config = if let Some\(ref config_path\) = cli_args\.config \{.*?Config::from_file\(config_path\).*?\} else \{ (?:config::)?Config::default\(\) \}; "
                              r"config\.apply_cli_args\(cli_args\);", mainrs))
    cli = re.sub(r"\s+", " ", strip_comments(src("config/cli.rs")))
    flags_ok = bool(re.search(r'"--password" \| "--requirepass" => \{ if i \+ 1 < args\.len\(\) \{ cli_args\.password = Some\(args\[i \+ 1\]\.clone\(\)\);', cli))
    srv_ok = "self.config.password" in text and bool(re.search(r"config\.network", fn_body(text, "from_config") or ""))
    L.append("/-- the configuration file's `requirepass <value>` line sets the password (last line wins); main loads the file, then")
    L.append("    applies the command line; `--password` / `--requirepass <value>` set the command-line password (last one wins) -/")
    L.append("def passwordSourcesUnderstood : Bool := %s" % ("true" if file_ok and order_ok and flags_ok and srv_ok else "false"))

    # ---------------------------------------------------------------- (h) the line grammar of the configuration file
    pbody = re.sub(r"\s+", " ", fn_body(prs, "parse_config_file") or "")
    lm = re.search(r"for \(line_num, line_result\) in reader\.lines\(\)\.enumerate\(\) \{(.*)\} Ok\(config\)", pbody)
    canonical_loop = (r" let line = line_result\?; let line = line\.trim\(\); if line\.is_empty\(\) \|\| line\.starts_with\('#'\) \{ continue; \} "
                      r"let parts: Vec<&str> = line\.splitn\(2, ' '\)\.collect\(\); if parts\.len\(\) != 2 \{ return Err\([^;]*\); \} "
                      r"let param = parts\[0\]\.trim\(\)\.to_lowercase\(\); let value = parts\[1\]\.trim\(\); "
                      r"apply_config_param\(&mut config, &param, value, line_num \+ 1\)\?; ")
    fixed_loop = (r" let line = line_result\?; let line = if line_num == 0 \{ line\.trim_start_matches\('\\u\{feff\}'\) \} else \{ line\.as_str\(\) \}; "
                  r"let line = line\.trim\(\); if line\.is_empty\(\) \|\| line\.starts_with\('#'\) \{ continue; \} "
                  r"let \(param, value\) = match line\.split_once\(char::is_whitespace\) \{ Some\(\(param, value\)\) => \(param\.to_lowercase\(\), value\.trim\(\)\), "
                  r"None => return Err\([^;]*\), \}; apply_config_param\(&mut config, &param, value, line_num \+ 1\)\?; ")
    if lm and re.fullmatch(canonical_loop, lm.group(1)):
        grammar = "rest-of-line-trimmed"
    elif lm and re.fullmatch(fixed_loop, lm.group(1)):
        grammar = "first-whitespace-bom"
    else:
        grammar = "unknown"
        L.append("/-- the line loop of parse_config_file as found (not a modelled shape) -/")
        L.append("def configLineLoopFound : String := %s" % lean_str(lm.group(1).strip()[:400] if lm else "line loop of parse_config_file not found"))
    L.append("/-- a line of the configuration file.  \"rest-of-line-trimmed\": trim; skip if empty or first character `#`; split at the FIRST BLANK")
    L.append("    (`splitn(2, ' ')`) into directive (trimmed, lower-cased) and value (the whole rest, trimmed).  \"first-whitespace-bom\": a byte-order")
    L.append("    mark in front of the first line is dropped and the directive ends at the first white space of ANY kind (`split_once(char::is_whitespace)`) -/")
    L.append("def configLineGrammar : String := %s" % lean_str(grammar))
    arm = re.search(r'"requirepass"\s*=>\s*\{(.*?)\}\s*"protected-mode"', prs, re.S)
    armt = re.sub(r"\s+", " ", arm.group(1)).strip() if arm else ""
    if armt == "config.network.password = Some(value.to_string());":
        rv = "verbatim"
    elif re.fullmatch(r"let mut args = split_config_args\(value\) \.ok_or_else\(\|\| ConfigParseError::Value\([^;]*\)\)\?; if args\.len\(\) != 1 \{ return Err\([^;]*\); \} "
                      r"config\.network\.password = Some\(args\.remove\(0\)\);", armt) and "fn split_config_args(value: &str) -> Option<Vec<String>>" in prs:
        rv = "one-sdssplitargs-argument"
    else:
        rv = "unknown"
    L.append("/-- the value of `requirepass`: \"verbatim\" = the rest of the line as it is (quotes and escapes stay in the password);")
    L.append("    \"one-sdssplitargs-argument\" = exactly one argument in redis.conf syntax (quotes and escapes removed; anything else stops the start-up) -/")
    L.append("def requirepassValue : String := %s" % lean_str(rv))

    L.append("/-- what this extraction could not read in the current source (each entry: table, reason); the tables concerned hold")
    L.append("    inert defaults and the driver predicts nothing while this list is non-empty -/")
    L.append("def unreadable : List String := %s" % lean_list(failed))
    L += ["", "end Ferrous.Gen", ""]
    return "\n".join(L)
