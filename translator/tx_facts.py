"""C07: facts about MULTI/EXEC that the Lean model takes as tables/switches -> Gen/Tx.lean.

Called from extract.py (`gen_tx`).  Extracted from /repo/src (comments stripped):

  * `Gen.preQueue`       names special-cased in `Server::process_frame` BEFORE the queue test
                         (`if in_transaction && transactions::should_queue_command(..)`), in source
                         order; the authentication gate's block is skipped (C17 owns it); an arm
                         guarded by `!in_transaction` is not counted (it does not fire inside MULTI);
  * `Gen.txPassThrough`  the names `should_queue_command` refuses to queue;
  * `Gen.execIsSynchronous`  coarse structural test: `Server::run` is a `loop` that calls
                         `process_connections`, which iterates `process_connection(id)`; `handle_exec`
                         runs `for … in commands_to_execute…` calling `process_command_parts`; none of
                         these bodies (nor transactions.rs) mentions a thread spawn, a channel, an
                         async hand-off;
  * `Gen.abortedSetSites`    number of assignments `aborted = true` in the whole source tree;
  * `Gen.queueCommandValidates`  does `queue_command` do anything but push + QUEUED ?
  * `Gen.execSelectIgnored`  `process_command_parts` passes the literal connection id 0 and
                         `handle_exec` has no SELECT handling of its own;
  * `Gen.blockingInExecUnguarded`  `handle_blpop` / `handle_brpop` register the client without
                         testing for the dummy connection id 0 first (true as soon as ONE of them does);
  * `Gen.execNotifiesWaiters`  the LPUSH/RPUSH arms of `process_normal_command` notify the blocking
                         manager even when `conn_id == 0` (inside EXEC), or `handle_exec` does not serve
                         the pushed keys after its loop;
  * `Gen.queueClearedWhenTransactionEnds`  `handle_multi` clears the queue, or every exit of `handle_exec`
                         that leaves the transaction and `handle_discard` clear / take it;
  * `Gen.watchSetClearedWhenTransactionEnds`  `handle_discard` and every exit of `handle_exec` clear `watched_keys`;
  * `Gen.deferredFramesFirst`  in `process_connection` the frames kept back behind a blocking pop come before the socket read;
  * `Gen.controlArityUnchecked`  no `matches!(command.as_str(), "MULTI" | "EXEC" | "DISCARD" | "UNWATCH") && parts.len() != 1` test in process_frame;
  * `Gen.execClientUnderConnZero`  `handle_exec` does not treat CLIENT itself (it then runs under connection id 0);
  * `Gen.txUnrecognised`  what could NOT be read off the source.  Every fact is extracted on its own; a
                         shape that is not recognised yields the PESSIMISTIC value (the deviation is assumed)
                         and an entry here, never a definition that does not elaborate: the model and the
                         driver always build, the TCP run goes ahead with the prescribed behaviour as the
                         oracle, and the table theorem `source_shapes_recognised` (Props/C07.lean) refuses
                         a non-empty list.
"""
import os
import re

HANDOFF = re.compile(r"thread::(?:spawn|Builder|scope)|\bspawn\b|\bchannel\b|\bmpsc\b|\.send\(|\.recv\(|\basync\b|\.await\b|\btokio\b|\brayon\b")


def block_after(text, start):
    """text[start] is just after a `{`: returns the index just after the matching `}`"""
    depth, i = 1, start
    while i < len(text) and depth:
        if text[i] == "{":
            depth += 1
        elif text[i] == "}":
            depth -= 1
        i += 1
    return i


def facts(src, strip_comments, fn_body, repo=None):
    out = {}
    sv = strip_comments(src("network/server.rs"))
    tx = strip_comments(src("storage/commands/transactions.rs"))

    # ---- names handled before the queue test
    pf = fn_body(sv, "process_frame")
    out["pre_queue"] = None
    if pf is not None:
        m = re.search(r"if\s+in_transaction\s*&&\s*transactions::should_queue_command\(", pf)
        if m:
            head = pf[:m.start()]
            g = re.search(r"if\s+self\.config\.password\.is_some\(\)[^{]*\{", head)
            if g:
                head = head[:g.start()] + head[block_after(head, g.end()):]
            names = []
            ok = True
            pat = re.compile(r'command\.as_str\(\)\s*==\s*"([A-Z]+)"|((?:"[A-Z]+"\s*\|\s*)*"[A-Z]+")\s*(if\s[^=]*?)?=>')
            for mm in pat.finditer(head):
                if mm.group(1):
                    names.append(mm.group(1))
                    continue
                guard = (mm.group(3) or "").strip()
                if guard:
                    if re.fullmatch(r"if\s+!\s*in_transaction", guard):
                        continue        # does not fire inside MULTI: the command reaches the queue test
                    ok = False
                names += re.findall(r'"([A-Z]+)"', mm.group(2))
            out["pre_queue"] = names if ok else None      # may be empty: the queue test comes first

    # ---- should_queue_command
    sq = fn_body(tx, "should_queue_command")
    out["pass_through"] = None
    if sq is not None:
        m = re.fullmatch(r'\s*!\s*matches!\(\s*command\s*,\s*((?:"[A-Z]+"\s*\|\s*)*"[A-Z]+")\s*\)\s*', sq)
        if m:
            out["pass_through"] = re.findall(r'"([A-Z]+)"', m.group(1))

    # ---- single command thread, EXEC runs its queue in place
    run = fn_body(sv, "run")
    pcs = fn_body(sv, "process_connections")
    pc = fn_body(sv, "process_connection")
    he = fn_body(sv, "handle_exec")
    pcp = fn_body(sv, "process_command_parts")
    out["sync"] = None
    if None not in (run, pcs, pc, he, pcp):
        shape = (re.search(r"\bloop\s*\{", run) is not None
                 and "self.process_connections()" in run
                 and re.search(r"for\s+id\s+in\s+conn_ids\s*\{", pcs) is not None
                 and "self.process_connection(id)" in pcs
                 and re.search(r"for\s+frame\s+in\s+frames_to_process\s*\{|while\s+let\s+Some\(frame\)\s*=\s*frames\.next\(\)\s*\{", pc) is not None
                 and "self.process_frame(frame, id)" in pc
                 and re.search(r"for\s+\w+\s+in\s+commands_to_execute", he) is not None
                 and "self.process_command_parts(" in he
                 and "self.process_normal_command(" in pcp)
        handoff = any(HANDOFF.search(b) for b in (run, pcs, pc, he, pcp, tx))
        out["sync"] = bool(shape and not handoff)

    # ---- who sets `aborted`?
    n = 0
    root = os.path.join(repo or os.environ.get("FERROUS_REPO", "/repo"), "src")
    for d, _, files in os.walk(root):
        for f in files:
            if f.endswith(".rs"):
                with open(os.path.join(d, f), encoding="utf-8", errors="replace") as fh:
                    n += len(re.findall(r"\baborted\s*=\s*true\b", strip_comments(fh.read())))
    out["aborted_sites"] = n

    qc = fn_body(tx, "queue_command")
    out["queue_validates"] = None
    if qc is not None and "push_back(parts)" in qc and 'b"QUEUED"' in qc:
        out["queue_validates"] = bool(re.search(r"\bif\b|\bmatch\b|RespFrame::error|aborted", qc))

    # ---- is the queue emptied wherever a transaction ends?  (handle_multi clears it, or every exit of
    #      handle_exec / handle_discard that leaves the transaction clears or takes it)
    out["queue_cleared"] = None
    hm, hd = fn_body(tx, "handle_multi"), fn_body(tx, "handle_discard")
    if hm is not None and hd is not None and he is not None and "in_transaction = true" in hm:
        clears = r"queued_commands\s*\.\s*clear\(\)|take\(\s*&mut\s+conn\.transaction_state\.queued_commands\s*\)"
        multi_clears = re.search(clears, hm) is not None
        exits = len(re.findall(r"in_transaction\s*=\s*false", he))
        exits_clear = exits > 0 and len(re.findall(clears, he)) >= exits and re.search(clears, hd) is not None
        out["queue_cleared"] = bool(multi_clears or exits_clear)
        out["queue_cleared_detail"] = (multi_clears, exits_clear)

    # ---- WATCH set dropped wherever a transaction ends (DISCARD, every exit of handle_exec that leaves the transaction)
    out["watch_cleared"] = None
    if hd is not None and he is not None:
        wc = r"watched_keys\s*\.\s*clear\(\)"
        exits = len(re.findall(r"in_transaction\s*=\s*false", he))
        if exits > 0 and "in_transaction = false" in hd:
            out["watch_cleared"] = bool(re.search(wc, hd) is not None and len(re.findall(wc, he)) >= exits)
    # ---- frames kept back behind a blocking pop run before what arrived later
    out["deferred_first"] = None
    if pc is not None:
        i_def = pc.find("frames_to_process.append(&mut conn.deferred_frames)")
        i_read = pc.find("conn.read()")
        if i_def >= 0 and i_read >= 0:
            out["deferred_first"] = i_def < i_read

    # ---- arity of MULTI / EXEC / DISCARD / UNWATCH tested before their arms in process_frame?
    out["arity_unchecked"] = None
    if pf is not None and re.search(r'"MULTI"\s*=>', pf):
        out["arity_unchecked"] = re.search(
            r'matches!\(\s*command\.as_str\(\)\s*,\s*"MULTI"\s*\|\s*"EXEC"\s*\|\s*"DISCARD"\s*\|\s*"UNWATCH"\s*\)\s*&&\s*parts\.len\(\)\s*!=\s*1', pf) is None
    # ---- commands about the issuing connection (CLIENT ..) run by EXEC under the dummy id 0?
    out["client_conn_zero"] = None
    if he is not None and pcp is not None:
        out["client_conn_zero"] = re.search(r'CLIENT', he) is None

    # ---- SELECT / blocking pops inside EXEC
    out["select_ignored"] = None
    if pcp is not None and he is not None:
        m = re.search(r"self\.process_normal_command\(\s*parts\s*,\s*db\s*,\s*(\w+)\s*\)", pcp)
        if m:
            own = bool(re.search(r'SELECT|handle_select', he))
            out["select_ignored"] = (m.group(1) == "0") and not own
    out["blocking_unguarded"] = None
    out["blocking_guards"] = None
    bl, br = fn_body(sv, "handle_blpop"), fn_body(sv, "handle_brpop")
    if bl is not None and br is not None and "register_blocked(" in bl and "register_blocked(" in br:
        def guarded(b):
            return re.search(r"conn_id\s*==\s*0", b[:b.index("register_blocked(")]) is not None
        g = (guarded(bl), guarded(br))
        out["blocking_guards"] = g
        out["blocking_unguarded"] = not (g[0] and g[1])
    # ---- pushes run by EXEC must not wake anybody; handle_exec serves the pushed keys after its loop
    out["exec_notifies"] = None
    pn = fn_body(sv, "process_normal_command")
    if pn is not None and he is not None:
        arms = re.findall(r'"(?:LPUSH|RPUSH)"\s*=>\s*\{(.*?)\bresult\s*\}', pn, re.S)
        if len(arms) == 2 and all("notify_key_ready" in a for a in arms):
            quiet = all(re.search(r"if\s+conn_id\s*==\s*0\s*\|\|[^{]*\{\s*break;", a) for a in arms)
            loop_end = he.rfind("commands_to_execute")
            serves_after = re.search(r"for\s*\(\s*db\s*,\s*key\s*\)\s+in\s+pushed_keys\s*\{\s*self\.serve_key\(", he[loop_end:]) is not None \
                and "notify_key_ready" not in he and "process_wakeups" not in he
            # the sweep after EVAL/EVALSHA/RENAME/RENAMENX at the end of process_normal_command must not run inside EXEC either
            sweep = re.search(r'if\s+([^{]*?)matches!\(\s*command_name\.as_str\(\)\s*,\s*"EVAL"\s*\|\s*"EVALSHA"\s*\|\s*"RENAME"\s*\|\s*"RENAMENX"\s*\)\s*\{', pn)
            sweep_quiet = sweep is None or re.search(r"conn_id\s*!=\s*0\s*&&", sweep.group(1)) is not None
            out["exec_notifies"] = not (quiet and serves_after and sweep_quiet)
    return out


def lean_str_list(xs):
    return "[" + ", ".join('"%s"' % x for x in xs) + "]"


def generate(src, strip_comments, fn_body, header, repo=None):
    f = facts(src, strip_comments, fn_body, repo)
    b = lambda v: "true" if v else "false"
    L = [header, "namespace Ferrous.Gen", ""]
    unknown = []

    def item(doc, name, ty, val, pessimistic, failed):
        if val is None:
            unknown.append(failed)
            doc = "NOT RECOGNISED (%s): pessimistic value. " % failed + doc
            val = pessimistic
        L.append("/-- %s -/" % doc)
        L.append("def %s : %s := %s" % (name, ty, val))

    ALL_PRE = ["MONITOR", "MULTI", "EXEC", "DISCARD", "WATCH", "UNWATCH", "PUBLISH", "SUBSCRIBE", "UNSUBSCRIBE", "PSUBSCRIBE", "PUNSUBSCRIBE", "AUTH", "REPLCONF"]
    item("names special-cased in `Server::process_frame` before the queue test, in source order (auth gate skipped)",
         "preQueue", "List String", None if f["pre_queue"] is None else lean_str_list(f["pre_queue"]), lean_str_list(ALL_PRE),
         "arms before `if in_transaction && should_queue_command` not recognised in process_frame")
    item("names `transactions::should_queue_command` refuses to queue",
         "txPassThrough", "List String", None if f["pass_through"] is None else lean_str_list(f["pass_through"]), "[]",
         "should_queue_command is no longer `!matches!(command, ..)`")
    item("`Server::run` loops over `process_connections` -> `process_connection(id)` -> `process_frame(frame, id)`, one frame after another; `handle_exec` "
         "runs its queue in a `for` loop through `process_command_parts`; no thread spawn / channel / async hand-off in any of them",
         "execIsSynchronous", "Bool", None if f["sync"] is None else b(f["sync"]), "false",
         "Server::run / process_connections / process_connection / handle_exec / process_command_parts not found")
    if f["sync"] is False:
        unknown.append("single-thread structure of Server::run / process_connection / handle_exec not recognised (or a hand-off appeared)")
    item("assignments `aborted = true` in /repo/src", "abortedSetSites", "Nat", str(f["aborted_sites"]), "1", "")
    item("`queue_command` validates the command (anything besides push_back + QUEUED)",
         "queueCommandValidates", "Bool", None if f["queue_validates"] is None else b(f["queue_validates"]), "true",
         "queue_command not recognised")
    item("`process_command_parts` runs queued commands under the literal connection id 0 and `handle_exec` does not treat SELECT itself",
         "execSelectIgnored", "Bool", None if f["select_ignored"] is None else b(f["select_ignored"]), "true",
         "process_command_parts no longer calls process_normal_command(parts, db, <id>)")
    item("`handle_blpop` or `handle_brpop` reaches `register_blocked` without a `conn_id == 0` test",
         "blockingInExecUnguarded", "Bool", None if f["blocking_unguarded"] is None else b(f["blocking_unguarded"]), "true",
         "handle_blpop / handle_brpop not recognised")
    if f.get("blocking_guards") is not None and f["blocking_guards"][0] != f["blocking_guards"][1]:
        unknown.append("handle_blpop and handle_brpop disagree about the `conn_id == 0` test before register_blocked (%s / %s)" % f["blocking_guards"])
    item("pushes run by EXEC notify blocked clients (the LPUSH/RPUSH arms do not stop at `conn_id == 0`, or handle_exec does not serve the pushed keys after its loop)",
         "execNotifiesWaiters", "Bool", None if f["exec_notifies"] is None else b(f["exec_notifies"]), "true",
         "LPUSH/RPUSH arms of process_normal_command or the tail of handle_exec not recognised")
    item("a new transaction starts with an empty queue: `handle_multi` clears `queued_commands`, or every exit of `handle_exec` that leaves the transaction "
         "(refused by WATCH, flagged, run) and `handle_discard` clear or take it",
         "queueClearedWhenTransactionEnds", "Bool", None if f["queue_cleared"] is None else b(f["queue_cleared"]), "false",
         "handle_multi / handle_discard / handle_exec not recognised")
    item("the WATCH set ends with the transaction: `handle_discard` and every exit of `handle_exec` that leaves the transaction clear `watched_keys`",
         "watchSetClearedWhenTransactionEnds", "Bool", None if f["watch_cleared"] is None else b(f["watch_cleared"]), "false",
         "handle_discard / exits of handle_exec not recognised")
    item("`process_connection` puts `conn.deferred_frames` (the rest of a batch kept back behind a blocking pop that blocked) in front of what it reads from the socket",
         "deferredFramesFirst", "Bool", None if f["deferred_first"] is None else b(f["deferred_first"]), "false",
         "`frames_to_process.append(&mut conn.deferred_frames)` / `conn.read()` not found in process_connection")
    item("`process_frame` runs MULTI / EXEC / DISCARD / UNWATCH without testing `parts.len() != 1` first (surplus arguments are ignored)",
         "controlArityUnchecked", "Bool", None if f["arity_unchecked"] is None else b(f["arity_unchecked"]), "true",
         "MULTI arm of process_frame not found")
    item("`handle_exec` has no case of its own for CLIENT: a queued CLIENT command runs under the dummy connection id 0",
         "execClientUnderConnZero", "Bool", None if f["client_conn_zero"] is None else b(f["client_conn_zero"]), "true",
         "handle_exec / process_command_parts not found")
    L.append("/-- what translator/tx_facts.py could not read off the source (pessimistic values above) -/")
    L.append("def txUnrecognised : List String := [%s]" % ", ".join('"%s"' % u.replace("\\", "/").replace('"', "'") for u in unknown))
    L += ["", "end Ferrous.Gen", ""]
    return "\n".join(L)
