"""C07: facts about MULTI/EXEC that the Lean model takes as tables/switches -> Gen/Tx.lean.

Called from extract.py (`gen_tx`).  Extracted from /repo/src (comments stripped):

  * `Gen.preQueue`       names special-cased in `Server::process_frame` BEFORE the queue test
                         (`if in_transaction && transactions::should_queue_command(..)`), in source
                         order; the authentication gate's block is skipped (C17 owns it); an arm
                         guarded by `!in_transaction` is not counted (it does not fire inside MULTI);
  * `Gen.txPassThrough`  the names `should_queue_command` refuses to queue;
  * `Gen.execIsSynchronous`  coarse structural test: `Server::run` is a `loop` that calls
                         `process_connections`, which iterates `process_connection(id)`; `handle_exec`
                         runs `for … in commands_to_execute…` calling `process_command_parts`; none of
                         these bodies (nor transactions.rs) mentions a thread spawn, a channel, an
                         async hand-off;
  * `Gen.abortedSetSites`    number of assignments `aborted = true` in the whole source tree;
  * `Gen.queueCommandValidates`  does `queue_command` do anything but push + QUEUED ?
  * `Gen.execSelectIgnored`  `process_command_parts` passes the literal connection id 0 and
                         `handle_exec` has no SELECT handling of its own;
  * `Gen.blockingInExecUnguarded`  `handle_blpop` / `handle_brpop` register the client without
                         testing for the dummy connection id 0 first.
"""
import os
import re

HANDOFF = re.compile(r"thread::(?:spawn|Builder|scope)|\bspawn\b|\bchannel\b|\bmpsc\b|\.send\(|\.recv\(|\basync\b|\.await\b|\btokio\b|\brayon\b")


def block_after(text, start):
    """text[start] is just after a `{`: returns the index just after the matching `}`"""
    depth, i = 1, start
    while i < len(text) and depth:
        if text[i] == "{":
            depth += 1
        elif text[i] == "}":
            depth -= 1
        i += 1
    return i


def facts(src, strip_comments, fn_body, repo=None):
    out = {}
    sv = strip_comments(src("network/server.rs"))
    tx = strip_comments(src("storage/commands/transactions.rs"))

    # ---- names handled before the queue test
    pf = fn_body(sv, "process_frame")
    out["pre_queue"] = None
    if pf is not None:
        m = re.search(r"if\s+in_transaction\s*&&\s*transactions::should_queue_command\(", pf)
        if m:
            head = pf[:m.start()]
            g = re.search(r"if\s+self\.config\.password\.is_some\(\)[^{]*\{", head)
            if g:
                head = head[:g.start()] + head[block_after(head, g.end()):]
            names = []
            ok = True
            pat = re.compile(r'command\.as_str\(\)\s*==\s*"([A-Z]+)"|((?:"[A-Z]+"\s*\|\s*)*"[A-Z]+")\s*(if\s[^=]*?)?=>')
            for mm in pat.finditer(head):
                if mm.group(1):
                    names.append(mm.group(1))
                    continue
                guard = (mm.group(3) or "").strip()
                if guard:
                    if re.fullmatch(r"if\s+!\s*in_transaction", guard):
                        continue        # does not fire inside MULTI: the command reaches the queue test
                    ok = False
                names += re.findall(r'"([A-Z]+)"', mm.group(2))
            out["pre_queue"] = names if ok else None      # may be empty: the queue test comes first

    # ---- should_queue_command
    sq = fn_body(tx, "should_queue_command")
    out["pass_through"] = None
    if sq is not None:
        m = re.fullmatch(r'\s*!\s*matches!\(\s*command\s*,\s*((?:"[A-Z]+"\s*\|\s*)*"[A-Z]+")\s*\)\s*', sq)
        if m:
            out["pass_through"] = re.findall(r'"([A-Z]+)"', m.group(1))

    # ---- single command thread, EXEC runs its queue in place
    run = fn_body(sv, "run")
    pcs = fn_body(sv, "process_connections")
    pc = fn_body(sv, "process_connection")
    he = fn_body(sv, "handle_exec")
    pcp = fn_body(sv, "process_command_parts")
    out["sync"] = None
    if None not in (run, pcs, pc, he, pcp):
        shape = (re.search(r"\bloop\s*\{", run) is not None
                 and "self.process_connections()" in run
                 and re.search(r"for\s+id\s+in\s+conn_ids\s*\{", pcs) is not None
                 and "self.process_connection(id)" in pcs
                 and re.search(r"for\s+frame\s+in\s+frames_to_process\s*\{", pc) is not None
                 and "self.process_frame(frame, id)" in pc
                 and re.search(r"for\s+\w+\s+in\s+commands_to_execute", he) is not None
                 and "self.process_command_parts(" in he
                 and "self.process_normal_command(" in pcp)
        handoff = any(HANDOFF.search(b) for b in (run, pcs, pc, he, pcp, tx))
        out["sync"] = bool(shape and not handoff)

    # ---- who sets `aborted`?
    n = 0
    root = os.path.join(repo or os.environ.get("FERROUS_REPO", "/repo"), "src")
    for d, _, files in os.walk(root):
        for f in files:
            if f.endswith(".rs"):
                with open(os.path.join(d, f), encoding="utf-8", errors="replace") as fh:
                    n += len(re.findall(r"\baborted\s*=\s*true\b", strip_comments(fh.read())))
    out["aborted_sites"] = n

    qc = fn_body(tx, "queue_command")
    out["queue_validates"] = None
    if qc is not None and "push_back(parts)" in qc and 'b"QUEUED"' in qc:
        out["queue_validates"] = bool(re.search(r"\bif\b|\bmatch\b|RespFrame::error|aborted", qc))

    # ---- SELECT / blocking pops inside EXEC
    out["select_ignored"] = None
    if pcp is not None and he is not None:
        m = re.search(r"self\.process_normal_command\(\s*parts\s*,\s*db\s*,\s*(\w+)\s*\)", pcp)
        if m:
            own = bool(re.search(r'SELECT|handle_select', he))
            out["select_ignored"] = (m.group(1) == "0") and not own
    out["blocking_unguarded"] = None
    bl, br = fn_body(sv, "handle_blpop"), fn_body(sv, "handle_brpop")
    if bl is not None and br is not None and "register_blocked(" in bl and "register_blocked(" in br:
        def guarded(b):
            return re.search(r"conn_id\s*==\s*0", b[:b.index("register_blocked(")]) is not None
        g = (guarded(bl), guarded(br))
        out["blocking_unguarded"] = (not g[0]) if g[0] == g[1] else None
    return out


def lean_str_list(xs):
    return "[" + ", ".join('"%s"' % x for x in xs) + "]"


def generate(src, strip_comments, fn_body, header, repo=None):
    f = facts(src, strip_comments, fn_body, repo)
    b = lambda v: "true" if v else "false"
    L = [header, "namespace Ferrous.Gen", ""]

    def item(doc, name, ty, val, failed):
        if val is None:
            L.append('def %s : %s := extraction_failed "%s"' % (name, ty, failed))
        else:
            L.append("/-- %s -/" % doc)
            L.append("def %s : %s := %s" % (name, ty, val))

    item("names special-cased in `Server::process_frame` before the queue test, in source order (auth gate skipped)",
         "preQueue", "List String", None if f["pre_queue"] is None else lean_str_list(f["pre_queue"]),
         "arms before `if in_transaction && should_queue_command` not recognised in process_frame")
    item("names `transactions::should_queue_command` refuses to queue",
         "txPassThrough", "List String", None if f["pass_through"] is None else lean_str_list(f["pass_through"]),
         "should_queue_command is no longer `!matches!(command, ..)`")
    item("`Server::run` loops over `process_connections` → `process_connection(id)` → `process_frame(frame, id)`; `handle_exec` runs "
         "its queue in a `for` loop through `process_command_parts`; no thread spawn / channel / async hand-off in any of them",
         "execIsSynchronous", "Bool", None if f["sync"] is None else b(f["sync"]),
         "Server::run / process_connections / process_connection / handle_exec / process_command_parts not found")
    item("assignments `aborted = true` in /repo/src", "abortedSetSites", "Nat", str(f["aborted_sites"]), "")
    item("`queue_command` validates the command (anything besides push_back + QUEUED)",
         "queueCommandValidates", "Bool", None if f["queue_validates"] is None else b(f["queue_validates"]),
         "queue_command not recognised")
    item("`process_command_parts` runs queued commands under the literal connection id 0 and `handle_exec` does not treat SELECT itself",
         "execSelectIgnored", "Bool", None if f["select_ignored"] is None else b(f["select_ignored"]),
         "process_command_parts no longer calls process_normal_command(parts, db, <id>)")
    item("`handle_blpop`/`handle_brpop` reach `register_blocked` without a `conn_id == 0` test",
         "blockingInExecUnguarded", "Bool", None if f["blocking_unguarded"] is None else b(f["blocking_unguarded"]),
         "handle_blpop / handle_brpop not recognised (or they disagree)")
    L += ["", "end Ferrous.Gen", ""]
    return "\n".join(L)
