"""C08: per-storage-function WATCH facts -> Gen/Watch.lean  (called from extract.py: gen_watch()).

For every `pub fn` of `impl StorageEngine` in src/storage/engine.rs (plus the private sweeper loop
`expiration_cleanup_loop`, which deletes keys too):

  name        the function
  keyParams   its parameters that name ONE key (`key`, `old_key`, `new_key`: type `Key`, `&[u8]`, `&Key`)
  mutates     the body changes stored data.  Heuristic, any of
                M1  `.data.insert(` / `.data.remove(` / `.data.clear(`            (key created / deleted / db flushed)
                M3  `.metadata.set_expiration(` / `.metadata.clear_expiration(` / `.metadata.expires_at =`   (deadline)
                M4  `&mut stored_value.value`                                        (value borrowed mutably: push/pop/insert/...)
                M5  `stored_value.value =`                                           (value replaced)
              or it delegates (`self.<other pub fn>(..)`) to a function that mutates
  marked      the key parameters that are passed to `mark_modified(..)` somewhere in the body
              (`mark_modified(&key)`, `mark_modified(key)`, `mark_modified(&new_key)`), directly or through delegation
  marksAll    for a function WITHOUT a key parameter that mutates (flush_db): does it call `mark_modified(` /
              `mark_all_modified(` at all (i.e. for the keys it removes)

"marked on EVERY mutating path" is not decidable by a regular expression: the dynamic matrix of lib/c08.py runs every
write command against the real server and a table entry that disagrees with the observed EXEC outcome is a
correspondence failure (DESIGN 2.3).  The same `rows()` are sent by the check to the Lean driver `drv_watch`.
"""
import os
import re

MUT_PATTERNS = [
    ("M1", r"\.data\s*\.\s*(?:insert|remove|clear)\s*\("),
    ("M3", r"\.metadata\s*\.\s*(?:set_expiration|clear_expiration)\s*\(|\.metadata\s*\.\s*expires_at\s*="),
    ("M4", r"&mut\s+stored_value\s*\.\s*value\b"),
    ("M5", r"\bstored_value\s*\.\s*value\s*=[^=]"),
]
KEY_TYPES = re.compile(r"^(?:Key|&\s*Key|&\s*\[u8\]|&\s*Vec<u8>|Vec<u8>)$")
SWEEPER = "expiration_cleanup_loop"


def impl_block(text, header_re):
    m = re.search(header_re, text)
    if not m:
        return None
    i, depth = m.end(), 1
    while i < len(text) and depth:
        if text[i] == "{":
            depth += 1
        elif text[i] == "}":
            depth -= 1
        i += 1
    return text[m.end():i - 1]


def split_top(s, sep=","):
    out, depth, cur = [], 0, ""
    for ch in s:
        if ch in "(<[{":
            depth += 1
        elif ch in ")>]}":
            depth -= 1
        if ch == sep and depth == 0:
            out.append(cur)
            cur = ""
        else:
            cur += ch
    if cur.strip():
        out.append(cur)
    return [x.strip() for x in out]


def functions(block):
    """[(name, is_pub, params [(name,type)], body)] of the top-level fns of an impl block."""
    out = []
    for m0 in re.finditer(r"(?m)^\s*(pub(?:\([a-z]+\))?\s+)?fn\s+([a-z_0-9]+)\s*", block):
        # optional generics `<'a, T: AsRef<[u8]>>` (balanced), then the parameter list (balanced)
        i = m0.end()
        if i < len(block) and block[i] == "<":
            depth = 0
            while i < len(block):
                if block[i] == "<":
                    depth += 1
                elif block[i] == ">":
                    depth -= 1
                    if depth == 0:
                        i += 1
                        break
                i += 1
        while i < len(block) and block[i].isspace():
            i += 1
        if i >= len(block) or block[i] != "(":
            continue
        start = i + 1
        i, depth = start, 1
        while i < len(block) and depth:
            if block[i] == "(":
                depth += 1
            elif block[i] == ")":
                depth -= 1
            i += 1
        params_text = block[start:i - 1]
        j = block.find("{", i)
        semi = block.find(";", i)
        if j < 0 or (0 <= semi < j):
            continue
        k, depth = j + 1, 1
        while k < len(block) and depth:
            if block[k] == "{":
                depth += 1
            elif block[k] == "}":
                depth -= 1
            k += 1
        body = block[j + 1:k - 1]
        params = []
        for p in split_top(params_text):
            if ":" in p:
                n, t = p.split(":", 1)
                params.append((n.strip().replace("mut ", ""), re.sub(r"\s+", " ", t.strip())))
        out.append((m0.group(2), bool(m0.group(1)), params, body))
    # keep only functions that are not nested in another function's body
    top = []
    spans = []
    for f in out:
        top.append(f)
    return top


MUT_IN_BLOCK = re.compile(
    r"\.data\s*\.\s*(?:insert|remove|clear)\s*\(|\.(?:insert|remove|push_front|push_back|pop_front|pop_back|retain|drain|"
    r"extend_from_slice|resize|clear|add_auto|add_with_id|trim_by_count|delete)\s*\(|\bstored_value\s*\.\s*value\s*=[^=]|"
    r"\*\s*\w+\s*=[^=]|\[\w+(?:\s+as\s+usize)?\]\s*=[^=]|\.metadata\s*\.\s*(?:set_expiration|clear_expiration)")


def conditional_marks(body):
    """[(key parameter, condition)] for every `mark_modified(<param>)` whose innermost enclosing block is the body of an
    `if <condition>` (not `if let`) that contains no mutation itself: the mark depends on an outcome computed before
    (`if added > 0 { mark }`), as opposed to a mark that sits next to the mutation it reports.  Whether such a condition
    is exactly "the key changed" cannot be read off the text: the reviewed ones are listed in Props/C08.lean and every
    branch is exercised by the TCP matrix."""
    out = []
    for m in re.finditer(r"\bmark_modified\s*\(\s*&?\s*([a-z_][a-z_0-9]*)\s*\)", body):
        depth, i = 0, m.start() - 1
        while i >= 0:
            if body[i] == "}":
                depth += 1
            elif body[i] == "{":
                if depth == 0:
                    break
                depth -= 1
            i -= 1
        if i < 0:
            continue
        j = i - 1
        while j >= 0 and body[j] not in ";{}":
            j -= 1
        header = re.sub(r"\s+", " ", body[j + 1:i]).strip()
        k, d = i + 1, 1
        while k < len(body) and d:
            if body[k] == "{":
                d += 1
            elif body[k] == "}":
                d -= 1
            k += 1
        mh = re.match(r"^(?:else\s+)?if\s+(.*)$", header)
        if mh and not mh.group(1).startswith("let ") and not MUT_IN_BLOCK.search(body[i + 1:k - 1]):
            out.append((m.group(1), mh.group(1)))
    return out


def shard_consts(src, strip_comments, fn_body):
    """(shards per database, FNV offset basis, FNV prime) of get_shard_index, or None"""
    text = strip_comments(src("storage/engine.rs"))
    body = fn_body(text, "get_shard_index")
    n = re.search(r"const\s+SHARDS_PER_DATABASE\s*:\s*usize\s*=\s*(\d+)\s*;", text)
    if body is None or not n:
        return None
    off = re.search(r"FNV_OFFSET\s*:\s*u64\s*=\s*(0x[0-9a-fA-F_]+|\d+)", body)
    pr = re.search(r"FNV_PRIME\s*:\s*u64\s*=\s*(0x[0-9a-fA-F_]+|\d+)", body)
    shape = re.search(r"hash\s*\^=\s*byte\s+as\s+u64\s*;\s*hash\s*=\s*hash\s*\.\s*wrapping_mul\s*\(\s*FNV_PRIME\s*\)", body) \
        and re.search(r"hash\s*%\s*SHARDS_PER_DATABASE\s+as\s+u64", body)
    if not off or not pr or not shape:
        return None
    return int(n.group(1)), int(off.group(1).replace("_", ""), 0), int(pr.group(1).replace("_", ""), 0)


def arg_name(expr):
    """`&key`, `key.clone()`, `key.to_vec()`, `key` -> `key`; anything else -> None"""
    e = expr.strip()
    e = re.sub(r"^&\s*(?:mut\s+)?", "", e)
    e = re.sub(r"\.(?:clone|to_vec|as_ref|as_slice)\(\)$", "", e)
    return e if re.fullmatch(r"[a-z_][a-z_0-9]*", e) else None


def rows(src, strip_comments):
    """The table, or a string saying what could not be extracted."""
    text = strip_comments(src("storage/engine.rs"))
    block = impl_block(text, r"\bimpl\s+StorageEngine\s*\{")
    if block is None:
        return "impl StorageEngine not found in storage/engine.rs"
    fns = functions(block)
    if not fns:
        return "no fn found in impl StorageEngine"
    if "fn mark_modified" not in text or "mark_key_modified" not in text:
        return "DatabaseShard::mark_modified / ShardWatchTracker::mark_key_modified not found"
    table = {}
    order = []
    for name, is_pub, params, body in fns:
        if not is_pub and name != SWEEPER:
            continue
        if name in table:
            continue
        kps = [n for n, t in params if "key" in n and KEY_TYPES.match(t)]
        if name == SWEEPER:
            kps = ["key"]
        mut = [tag for tag, rx in MUT_PATTERNS if re.search(rx, body)]
        marked = []
        for p in kps:
            if re.search(r"\bmark_modified\s*\(\s*&?\s*" + re.escape(p) + r"\s*\)", body):
                marked.append(p)
        any_mark = bool(re.search(r"\bmark_(?:all_)?modified\s*\(", body))
        table[name] = {"name": name, "keyParams": kps, "mut": mut, "marked": marked, "anyMark": any_mark,
                       "calls": [], "body": body, "params": params, "conditional": conditional_marks(body)}
        order.append(name)
    # delegation: self.<pub fn>(args) -> inherit through the key parameters that are passed on
    for name in order:
        row = table[name]
        for m in re.finditer(r"\bself\s*\.\s*([a-z_0-9]+)\s*\(", row["body"]):
            callee = m.group(1)
            if callee not in table or callee == name:
                continue
            i, depth = m.end(), 1
            b = row["body"]
            while i < len(b) and depth:
                if b[i] == "(":
                    depth += 1
                elif b[i] == ")":
                    depth -= 1
                i += 1
            args = split_top(b[m.end():i - 1])
            cparams = [n for n, _ in table[callee]["params"] if n not in ("self", "&self")]
            mapping = {}
            for idx, pn in enumerate(cparams):
                if pn in table[callee]["keyParams"] and idx < len(args):
                    mapping[pn] = arg_name(args[idx])
            row["calls"].append((callee, mapping))
    changed = True
    rounds = 0
    while changed and rounds < 10:
        changed = False
        rounds += 1
        for name in order:
            row = table[name]
            for callee, mapping in row["calls"]:
                c = table[callee]
                if c["mut"] and ("via:" + callee) not in row["mut"]:
                    row["mut"].append("via:" + callee)
                    changed = True
                for cp in c["marked"]:
                    p = mapping.get(cp)
                    if p in row["keyParams"] and p not in row["marked"]:
                        row["marked"].append(p)
                        changed = True
                if c["anyMark"] and not row["anyMark"]:
                    row["anyMark"] = True
                    changed = True
    out = []
    for name in order:
        r = table[name]
        out.append({"name": name, "keyParams": r["keyParams"], "mutates": bool(r["mut"]), "why": r["mut"],
                    "marked": [p for p in r["keyParams"] if p in r["marked"]],
                    "marksAll": bool(r["anyMark"]) if not r["keyParams"] else False,
                    "delegates": [c for c, _ in r["calls"]], "conditional": r["conditional"]})
    names = [r["name"] for r in out]
    for must in ("set_value", "delete", "expire", "persist", "rename", "flush_db", "lpush", "zadd", "xadd", "hset", "sadd",
                 "register_watch", "unregister_watch", "was_modified_since", SWEEPER):
        if must not in names:
            return "storage function `%s` not found in impl StorageEngine" % must
    return out


def quirks(src, strip_comments, fn_body):
    """-> {"q": (perDb, rewatchKeeps, watchPurges), "recognised": bool, "notes": [what was not recognised]}.
    Every switch is read on its own; a shape that is not one of the two known ones makes `recognised` false and the
    switch takes its pessimistic value (false = the un-prescribed behaviour), so that the Lean side still elaborates,
    the drivers build and the dynamic search runs — the table theorem `tree_watch_list_recognised` then refuses.
      perDb         `watched_keys: HashMap<(usize, Vec<u8>), u64>` and neither Server::handle_exec passes the connection's
                    `db_index` to `was_modified_since` nor handle_unwatch passes `conn.db_index` to `unregister_watch`
                    (old code: `HashMap<Vec<u8>, u64>`, both use the connection's current database).  A mixture (keyed by
                    (db, key) but one of the two sites uses the current database) is not recognised: perDb = false
      rewatchKeeps  handle_watch skips a key that is already in `watched_keys` (`.contains_key(`) before `register_watch`
      watchPurges   an expired stored value is dropped (and marked) before the registration: the body of
                    StorageEngine::register_watch ahead of `watch_tracker.register_watch(`, or `get_shard` which it calls
                    first, tests `is_expired()`, removes (`.data.remove(`) and marks (`mark_modified(`); none of the three
                    anywhere = false; anything in between is not recognised: false"""
    notes = []
    t = strip_comments(src("storage/commands/transactions.rs"))
    sv = strip_comments(src("network/server.rs"))
    m = re.search(r"watched_keys\s*:\s*HashMap<\s*(\(\s*usize\s*,\s*Vec<u8>\s*\)|Vec<u8>)\s*,\s*u64\s*>", t)
    hw, hu, he = fn_body(t, "handle_watch"), fn_body(t, "handle_unwatch"), fn_body(sv, "handle_exec")
    per_db = False
    if not m or hu is None or he is None or "unregister_watch" not in hu or "was_modified_since" not in he:
        notes.append("watched_keys field / handle_unwatch / Server::handle_exec (with their unregister_watch / was_modified_since calls) not found")
    else:
        keyed = m.group(1).startswith("(")
        exec_cur = bool(re.search(r"was_modified_since\s*\(\s*(?:conn\s*\.\s*)?db_index\b", he))
        unw_cur = bool(re.search(r"unregister_watch\s*\(\s*(?:conn\s*\.\s*)?db_index\b", hu))
        if keyed and not exec_cur and not unw_cur:
            per_db = True
        elif not keyed and exec_cur and unw_cur:
            per_db = False
        else:
            notes.append("watch list keyed by (db,key): %s, EXEC checks current db: %s, UNWATCH unregisters in current db: %s - not uniform" % (keyed, exec_cur, unw_cur))
    rewatch = False
    if hw is None or "register_watch" not in hw:
        notes.append("handle_watch (with its register_watch call) not found")
    else:
        rewatch = bool(re.search(r"watched_keys\s*\.\s*contains_key\s*\(", hw[:hw.find("register_watch")]))
    purges = False
    eng = strip_comments(src("storage/engine.rs"))
    block = impl_block(eng, r"\bimpl\s+StorageEngine\s*\{")
    rw = fn_body(block or "", "register_watch")
    if rw is None or "watch_tracker.register_watch(" not in rw:
        notes.append("StorageEngine::register_watch not found")
    else:
        def signs(text):
            return [bool(re.search(r"\bis_expired\s*\(", text)), bool(re.search(r"\.data\s*\.\s*remove\s*\(", text)),
                    bool(re.search(r"\bmark_modified\s*\(", text))]
        head = rw[:rw.find("watch_tracker.register_watch(")]
        s1 = signs(head)
        gs = fn_body(block, "get_shard") if re.search(r"\bself\s*\.\s*get_shard\s*\(", head) else None
        s2 = signs(gs) if gs is not None else [False, False, False]
        if all(s1) or all(s2):
            purges = True
        elif not any(s1) and not any(s2):
            purges = False
        else:
            notes.append("register_watch / get_shard: expiry test, removal, mark before the registration: %s / %s - not uniform" % (s1, s2))
    # UNWATCH between MULTI and EXEC: queued (should_queue_command does not exempt it) or run at once
    sq = fn_body(t, "should_queue_command")
    unwatch_queued = False
    m2 = re.search(r"!\s*matches!\s*\(\s*command\s*,([^)]*)\)", sq or "")
    if not m2:
        notes.append("should_queue_command: `!matches!(command, ...)` not found")
    else:
        exempt = re.findall(r'"([A-Z]+)"', m2.group(1))
        if not {"MULTI", "EXEC", "DISCARD", "WATCH"} <= set(exempt) or set(exempt) - {"MULTI", "EXEC", "DISCARD", "WATCH", "UNWATCH"}:
            notes.append("should_queue_command exempts %s" % exempt)
        else:
            unwatch_queued = "UNWATCH" not in exempt
    return {"q": (per_db, rewatch, purges, unwatch_queued), "recognised": not notes, "notes": notes}


def arity_guard(src, strip_comments, fn_body):
    """Does process_frame refuse MULTI / EXEC / DISCARD / UNWATCH with surplus arguments BEFORE it handles them
    (`matches!(command.as_str(), "MULTI" | "EXEC" | "DISCARD" | "UNWATCH") && parts.len() != 1` followed by a return of an
    error, ahead of the `"MULTI" =>` arm)?"""
    sv = strip_comments(src("network/server.rs"))
    pf = fn_body(sv, "process_frame")
    if pf is None:
        return False
    g = re.search(r'matches!\s*\(\s*command\s*\.\s*as_str\s*\(\s*\)\s*,([^)]*)\)\s*&&\s*parts\s*\.\s*len\s*\(\s*\)\s*!=\s*1\s*\{\s*return\s+Ok\s*\(\s*RespFrame::error', pf)
    arm = re.search(r'"MULTI"\s*=>', pf)
    return bool(g and arm and g.start() < arm.start() and {"MULTI", "EXEC", "DISCARD", "UNWATCH"} <= set(re.findall(r'"([A-Z]+)"', g.group(1))))


def key_is_bytes(src, strip_comments, fn_body):
    """Do WATCH / UNWATCH / EXEC hand the key to the storage engine as the bytes of the frame?
      handle_watch   binds `key` to the bulk string unchanged (`bytes.as_ref().clone()`, `.to_vec()`, `bytes.clone()`), passes
                     `&key` to register_watch, and contains no text conversion (from_utf8, to_string, String::, as_str,
                     to_uppercase/lowercase, trim) at all
      handle_unwatch passes the stored `key` to unregister_watch, no text conversion in its body
      handle_exec    passes the stored `key` of the loop over watched_keys to was_modified_since
    -> (bool, notes)"""
    t = strip_comments(src("storage/commands/transactions.rs"))
    sv = strip_comments(src("network/server.rs"))
    hw, hu, he = fn_body(t, "handle_watch"), fn_body(t, "handle_unwatch"), fn_body(sv, "handle_exec")
    conv = re.compile(r"from_utf8|to_string\s*\(|\bString\s*::|\.as_str\s*\(|to_uppercase|to_lowercase|\.trim\s*\(|to_ascii|into_bytes")
    notes = []
    if hw is None or hu is None or he is None:
        return False, ["handle_watch / handle_unwatch / Server::handle_exec not found"]
    if not re.search(r"let\s+key\s*=\s*bytes\s*(?:\.\s*as_ref\s*\(\s*\))?\s*\.\s*(?:clone|to_vec)\s*\(\s*\)\s*;", hw):
        notes.append("handle_watch: `key` is not bound to the bulk string unchanged")
    if not re.search(r"register_watch\s*\(\s*[\w\.\*]+\s*,\s*&\s*key\s*\)", hw):
        notes.append("handle_watch: register_watch is not called with `&key`")
    if conv.search(hw):
        notes.append("handle_watch contains a text conversion (%s)" % conv.search(hw).group(0))
    if not re.search(r"unregister_watch\s*\(\s*[\w\.\*]+\s*,\s*&?\s*key\s*\)", hu) or conv.search(hu):
        notes.append("handle_unwatch: unregister_watch is not called with the stored `key`, or a text conversion is present")
    if not re.search(r"for\s*\(\s*(?:\(\s*\w+\s*,\s*key\s*\)|key)\s*,\s*\w+\s*\)\s+in\s+&\s*watched_keys", he) or \
            not re.search(r"was_modified_since\s*\(\s*[\w\.\*]+\s*,\s*&?\s*key\s*,", he):
        notes.append("handle_exec: was_modified_since is not called with the stored `key` of the loop over watched_keys")
    return not notes, notes


GENERIC_METHODS = {"insert", "remove", "clear", "len", "is_empty", "new", "default", "clone", "get", "push", "pop", "delete", "range"}
SHARED_FILES = ("storage/stream.rs", "storage/consumer_groups.rs", "storage/skiplist.rs")


def all_fns(text):
    """(name, header, body) of every fn in the text, at any nesting level"""
    out = []
    for m in re.finditer(r"\bfn\s+([a-z_0-9]+)\s*(?:<[^({]*>)?\s*\(", text):
        i, d = m.end(), 1
        while i < len(text) and d:
            d += (text[i] == "(") - (text[i] == ")")
            i += 1
        j, semi = text.find("{", i), text.find(";", i)
        if j < 0 or (0 <= semi < j):
            continue
        k, d = j + 1, 1
        while k < len(text) and d:
            d += (text[k] == "{") - (text[k] == "}")
            k += 1
        out.append((m.group(1), text[m.start():j], text[j + 1:k - 1]))
    return out


def bypass_mutators(src, strip_comments, repo_src):
    """Mutation of stored values OUTSIDE the storage engine.  Streams, consumer groups and skip lists keep their state
    behind Arc / Mutex / RwLock / atomics, so a value obtained through StorageEngine::get (a clone that shares that
    state) can be changed by `&self` methods without any engine mutator - and so without mark_modified.
      1. shared mutators: the `&self` methods of storage/{stream,consumer_groups,skiplist}.rs whose body takes a mutable
         lock guard (`let mut x = self.….lock()/write()`), writes through `.write().unwrap().…`, or uses an atomic
         store / fetch_*, plus those that call one of them (closure); names that are also std collection methods
         (insert, remove, clear, delete, …) are left out - they would match every map in the code base
      2. every fn of every other source file (engine.rs itself and test modules excluded) that calls a shared mutator on
         something that is not the engine is listed as (file, fn, method, touches) with touches = the fn also calls
         `storage.touch(` (StorageEngine::touch = mark_modified under the shard lock)
    -> sorted list, or a string when the shared files are not found"""
    texts = {}
    for f in SHARED_FILES:
        try:
            texts[f] = strip_comments(src(f))
        except OSError:
            return "%s not found" % f
    sign = re.compile(r"let\s+mut\s+\w+\s*=\s*self\s*\.[\w\.]*\s*\.\s*(?:lock|write)\s*\(\s*\)|\.write\s*\(\s*\)\s*\.\s*unwrap\s*\(\s*\)\s*\.\s*\w+|fetch_add|fetch_sub|\.store\s*\(")
    fns = [(n, h, b) for t in texts.values() for n, h, b in all_fns(t) if "&self" in h]
    muts = set(n for n, h, b in fns if sign.search(b))
    for _ in range(5):
        names = sorted(muts - GENERIC_METHODS)
        if not names:
            break
        rx = re.compile(r"\.\s*(%s)\s*\(" % "|".join(names))
        for n, h, b in fns:
            if n not in muts and rx.search(b):
                muts.add(n)
    names = sorted(muts - GENERIC_METHODS)
    if not names:
        return "no shared mutator recognised in " + ", ".join(SHARED_FILES)
    rx = re.compile(r"(\w+)\s*(?:\(\s*\))?\s*\.\s*(%s)\s*\(" % "|".join(names))
    out = []
    for root, _, files in os.walk(repo_src):
        for fn in files:
            if not fn.endswith(".rs"):
                continue
            rel = os.path.relpath(os.path.join(root, fn), repo_src)
            if rel == "storage/engine.rs" or rel in SHARED_FILES:
                continue
            t = strip_comments(open(os.path.join(root, fn), encoding="utf-8", errors="replace").read())
            t = re.sub(r"#\[cfg\(test\)\]\s*mod\s+\w+\s*\{.*\Z", "", t, flags=re.S)
            for n, h, b in all_fns(t):
                touches = bool(re.search(r"\bstorage\s*\.\s*touch\s*\(", b))
                for meth in sorted(set(m.group(2) for m in rx.finditer(b) if m.group(1) not in ("storage", "engine"))):
                    out.append((rel, n, meth, touches))
    return sorted(set(out))


def lean_str_list(xs):
    return "[" + ", ".join('"%s"' % x for x in xs) + "]"


def generate(src, strip_comments, fn_body, header, repo_src=None):
    t = rows(src, strip_comments)
    lines = [header, "import FerrousSpec.Model.Watch", "namespace Ferrous.Gen", ""]
    lines.append("/-- One row per `pub fn` of `impl StorageEngine` (src/storage/engine.rs) and the sweeper loop:")
    lines.append("    name, key parameters, `mutates` (heuristics M1/M3/M4/M5 or delegation, see translator/watch_facts.py),")
    lines.append("    the key parameters passed to `mark_modified`, and `marksAll` (key-less mutators such as flush_db). -/")
    if isinstance(t, str):
        lines.append('def storageFns : List Ferrous.Watch.StorageFn := extraction_failed "%s"' % t.replace('"', "'"))
    else:
        lines.append("def storageFns : List Ferrous.Watch.StorageFn := [")
        body = []
        for r in t:
            body.append('  ⟨"%s", %s, %s, %s, %s⟩' % (r["name"], lean_str_list(r["keyParams"]), "true" if r["mutates"] else "false",
                                                   lean_str_list(r["marked"]), "true" if r["marksAll"] else "false"))
        lines.append(",\n".join(body))
        lines.append("]")
    lines.append("")
    lines.append("/-- `mark_modified(<key parameter>)` calls that sit alone inside an `if <condition>` computed from an outcome")
    lines.append("    (function, key parameter, condition): every other mark sits next to the mutation it reports. -/")
    if isinstance(t, str):
        lines.append('def conditionalMarks : List (String × String × String) := extraction_failed "%s"' % t.replace('"', "'"))
    else:
        lines.append("def conditionalMarks : List (String × String × String) := [")
        lines.append(",\n".join('  ("%s", "%s", "%s")' % (r["name"], p, c.replace("\\", "\\\\").replace('"', "'")) for r in t for p, c in r["conditional"]))
        lines.append("]")
    sc = shard_consts(src, strip_comments, fn_body)
    lines.append("")
    lines.append("/-- get_shard_index: (SHARDS_PER_DATABASE, FNV offset basis, FNV prime) of `hash ^= byte; hash *= prime; hash % shards`;")
    lines.append("    (0, 0, 0) when the function no longer has that shape. -/")
    lines.append("def shardConsts : Nat × Nat × Nat := (%d, %d, %d)" % (sc if sc else (0, 0, 0)))
    bm = bypass_mutators(src, strip_comments, repo_src) if repo_src else "source directory not given"
    lines.append("")
    lines.append("/-- Functions outside the storage engine that call a `&self` mutator of the shared state of a stream / consumer")
    lines.append("    group / skip list on a value they did not get from an engine mutator (file, fn, method, touches):")
    lines.append("    `touches` = the function also calls StorageEngine::touch, i.e. mark_modified.  See translator/watch_facts.py. -/")
    if isinstance(bm, str):
        lines.append('def bypassMutators : List (String × String × String × Bool) := extraction_failed "%s"' % bm.replace('"', "'"))
    else:
        lines.append("def bypassMutators : List (String × String × String × Bool) := [")
        lines.append(",\n".join('  ("%s", "%s", "%s", %s)' % (f, n, m_, "true" if tch else "false") for f, n, m_, tch in bm))
        lines.append("]")
    kb, kb_notes = key_is_bytes(src, strip_comments, fn_body)
    lines.append("")
    lines.append("/-- WATCH / UNWATCH / EXEC hand the key to register_watch / unregister_watch / was_modified_since as the bytes of")
    lines.append("    the frame: no text conversion (from_utf8, lossy, to_string, case folding, trim) on the way.%s -/"
                 % ("" if kb else "  NOT SO: " + "; ".join(kb_notes).replace("-/", "- /")))
    lines.append("def watchKeyIsBytes : Bool := %s" % ("true" if kb else "false"))
    q = quirks(src, strip_comments, fn_body)
    lines.append("")
    lines.append("/-- How the watch list is kept (src/storage/commands/transactions.rs, Server::handle_exec):")
    lines.append("    `perDb` = entries are keyed by (database, key) and checked / unregistered there;")
    lines.append("    `rewatchKeeps` = WATCH of an already watched key keeps the first baseline;")
    lines.append("    `watchPurges` = StorageEngine::register_watch drops (and marks) an expired stored value first;")
    lines.append("    `unwatchQueued` = should_queue_command does not exempt UNWATCH: inside MULTI it is queued. -/")
    lines.append("def watchQ : Ferrous.Watch.Q := ⟨%s, %s, %s, %s⟩" % tuple("true" if x else "false" for x in q["q"]))
    lines.append("")
    lines.append("/-- process_frame refuses MULTI / EXEC / DISCARD / UNWATCH with surplus arguments before it handles them. -/")
    lines.append("def txArityGuard : Bool := %s" % ("true" if arity_guard(src, strip_comments, fn_body) else "false"))
    lines.append("")
    lines.append("/-- Did the translator recognise each of the three shapes?  When not, the switch above has its pessimistic")
    lines.append("    value (so that everything still elaborates and the dynamic search runs) and the table theorem")
    lines.append("    `tree_watch_list_recognised` refuses.%s -/" % ("" if q["recognised"] else "  NOT RECOGNISED: " + "; ".join(q["notes"]).replace("-/", "- /")))
    lines.append("def watchQRecognised : Bool := %s" % ("true" if q["recognised"] else "false"))
    lines += ["", "end Ferrous.Gen", ""]
    return "\n".join(lines)
