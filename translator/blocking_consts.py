"""C13: facts about the blocking subsystem that the Lean model takes as switches -> Gen/Blocking.lean.

Called from extract.py and imported by lib/c13.py (the check sends the same switches to the Lean
driver, so the check and the generated Lean file read the source with the same patterns).
Extracted (None = pattern not recognised -> `extraction_failed`):
  * wake_batch            `BlockingManager::process_wakeups` (src/network/blocking.rs): `while wakeups.len() < N`;
  * notify_per_element    the LPUSH / RPUSH arms of `process_normal_command` (src/network/server.rs): is
                          `notify_key_ready` called inside a `for _ in 0..…` loop (once per pushed element)
                          or once per command ?
  * wake_at_push          does `process_normal_command` call `self.process_wakeups()` after the command that
                          notified (the wake-up is carried out before the next command of the batch, or another
                          connection in the same iteration, can pop the element) ?
  * unregister_all        does `wake_client` call `unregister_client` after serving (no leftover
                          registration on the other keys of a multi-key BLPOP) ?
  * refuse_in_tx          do `handle_blpop` / `handle_brpop` answer the null array instead of registering
                          when `conn_id == 0` (called from EXEC) ?
  * dedup_keys            do `handle_blpop` / `handle_brpop` drop repeated keys (`keys.retain(|k| seen.insert(..))`
                          or `keys.dedup…`) before registering ?
  * drain_all             is that call of `process_wakeups()` in `process_normal_command` under
                          `while …has_pending_wakeups()` (until the queue is empty) rather than `if` (one batch) ?
  * notice_blocked_hangup does `process_connections` probe the blocked connections it skips for end-of-file
                          (`Connection::peer_closed()` called in `process_connections`) ?
  * defer_batch           does `process_connection` stop executing the frames of a batch once the connection is
                          Blocked and keep the rest (`deferred_frames`) ?
  * serve_after_script    does `process_normal_command` serve the blocked keys of the database after EVAL / RENAME
                          (`blocked_keys(db)` + `serve_key`) ?  No Lean switch (outside the model); for lib/c13.py.
  * sweep_commands        the command names after which `process_normal_command` runs that sweep; exec_sweep_commands: the
                          queued command names after which `handle_exec` sweeps the database.  Consumed by the table theorem
                          `Ferrous.C13.sweep_covers_scripts_and_rename` (EVAL, EVALSHA, RENAME, RENAMENX must be in both).
  * wake_checks_client    does `wake_client` test that the connection is still Blocked (on that key) BEFORE popping the
                          element, and does the hang-up probe in `process_connections` unregister the vanished client ?
  * serve_drains          does each round of `serve_key` call `process_wakeups()` under `while …has_pending_wakeups()` (every
                          queued request is carried out, also the one `wake_client` queues for the next waiter when the head
                          waiter is stale) rather than once ?
  * probe_reads_input     does `Connection::peer_closed` (src/network/connection.rs) READ the socket (`stream.read` +
                          `parser.feed`), so that end-of-file behind unread bytes is seen, rather than `peek` one byte ?
  * exec_atomic           do the LPUSH / RPUSH arms skip the notification when `conn_id == 0` (run by EXEC), is the
                          drain skipped too, and does `handle_exec` call `serve_key` for the pushed keys afterwards ?
"""
import re


def _arm(text, name):
    """brace-matched body of the match arm `"NAME" => { ... }` (first occurrence followed by a brace)"""
    for m in re.finditer(r'"%s"\s*=>\s*\{' % re.escape(name), text):
        i, depth = m.end(), 1
        while i < len(text) and depth:
            depth += text[i] == "{"
            depth -= text[i] == "}"
            i += 1
        body = text[m.end():i - 1]
        if "notify_key_ready" in body or "handle_%s" % name.lower() in body:
            return body
    return None


def facts(src, strip_comments, fn_body):
    out = {"wake_batch": None, "notify_per_element": None, "wake_at_push": None, "unregister_all": None, "refuse_in_tx": None, "dedup_keys": None,
           "drain_all": None, "notice_blocked_hangup": None, "defer_batch": None, "exec_atomic": None, "serve_after_script": None,
           "sweep_commands": None, "exec_sweep_commands": None, "wake_checks_client": None, "serve_drains": None, "probe_reads_input": None}
    bl = strip_comments(src("network/blocking.rs"))
    pw = fn_body(bl, "process_wakeups")
    if pw is not None:
        m = re.search(r"while\s+wakeups\s*\.\s*len\s*\(\s*\)\s*<\s*(\d+)", pw)
        if m and "wake_queue.pop()" in pw.replace(" ", ""):
            out["wake_batch"] = int(m.group(1))
    sv = strip_comments(src("network/server.rs"))
    pnc = fn_body(sv, "process_normal_command") or ""
    per = []
    for name in ("LPUSH", "RPUSH"):
        arm = _arm(pnc, name)
        if arm is None or "notify_key_ready" not in arm:
            per.append(None)
            continue
        before = arm[:arm.find("notify_key_ready")]
        looped = bool(re.search(r"for\s+_\w*\s+in\s+0\s*\.\.", before))
        other_loop = bool(re.search(r"\b(while|loop)\b", before))
        per.append(None if (other_loop and not looped) else looped)
    if None not in per and len(set(per)) == 1:
        out["notify_per_element"] = per[0]
        i = pnc.find("notify_key_ready")
        out["wake_at_push"] = bool(re.search(r"self\s*\.\s*process_wakeups\s*\(\s*\)", pnc[i:]))
    if out["wake_at_push"] is not None:
        m = re.search(r"\b(if|while)\s+self\s*\.\s*blocking_manager\s*\.\s*has_pending_wakeups\s*\(\s*\)\s*\{[^{}]*?self\s*\.\s*process_wakeups\s*\(\s*\)", pnc, re.S)
        out["drain_all"] = bool(m and m.group(1) == "while") if (m or not out["wake_at_push"]) else None
    pcs = fn_body(sv, "process_connections")
    if pcs is not None and "is_connection_blocked" in pcs:
        out["notice_blocked_hangup"] = bool(re.search(r"\.\s*peer_closed\s*\(\s*\)", pcs))
    pc = fn_body(sv, "process_connection")
    if pc is not None and "frames_to_process" in pc:
        out["defer_batch"] = bool(re.search(r"deferred_frames", pc) and re.search(r"is_connection_blocked\s*\(", pc))
    he = fn_body(sv, "handle_exec")
    if he is not None and "process_command_parts" in he and out["notify_per_element"] is not None:
        arms_skip = all((_arm(pnc, n) or "").find("conn_id") >= 0 and re.search(r"if\s+conn_id\s*==\s*0", _arm(pnc, n) or "") for n in ("LPUSH", "RPUSH"))
        out["exec_atomic"] = bool(arms_skip and re.search(r"self\s*\.\s*serve_key\s*\(", he))
    if pnc:
        # (no model switch: scripts and RENAME are outside the Lean machine; read by lib/c13.py and by the table theorem
        #  Ferrous.C13.sweep_covers_scripts_and_rename)
        out["serve_after_script"] = bool(re.search(r"blocked_keys\s*\(", pnc) and re.search(r"serve_key\s*\(", pnc))
        # which command names trigger the sweep: `matches!(command_name.as_str(), "A" | "B" …) {` directly before blocked_keys(db)
        m = re.search(r"matches!\(\s*command_name\s*\.\s*as_str\(\)\s*,\s*((?:\"[A-Z]+\"\s*\|?\s*)+)\)\s*\{\s*for\s+\w+\s+in\s+self\s*\.\s*blocking_manager\s*\.\s*blocked_keys\s*\(", pnc)
        out["sweep_commands"] = re.findall(r"\"([A-Z]+)\"", m.group(1)) if m else None
    he2 = fn_body(sv, "handle_exec")
    if he2 is not None:
        m = re.search(r"matches!\(\s*name\s*\.\s*as_str\(\)\s*,\s*((?:\"[A-Z]+\"\s*\|?\s*)+)\)\s*&&\s*!\s*swept_dbs", he2)
        out["exec_sweep_commands"] = re.findall(r"\"([A-Z]+)\"", m.group(1)) if (m and re.search(r"blocked_keys\s*\(", he2)) else None
    wc = fn_body(sv, "wake_client")
    if wc is not None and "send_frame" in wc and ("lpop" in wc and "rpop" in wc):
        out["unregister_all"] = bool(re.search(r"unregister_client\s*\(", wc))
        # does wake_client look at the connection (Blocked, on this key) BEFORE it pops, and does the hang-up probe of
        # process_connections unregister a vanished blocked client at once ?
        first_pop = min(wc.find("storage.lpop"), wc.find("storage.rpop"))
        looks_first = bool(re.search(r"ConnectionState::Blocked", wc[:first_pop])) and "with_connection" in wc[:first_pop]
        probe_unregs = bool(pcs is not None and re.search(r"peer_closed\s*\(\s*\)", pcs) and re.search(r"unregister_client\s*\(", pcs))
        out["wake_checks_client"] = looks_first and probe_unregs
    sk = fn_body(sv, "serve_key")
    if sk is None:
        out["serve_drains"] = False if he is not None else None       # no serve_key: nothing to drain
    elif "notify_key_ready" in sk and re.search(r"self\s*\.\s*process_wakeups\s*\(\s*\)", sk):
        out["serve_drains"] = bool(re.search(r"\bwhile\s+self\s*\.\s*blocking_manager\s*\.\s*has_pending_wakeups\s*\(\s*\)\s*\{[^{}]*?self\s*\.\s*process_wakeups\s*\(\s*\)", sk, re.S))
    cn = strip_comments(src("network/connection.rs"))
    pcl = fn_body(cn, "peer_closed")
    if pcl is None:
        out["probe_reads_input"] = False if pcs is not None else None   # no probe at all
    else:
        reads = bool(re.search(r"stream\s*\.\s*read\s*\(", pcl) and re.search(r"parser\s*\.\s*feed\s*\(", pcl)) or bool(re.search(r"self\s*\.\s*read\s*\(\s*\)", pcl))
        peeks = bool(re.search(r"\.\s*peek\s*\(", pcl))
        out["probe_reads_input"] = True if (reads and not peeks) else (False if peeks and not reads else None)
    rf, dd = [], []
    for fn in ("handle_blpop", "handle_brpop"):
        hb = fn_body(sv, fn)
        if hb is None or "register_blocked" not in hb:
            rf.append(None)
            dd.append(None)
            continue
        before = hb[:hb.find("register_blocked")]
        rf.append(bool(re.search(r"if\s+conn_id\s*==\s*0\s*\{\s*return\s+Ok\s*\(\s*RespFrame::null_array\s*\(\s*\)\s*\)", before)))
        dd.append(bool(re.search(r"keys\s*\.\s*retain\s*\(\s*\|\s*\w+\s*\|\s*\w+\s*\.\s*insert\s*\(", before) or re.search(r"keys\s*\.\s*dedup", before)))
    if None not in rf and len(set(rf)) == 1:
        out["refuse_in_tx"] = rf[0]
    if None not in dd and len(set(dd)) == 1:
        out["dedup_keys"] = dd[0]
    return out


def generate(src, strip_comments, fn_body, header):
    f = facts(src, strip_comments, fn_body)
    L = [header, "namespace Ferrous.Gen.Blocking", ""]

    def item(name, ty, val, doc, what):
        if val is None:
            L.append('def %s : %s := extraction_failed "%s"' % (name, ty, what))
        else:
            L.append("/-- %s -/" % doc)
            L.append("def %s : %s := %s" % (name, ty, ("true" if val else "false") if isinstance(val, bool) else val))

    item("wakeBatch", "Nat", f["wake_batch"], "`while wakeups.len() < N` in BlockingManager::process_wakeups", "drain bound of process_wakeups not found")
    item("notifyPerElement", "Bool", f["notify_per_element"], "the LPUSH/RPUSH arms call notify_key_ready in a `for _ in 0..n` loop", "LPUSH/RPUSH arms with notify_key_ready not recognised")
    item("wakeAtPush", "Bool", f["wake_at_push"], "process_normal_command calls self.process_wakeups() after the command that notified", "LPUSH/RPUSH arms with notify_key_ready not recognised")
    item("unregisterAllOnServe", "Bool", f["unregister_all"], "wake_client calls unregister_client after serving", "wake_client not recognised")
    item("refuseBlockingInTx", "Bool", f["refuse_in_tx"], "handle_blpop/handle_brpop answer the null array when conn_id == 0", "handle_blpop/handle_brpop with register_blocked not recognised")
    item("dedupKeys", "Bool", f["dedup_keys"], "handle_blpop/handle_brpop drop repeated keys before registering", "handle_blpop/handle_brpop with register_blocked not recognised")
    item("drainAll", "Bool", f["drain_all"], "process_normal_command drains the wake queue under `while has_pending_wakeups()`", "wake-up drain at the end of process_normal_command not recognised")
    item("noticeBlockedHangup", "Bool", f["notice_blocked_hangup"], "process_connections probes blocked connections with Connection::peer_closed()", "process_connections not recognised")
    item("deferBatchWhenBlocked", "Bool", f["defer_batch"], "process_connection keeps the frames behind a blocking pop that blocked (deferred_frames)", "process_connection not recognised")
    item("execAtomic", "Bool", f["exec_atomic"], "queued pushes do not notify (conn_id == 0); handle_exec serves the pushed keys afterwards (serve_key)", "handle_exec not recognised")
    item("wakeChecksClient", "Bool", f["wake_checks_client"], "wake_client checks the connection before popping; the hang-up probe unregisters at once", "wake_client not recognised")
    item("serveDrains", "Bool", f["serve_drains"], "each round of serve_key calls process_wakeups() under `while has_pending_wakeups()`", "serve_key not recognised")
    item("probeReadsInput", "Bool", f["probe_reads_input"], "Connection::peer_closed reads the pending input into the parse buffer (sees end-of-file behind unread bytes) instead of peeking one byte", "Connection::peer_closed not recognised")
    for nm, key, doc in (("sweepCommands", "sweep_commands", "commands after which process_normal_command serves the blocked keys of the database"),
                         ("execSweepCommands", "exec_sweep_commands", "queued commands after which handle_exec serves the blocked keys of the database")):
        if f[key] is None:
            L.append('def %s : List String := extraction_failed "%s: matches!(…) in front of the blocked_keys sweep not found"' % (nm, key))
        else:
            L.append("/-- %s -/" % doc)
            L.append("def %s : List String := [%s]" % (nm, ", ".join('"%s"' % x for x in f[key])))
    L += ["", "end Ferrous.Gen.Blocking", ""]
    return "\n".join(L)
