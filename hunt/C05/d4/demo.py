#!/usr/bin/env python3
"""d4: replies out of order. Some handlers write straight into the connection's output buffer while the replies to the
EARLIER commands of the same pipeline are still waiting in process_connection's `responses` vector:
 (a) SUBSCRIBE / UNSUBSCRIBE / PSUBSCRIBE / PUNSUBSCRIBE whose name carries white space (" SUBSCRIBE", "subscribe\n"):
     process_frame trims the name and runs the pub/sub handler, but the guard that first sends the earlier replies
     (repair 1fca1fe) compares the untrimmed name and does not fire;
 (b) SYNC / PSYNC: the RDB payload is written before the replies to the commands that preceded it.
In both cases the client reads the later command's output where it expects the reply to the earlier command.

usage: demo.py [path-of-server-binary]      exit 1 = property violated, 0 = holds
"""
import shutil, socket, subprocess, sys, tempfile, time

BIN = sys.argv[1] if len(sys.argv) > 1 else '/tmp/hunt-C05/target/debug/ferrous'


def free_port():
    s = socket.socket(); s.bind(('127.0.0.1', 0)); p = s.getsockname()[1]; s.close(); return p


def cmd(*args):
    out = b'*%d\r\n' % len(args)
    for a in args:
        if isinstance(a, str):
            a = a.encode()
        out += b'$%d\r\n%s\r\n' % (len(a), a)
    return out


def recv_all(s, idle):
    s.settimeout(idle); buf = b''
    try:
        while True:
            d = s.recv(65536)
            if not d:
                buf += b'<EOF>'; break
            buf += d
    except socket.timeout:
        pass
    except ConnectionResetError:
        buf += b'<RST>'
    return buf


def show(b):
    return repr(b if len(b) < 150 else b[:60] + b' ... ' + b[-70:])


def main():
    port = free_port(); d = tempfile.mkdtemp(prefix='hunt-C05-d4-')
    srv = subprocess.Popen([BIN, '--port', str(port), '--dir', d], stdout=subprocess.DEVNULL, stderr=subprocess.DEVNULL)
    bad = 0; total = 0
    first = b'$5\r\nfirst\r\n'
    try:
        for _ in range(100):
            try:
                socket.create_connection(('127.0.0.1', port), timeout=1).close(); break
            except OSError:
                time.sleep(0.05)
        cases = [
            ('control: SUBSCRIBE',        cmd('SUBSCRIBE', 'ch')),
            ('(a) " SUBSCRIBE"',          cmd(' SUBSCRIBE', 'ch')),
            ('(a) "subscribe\\n"',        cmd('subscribe\n', 'ch')),
            ('(a) "\\tPSUBSCRIBE"',       cmd('\tPSUBSCRIBE', 'p*')),
            ('(a) "UNSUBSCRIBE "',        cmd('UNSUBSCRIBE ')),
            ('(a) "PUNSUBSCRIBE\\r\\n"',  cmd('PUNSUBSCRIBE\r\n')),
            ('(b) PSYNC ? -1',            cmd('PSYNC', '?', '-1')),
            ('(b) SYNC',                  cmd('SYNC')),
        ]
        print('pipeline in one write: ECHO first | <X> | ECHO third      - the first reply must be $5 first')
        for rnd in range(2):
            for label, x in cases:
                s = socket.create_connection(('127.0.0.1', port))
                s.sendall(cmd('ECHO', 'first') + x + cmd('ECHO', 'third'))
                got = recv_all(s, 0.6)
                s.close()
                ok = got.startswith(first) and got.count(first) == 1 and got.count(b'$5\r\nthird\r\n') == 1 \
                    and got.index(first) < got.index(b'$5\r\nthird\r\n')
                total += 1
                if not ok:
                    bad += 1
                if rnd == 0:
                    print('  X = %-24s -> %s   %s' % (label, show(got), 'ok' if ok else 'VIOLATION: the reply to ECHO first is not the first thing sent'))
    finally:
        srv.kill(); srv.wait(); shutil.rmtree(d, ignore_errors=True)
    print('RESULT:', 'property VIOLATED (%d of %d pipelines answered out of order)' % (bad, total) if bad else 'property holds')
    sys.exit(1 if bad else 0)


if __name__ == '__main__':
    main()
