#!/usr/bin/env python3
"""d3: "BLPOP k 1; PING; <frame that violates the protocol>" - whether BLPOP and PING are answered depends on how
the bytes are split into TCP segments. In ONE segment the client only gets the protocol error (at once) and the
connection is closed: BLPOP and PING, received before the bad frame, are never answered. Split after PING, the
same bytes are answered *-1, +PONG, -ERR Protocol error.

usage: demo.py [path-of-server-binary]      exit 1 = property violated, 0 = holds
"""
import shutil, socket, subprocess, sys, tempfile, time

BIN = sys.argv[1] if len(sys.argv) > 1 else '/tmp/hunt-C05/target/debug/ferrous'


def free_port():
    s = socket.socket(); s.bind(('127.0.0.1', 0)); p = s.getsockname()[1]; s.close(); return p


def cmd(*args):
    out = b'*%d\r\n' % len(args)
    for a in args:
        if isinstance(a, str):
            a = a.encode()
        out += b'$%d\r\n%s\r\n' % (len(a), a)
    return out


def recv_all(s, idle):
    s.settimeout(idle); buf = b''; t0 = time.time(); first = None
    try:
        while True:
            d = s.recv(65536)
            if first is None:
                first = time.time() - t0
            if not d:
                buf += b'<EOF>'; break
            buf += d
    except socket.timeout:
        pass
    except ConnectionResetError:
        buf += b'<RST>'
    return buf, first


def run(port, label, segments, pause):
    s = socket.create_connection(('127.0.0.1', port))
    s.setsockopt(socket.IPPROTO_TCP, socket.TCP_NODELAY, 1)
    for i, seg in enumerate(segments):
        if i:
            time.sleep(pause)
        s.sendall(seg)
    got, first = recv_all(s, 2.5)
    s.close()
    print('  %-44s -> %r   (first byte after %.2f s)' % (label, got, first if first is not None else -1))
    return got


def main():
    port = free_port(); d = tempfile.mkdtemp(prefix='hunt-C05-d3-')
    srv = subprocess.Popen([BIN, '--port', str(port), '--dir', d], stdout=subprocess.DEVNULL, stderr=subprocess.DEVNULL)
    bad = 0
    try:
        for _ in range(100):
            try:
                socket.create_connection(('127.0.0.1', port), timeout=1).close(); break
            except OSError:
                time.sleep(0.05)
        blpop, ping, garbage = cmd('BLPOP', 'k', '1'), cmd('PING'), b'*x\r\n'
        expected = b'*-1\r\n+PONG\r\n-ERR Protocol error: Invalid array length\r\n<EOF>'
        print('request bytes: BLPOP k 1 | PING | "*x\\r\\n"   (k does not exist: BLPOP must answer *-1 after 1 s)')
        print('expected     : %r' % expected)
        for rnd in range(3):
            print('round %d' % (rnd + 1))
            a = run(port, 'one segment', [blpop + ping + garbage], 0)
            b = run(port, 'two segments (bad frame 0.2 s later)', [blpop + ping, garbage], 0.2)
            c = run(port, 'three segments', [blpop, ping, garbage], 0.1)
            if not (a == b == c == expected):
                bad += 1
        # the well-formed frames behind a BLPOP that blocked are lost the same way
        print('variant: BLPOP k 1 | SET marker 1 | "*x\\r\\n" in one segment, then GET marker on a new connection')
        run(port, 'one segment', [blpop + cmd('SET', 'marker', '1') + garbage], 0)
        s = socket.create_connection(('127.0.0.1', port)); s.sendall(cmd('GET', 'marker'))
        got, _ = recv_all(s, 0.5); print('  GET marker -> %r  (the SET that preceded the bad frame was %s)' % (got, 'executed' if got.startswith(b'$1') else 'never executed'))
    finally:
        srv.kill(); srv.wait(); shutil.rmtree(d, ignore_errors=True)
    print('RESULT:', 'property VIOLATED (replies depend on the segmentation / commands unanswered in %d of 3 rounds)' % bad if bad else 'property holds')
    sys.exit(1 if bad else 0)


if __name__ == '__main__':
    main()
