#!/usr/bin/env python3
"""d2: a script that returns a table containing itself (or a table nested a few thousand levels deep) takes the
whole server down: the conversion of the script's return value into a reply recurses without a bound.
Nobody - not the caller, not any other connection - gets a reply any more.

usage: demo.py [path-of-server-binary]      exit 1 = property violated, 0 = holds
"""
import shutil, socket, subprocess, sys, tempfile, time

BIN = sys.argv[1] if len(sys.argv) > 1 else '/tmp/hunt-C05/target/debug/ferrous'

SCRIPTS = [
    ('self-referential table', "local t = {} t[1] = t return t"),
    ('table nested 10000 deep', "local t = {} local r = t for i = 1, 10000 do r[1] = {} r = r[1] end return t"),
]


def free_port():
    s = socket.socket(); s.bind(('127.0.0.1', 0)); p = s.getsockname()[1]; s.close(); return p


def cmd(*args):
    out = b'*%d\r\n' % len(args)
    for a in args:
        if isinstance(a, str):
            a = a.encode()
        out += b'$%d\r\n%s\r\n' % (len(a), a)
    return out


def recv_some(s, idle):
    s.settimeout(idle); buf = b''
    try:
        while True:
            d = s.recv(65536)
            if not d:
                return buf + b'<EOF>'
            buf += d
            if buf.endswith(b'\r\n') and len(buf) < 65536:
                s.settimeout(0.3)
    except socket.timeout:
        return buf
    except ConnectionResetError:
        return buf + b'<RST>'


def run(name, script):
    port = free_port(); d = tempfile.mkdtemp(prefix='hunt-C05-d2-')
    errf = open(d + '/stderr.txt', 'wb')
    srv = subprocess.Popen([BIN, '--port', str(port), '--dir', d], stdout=subprocess.DEVNULL, stderr=errf)
    violated = False
    try:
        for _ in range(100):
            try:
                socket.create_connection(('127.0.0.1', port), timeout=1).close(); break
            except OSError:
                time.sleep(0.05)
        other = socket.create_connection(('127.0.0.1', port))      # a bystander connection
        other.sendall(cmd('PING')); print('  bystander before :', recv_some(other, 2))
        a = socket.create_connection(('127.0.0.1', port))
        a.sendall(cmd('EVAL', script, '0') + cmd('ECHO', 'still usable'))
        got = recv_some(a, 8)
        print('  EVAL; ECHO       :', got[:200])
        time.sleep(0.5)
        try:
            other.sendall(cmd('PING')); by = recv_some(other, 2)
        except OSError as e:
            by = ('<%s>' % type(e).__name__).encode()
        print('  bystander after  :', by)
        rc = srv.poll()
        print('  server process   :', 'running' if rc is None else 'DEAD, exit status %s' % rc)
        errf.flush()
        tail = open(d + '/stderr.txt', 'rb').read().decode('latin-1')
        for line in tail.splitlines():
            if 'overflow' in line or 'panicked' in line or 'cannot create' in line or 'Assertion' in line:
                print('  server stderr    :', line[:200])
        # expected: an error reply (Redis: "ERR reached lua stack limit") or a reply of bounded depth for
        # EVAL, then the ECHO reply; the bystander still served
        if rc is not None or not got.endswith(b'$12\r\nstill usable\r\n') or by != b'+PONG\r\n':
            violated = True
    finally:
        srv.kill(); srv.wait(); errf.close(); shutil.rmtree(d, ignore_errors=True)
    print('  ->', 'VIOLATION' if violated else 'ok')
    return violated


def main():
    bad = 0
    for name, script in SCRIPTS:
        print('%s:  EVAL "%s" 0' % (name, script))
        if run(name, script):
            bad += 1
    print('RESULT:', 'property VIOLATED (%d of %d scripts killed the server)' % (bad, len(SCRIPTS)) if bad else 'property holds')
    sys.exit(1 if bad else 0)


if __name__ == '__main__':
    main()
