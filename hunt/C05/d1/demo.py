#!/usr/bin/env python3
"""d1: a connection the server closes itself (QUIT, protocol error) is dropped with its replies still
unsent: the reply in flight is cut in the middle, the following replies (and QUIT's +OK / the protocol
error reply) never arrive.

usage: demo.py [path-of-server-binary]      exit 1 = property violated, 0 = holds
"""
import os, shutil, socket, subprocess, sys, tempfile, time

BIN = sys.argv[1] if len(sys.argv) > 1 else '/tmp/hunt-C05/target/debug/ferrous'
SIZE = 8 * 1024 * 1024          # larger than a loopback socket buffer
NGET = 3
LAG = 0.5                       # seconds before the client starts reading (a slow link / a busy client)


def free_port():
    s = socket.socket(); s.bind(('127.0.0.1', 0)); p = s.getsockname()[1]; s.close(); return p


def cmd(*args):
    out = b'*%d\r\n' % len(args)
    for a in args:
        if isinstance(a, str):
            a = a.encode()
        out += b'$%d\r\n%s\r\n' % (len(a), a)
    return out


def read_until_eof_or_idle(s, idle):
    """read as fast as possible; stop at EOF / reset / `idle` seconds of silence"""
    s.settimeout(idle)
    chunks = []; how = 'idle'
    try:
        while True:
            d = s.recv(1 << 20)
            if not d:
                how = 'EOF'; break
            chunks.append(d)
    except socket.timeout:
        pass
    except ConnectionResetError:
        how = 'RST'
    return b''.join(chunks), how


def scenario(port, name, tail, expected_tail):
    """pipeline: NGET x GET big, then `tail`. Expected: NGET complete bulk replies, then expected_tail"""
    s = socket.create_connection(('127.0.0.1', port)); s.settimeout(20)
    s.sendall(cmd('GET', 'big') * NGET + tail)
    time.sleep(LAG)                                # the client (or the network) lags a little behind ...
    data, how = read_until_eof_or_idle(s, 3.0)     # ... then reads everything as fast as it can
    s.close()
    one = b'$%d\r\n' % SIZE + b'v' * SIZE + b'\r\n'
    expected = one * NGET + expected_tail
    complete = data.startswith(one * NGET)
    ok = data == expected if expected_tail is not None else complete
    print('%-34s received %9d of %9d bytes, complete GET replies: %d/%d, tail %r, ended by %s -> %s' % (
        name, len(data), len(expected), sum(1 for i in range(NGET) if data[i * len(one):(i + 1) * len(one)] == one), NGET,
        data[len(one) * NGET:][:60] if complete else b'<missing>', how, 'ok' if ok else 'VIOLATION'))
    return ok


def main():
    port = free_port(); d = tempfile.mkdtemp(prefix='hunt-C05-d1-')
    srv = subprocess.Popen([BIN, '--port', str(port), '--dir', d], stdout=subprocess.DEVNULL, stderr=subprocess.DEVNULL)
    bad = 0
    try:
        for _ in range(100):
            try:
                socket.create_connection(('127.0.0.1', port), timeout=1).close(); break
            except OSError:
                time.sleep(0.05)
        s = socket.create_connection(('127.0.0.1', port)); s.settimeout(20)
        s.sendall(cmd('SET', 'big', b'v' * SIZE))
        assert s.recv(100) == b'+OK\r\n'
        s.close()
        for rnd in range(2):
            # control: the same pipeline ended by an ordinary command: everything arrives
            if not scenario(port, 'control  (GET x3; ECHO end)', cmd('ECHO', 'end'), b'$3\r\nend\r\n'):
                bad += 1
            # QUIT: must be answered +OK after the three GET replies, then the connection is closed
            if not scenario(port, 'QUIT     (GET x3; QUIT)', cmd('QUIT'), b'+OK\r\n'):
                bad += 1
            # protocol violation: must be answered with an error after the three GET replies
            if not scenario(port, 'protocol (GET x3; "*x\\r\\n")', b'*x\r\n', b'-ERR Protocol error: Invalid array length\r\n'):
                bad += 1
    finally:
        srv.kill(); srv.wait(); shutil.rmtree(d, ignore_errors=True)
    print('RESULT:', 'property VIOLATED (%d scenario runs lost replies)' % bad if bad else 'property holds')
    sys.exit(1 if bad else 0)


if __name__ == '__main__':
    main()
