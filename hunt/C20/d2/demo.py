import socket, subprocess, sys, tempfile, time, os, shutil, threading

BIN = sys.argv[1] if len(sys.argv) > 1 else '/tmp/hunt-C20/target/debug/ferrous'

def free_port():
    s = socket.socket(); s.bind(('127.0.0.1', 0)); p = s.getsockname()[1]; s.close(); return p

def start(preexec=None):
    port = free_port()
    d = tempfile.mkdtemp(prefix='hunt-c20-')
    p = subprocess.Popen([BIN, '--port', str(port), '--dir', d], stdout=subprocess.DEVNULL,
                         stderr=open(os.path.join(d, 'stderr.log'), 'wb'), preexec_fn=preexec)
    for _ in range(200):
        try:
            s = socket.create_connection(('127.0.0.1', port), timeout=1); s.close(); break
        except OSError:
            time.sleep(0.05)
    else:
        p.kill(); raise SystemExit('server did not start')
    return p, port, d

def stop(p, d):
    try: p.kill()
    except Exception: pass
    try: p.wait(timeout=5)
    except Exception: pass
    shutil.rmtree(d, ignore_errors=True)

def conn(port, timeout=10):
    s = socket.create_connection(('127.0.0.1', port), timeout=timeout)
    s.setsockopt(socket.IPPROTO_TCP, socket.TCP_NODELAY, 1)
    return s

def cmd(*a):
    out = b'*%d\r\n' % len(a)
    for x in a:
        if isinstance(x, str): x = x.encode()
        out += b'$%d\r\n%s\r\n' % (len(x), x)
    return out

def recv_some(s, wait=0.5):
    """read until `wait` seconds of silence or EOF; returns (bytes, eof)"""
    s.settimeout(wait); buf = b''; eof = False
    try:
        while True:
            d = s.recv(1 << 16)
            if not d: eof = True; break
            buf += d
    except socket.timeout:
        pass
    except (ConnectionResetError, BrokenPipeError):
        eof = True
    return buf, eof

def ping_ok(port):
    try:
        s = conn(port, 3); s.sendall(cmd('PING')); r, _ = recv_some(s, 1.0); s.close()
        return r == b'+PONG\r\n'
    except OSError:
        return False
import resource

# Property clause: the parser "never reserves memory according to a declared length it has not received".
# parse_array / parse_set / parse_map reserve Vec::with_capacity(min(declared_len, bytes_left_in_buffer)) SLOTS
# (32 bytes per frame, 64 per map pair) - at EVERY nesting level (up to 129), again on every parse() call.
# ~1.5 KB of nested headers that each declare 10^8 elements, followed by 1 MiB of an unfinished bulk string,
# therefore make the server reserve ~4 GiB (4000 x what it received) although not ONE element has arrived.

def vm(pid):
    r = {}
    for l in open('/proc/%d/status' % pid):
        if l.startswith(('VmPeak', 'VmSize', 'VmHWM')):
            k, v = l.split(':'); r[k] = int(v.split()[0]) // 1024   # MiB
    return r

LEVELS = 120
FILL = 1 << 20
payload = b'*100000000\r\n' * LEVELS + b'$%d\r\n' % (2 * FILL) + b'x' * FILL   # incomplete on purpose: the parser answers "need more data"

violated = False

# --- A: measure what the server reserves -------------------------------------------------------------
p, port, d = start()
try:
    s = conn(port)
    s.sendall(cmd('SET', 'big', b'x' * FILL)); r, _ = recv_some(s, 1.0)
    base = vm(p.pid)
    print('A  after an ordinary 1 MiB SET (%r): %s MiB' % (r, base))
    s2 = conn(port)
    s2.sendall(payload)
    time.sleep(1.5)
    after = vm(p.pid)
    grown = after['VmPeak'] - base['VmPeak']
    print('A  after %d bytes = %d nested array headers declaring 10^8 elements each + 1 MiB of an unfinished bulk string: %s MiB'
          % (len(payload), LEVELS, after))
    print('A  peak address space reserved grew by %d MiB for %.2f MiB received (x%d); resident peak grew by %d MiB; elements received: 0'
          % (grown, len(payload) / 2**20, grown / (len(payload) / 2**20), after['VmHWM'] - base['VmHWM']))
    if grown > 64 * len(payload) / 2**20:
        violated = True
finally:
    stop(p, d)

# --- B: consequence where address space is limited (ulimit -v / strict overcommit): the server aborts ----
def limit():
    resource.setrlimit(resource.RLIMIT_AS, (2 << 30, 2 << 30))   # 2 GiB, 10x what the server normally maps
p, port, d = start(preexec=limit)
try:
    s = conn(port)
    s.sendall(cmd('SET', 'big', b'x' * (8 * FILL))); r, _ = recv_some(s, 2.0)
    print('B  server under RLIMIT_AS = 2 GiB: an ordinary 8 MiB SET ->', r, '| alive:', p.poll() is None)
    s2 = conn(port)
    try:
        s2.sendall(payload)
    except OSError as e:
        print('B  send:', e)
    time.sleep(1.5)
    code = p.poll()
    print('B  after the %d-byte nested-header payload: server exit code %s, answers PING: %s' % (len(payload), code, ping_ok(port)))
    if code is not None:
        log = open(os.path.join(d, 'stderr.log'), 'rb').read().splitlines()
        print('B  server stderr: %r' % [l for l in log if b'alloc' in l][:2])
        violated = True
finally:
    stop(p, d)

if violated:
    print('RESULT: VIOLATION - memory is reserved according to declared lengths of which nothing was received (amplified by nesting)')
    sys.exit(1)
print('RESULT: property holds'); sys.exit(0)
