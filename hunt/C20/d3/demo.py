import socket, subprocess, sys, tempfile, time, os, shutil, threading

BIN = sys.argv[1] if len(sys.argv) > 1 else '/tmp/hunt-C20/target/debug/ferrous'

def free_port():
    s = socket.socket(); s.bind(('127.0.0.1', 0)); p = s.getsockname()[1]; s.close(); return p

def start(preexec=None):
    port = free_port()
    d = tempfile.mkdtemp(prefix='hunt-c20-')
    p = subprocess.Popen([BIN, '--port', str(port), '--dir', d], stdout=subprocess.DEVNULL,
                         stderr=open(os.path.join(d, 'stderr.log'), 'wb'), preexec_fn=preexec)
    for _ in range(200):
        try:
            s = socket.create_connection(('127.0.0.1', port), timeout=1); s.close(); break
        except OSError:
            time.sleep(0.05)
    else:
        p.kill(); raise SystemExit('server did not start')
    return p, port, d

def stop(p, d):
    try: p.kill()
    except Exception: pass
    try: p.wait(timeout=5)
    except Exception: pass
    shutil.rmtree(d, ignore_errors=True)

def conn(port, timeout=10):
    s = socket.create_connection(('127.0.0.1', port), timeout=timeout)
    s.setsockopt(socket.IPPROTO_TCP, socket.TCP_NODELAY, 1)
    return s

def cmd(*a):
    out = b'*%d\r\n' % len(a)
    for x in a:
        if isinstance(x, str): x = x.encode()
        out += b'$%d\r\n%s\r\n' % (len(x), x)
    return out

def recv_some(s, wait=0.5):
    """read until `wait` seconds of silence or EOF; returns (bytes, eof)"""
    s.settimeout(wait); buf = b''; eof = False
    try:
        while True:
            d = s.recv(1 << 16)
            if not d: eof = True; break
            buf += d
    except socket.timeout:
        pass
    except (ConnectionResetError, BrokenPipeError):
        eof = True
    return buf, eof

def ping_ok(port):
    try:
        s = conn(port, 3); s.sendall(cmd('PING')); r, _ = recv_some(s, 1.0); s.close()
        return r == b'+PONG\r\n'
    except OSError:
        return False

# A reply that does not fit into the socket at once stays in Connection::write_buffer for the next loop iteration
# (since the WouldBlock repair of Connection::flush). But QUIT and a protocol error mark the connection Closing in
# the SAME iteration, and cleanup_connections drops a Closing connection at the end of that iteration WITH its
# unwritten bytes: the client receives a serialised value cut in the middle (a frame its parser can never
# complete) and never sees the +OK of QUIT / the -ERR Protocol error. Whether this happens depends only on how
# the request bytes were segmented (QUIT in the same read as the GET or in a later one).

N = 16 << 20
FULL = b'$%d\r\n' % N + b'x' * N + b'\r\n'

def read_all_eagerly(s, limit=20.0):
    """a client that reads as fast as it can, until EOF"""
    s.settimeout(limit); buf = bytearray(); eof = False
    try:
        while True:
            d = s.recv(1 << 20)
            if not d: eof = True; break
            buf += d
    except socket.timeout:
        pass
    except (ConnectionResetError, BrokenPipeError):
        eof = True
    return bytes(buf), eof

p, port, d = start()
violations = 0
try:
    s = conn(port); s.sendall(cmd('SET', 'big', b'x' * N)); r, _ = recv_some(s, 3.0); s.close()
    print('SET big (16 MiB) ->', r)

    # control: the same bytes, QUIT sent in a later segment, after the reply has been read
    s = conn(port); s.sendall(cmd('GET', 'big'))
    buf = bytearray(); s.settimeout(20)
    while len(buf) < len(FULL): buf += s.recv(1 << 20)
    s.sendall(cmd('QUIT')); rest, eof = read_all_eagerly(s)
    got = bytes(buf) + rest
    print('control  GET big | <read reply> | QUIT : %d bytes, complete: %s, eof: %s' % (len(got), got == FULL + b'+OK\r\n', eof))

    for trial in range(3):
        s = conn(port)
        t = {}
        th = threading.Thread(target=lambda: t.update(r=read_all_eagerly(s))); th.start()   # reader runs before anything is sent
        s.sendall(cmd('GET', 'big') + cmd('QUIT'))
        th.join(); got, eof = t['r']
        want = FULL + b'+OK\r\n'
        print('trial %d  GET big + QUIT in one segment: got %d of %d bytes, eof: %s, ends with %r' % (trial, len(got), len(want), eof, got[-12:]))
        if got != want: violations += 1

    for mode in ('eager reader', 'reader starts after 0.3 s'):
        s = conn(port)
        t = {}
        def reader(s=s, mode=mode):
            if mode != 'eager reader': time.sleep(0.3)
            t.update(r=read_all_eagerly(s))
        th = threading.Thread(target=reader); th.start()
        s.sendall(cmd('GET', 'big') * 3 + b'!boom\r\n')
        th.join(); got, eof = t['r']
        complete = got.startswith(FULL * 3)
        print('3 x GET big + a malformed frame in one segment (%s): got %d of %d+ bytes, eof: %s; the 3 replies complete: %s; error reply present: %s'
              % (mode, len(got), 3 * len(FULL), eof, complete, b'-ERR' in got[-200:]))
        if not (complete and b'-ERR' in got[-200:]): violations += 1
    print('server still alive:', ping_ok(port))
finally:
    stop(p, d)

if violations:
    print('RESULT: VIOLATION - replies are cut in the middle of a frame when the connection is closed after the reply (QUIT / protocol error)')
    sys.exit(1)
print('RESULT: property holds'); sys.exit(0)
