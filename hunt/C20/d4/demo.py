import socket, subprocess, sys, tempfile, time, os, shutil, threading

BIN = sys.argv[1] if len(sys.argv) > 1 else '/tmp/hunt-C20/target/debug/ferrous'

def free_port():
    s = socket.socket(); s.bind(('127.0.0.1', 0)); p = s.getsockname()[1]; s.close(); return p

def start(preexec=None):
    port = free_port()
    d = tempfile.mkdtemp(prefix='hunt-c20-')
    p = subprocess.Popen([BIN, '--port', str(port), '--dir', d], stdout=subprocess.DEVNULL,
                         stderr=open(os.path.join(d, 'stderr.log'), 'wb'), preexec_fn=preexec)
    for _ in range(200):
        try:
            s = socket.create_connection(('127.0.0.1', port), timeout=1); s.close(); break
        except OSError:
            time.sleep(0.05)
    else:
        p.kill(); raise SystemExit('server did not start')
    return p, port, d

def stop(p, d):
    try: p.kill()
    except Exception: pass
    try: p.wait(timeout=5)
    except Exception: pass
    shutil.rmtree(d, ignore_errors=True)

def conn(port, timeout=10):
    s = socket.create_connection(('127.0.0.1', port), timeout=timeout)
    s.setsockopt(socket.IPPROTO_TCP, socket.TCP_NODELAY, 1)
    return s

def cmd(*a):
    out = b'*%d\r\n' % len(a)
    for x in a:
        if isinstance(x, str): x = x.encode()
        out += b'$%d\r\n%s\r\n' % (len(x), x)
    return out

def recv_some(s, wait=0.5):
    """read until `wait` seconds of silence or EOF; returns (bytes, eof)"""
    s.settimeout(wait); buf = b''; eof = False
    try:
        while True:
            d = s.recv(1 << 16)
            if not d: eof = True; break
            buf += d
    except socket.timeout:
        pass
    except (ConnectionResetError, BrokenPipeError):
        eof = True
    return buf, eof

def ping_ok(port):
    try:
        s = conn(port, 3); s.sendall(cmd('PING')); r, _ = recv_some(s, 1.0); s.close()
        return r == b'+PONG\r\n'
    except OSError:
        return False

# The same byte stream  QUIT | SET k v | GET k  gives different frames-executed / replies depending on how TCP
# segments it: process_connection only notes `should_close` for QUIT and goes on executing every later frame
# that happened to arrive in the same read(); frames arriving in a later read are never executed because the
# connection has been closed by then. Redis stops processing a client's input at QUIT in both cases.

stream = [cmd('QUIT'), cmd('SET', 'k', 'v') + cmd('GET', 'k')]

def run(split):
    p, port, d = start()
    try:
        s = conn(port)
        try:
            if split:
                s.sendall(stream[0]); time.sleep(0.3); s.sendall(stream[1])
            else:
                s.sendall(stream[0] + stream[1])
        except OSError as e:
            pass
        r, eof = recv_some(s, 0.7)
        s2 = conn(port); s2.sendall(cmd('GET', 'k')); k, _ = recv_some(s2, 0.5)
        return r, eof, k
    finally:
        stop(p, d)

a = run(False)
b = run(True)
print('one segment  : replies %r eof=%s ; afterwards GET k (other client) -> %r' % a)
print('two segments : replies %r eof=%s ; afterwards GET k (other client) -> %r' % b)
bad = (a[0] != b[0]) or (a[2] != b[2]) or a[2] != b'$-1\r\n'
if bad:
    print('RESULT: VIOLATION - commands pipelined behind QUIT are executed and answered iff they share a TCP read with it (Redis: never)')
    sys.exit(1)
print('RESULT: property holds'); sys.exit(0)
