import socket, subprocess, sys, tempfile, time, os, shutil, threading

BIN = sys.argv[1] if len(sys.argv) > 1 else '/tmp/hunt-C20/target/debug/ferrous'

def free_port():
    s = socket.socket(); s.bind(('127.0.0.1', 0)); p = s.getsockname()[1]; s.close(); return p

def start(preexec=None):
    port = free_port()
    d = tempfile.mkdtemp(prefix='hunt-c20-')
    p = subprocess.Popen([BIN, '--port', str(port), '--dir', d], stdout=subprocess.DEVNULL,
                         stderr=open(os.path.join(d, 'stderr.log'), 'wb'), preexec_fn=preexec)
    for _ in range(200):
        try:
            s = socket.create_connection(('127.0.0.1', port), timeout=1); s.close(); break
        except OSError:
            time.sleep(0.05)
    else:
        p.kill(); raise SystemExit('server did not start')
    return p, port, d

def stop(p, d):
    try: p.kill()
    except Exception: pass
    try: p.wait(timeout=5)
    except Exception: pass
    shutil.rmtree(d, ignore_errors=True)

def conn(port, timeout=10):
    s = socket.create_connection(('127.0.0.1', port), timeout=timeout)
    s.setsockopt(socket.IPPROTO_TCP, socket.TCP_NODELAY, 1)
    return s

def cmd(*a):
    out = b'*%d\r\n' % len(a)
    for x in a:
        if isinstance(x, str): x = x.encode()
        out += b'$%d\r\n%s\r\n' % (len(x), x)
    return out

def recv_some(s, wait=0.5):
    """read until `wait` seconds of silence or EOF; returns (bytes, eof)"""
    s.settimeout(wait); buf = b''; eof = False
    try:
        while True:
            d = s.recv(1 << 16)
            if not d: eof = True; break
            buf += d
    except socket.timeout:
        pass
    except (ConnectionResetError, BrokenPipeError):
        eof = True
    return buf, eof

def ping_ok(port):
    try:
        s = conn(port, 3); s.sendall(cmd('PING')); r, _ = recv_some(s, 1.0); s.close()
        return r == b'+PONG\r\n'
    except OSError:
        return False

# Property clause: "Serialising any RESP value ... never panics": a reply frame tree built from a script's
# return value is converted and serialised by unbounded recursion; a cyclic (or merely deep) Lua table
# overflows the stack of the only command thread and the whole server aborts.

def scenario(name, script):
    p, port, d = start()
    try:
        assert ping_ok(port)
        s = conn(port, 30)
        s.sendall(cmd('EVAL', script, '0'))
        r, eof = recv_some(s, 6.0)
        time.sleep(0.5)
        code = p.poll()
        alive = code is None and ping_ok(port)
        err = b''
        if code is not None:
            err = open(os.path.join(d, 'stderr.log'), 'rb').read()[-110:]
        print('[%s] reply: %d bytes %r eof=%s | server exit code: %s | answers PING afterwards: %s'
              % (name, len(r), r[:40], eof, code, alive))
        if err:
            print('[%s] server stderr tail: %r' % (name, err))
        return alive
    finally:
        stop(p, d)

ok = True
# 1. a table that contains itself (Redis: "ERR reached lua stack limit", server stays up)
ok &= scenario('cyclic table', "local t = {} t[1] = t return t")
# 2. no cycle needed: a finite table nested 20000 deep (80 KB on the wire if it were serialised)
ok &= scenario('20000-deep table', "local r = {} local t = r for i = 1, 20000 do t[1] = {} t = t[1] end t[1] = 'leaf' return r")
# 3. for reference: depth 200 is answered - with a reply nested deeper than the 128 levels the project's own parser accepts
p, port, d = start()
try:
    s = conn(port, 10)
    s.sendall(cmd('EVAL', "local r = {} local t = r for i = 1, 200 do t[1] = {} t = t[1] end t[1] = 'leaf' return r", '0'))
    r, _ = recv_some(s, 1.0)
    print('[200-deep table] reply nests %d arrays (own parser limit MAX_NESTING = 128)' % r.count(b'*1\r\n'))
finally:
    stop(p, d)

if ok:
    print('RESULT: property holds (server survived)'); sys.exit(0)
print('RESULT: VIOLATION - one EVAL whose return value is a cyclic/deep table kills the server (stack overflow in the reply path)')
sys.exit(1)
