#!/usr/bin/env python3
import os, shutil, socket, subprocess, sys, tempfile, time

BIN = sys.argv[1] if len(sys.argv) > 1 else '/tmp/hunt-C14/target/debug/ferrous'


def free_port():
    s = socket.socket()
    s.bind(('127.0.0.1', 0))
    p = s.getsockname()[1]
    s.close()
    return p


class Server:
    def __init__(self):
        self.dir = tempfile.mkdtemp(prefix='hunt-C14-demo-')
        self.port = free_port()
        self.proc = subprocess.Popen([BIN, '--port', str(self.port), '--dir', self.dir],
                                     stdout=subprocess.DEVNULL, stderr=subprocess.DEVNULL)
        for _ in range(200):
            try:
                socket.create_connection(('127.0.0.1', self.port), timeout=1).close()
                return
            except OSError:
                time.sleep(0.05)
        self.stop()
        raise SystemExit('server did not start')

    def stop(self):
        self.proc.kill()
        self.proc.wait()
        shutil.rmtree(self.dir, ignore_errors=True)


def enc(*args):
    out = b'*%d\r\n' % len(args)
    for a in args:
        if isinstance(a, str):
            a = a.encode()
        out += b'$%d\r\n%s\r\n' % (len(a), a)
    return out


class Client:
    def __init__(self, port):
        self.s = socket.create_connection(('127.0.0.1', port), timeout=5)
        self.buf = b''

    def raw(self, data):
        self.s.sendall(data)

    def send(self, *args):
        self.s.sendall(enc(*args))

    def _fill(self, timeout):
        self.s.settimeout(timeout)
        d = self.s.recv(65536)
        if not d:
            raise EOFError
        self.buf += d

    def _line(self, timeout):
        while b'\r\n' not in self.buf:
            self._fill(timeout)
        line, self.buf = self.buf.split(b'\r\n', 1)
        return line

    def read(self, timeout=5):
        line = self._line(timeout)
        t, r = line[:1], line[1:]
        if t == b'+':
            return '+' + r.decode()
        if t == b'-':
            return '-' + r.decode()
        if t == b':':
            return int(r)
        if t == b'$':
            n = int(r)
            if n < 0:
                return None
            while len(self.buf) < n + 2:
                self._fill(timeout)
            v, self.buf = self.buf[:n], self.buf[n + 2:]
            return v
        if t == b'*':
            n = int(r)
            if n < 0:
                return None
            return [self.read(timeout) for _ in range(n)]
        raise ValueError(line)

    def cmd(self, *args, timeout=5):
        self.send(*args)
        return self.read(timeout)

    def drain(self, timeout=0.5):
        """everything that still arrives: frames, then 'EOF' if the server closed"""
        out = []
        while True:
            try:
                out.append(self.read(timeout))
            except socket.timeout:
                return out
            except EOFError:
                out.append('EOF')
                return out
            except ConnectionResetError:
                out.append('RST')
                return out

    def close(self):
        try:
            self.s.close()
        except OSError:
            pass


def is_msg(x):
    return isinstance(x, list) and x and x[0] in (b'message', b'pmessage')


sv = Server()
bad = 0
try:
    S, P = Client(sv.port), Client(sv.port)
    print('S: SUBSCRIBE a ->', S.cmd('SUBSCRIBE', 'a'))
    # Redis (RESP2): "-ERR Can't execute 'blpop': only (P|S)SUBSCRIBE / (P|S)UNSUBSCRIBE / PING / QUIT / RESET are
    # allowed in this context", at once, and the client goes on receiving its messages
    S.send('BLPOP', 'nolist', '0')
    first = S.drain(1.0)
    print('S: BLPOP nolist 0 -> within 1 s:', first, '   (Redis: an error reply at once)')
    n1 = P.cmd('PUBLISH', 'a', 'm1')
    n2 = P.cmd('PUBLISH', 'a', 'm2')
    print('P: PUBLISH a m1 ->', n1, ' PUBLISH a m2 ->', n2)
    t0 = time.time()
    got = S.drain(3.0)
    print('S: received within 3 s of the PUBLISH:', got, '   (expected: message m1, message m2)')
    delivered_in_time = [x for x in got if is_msg(x)]
    if n1 == 1 and n2 == 1 and len(delivered_in_time) != 2:
        bad = 1
        print('   -> PUBLISH counted S twice but S got %d message(s) in 3 s' % len(delivered_in_time))
    print('P: LPUSH nolist v ->', P.cmd('LPUSH', 'nolist', 'v'))
    late = S.drain(1.0)
    print('S: received after the LPUSH (%.1f s after the PUBLISH):' % (time.time() - t0), late)
    # the same hole, second symptom: a subscriber may PUBLISH (Redis refuses), and the message it sends to itself
    # overtakes the reply to a command that precedes the PUBLISH in its pipeline
    S2 = Client(sv.port)
    S2.cmd('SUBSCRIBE', 'b')
    S2.raw(enc('ECHO', 'first') + enc('PUBLISH', 'b', 'self'))
    got2 = S2.drain(1.0)
    print('S2 (subscribed to b): pipeline ECHO first | PUBLISH b self ->', got2,
          "   (Redis: two errors \"Can't execute ...\"; in any case the reply to ECHO comes first)")
    if len(got2) >= 2 and is_msg(got2[0]) and got2[1] == b'first':
        print('   -> the message overtook the reply to the earlier ECHO')
finally:
    sv.stop()
print('RESULT:', 'property violated' if bad else 'property holds')
sys.exit(1 if bad else 0)
