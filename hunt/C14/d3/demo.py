#!/usr/bin/env python3
import os, shutil, socket, subprocess, sys, tempfile, time

BIN = sys.argv[1] if len(sys.argv) > 1 else '/tmp/hunt-C14/target/debug/ferrous'


def free_port():
    s = socket.socket()
    s.bind(('127.0.0.1', 0))
    p = s.getsockname()[1]
    s.close()
    return p


class Server:
    def __init__(self):
        self.dir = tempfile.mkdtemp(prefix='hunt-C14-demo-')
        self.port = free_port()
        self.proc = subprocess.Popen([BIN, '--port', str(self.port), '--dir', self.dir],
                                     stdout=subprocess.DEVNULL, stderr=subprocess.DEVNULL)
        for _ in range(200):
            try:
                socket.create_connection(('127.0.0.1', self.port), timeout=1).close()
                return
            except OSError:
                time.sleep(0.05)
        self.stop()
        raise SystemExit('server did not start')

    def stop(self):
        self.proc.kill()
        self.proc.wait()
        shutil.rmtree(self.dir, ignore_errors=True)


def enc(*args):
    out = b'*%d\r\n' % len(args)
    for a in args:
        if isinstance(a, str):
            a = a.encode()
        out += b'$%d\r\n%s\r\n' % (len(a), a)
    return out


class Client:
    def __init__(self, port):
        self.s = socket.create_connection(('127.0.0.1', port), timeout=5)
        self.buf = b''

    def raw(self, data):
        self.s.sendall(data)

    def send(self, *args):
        self.s.sendall(enc(*args))

    def _fill(self, timeout):
        self.s.settimeout(timeout)
        d = self.s.recv(65536)
        if not d:
            raise EOFError
        self.buf += d

    def _line(self, timeout):
        while b'\r\n' not in self.buf:
            self._fill(timeout)
        line, self.buf = self.buf.split(b'\r\n', 1)
        return line

    def read(self, timeout=5):
        line = self._line(timeout)
        t, r = line[:1], line[1:]
        if t == b'+':
            return '+' + r.decode()
        if t == b'-':
            return '-' + r.decode()
        if t == b':':
            return int(r)
        if t == b'$':
            n = int(r)
            if n < 0:
                return None
            while len(self.buf) < n + 2:
                self._fill(timeout)
            v, self.buf = self.buf[:n], self.buf[n + 2:]
            return v
        if t == b'*':
            n = int(r)
            if n < 0:
                return None
            return [self.read(timeout) for _ in range(n)]
        raise ValueError(line)

    def cmd(self, *args, timeout=5):
        self.send(*args)
        return self.read(timeout)

    def drain(self, timeout=0.5):
        """everything that still arrives: frames, then 'EOF' if the server closed"""
        out = []
        while True:
            try:
                out.append(self.read(timeout))
            except socket.timeout:
                return out
            except EOFError:
                out.append('EOF')
                return out
            except ConnectionResetError:
                out.append('RST')
                return out

    def close(self):
        try:
            self.s.close()
        except OSError:
            pass


sv = Server()
bad = 0
try:
    S, P = Client(sv.port), Client(sv.port)
    print('S: SUBSCRIBE a ->', S.cmd('SUBSCRIBE', 'a'), ' PSUBSCRIBE a* ->', S.cmd('PSUBSCRIBE', 'a*'))
    for script in ("return redis.call('PUBLISH', KEYS[1], ARGV[1])",
                   "return redis.pcall('publish', KEYS[1], ARGV[1])"):
        r = P.cmd('EVAL', script, '1', 'a', 'from-script')
        got = S.drain(0.7)
        print('P: EVAL %r 1 a from-script ->' % script, r, '   (Redis: 2)')
        print('S: received', got, "   (Redis: message a from-script, pmessage a* a from-script)")
        if r != 2 or len(got) != 2:
            bad = 1
    r = P.cmd('PUBLISH', 'a', 'plain')
    print('P: PUBLISH a plain ->', r, ' S:', S.drain(0.7))
finally:
    sv.stop()
print('RESULT:', 'property violated (a script cannot publish: nothing is delivered)' if bad else 'property holds')
sys.exit(1 if bad else 0)
