#!/usr/bin/env python3
import os, shutil, socket, subprocess, sys, tempfile, time

BIN = sys.argv[1] if len(sys.argv) > 1 else '/tmp/hunt-C14/target/debug/ferrous'


def free_port():
    s = socket.socket()
    s.bind(('127.0.0.1', 0))
    p = s.getsockname()[1]
    s.close()
    return p


class Server:
    def __init__(self):
        self.dir = tempfile.mkdtemp(prefix='hunt-C14-demo-')
        self.port = free_port()
        self.proc = subprocess.Popen([BIN, '--port', str(self.port), '--dir', self.dir],
                                     stdout=subprocess.DEVNULL, stderr=subprocess.DEVNULL)
        for _ in range(200):
            try:
                socket.create_connection(('127.0.0.1', self.port), timeout=1).close()
                return
            except OSError:
                time.sleep(0.05)
        self.stop()
        raise SystemExit('server did not start')

    def stop(self):
        self.proc.kill()
        self.proc.wait()
        shutil.rmtree(self.dir, ignore_errors=True)


def enc(*args):
    out = b'*%d\r\n' % len(args)
    for a in args:
        if isinstance(a, str):
            a = a.encode()
        out += b'$%d\r\n%s\r\n' % (len(a), a)
    return out


class Client:
    def __init__(self, port):
        self.s = socket.create_connection(('127.0.0.1', port), timeout=5)
        self.buf = b''

    def raw(self, data):
        self.s.sendall(data)

    def send(self, *args):
        self.s.sendall(enc(*args))

    def _fill(self, timeout):
        self.s.settimeout(timeout)
        d = self.s.recv(65536)
        if not d:
            raise EOFError
        self.buf += d

    def _line(self, timeout):
        while b'\r\n' not in self.buf:
            self._fill(timeout)
        line, self.buf = self.buf.split(b'\r\n', 1)
        return line

    def read(self, timeout=5):
        line = self._line(timeout)
        t, r = line[:1], line[1:]
        if t == b'+':
            return '+' + r.decode()
        if t == b'-':
            return '-' + r.decode()
        if t == b':':
            return int(r)
        if t == b'$':
            n = int(r)
            if n < 0:
                return None
            while len(self.buf) < n + 2:
                self._fill(timeout)
            v, self.buf = self.buf[:n], self.buf[n + 2:]
            return v
        if t == b'*':
            n = int(r)
            if n < 0:
                return None
            return [self.read(timeout) for _ in range(n)]
        raise ValueError(line)

    def cmd(self, *args, timeout=5):
        self.send(*args)
        return self.read(timeout)

    def drain(self, timeout=0.5):
        """everything that still arrives: frames, then 'EOF' if the server closed"""
        out = []
        while True:
            try:
                out.append(self.read(timeout))
            except socket.timeout:
                return out
            except EOFError:
                out.append('EOF')
                return out
            except ConnectionResetError:
                out.append('RST')
                return out

    def close(self):
        try:
            self.s.close()
        except OSError:
            pass


def is_msg(x):
    return isinstance(x, list) and x and x[0] in (b'message', b'pmessage')


def scenario_kill_in_exec():
    """K: MULTI / CLIENT KILL ID <S> / PUBLISH a m / EXEC   (S subscribed to a and to pattern a*)"""
    sv = Server()
    try:
        S, K = Client(sv.port), Client(sv.port)
        sid = S.cmd('CLIENT', 'ID')
        print('  S: SUBSCRIBE a ->', S.cmd('SUBSCRIBE', 'a'), ' PSUBSCRIBE a* ->', S.cmd('PSUBSCRIBE', 'a*'))
        K.cmd('MULTI')
        K.cmd('CLIENT', 'KILL', 'ID', str(sid))
        K.cmd('PUBLISH', 'a', 'after-kill')
        r = K.cmd('EXEC')
        got = S.drain()
        print('  K: EXEC ->', r, '   (Redis: [1, 0])')
        print('  S then received:', got, '   (Redis: only EOF)')
        later = K.cmd('PUBLISH', 'a', 'later')
        print('  K: PUBLISH a later ->', later)
        return r[1] != 0 or any(is_msg(x) for x in got)
    finally:
        sv.stop()


def scenario_kill_pipelined():
    """K sends CLIENT KILL ID <S> and PUBLISH a m in one TCP segment (plain pipeline, no MULTI)"""
    sv = Server()
    try:
        S, K = Client(sv.port), Client(sv.port)
        sid = S.cmd('CLIENT', 'ID')
        print('  S: SUBSCRIBE a ->', S.cmd('SUBSCRIBE', 'a'))
        K.raw(enc('CLIENT', 'KILL', 'ID', str(sid)) + enc('PUBLISH', 'a', 'after-kill'))
        r = [K.read(), K.read()]
        got = S.drain()
        print('  K: replies ->', r, '   (Redis: [1, 0])')
        print('  S then received:', got, '   (Redis: only EOF)')
        return r[1] != 0 or any(is_msg(x) for x in got)
    finally:
        sv.stop()


def scenario_quit(kind):
    """S ends its own connection (QUIT, or a malformed frame); P's PUBLISH is handled in the same loop iteration,
    after S's command (X's SLEEP stalls the loop so that both are waiting when it resumes; S has the lower id
    and a fresh server visits the connections in id order)"""
    sv = Server()
    try:
        X, S, P = Client(sv.port), Client(sv.port), Client(sv.port)
        ids = [c.cmd('CLIENT', 'ID') for c in (X, S, P)]
        print('  S: SUBSCRIBE a ->', S.cmd('SUBSCRIBE', 'a'), ' connection ids X,S,P =', ids)
        X.send('SLEEP', '500')
        time.sleep(0.15)
        if kind == 'QUIT':
            S.send('QUIT')
        else:
            S.raw(b'*1\r\n$x\r\n')
        time.sleep(0.1)
        P.send('PUBLISH', 'a', 'after-' + kind)
        X.read()
        n = P.read()
        got = S.drain()
        print('  P: PUBLISH ->', n)
        print('  S received:', got, '   (Redis: the reply to %s, then EOF and nothing else)' % kind)
        # violated when a message frame follows the final reply of the connection
        return len(got) >= 2 and isinstance(got[0], str) and any(is_msg(x) for x in got[1:])
    finally:
        sv.stop()


def scenario_kill_lagging():
    """No pipelining at all: S lags behind (12 MB of messages it has not read yet), K kills it, and ONE SECOND LATER
    publishes again with a separate command"""
    sv = Server()
    try:
        S, K = Client(sv.port), Client(sv.port)
        sid = S.cmd('CLIENT', 'ID')
        print('  S: SUBSCRIBE a ->', S.cmd('SUBSCRIBE', 'a'))
        big = b'z' * 1000000
        for _ in range(12):
            K.cmd('PUBLISH', 'a', big)
        print('  K: CLIENT KILL ID ->', K.cmd('CLIENT', 'KILL', 'ID', str(sid)))
        time.sleep(1.0)
        n = K.cmd('PUBLISH', 'a', 'one-second-after-kill')
        print('  K: (1 s later) PUBLISH a one-second-after-kill ->', n, '   (Redis: 0)')
        time.sleep(0.3)
        got = S.drain(2)
        short = [x if not is_msg(x) else [x[0], x[1], x[2][:24]] for x in got]
        print('  S, reading its socket now, received %d frames; the last ones:' % len(got), short[-3:])
        return n != 0 or any(is_msg(x) and x[2] == b'one-second-after-kill' for x in got)
    finally:
        sv.stop()


bad = 0
for name, fn in (('CLIENT KILL + PUBLISH inside MULTI/EXEC', scenario_kill_in_exec),
                 ('CLIENT KILL + PUBLISH pipelined', scenario_kill_pipelined),
                 ('CLIENT KILL of a lagging subscriber, PUBLISH one second later', scenario_kill_lagging),
                 ('QUIT, then PUBLISH in the same loop iteration', lambda: scenario_quit('QUIT')),
                 ('protocol error, then PUBLISH in the same loop iteration', lambda: scenario_quit('protocol-error'))):
    print(name)
    v = fn()
    print('  ->', 'VIOLATED' if v else 'holds')
    bad += v
print('RESULT:', 'property violated in %d scenario(s)' % bad if bad else 'property holds')
sys.exit(1 if bad else 0)
