#!/usr/bin/env python3
"""C17 d2: `requirepass "s3cret"` in the config file (the form used in redis.conf examples; Redis strips
the quotes, the password is s3cret): ferrous keeps the quote characters as part of the password, so the
exact password is refused and a different string ("s3cret" WITH the quotes) authenticates.
exit 1 = property violated, 0 = holds."""
import os, shutil, socket, subprocess, sys, tempfile, time

BIN = sys.argv[1] if len(sys.argv) > 1 else "/tmp/hunt-C17/target/debug/ferrous"

def free_port():
    s = socket.socket(); s.bind(("127.0.0.1", 0)); p = s.getsockname()[1]; s.close(); return p

def enc(*args):
    out = b"*%d\r\n" % len(args)
    for a in args:
        if isinstance(a, str): a = a.encode()
        out += b"$%d\r\n%s\r\n" % (len(a), a)
    return out

def talk(port, *cmds):
    s = socket.create_connection(("127.0.0.1", port), timeout=3)
    out = []
    for c in cmds:
        s.sendall(enc(*c)); s.settimeout(0.5); data = b""
        try:
            while not data.endswith(b"\r\n"):
                d = s.recv(65536)
                if not d: break
                data += d
        except socket.timeout: pass
        out.append(data)
    s.close(); return out

def run_case(conf_bytes, exact, literal):
    d = tempfile.mkdtemp(prefix="huntC17-d2-")
    port = free_port()
    conf = os.path.join(d, "ferrous.conf")
    with open(conf, "wb") as f: f.write(conf_bytes)
    log = open(os.path.join(d, "log.txt"), "wb")
    p = subprocess.Popen([BIN, conf, "--port", str(port), "--dir", d], stdout=log, stderr=subprocess.STDOUT, cwd=d)
    try:
        up = False
        for _ in range(100):
            if p.poll() is not None: break
            try: socket.create_connection(("127.0.0.1", port), timeout=1).close(); up = True; break
            except OSError: time.sleep(0.05)
        print("== config file = %r   (password by Redis rules: %r)" % (conf_bytes, exact))
        if not up:
            print("   server refused to start: nothing to test"); return False
        a = talk(port, ("AUTH", exact), ("SET", "k", "v"))
        b = talk(port, ("AUTH", literal), ("SET", "k", "v"))
        print("   AUTH %-12r -> %r, then SET -> %r" % (exact, a[0], a[1]))
        print("   AUTH %-12r -> %r, then SET -> %r" % (literal, b[0], b[1]))
        v = False
        if a[0] != b"+OK\r\n":
            print("   VIOLATION: the exact password does not authenticate"); v = True
        if b[0] == b"+OK\r\n" and literal != exact:
            print("   VIOLATION: a string that is not the password authenticates (and may write)"); v = True
        return v
    finally:
        try: p.kill(); p.wait(5)
        except Exception: pass
        log.close(); shutil.rmtree(d, ignore_errors=True)

bad = 0
bad += run_case(b'requirepass "s3cret"\n', b"s3cret", b'"s3cret"')
bad += run_case(b"requirepass 's3cret'\n", b"s3cret", b"'s3cret'")
bad += run_case(b'requirepass "two words"\n', b"two words", b'"two words"')
bad += run_case(b'requirepass s3cret\n', b"s3cret", b"s3cret")  # control
print("RESULT:", "property VIOLATED in %d case(s)" % bad if bad else "property holds")
sys.exit(1 if bad else 0)
