#!/usr/bin/env python3
"""C17 d1: a requirepass directive that real Redis accepts (TAB as separator, quoted password
containing a blank) - or one behind a UTF-8 BOM - is silently dropped by the config parser:
the server starts WITHOUT authentication and any client reads and writes.
exit 1 = property violated, 0 = holds."""
import os, shutil, socket, subprocess, sys, tempfile, time

BIN = sys.argv[1] if len(sys.argv) > 1 else "/tmp/hunt-C17/target/debug/ferrous"

def free_port():
    s = socket.socket(); s.bind(("127.0.0.1", 0)); p = s.getsockname()[1]; s.close(); return p

def enc(*args):
    out = b"*%d\r\n" % len(args)
    for a in args:
        if isinstance(a, str): a = a.encode()
        out += b"$%d\r\n%s\r\n" % (len(a), a)
    return out

def talk(port, *args):
    s = socket.create_connection(("127.0.0.1", port), timeout=3)
    s.sendall(enc(*args)); s.settimeout(0.5); data = b""
    try:
        while not data.endswith(b"\r\n"):
            d = s.recv(65536)
            if not d: break
            data += d
    except socket.timeout: pass
    s.close(); return data

def run_case(name, conf_bytes):
    d = tempfile.mkdtemp(prefix="huntC17-d1-")
    port = free_port()
    conf = os.path.join(d, "ferrous.conf")
    with open(conf, "wb") as f: f.write(conf_bytes)
    log = open(os.path.join(d, "log.txt"), "wb")
    p = subprocess.Popen([BIN, conf, "--port", str(port), "--dir", d], stdout=log, stderr=subprocess.STDOUT, cwd=d)
    violated = False
    try:
        up = False
        for _ in range(100):
            if p.poll() is not None: break
            try: socket.create_connection(("127.0.0.1", port), timeout=1).close(); up = True; break
            except OSError: time.sleep(0.05)
        print("== case %s: config file = %r" % (name, conf_bytes))
        if not up:
            print("   server refused to start (fail-closed): property holds for this case")
            return False
        log.flush()
        out = open(os.path.join(d, "log.txt"), "rb").read().decode("utf-8", "replace")
        for line in out.splitlines():
            if "Warning" in line or "Authentication enabled" in line: print("   server log:", line)
        r1 = talk(port, "SET", "k", "written-without-password")
        r2 = talk(port, "GET", "k")
        r3 = talk(port, "AUTH", "open sesame")
        print("   unauthenticated SET k ... ->", r1)
        print("   unauthenticated GET k     ->", r2)
        print("   AUTH 'open sesame'        ->", r3)
        if not r1.startswith(b"-NOAUTH") or not r2.startswith(b"-NOAUTH"):
            print("   VIOLATION: requirepass is in the config file, yet an unauthenticated connection wrote and read")
            violated = True
        return violated
    finally:
        try: p.kill(); p.wait(5)
        except Exception: pass
        log.close(); shutil.rmtree(d, ignore_errors=True)

cases = [
    # accepted by real Redis: any blank separates directive and argument, quotes delimit an argument with blanks
    ("TAB separator + quoted password with a blank", b'requirepass\t"open sesame"\n'),
    # real Redis refuses to start on this file ("Bad directive"); ferrous starts open
    ("UTF-8 BOM in front of the directive", b'\xef\xbb\xbfrequirepass open-sesame\n'),
    # control: the same directive with a plain blank is honoured
    ("control: plain blank", b'requirepass open-sesame\n'),
]
bad = 0
for name, conf in cases:
    if run_case(name, conf): bad += 1
print("RESULT:", "property VIOLATED in %d case(s)" % bad if bad else "property holds")
sys.exit(1 if bad else 0)
