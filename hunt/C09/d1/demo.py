#!/usr/bin/env python3
"""SAVE races with the automatic background save: both write the same dump.tmp.

SAVE only tests `bgsave_in_progress` when it STARTS; it does not hold the flag while it runs.
The auto-save monitor thread (storage/monitor.rs, wakes up once a second) can therefore start a
background save in the middle of a SAVE.  The background save opens dump.tmp with O_TRUNC - the
very file SAVE is writing - and rewrites it from offset 0 while SAVE keeps writing at its own
offset.  SAVE finishes first, renames the file to dump.rdb and answers +OK although the first
part of the file is still a hole of zero bytes that the background thread is busy filling in.
A restart right after the +OK loads a corrupt dump: most of the dataset is gone.

The demo uses a config file with one line `save 1 1` (auto-save after 1 s / 1 change) so that it
needs seconds instead of a minute; with the built-in default rules (60 s / 10000 changes) the same
thing happens to a SAVE that is running when the 60 s rule fires.
exit 1 = property violated, 0 = holds.
"""
import os, shutil, signal, socket, subprocess, sys, tempfile, time

BIN = sys.argv[1] if len(sys.argv) > 1 else '/tmp/hunt-C09/target/debug/ferrous'
NKEYS = 300000
ROUNDS = 6

def free_port():
    s = socket.socket(); s.bind(('127.0.0.1', 0)); p = s.getsockname()[1]; s.close(); return p

class Conn:
    def __init__(self, port):
        self.s = socket.create_connection(('127.0.0.1', port), timeout=120); self.f = self.s.makefile('rb')
    def send(self, *args):
        out = b'*%d\r\n' % len(args)
        for a in args:
            if not isinstance(a, bytes): a = str(a).encode()
            out += b'$%d\r\n%s\r\n' % (len(a), a)
        self.s.sendall(out)
    def read(self):
        l = self.f.readline()
        if not l: raise EOFError('connection closed')
        t, r = l[:1], l[1:-2]
        if t == b'+': return r.decode()
        if t == b'-': return 'ERROR ' + r.decode()
        if t == b':': return int(r)
        if t == b'$':
            n = int(r)
            return None if n < 0 else self.f.read(n + 2)[:-2]
        if t == b'*':
            n = int(r)
            return None if n < 0 else [self.read() for _ in range(n)]
        raise Exception('bad reply %r' % l)
    def cmd(self, *a): self.send(*a); return self.read()

d = tempfile.mkdtemp(prefix='hunt-C09-d1-')
conf = os.path.join(d, 'ferrous.conf')
open(conf, 'w').write('save 1 1\n')
logp = os.path.join(d, 'server.log')
proc = None

def start():
    global proc
    port = free_port()
    proc = subprocess.Popen([BIN, conf, '--port', str(port), '--dir', d], stdout=open(logp, 'ab'), stderr=subprocess.STDOUT, cwd=d)
    for _ in range(600):
        try:
            c = Conn(port); c.cmd('PING'); return c
        except (OSError, EOFError): time.sleep(0.05)
    raise Exception('server did not start')

def stop():
    global proc
    if proc is not None:
        proc.kill(); proc.wait(); proc = None

def log(): return open(logp, 'rb').read().decode('utf-8', 'replace')

def wait_log(needle, count, timeout):
    """wait until `needle` occurs more than `count` times in the log; return the time it was seen"""
    end = time.time() + timeout
    while time.time() < end:
        if log().count(needle) > count: return time.time()
        time.sleep(0.003)
    return None

def bgsave_idle():
    l = log()
    return l.count('RDB: Background saving started') == l.count('Background saving terminated') + l.count('Background saving error')

rc = 0
try:
    c = start()
    print('populating %d keys ...' % NKEYS)
    B = 10000
    for i in range(0, NKEYS, B):
        c.s.sendall(b''.join(b'*3\r\n$3\r\nSET\r\n$9\r\nk%08d\r\n$8\r\nv%07d\r\n' % (j, j) for j in range(i, i + B)))
        for _ in range(B): c.read()
    # calibration: how long does a SAVE take (also resets the change counter)
    T = None
    for _ in range(100):
        t = time.time(); r = c.cmd('SAVE'); dt = time.time() - t
        if r == 'OK': T = dt; break
        time.sleep(0.2)
    assert T is not None, 'no SAVE succeeded'
    print('a quiet SAVE takes %.2f s' % T)

    for rnd in range(1, ROUNDS + 1):
        # find the phase of the monitor's 1 s tick: one write, then wait for the auto-save it triggers
        n = log().count('Auto-save:')
        c.cmd('SET', 'probe', rnd)
        t0 = wait_log('Auto-save:', n, 5)
        assert t0, 'auto-save did not fire'
        while not bgsave_idle(): time.sleep(0.01)
        before = c.cmd('DBSIZE') + (1 - c.cmd('EXISTS', 'x'))   # number of keys the dump must hold (incl. x)
        # no change is pending now, so the next ticks do nothing. Start SAVE so that a tick falls at ~70 % of it.
        lag = 0.7 * T
        k = 1
        while t0 + k * 1.0005 - lag < time.time() + 0.3: k += 1
        start_at = t0 + k * 1.0005 - lag
        while time.time() < start_at: time.sleep(0.0005)
        n_auto = log().count('Auto-save:')
        c.send('SET', 'x', rnd); c.send('SAVE')          # the SET is the pending change the tick needs
        c.read(); r = c.read()
        pid = proc.pid
        if r == 'OK':
            os.kill(pid, signal.SIGKILL)                   # "restart": stop the server as soon as SAVE has answered OK
        overlapped = log().count('Auto-save:') > n_auto
        print('round %d: SAVE -> %s; auto-save started during this SAVE: %s; keys at SAVE time = %s' % (rnd, r, overlapped, before))
        if r != 'OK':
            time.sleep(0.5); continue
        stop()
        size = os.path.getsize(os.path.join(d, 'dump.rdb'))
        head = open(os.path.join(d, 'dump.rdb'), 'rb').read(16)
        print('         dump.rdb after the kill: %d bytes, first bytes %r' % (size, head))
        nlog = len(log())
        c = start()
        after = c.cmd('DBSIZE')
        sample = [c.cmd('GET', b'k%08d' % j) for j in (0, 1, NKEYS // 2, NKEYS - 1)]
        print('         after the restart: DBSIZE = %s, sample GETs = %r' % (after, sample))
        for line in log()[nlog:].splitlines():
            if 'RDB' in line: print('         server log: ' + line)
        if after != before:
            print('VIOLATION: SAVE answered OK, yet the restart lost %d of %d keys' % (before - after, before))
            rc = 1
            break
        print('         dataset intact this time, trying again')
    if rc == 0: print('no violation seen')
finally:
    stop()
    shutil.rmtree(d, ignore_errors=True)
sys.exit(rc)
