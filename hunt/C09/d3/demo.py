#!/usr/bin/env python3
"""A stream does not come back as it was saved: only its live entries are written. The stream's
last generated ID and its consumer groups (last-delivered ID, consumers, pending entries) are lost.
exit 1 = property violated, 0 = holds."""
import os, shutil, socket, subprocess, sys, tempfile, time

BIN = sys.argv[1] if len(sys.argv) > 1 else '/tmp/hunt-C09/target/debug/ferrous'

def free_port():
    s = socket.socket(); s.bind(('127.0.0.1', 0)); p = s.getsockname()[1]; s.close(); return p

class Conn:
    def __init__(self, port):
        self.s = socket.create_connection(('127.0.0.1', port), timeout=30); self.f = self.s.makefile('rb')
    def send(self, *args):
        out = b'*%d\r\n' % len(args)
        for a in args:
            if not isinstance(a, bytes): a = str(a).encode()
            out += b'$%d\r\n%s\r\n' % (len(a), a)
        self.s.sendall(out)
    def read(self):
        l = self.f.readline()
        if not l: raise EOFError('connection closed')
        t, r = l[:1], l[1:-2]
        if t == b'+': return r.decode()
        if t == b'-': return 'ERROR ' + r.decode()
        if t == b':': return int(r)
        if t == b'$':
            n = int(r)
            return None if n < 0 else self.f.read(n + 2)[:-2]
        if t == b'*':
            n = int(r)
            return None if n < 0 else [self.read() for _ in range(n)]
        raise Exception('bad reply %r' % l)
    def cmd(self, *a): self.send(*a); return self.read()

class Server:
    def __init__(self):
        self.d = tempfile.mkdtemp(prefix='hunt-C09-demo-'); self.proc = None
    def start(self):
        port = free_port()
        self.proc = subprocess.Popen([BIN, '--port', str(port), '--dir', self.d], stdout=open(os.path.join(self.d, 'server.log'), 'ab'), stderr=subprocess.STDOUT, cwd=self.d)
        for _ in range(400):
            try:
                c = Conn(port); c.cmd('PING'); return c
            except (OSError, EOFError): time.sleep(0.05)
        raise Exception('server did not start')
    def stop(self):
        if self.proc is not None:
            self.proc.kill(); self.proc.wait(); self.proc = None
    def cleanup(self):
        self.stop(); shutil.rmtree(self.d, ignore_errors=True)

srv = Server(); rc = 0
def probe(c, tag):
    """observations that do not change the dataset"""
    o = {}
    o['XRANGE s'] = c.cmd('XRANGE', 's', '-', '+')
    o['XINFO GROUPS s'] = c.cmd('XINFO', 'GROUPS', 's')
    o['XPENDING s g'] = c.cmd('XPENDING', 's', 'g')
    o['XINFO GROUPS e'] = c.cmd('XINFO', 'GROUPS', 'e')
    # MULTI/DISCARD-free probes of the top ID: an XADD at the former top ID must be refused
    print(tag)
    for k, v in o.items(): print('   %-16s -> %r' % (k, v))
    return o
try:
    c = srv.start()
    print('XADD s 5-0 / 6-0 / 7-0 ->', c.cmd('XADD', 's', '5-0', 'a', '1'), c.cmd('XADD', 's', '6-0', 'a', '2'), c.cmd('XADD', 's', '7-0', 'a', '3'))
    print('XGROUP CREATE s g 0    ->', c.cmd('XGROUP', 'CREATE', 's', 'g', '0'))
    print('XREADGROUP g c1 COUNT 1 ->', c.cmd('XREADGROUP', 'GROUP', 'g', 'c1', 'COUNT', '1', 'STREAMS', 's', '>'))
    print('XDEL s 7-0             ->', c.cmd('XDEL', 's', '7-0'), ' (top ID of s stays 7-0)')
    print('XGROUP CREATE e g $ MKSTREAM ->', c.cmd('XGROUP', 'CREATE', 'e', 'g', '$', 'MKSTREAM'))
    print('XADD s 7-0 (must be refused, 7-0 was used) ->', c.cmd('XADD', 's', '7-0', 'again', 'x'))
    before = probe(c, 'before SAVE:')
    print('SAVE ->', c.cmd('SAVE'))
    srv.stop(); c = srv.start()
    after = probe(c, 'after the restart:')
    for k in before:
        if before[k] != after[k]:
            print('DIFFERENT: %s' % k); rc = 1
    r = c.cmd('XREADGROUP', 'GROUP', 'g', 'c1', 'COUNT', '1', 'STREAMS', 's', '>')
    print('XREADGROUP g c1 after the restart ->', r, ' (expected: the next undelivered entry 6-0)')
    if r != [[b's', [[b'6-0', [b'a', b'2']]]]]: rc = 1
    r = c.cmd('XADD', 's', '7-0', 'again', 'x')
    print('XADD s 7-0 after the restart ->', r, ' (expected: refused, as before the restart)')
    if not (isinstance(r, str) and r.startswith('ERROR')): rc = 1
    print('VIOLATION: the stream state did not survive SAVE + restart' if rc else 'property holds')
finally:
    srv.cleanup()
sys.exit(rc)
