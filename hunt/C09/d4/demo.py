#!/usr/bin/env python3
"""A TTL deadline creeps 1 ms later with EVERY SAVE + restart cycle (it never settles).
The dump holds the deadline in whole unix milliseconds. A server that loaded deadline X from its dump
and is asked to SAVE again - no command touched the key - writes X+1; after the next restart X+2; ...
exit 1 = property violated, 0 = holds."""
import os, shutil, socket, subprocess, sys, tempfile, time

BIN = sys.argv[1] if len(sys.argv) > 1 else '/tmp/hunt-C09/target/debug/ferrous'

def free_port():
    s = socket.socket(); s.bind(('127.0.0.1', 0)); p = s.getsockname()[1]; s.close(); return p

class Conn:
    def __init__(self, port):
        self.s = socket.create_connection(('127.0.0.1', port), timeout=30); self.f = self.s.makefile('rb')
    def send(self, *args):
        out = b'*%d\r\n' % len(args)
        for a in args:
            if not isinstance(a, bytes): a = str(a).encode()
            out += b'$%d\r\n%s\r\n' % (len(a), a)
        self.s.sendall(out)
    def read(self):
        l = self.f.readline()
        if not l: raise EOFError('connection closed')
        t, r = l[:1], l[1:-2]
        if t == b'+': return r.decode()
        if t == b'-': return 'ERROR ' + r.decode()
        if t == b':': return int(r)
        if t == b'$':
            n = int(r)
            return None if n < 0 else self.f.read(n + 2)[:-2]
        if t == b'*':
            n = int(r)
            return None if n < 0 else [self.read() for _ in range(n)]
        raise Exception('bad reply %r' % l)
    def cmd(self, *a): self.send(*a); return self.read()

class Server:
    def __init__(self):
        self.d = tempfile.mkdtemp(prefix='hunt-C09-demo-'); self.proc = None
    def start(self):
        port = free_port()
        self.proc = subprocess.Popen([BIN, '--port', str(port), '--dir', self.d], stdout=open(os.path.join(self.d, 'server.log'), 'ab'), stderr=subprocess.STDOUT, cwd=self.d)
        for _ in range(400):
            try:
                c = Conn(port); c.cmd('PING'); return c
            except (OSError, EOFError): time.sleep(0.05)
        raise Exception('server did not start')
    def stop(self):
        if self.proc is not None:
            self.proc.kill(); self.proc.wait(); self.proc = None
    def cleanup(self):
        self.stop(); shutil.rmtree(self.d, ignore_errors=True)

import struct
CYCLES = 10

def dump_deadline(path):
    """deadline (unix ms) of the single key in the dump file"""
    b = open(path, 'rb').read()
    assert b[:5] == b'REDIS'
    i = 9
    def rdlen(i):
        f = b[i]
        if f >> 6 == 0: return f, i + 1
        if f >> 6 == 1: return ((f & 0x3f) << 8) | b[i + 1], i + 2
        return struct.unpack('>I', b[i + 1:i + 5])[0], i + 5
    while True:
        op = b[i]; i += 1
        if op == 0xFA:
            for _ in range(2):
                n, i = rdlen(i); i += n
        elif op == 0xFE: _, i = rdlen(i)
        elif op == 0xFB:
            _, i = rdlen(i); _, i = rdlen(i)
        elif op == 0xFC: return struct.unpack('<Q', b[i:i + 8])[0]
        else: raise Exception('unexpected opcode %#x' % op)

def mem_deadline(c):
    """deadline as the running server reports it: PTTL truncates, so the maximum of wall clock + PTTL over many samples"""
    best = 0
    for _ in range(300):
        t1 = time.time(); p = c.cmd('PTTL', 'k'); t2 = time.time()
        best = max(best, p + (t1 + t2) / 2 * 1000)
    return best

srv = Server(); rc = 0
try:
    c = srv.start()
    print('SET k v PX 100000000 ->', c.cmd('SET', 'k', 'v', 'PX', 100000000))
    m0 = mem_deadline(c)
    files = []
    for i in range(1, CYCLES + 1):
        assert c.cmd('SAVE') == 'OK'
        files.append(dump_deadline(os.path.join(srv.d, 'dump.rdb')))
        srv.stop(); c = srv.start()
        print('cycle %2d: deadline in dump.rdb = %d (%+d vs first dump) | deadline in memory after the restart: %+.1f ms vs original' % (i, files[-1], files[-1] - files[0], mem_deadline(c) - m0))
    drift = files[-1] - files[0]
    print('the dump of cycle 1 says %d, the dump of cycle %d says %d: drift %d ms over %d reload+SAVE rounds in which no command touched the key' % (files[0], CYCLES, files[-1], drift, CYCLES - 1))
    if drift != 0:
        print('VIOLATION: a deadline that was loaded as a whole millisecond is not written back unchanged')
        rc = 1
    else:
        print('property holds')
finally:
    srv.cleanup()
sys.exit(rc)
