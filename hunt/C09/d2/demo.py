#!/usr/bin/env python3
"""SAVE called from a Lua script answers OK but writes no dump: the restart loses the dataset.
exit 1 = property violated, 0 = holds."""
import os, shutil, socket, subprocess, sys, tempfile, time

BIN = sys.argv[1] if len(sys.argv) > 1 else '/tmp/hunt-C09/target/debug/ferrous'

def free_port():
    s = socket.socket(); s.bind(('127.0.0.1', 0)); p = s.getsockname()[1]; s.close(); return p

class Conn:
    def __init__(self, port):
        self.s = socket.create_connection(('127.0.0.1', port), timeout=30); self.f = self.s.makefile('rb')
    def send(self, *args):
        out = b'*%d\r\n' % len(args)
        for a in args:
            if not isinstance(a, bytes): a = str(a).encode()
            out += b'$%d\r\n%s\r\n' % (len(a), a)
        self.s.sendall(out)
    def read(self):
        l = self.f.readline()
        if not l: raise EOFError('connection closed')
        t, r = l[:1], l[1:-2]
        if t == b'+': return r.decode()
        if t == b'-': return 'ERROR ' + r.decode()
        if t == b':': return int(r)
        if t == b'$':
            n = int(r)
            return None if n < 0 else self.f.read(n + 2)[:-2]
        if t == b'*':
            n = int(r)
            return None if n < 0 else [self.read() for _ in range(n)]
        raise Exception('bad reply %r' % l)
    def cmd(self, *a): self.send(*a); return self.read()

class Server:
    def __init__(self):
        self.d = tempfile.mkdtemp(prefix='hunt-C09-demo-'); self.proc = None
    def start(self):
        port = free_port()
        self.proc = subprocess.Popen([BIN, '--port', str(port), '--dir', self.d], stdout=open(os.path.join(self.d, 'server.log'), 'ab'), stderr=subprocess.STDOUT, cwd=self.d)
        for _ in range(400):
            try:
                c = Conn(port); c.cmd('PING'); return c
            except (OSError, EOFError): time.sleep(0.05)
        raise Exception('server did not start')
    def stop(self):
        if self.proc is not None:
            self.proc.kill(); self.proc.wait(); self.proc = None
    def cleanup(self):
        self.stop(); shutil.rmtree(self.d, ignore_errors=True)

srv = Server(); rc = 0
try:
    c = srv.start()
    print('SET a 1            ->', c.cmd('SET', 'a', '1'))
    print('RPUSH l x y        ->', c.cmd('RPUSH', 'l', 'x', 'y'))
    r = c.cmd('EVAL', "return redis.call('SAVE')", 0)
    print("EVAL redis.call('SAVE') ->", r)
    dump = os.path.join(srv.d, 'dump.rdb')
    print('dump.rdb exists after the scripted SAVE:', os.path.exists(dump), '| LASTSAVE ->', c.cmd('LASTSAVE'))
    before = sorted(c.cmd('KEYS', '*'))
    srv.stop()
    c = srv.start()
    after = sorted(c.cmd('KEYS', '*'))
    print('keys before the restart:', before, '| keys after the restart:', after)
    accepted = r in ('OK', b'OK')
    if accepted and after != before:
        print('VIOLATION: the script was told the SAVE succeeded, yet nothing was saved (Redis refuses SAVE inside a script with an error)')
        rc = 1
    elif not accepted:
        print('SAVE was refused inside the script (as in Redis): no claim of a save, property holds')
    else:
        print('dataset restored: property holds')
    # control: the same SAVE sent directly
    c.cmd('SET', 'a', '1'); print('control, direct SAVE ->', c.cmd('SAVE'), '| dump.rdb exists:', os.path.exists(dump))
finally:
    srv.cleanup()
sys.exit(rc)
