#!/usr/bin/env python3
"""The deadline of a key does not survive SAVE + restart exactly: the snapshot code carries the TTL as a
relative duration and re-anchors it on a LATER clock reading, twice (after copying the value when saving,
after reading and re-inserting the whole value when loading).  For a big collection that takes seconds,
so after the restart the key outlives its deadline by seconds, while a small key that was given the very
same deadline expires on time."""
import os, shutil, socket, struct, subprocess, sys, tempfile, time

BIN = sys.argv[1] if len(sys.argv) > 1 else '/tmp/hunt-C02/target/debug/ferrous'
N = 150000          # members of the sorted set
BATCH = 5000
TOLERANCE = 0.25    # seconds of lateness that we forgive


def free_port():
    s = socket.socket(); s.bind(('127.0.0.1', 0)); p = s.getsockname()[1]; s.close(); return p


def enc(*args):
    out = b'*%d\r\n' % len(args)
    for a in args:
        if not isinstance(a, bytes): a = str(a).encode()
        out += b'$%d\r\n%s\r\n' % (len(a), a)
    return out


class C:
    def __init__(self, port):
        self.s = socket.create_connection(('127.0.0.1', port), timeout=300)
        self.s.setsockopt(socket.IPPROTO_TCP, socket.TCP_NODELAY, 1)
        self.buf = b''
    def _line(self):
        while b'\r\n' not in self.buf:
            d = self.s.recv(65536)
            if not d: raise EOFError
            self.buf += d
        l, self.buf = self.buf.split(b'\r\n', 1); return l
    def read(self):
        l = self._line(); t, r = l[:1], l[1:]
        if t in (b'+', b'-'): return r.decode()
        if t == b':': return int(r)
        if t == b'$':
            n = int(r)
            if n < 0: return None
            while len(self.buf) < n + 2: self.buf += self.s.recv(65536)
            v = self.buf[:n]; self.buf = self.buf[n + 2:]; return v
        if t == b'*':
            n = int(r); return None if n < 0 else [self.read() for _ in range(n)]
        raise ValueError(l)
    def cmd(self, *a):
        self.s.sendall(enc(*a)); return self.read()


def start(d):
    port = free_port()
    p = subprocess.Popen([BIN, '--port', str(port), '--dir', d], stdout=subprocess.DEVNULL, stderr=subprocess.DEVNULL, cwd=d)
    t0 = time.time()
    while True:
        try:
            c = C(port)
            if c.cmd('PING') == 'PONG': return p, c      # answered only once the dump has been loaded
        except (OSError, EOFError):
            if time.time() - t0 > 300: raise
            time.sleep(0.05)


def dump_expiry_ms(path, key):
    """expiry (unix ms) stored for `key` in the dump: 0xFC <u64 le> <type> <len> <key>"""
    data = open(path, 'rb').read()
    needle = bytes([len(key)]) + key
    i = data.find(needle)
    while i >= 0:
        if i >= 10 and data[i - 10] == 0xFC:
            return struct.unpack('<Q', data[i - 9:i - 1])[0]
        i = data.find(needle, i + 1)
    return None


def first_absent(c, key, earliest_deadline):
    """busy-polls EXISTS around the deadline; returns (time the first 0 was RECEIVED) - (earliest possible deadline), in ms"""
    time.sleep(max(0.0, earliest_deadline - 0.01 - time.time()))
    while True:
        r = c.cmd('EXISTS', key); t = time.time()
        if r == 0: return (t - earliest_deadline) * 1000.0


def part_b():
    """The same round trip also truncates to whole milliseconds twice when saving (now and TTL) and once when
    loading: a small key comes back with a deadline up to 2 ms EARLY.  The client notes its clock BEFORE sending
    SET k v PX 3000, so the true deadline cannot be earlier than that + 3 s; after SAVE + restart the key is
    reported absent in a reply RECEIVED before that instant."""
    print('--- part B: a small key across SAVE + restart (milliseconds) ---')
    early = 0
    d = tempfile.mkdtemp(prefix='huntC02-d1b-')
    srv, c = start(d)
    try:
        for i in range(4):
            tb = time.time(); c.cmd('SET', 'k', 'v', 'PX', 1500)
            print('  control, no restart : first "absent" reply received %+.3f ms relative to the earliest possible deadline' % first_absent(c, 'k', tb + 1.5))
    finally:
        srv.kill(); srv.wait(); shutil.rmtree(d, ignore_errors=True)
    for i in range(6):
        d = tempfile.mkdtemp(prefix='huntC02-d1b-')
        srv, c = start(d)
        try:
            tb = time.time(); c.cmd('SET', 'k', 'v', 'PX', 3000); c.cmd('SAVE')
        finally:
            srv.kill(); srv.wait()
        srv, c = start(d)
        try:
            off = first_absent(c, 'k', tb + 3.0)
            print('  SAVE + restart      : first "absent" reply received %+.3f ms relative to the earliest possible deadline%s'
                  % (off, '   <-- EARLY' if off < 0 else ''))
            if off < 0: early += 1
        finally:
            srv.kill(); srv.wait(); shutil.rmtree(d, ignore_errors=True)
    if early:
        print('VIOLATION: in %d of 6 restarts the key was already absent BEFORE its deadline' % early)
    return early > 0


def main():
    d = tempfile.mkdtemp(prefix='huntC02-d1-')
    violated = False
    srv, c = start(d)
    try:
        t = time.time()
        for base in range(0, N, BATCH):
            args = ['ZADD', 'bigz']
            for i in range(base, base + BATCH):
                args += [i, 'member-%08d' % i]
            c.cmd(*args)
        build = time.time() - t
        print('built sorted set bigz with %d members in %.1f s; ZCARD = %r' % (N, build, c.cmd('ZCARD', 'bigz')))
        c.cmd('SET', 'small', 'v')
        ttl = int(max(10.0, 1.2 * build + 6))            # seconds; leaves room for SAVE + restart + load
        # both keys get the same time-to-live in the same write: same deadline (to well under a millisecond)
        t_before = time.time()
        c.s.sendall(enc('EXPIRE', 'small', ttl) + enc('EXPIRE', 'bigz', ttl))
        r = (c.read(), c.read())
        t_after = time.time()
        deadline = t_after + ttl                          # the latest instant the true deadline can be
        print('EXPIRE small %d / EXPIRE bigz %d -> %r   (true deadline: unix time %.3f .. %.3f)' % (ttl, ttl, r, t_before + ttl, deadline))
        t = time.time(); r = c.cmd('SAVE'); print('SAVE -> %r (%.2f s)' % (r, time.time() - t))
        es, eb = dump_expiry_ms(os.path.join(d, 'dump.rdb'), b'small'), dump_expiry_ms(os.path.join(d, 'dump.rdb'), b'bigz')
        if es and eb:
            print('deadlines written to dump.rdb: small = %.3f, bigz = %.3f  -> bigz is already %+.3f s off in the file'
                  % (es / 1000.0, eb / 1000.0, (eb - es) / 1000.0))
    finally:
        srv.kill(); srv.wait()
    t = time.time()
    srv, c = start(d)
    try:
        print('--- server restarted on the same directory (dump loaded, %.2f s) ---' % (time.time() - t))
        c.s.sendall(enc('PTTL', 'small') + enc('PTTL', 'bigz'))
        ps, pb = c.read(), c.read(); now = time.time()
        print('PTTL small = %r, PTTL bigz = %r (asked in one write; true remaining time: %.0f ms) -> bigz is %+d ms off'
              % (ps, pb, (deadline - now) * 1000, pb - ps if isinstance(pb, int) and isinstance(ps, int) and pb >= 0 and ps >= 0 else 0))
        if now >= deadline:
            print('too slow a machine: the deadline passed during the restart; raise the TTL'); sys.exit(0)
        time.sleep(max(0.0, deadline + TOLERANCE - time.time()))
        c.s.sendall(enc('EXISTS', 'small') + enc('EXISTS', 'bigz') + enc('ZCARD', 'bigz') + enc('PTTL', 'bigz'))
        e_s, e_b, card, pttl = c.read(), c.read(), c.read(), c.read()
        print('%.2f s AFTER the deadline: EXISTS small = %r, EXISTS bigz = %r, ZCARD bigz = %r, PTTL bigz = %r'
              % (time.time() - deadline, e_s, e_b, card, pttl))
        if e_b == 1:
            violated = True
            while c.cmd('EXISTS', 'bigz') == 1 and time.time() < deadline + 120:
                time.sleep(0.02)
            print('VIOLATION: bigz stayed visible until %.2f s after its deadline' % (time.time() - deadline))
        if e_s == 1:
            violated = True
            print('VIOLATION: small still visible after its deadline')
    finally:
        srv.kill(); srv.wait()
        shutil.rmtree(d, ignore_errors=True)
    if part_b():
        violated = True
    print('RESULT:', 'property VIOLATED' if violated else 'no violation observed')
    sys.exit(1 if violated else 0)


main()
