#!/usr/bin/env python3
"""A multi-member ZADD whose execution straddles the key's deadline is applied half to the
expiring key and half to a brand-new immortal key (the deadline is re-tested per member)."""
import os, shutil, socket, subprocess, sys, tempfile, time

BIN = sys.argv[1] if len(sys.argv) > 1 else '/tmp/hunt-C02/target/debug/ferrous'
N = 30000  # score/member pairs in the one ZADD


def free_port():
    s = socket.socket(); s.bind(('127.0.0.1', 0)); p = s.getsockname()[1]; s.close(); return p


def enc(*args):
    out = b'*%d\r\n' % len(args)
    for a in args:
        if not isinstance(a, bytes): a = str(a).encode()
        out += b'$%d\r\n%s\r\n' % (len(a), a)
    return out


class C:
    def __init__(self, port):
        self.s = socket.create_connection(('127.0.0.1', port), timeout=120)
        self.s.setsockopt(socket.IPPROTO_TCP, socket.TCP_NODELAY, 1)
        self.buf = b''
    def _line(self):
        while b'\r\n' not in self.buf:
            d = self.s.recv(65536)
            if not d: raise EOFError
            self.buf += d
        l, self.buf = self.buf.split(b'\r\n', 1); return l
    def read(self):
        l = self._line(); t, r = l[:1], l[1:]
        if t in (b'+', b'-'): return r.decode()
        if t == b':': return int(r)
        if t == b'$':
            n = int(r)
            if n < 0: return None
            while len(self.buf) < n + 2: self.buf += self.s.recv(65536)
            v = self.buf[:n]; self.buf = self.buf[n + 2:]; return v
        if t == b'*':
            n = int(r); return None if n < 0 else [self.read() for _ in range(n)]
        raise ValueError(l)
    def cmd(self, *a):
        self.s.sendall(enc(*a)); return self.read()


def main():
    d = tempfile.mkdtemp(prefix='huntC02-d4-')
    port = free_port()
    srv = subprocess.Popen([BIN, '--port', str(port), '--dir', d], stdout=subprocess.DEVNULL, stderr=subprocess.DEVNULL, cwd=d)
    violated = False
    try:
        t0 = time.time()
        while True:
            try: socket.create_connection(('127.0.0.1', port), timeout=1).close(); break
            except OSError:
                if time.time() - t0 > 60: raise
                time.sleep(0.05)
        a, b = C(port), C(port)
        args = ['ZADD', 'z']
        for i in range(N):
            args += [i, 'm%06d' % i]
        payload = enc(*args)
        head, tail = payload[:-3], payload[-3:]

        # The server re-parses an incomplete frame from its start on every read of 8 KiB, so a big
        # frame costs seconds before it is complete.  To put the deadline inside the EXECUTION of the
        # ZADD (not inside that parsing), everything but the last 3 bytes is sent first; once the server
        # has swallowed it, PEXPIRE is issued on a second connection and then the last 3 bytes are sent.
        t = time.time(); a.s.sendall(payload); r = a.read(); full = time.time() - t
        print('calibration 1: whole ZADD of %d pairs sent at once: reply %r after %.2f s' % (N, r, full))
        settle = 2 * full + 2
        b.cmd('DEL', 'z')
        a.s.sendall(head); time.sleep(settle)
        t = time.time(); a.s.sendall(tail); r = a.read(); last = time.time() - t
        print('calibration 2: last 3 bytes -> reply %r after %.3f s (final parse pass + execution)' % (r, last))

        for frac in (0.5, 0.7, 0.35, 0.6, 0.8, 0.25):
            ttl = max(20, int(last * frac * 1000))
            b.cmd('DEL', 'z')
            b.cmd('ZADD', 'z', 0, 'seed')
            a.s.sendall(head); time.sleep(settle)
            r1 = b.cmd('PEXPIRE', 'z', ttl)
            t = time.time(); a.s.sendall(tail); r2 = a.read(); dt = time.time() - t
            time.sleep(max(0.0, ttl / 1000.0 - dt) + 0.05)   # we are past the deadline now
            card, pttl = b.cmd('ZCARD', 'z'), b.cmd('PTTL', 'z')
            print('PEXPIRE z %d -> %r ; ZADD z <%d pairs> -> %r after %.3f s ; afterwards ZCARD z = %r, PTTL z = %r'
                  % (ttl, r1, N, r2, dt, card, pttl))
            # An atomic ZADD ran either wholly before the deadline (all pairs went into the expiring key,
            # which is now gone: ZCARD 0) or wholly after it (a new key with all N pairs and no TTL).
            if card not in (0, N) or (card == N and pttl != -1) or r2 != N:
                print('VIOLATION: the ZADD answered %r new members, but the key now holds %r of them with PTTL %r: the first %d pairs'
                      ' were written into the old key and expired with it, the rest created a new key without TTL'
                      % (r2, card, pttl, N - card if isinstance(card, int) else -1))
                violated = True
                break
            print('  (deadline fell outside the execution window, trying another TTL)')
    finally:
        srv.kill(); srv.wait()
        shutil.rmtree(d, ignore_errors=True)
    print('RESULT:', 'property VIOLATED' if violated else 'no violation observed')
    sys.exit(1 if violated else 0)


main()
