#!/usr/bin/env python3
"""A very long (but accepted) time-to-live is converted to milliseconds with a wrapping cast:
PTTL reports garbage (a few hundred ms, or a negative number) and SAVE writes the wrapped
deadline into the snapshot, so after a restart the key is deleted within half a second."""
import shutil, socket, subprocess, sys, tempfile, time

BIN = sys.argv[1] if len(sys.argv) > 1 else '/tmp/hunt-C02/target/debug/ferrous'


def free_port():
    s = socket.socket(); s.bind(('127.0.0.1', 0)); p = s.getsockname()[1]; s.close(); return p


def enc(*args):
    out = b'*%d\r\n' % len(args)
    for a in args:
        if not isinstance(a, bytes): a = str(a).encode()
        out += b'$%d\r\n%s\r\n' % (len(a), a)
    return out


class C:
    def __init__(self, port):
        self.s = socket.create_connection(('127.0.0.1', port), timeout=20)
        self.buf = b''
    def _line(self):
        while b'\r\n' not in self.buf:
            d = self.s.recv(65536)
            if not d: raise EOFError
            self.buf += d
        l, self.buf = self.buf.split(b'\r\n', 1); return l
    def read(self):
        l = self._line(); t, r = l[:1], l[1:]
        if t in (b'+', b'-'): return r.decode()
        if t == b':': return int(r)
        if t == b'$':
            n = int(r)
            if n < 0: return None
            while len(self.buf) < n + 2: self.buf += self.s.recv(65536)
            v = self.buf[:n]; self.buf = self.buf[n + 2:]; return v
        if t == b'*':
            n = int(r); return None if n < 0 else [self.read() for _ in range(n)]
        raise ValueError(l)
    def cmd(self, *a):
        self.s.sendall(enc(*a)); return self.read()


def start(d):
    port = free_port()
    p = subprocess.Popen([BIN, '--port', str(port), '--dir', d], stdout=subprocess.DEVNULL, stderr=subprocess.DEVNULL, cwd=d)
    t0 = time.time()
    while True:
        try:
            c = C(port)
            if c.cmd('PING') == 'PONG': return p, c
        except (OSError, EOFError):
            if time.time() - t0 > 60: raise
            time.sleep(0.05)


# 18446744073709552 s * 1000 = 2^64 + 384  -> wraps to 384 ms          (584 million years)
# 9223372036854776  s * 1000 = 2^63 + 192  -> wraps to a negative i64   (292 million years)
WRAP_SMALL = 18446744073709552
WRAP_NEG = 9223372036854776


def main():
    d = tempfile.mkdtemp(prefix='huntC02-d2-')
    problems = []
    srv, c = start(d)
    try:
        for key, secs in (('far', WRAP_SMALL), ('neg', WRAP_NEG)):
            print('SET %s v ->' % key, c.cmd('SET', key, 'v'))
            r = c.cmd('EXPIRE', key, secs)
            print('EXPIRE %s %d -> %r   (Redis: ERR invalid expire time in \'expire\' command)' % (key, secs, r))
            ttl, pttl = c.cmd('TTL', key), c.cmd('PTTL', key)
            print('TTL %s -> %r ; PTTL %s -> %r' % (key, ttl, key, pttl))
            if r == 1 and isinstance(pttl, int) and isinstance(ttl, int) and not (ttl - 2) * 1000 <= pttl <= (ttl + 1) * 1000:
                problems.append('PTTL %s = %d although TTL %s = %d s' % (key, pttl, key, ttl))
        print('SET plain v ->', c.cmd('SET', 'plain', 'v'), '(control key without TTL)')
        # same thing through SET .. EX
        print('SET far2 v EX %d ->' % WRAP_SMALL, c.cmd('SET', 'far2', 'v', 'EX', WRAP_SMALL), '; PTTL far2 ->', c.cmd('PTTL', 'far2'))
        print('SAVE ->', c.cmd('SAVE'))
    finally:
        srv.kill(); srv.wait()
    srv, c = start(d)
    try:
        print('--- server restarted on the same directory ---')
        print('right after the restart: EXISTS far =', c.cmd('EXISTS', 'far'), ' PTTL far =', c.cmd('PTTL', 'far'),
              ' EXISTS far2 =', c.cmd('EXISTS', 'far2'), ' EXISTS neg =', c.cmd('EXISTS', 'neg'), ' EXISTS plain =', c.cmd('EXISTS', 'plain'))
        time.sleep(1.0)
        res = {k: c.cmd('GET', k) for k in ('far', 'far2', 'neg', 'plain')}
        print('one second later: ' + ' ; '.join('GET %s = %r' % kv for kv in res.items()))
        for k in ('far', 'far2'):
            if res[k] is None:
                problems.append('key %s (time-to-live of 584 million years) was deleted within a second of the restart' % k)
        if res['plain'] != b'v':
            problems.append('control key lost?!')
    finally:
        srv.kill(); srv.wait()
        shutil.rmtree(d, ignore_errors=True)
    for p in problems: print('VIOLATION:', p)
    print('RESULT:', 'property VIOLATED' if problems else 'no violation observed')
    sys.exit(1 if problems else 0)


main()
