#!/usr/bin/env python3
"""TTL called from a script (redis.call('TTL', k)) truncates the remaining time to whole seconds
instead of rounding it as the TTL command does: EXPIRE k 2 ; TTL k answers 1 inside a script."""
import shutil, socket, subprocess, sys, tempfile, time

BIN = sys.argv[1] if len(sys.argv) > 1 else '/tmp/hunt-C02/target/debug/ferrous'


def free_port():
    s = socket.socket(); s.bind(('127.0.0.1', 0)); p = s.getsockname()[1]; s.close(); return p


def enc(*args):
    out = b'*%d\r\n' % len(args)
    for a in args:
        if not isinstance(a, bytes): a = str(a).encode()
        out += b'$%d\r\n%s\r\n' % (len(a), a)
    return out


class C:
    def __init__(self, port):
        self.s = socket.create_connection(('127.0.0.1', port), timeout=20)
        self.buf = b''
    def _line(self):
        while b'\r\n' not in self.buf:
            d = self.s.recv(65536)
            if not d: raise EOFError
            self.buf += d
        l, self.buf = self.buf.split(b'\r\n', 1); return l
    def read(self):
        l = self._line(); t, r = l[:1], l[1:]
        if t in (b'+', b'-'): return r.decode()
        if t == b':': return int(r)
        if t == b'$':
            n = int(r)
            if n < 0: return None
            while len(self.buf) < n + 2: self.buf += self.s.recv(65536)
            v = self.buf[:n]; self.buf = self.buf[n + 2:]; return v
        if t == b'*':
            n = int(r); return None if n < 0 else [self.read() for _ in range(n)]
        raise ValueError(l)
    def cmd(self, *a):
        self.s.sendall(enc(*a)); return self.read()


SCRIPT = ("redis.call('SET', KEYS[1], 'v') "
          "redis.call('EXPIRE', KEYS[1], ARGV[1]) "
          "return {redis.call('TTL', KEYS[1]), redis.call('PTTL', KEYS[1])}")


def main():
    d = tempfile.mkdtemp(prefix='huntC02-d3-')
    port = free_port()
    srv = subprocess.Popen([BIN, '--port', str(port), '--dir', d], stdout=subprocess.DEVNULL, stderr=subprocess.DEVNULL, cwd=d)
    bad = 0
    try:
        t0 = time.time()
        while True:
            try: socket.create_connection(('127.0.0.1', port), timeout=1).close(); break
            except OSError:
                if time.time() - t0 > 60: raise
                time.sleep(0.05)
        c = C(port)
        for secs in (2, 3, 10, 100, 86400):
            for rep in range(3):
                ttl_s, pttl_s = c.cmd('EVAL', SCRIPT, 1, 'k', secs)      # TTL / PTTL seen by the script, microseconds after EXPIRE
                # the same two questions asked directly, in one write, right afterwards
                c.s.sendall(enc('TTL', 'k') + enc('PTTL', 'k'))
                ttl_d, pttl_d = c.read(), c.read()
                redis = (pttl_s + 500) // 1000                              # what Redis answers for that PTTL
                ok = ttl_s == redis
                print('EXPIRE k %-5d | in script: TTL=%r PTTL=%r | direct, right after: TTL=%r PTTL=%r | Redis rounds PTTL %r to TTL %r -> %s'
                      % (secs, ttl_s, pttl_s, ttl_d, pttl_d, pttl_s, redis, 'ok' if ok else 'WRONG'))
                if not ok: bad += 1
    finally:
        srv.kill(); srv.wait()
        shutil.rmtree(d, ignore_errors=True)
    if bad:
        print('VIOLATION: %d times TTL inside a script reported a whole second less than the remaining time '
              '(and than the TTL command issued directly microseconds later)' % bad)
    print('RESULT:', 'property VIOLATED' if bad else 'no violation observed')
    sys.exit(1 if bad else 0)


main()
