#!/usr/bin/env python3
"""The optional last argument of ZRANGE / ZREVRANGE / ZRANGEBYSCORE / ZREVRANGEBYSCORE is not validated (anything but WITHSCORES is silently dropped) and a NaN score bound is answered instead of refused.  exit 1: violated."""
import os, shutil, socket, subprocess, sys, tempfile, time
BIN = sys.argv[1] if len(sys.argv) > 1 else '/tmp/hunt-C04/target/debug/ferrous'
def free_port():
    s = socket.socket(); s.bind(('127.0.0.1', 0)); p = s.getsockname()[1]; s.close(); return p
class Conn:
    def __init__(self, port):
        self.s = socket.create_connection(('127.0.0.1', port), timeout=20); self.buf = b''
    def send(self, *args):
        out = [b'*%d\r\n' % len(args)]
        for a in args:
            if not isinstance(a, bytes): a = str(a).encode()
            out.append(b'$%d\r\n%s\r\n' % (len(a), a))
        self.s.sendall(b''.join(out))
    def _fill(self):
        d = self.s.recv(1 << 16)
        if not d: raise EOFError('server closed the connection')
        self.buf += d
    def _line(self):
        while b'\r\n' not in self.buf: self._fill()
        l, self.buf = self.buf.split(b'\r\n', 1); return l
    def read(self):
        l = self._line(); t, r = l[:1], l[1:]
        if t == b'+': return r.decode()
        if t == b'-': return 'ERR:' + r.decode()
        if t == b':': return int(r)
        if t == b'$':
            n = int(r)
            if n < 0: return None
            while len(self.buf) < n + 2: self._fill()
            v = self.buf[:n]; self.buf = self.buf[n + 2:]; return v
        if t == b'*':
            n = int(r); return 'NULL-ARRAY(*-1)' if n < 0 else [self.read() for _ in range(n)]
        raise ValueError(l)
    def cmd(self, *a):
        self.send(*a); return self.read()
def with_server(body):
    d = tempfile.mkdtemp(prefix='huntC04-d-'); port = free_port()
    p = subprocess.Popen([BIN, '--port', str(port), '--dir', d], stdout=subprocess.DEVNULL, stderr=subprocess.DEVNULL, cwd=d)
    try:
        for _ in range(200):
            try: socket.create_connection(('127.0.0.1', port), timeout=0.2).close(); break
            except OSError: time.sleep(0.05)
        bad = body(Conn(port))
    finally:
        p.kill(); p.wait(); shutil.rmtree(d, ignore_errors=True)
    print('RESULT:', 'property VIOLATED' if bad else 'property holds')
    sys.exit(1 if bad else 0)
def body(c):
    bad = 0
    c.cmd('ZADD', 'z', 1, 'a', 2, 'b', 3, 'c')
    asc = c.cmd('ZRANGE', 'z', 0, -1)
    def is_err(r): return isinstance(r, str) and r.startswith('ERR:')
    # Redis >= 6.2: ZRANGE z 0 -1 REV = [c b a]; older Redis: syntax error.  Never [a b c].
    r = c.cmd('ZRANGE', 'z', 0, -1, 'REV')
    ok = is_err(r) or r == asc[::-1]
    print('ZRANGE z 0 -1 REV ->', r, '(Redis: [c,b,a] or a syntax error)', 'ok' if ok else 'VIOLATION'); bad += not ok
    # Redis >= 6.2: BYSCORE with min 0 max -1 = []; older: syntax error
    r = c.cmd('ZRANGE', 'z', 0, -1, 'BYSCORE')
    ok = is_err(r) or r == []
    print('ZRANGE z 0 -1 BYSCORE ->', r, '(Redis: [] or a syntax error)', 'ok' if ok else 'VIOLATION'); bad += not ok
    for cmd in (['ZRANGE', 'z', 0, -1, 'WITHSCORE'], ['ZREVRANGE', 'z', 0, -1, 'junk'],
                ['ZRANGEBYSCORE', 'z', 1, 3, 'LIMIT'], ['ZREVRANGEBYSCORE', 'z', 3, 1, 'nonsense']):
        r = c.cmd(*cmd); ok = is_err(r)
        print(' '.join(map(str, cmd)), '->', r, '(Redis: ERR syntax error)', 'ok' if ok else 'VIOLATION'); bad += not ok
    # the same through a script
    r = c.cmd('EVAL', "return redis.call('ZRANGE','z',0,-1,'REV')", 0)
    ok = is_err(r) or r == asc[::-1]
    print("EVAL redis.call('ZRANGE','z',0,-1,'REV') ->", r, 'ok' if ok else 'VIOLATION'); bad += not ok
    # NaN bounds: Redis answers "ERR min or max is not a float"
    for cmd in (['ZCOUNT', 'z', 'nan', 2], ['ZCOUNT', 'z', 1, 'nan'], ['ZRANGEBYSCORE', 'z', 'nan', 'nan'], ['ZREVRANGEBYSCORE', 'z', 'nan', 1]):
        r = c.cmd(*cmd); ok = is_err(r)
        print(' '.join(map(str, cmd)), '->', r, '(Redis: ERR min or max is not a float)', 'ok' if ok else 'VIOLATION'); bad += not ok
    return bad
with_server(body)
