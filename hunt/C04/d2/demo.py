#!/usr/bin/env python3
"""A BGSAVE snapshot can hold a HALF-APPLIED multi-member ZADD.

ZADD applies its pairs one by one, taking and releasing the shard lock for every pair
(handle_zadd -> StorageEngine::zadd).  The background save thread copies the sorted set
under that same lock (get_with_ttl), so it can run between two pairs of ONE command: the
dump then holds a prefix of the members of a ZADD that answered "N added".  After a
restart from that dump the sorted set is in a state it never had between two commands
(in Redis a snapshot is the dataset at one instant between commands).

The demo grows the keyspace step by step so that the save thread reaches the key while
the ZADD is being applied, copies each finished dump into a second directory, starts a
second server on it and counts the members.  Legal counts: 1 (snapshot before the ZADD)
or N+1 (after it).   exit 1: property violated, exit 0: holds.
"""
import glob, os, shutil, socket, subprocess, sys, tempfile, time

BIN = sys.argv[1] if len(sys.argv) > 1 else '/tmp/hunt-C04/target/debug/ferrous'
N = 30000


def free_port():
    s = socket.socket(); s.bind(('127.0.0.1', 0)); p = s.getsockname()[1]; s.close(); return p


class Conn:
    def __init__(self, port):
        self.s = socket.create_connection(('127.0.0.1', port), timeout=120); self.buf = b''
    def send(self, *args):
        out = [b'*%d\r\n' % len(args)]
        for a in args:
            if not isinstance(a, bytes): a = str(a).encode()
            out.append(b'$%d\r\n%s\r\n' % (len(a), a))
        self.s.sendall(b''.join(out))
    def _fill(self):
        d = self.s.recv(1 << 16)
        if not d: raise EOFError('server closed the connection')
        self.buf += d
    def _line(self):
        while b'\r\n' not in self.buf: self._fill()
        l, self.buf = self.buf.split(b'\r\n', 1); return l
    def read(self):
        l = self._line(); t, r = l[:1], l[1:]
        if t == b'+': return r.decode()
        if t == b'-': return 'ERR:' + r.decode()
        if t == b':': return int(r)
        if t == b'$':
            n = int(r)
            if n < 0: return None
            while len(self.buf) < n + 2: self._fill()
            v = self.buf[:n]; self.buf = self.buf[n + 2:]; return v
        if t == b'*':
            n = int(r); return None if n < 0 else [self.read() for _ in range(n)]
        raise ValueError(l)
    def cmd(self, *a):
        self.send(*a); return self.read()


def start(d):
    port = free_port()
    p = subprocess.Popen([BIN, '--port', str(port), '--dir', d], stdout=subprocess.DEVNULL, stderr=subprocess.DEVNULL, cwd=d)
    for _ in range(400):
        try: socket.create_connection(('127.0.0.1', port), timeout=0.2).close(); break
        except OSError: time.sleep(0.05)
    return p, port


def main():
    d1 = tempfile.mkdtemp(prefix='huntC04-d2a-'); d2 = tempfile.mkdtemp(prefix='huntC04-d2b-')
    procs = []
    violated = False
    try:
        p, port = start(d1); procs.append(p)
        c = Conn(port)
        args = ['ZADD', 'z']
        for j in range(N): args += [j, 'm%06d' % j]
        filled = 0
        for fill in (5000, 10000, 20000, 30000, 40000, 60000, 80000):
            while filled < fill:
                kv = []
                for j in range(filled, filled + 500): kv += ['f%07d' % j, 'v']
                c.cmd('MSET', *kv); filled += 500
            c.cmd('DEL', 'z'); c.cmd('ZADD', 'z', -1, 'seed')
            before = c.cmd('LASTSAVE')
            c.cmd('MULTI'); c.cmd('BGSAVE'); c.cmd(*args)
            r = c.cmd('EXEC')
            live = c.cmd('ZCARD', 'z')
            for _ in range(300):            # wait for the background save to finish
                if b'rdb_bgsave_in_progress:0' in c.cmd('INFO'): break
                time.sleep(0.1)
            time.sleep(0.3)
            dumps = [f for f in glob.glob(os.path.join(d1, '*')) if os.path.isfile(f)]
            for f in glob.glob(os.path.join(d2, '*')): os.remove(f)
            for f in dumps: shutil.copy(f, d2)
            p2, port2 = start(d2); procs.append(p2)
            c2 = Conn(port2)
            card = c2.cmd('ZCARD', 'z'); lowest = c2.cmd('ZRANGE', 'z', 0, 1); size = c2.cmd('DBSIZE')
            p2.kill(); p2.wait()
            ok = card in (1, N + 1)
            print('%6d other keys: MULTI; BGSAVE; ZADD z <%d pairs>; EXEC -> %r, live ZCARD %r; server restarted from that dump: DBSIZE %r, ZCARD z = %r, lowest %r -> %s'
                  % (fill, N, r, live, size, card, lowest, 'ok' if ok else 'VIOLATION: a prefix of one ZADD'))
            if not ok:
                violated = True
                break
    finally:
        for p in procs:
            try: p.kill(); p.wait()
            except Exception: pass
        shutil.rmtree(d1, ignore_errors=True); shutil.rmtree(d2, ignore_errors=True)
    print('RESULT:', 'property VIOLATED' if violated else 'property holds (no trial hit the window)')
    sys.exit(1 if violated else 0)


main()
