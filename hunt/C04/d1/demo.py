#!/usr/bin/env python3
"""A multi-member ZADD is not atomic with respect to the key's deadline.

If the sorted set's time to live runs out WHILE one ZADD with many members is being
applied, the members applied before that instant are thrown away with the old key, the
members applied after it create a brand-new key WITHOUT a time to live - and the reply
still says that every member was added.  In Redis a command sees one instant: the key is
either dead when the command starts (fresh key, ALL members, no TTL) or alive (all
members join the old key, which then expires as a whole).

exit 1: property violated, exit 0: holds.
"""
import os, shutil, socket, subprocess, sys, tempfile, time

BIN = sys.argv[1] if len(sys.argv) > 1 else '/tmp/hunt-C04/target/debug/ferrous'


def free_port():
    s = socket.socket(); s.bind(('127.0.0.1', 0)); p = s.getsockname()[1]; s.close(); return p


class Conn:
    def __init__(self, port):
        self.s = socket.create_connection(('127.0.0.1', port), timeout=120); self.buf = b''
    def send(self, *args):
        out = [b'*%d\r\n' % len(args)]
        for a in args:
            if not isinstance(a, bytes): a = str(a).encode()
            out.append(b'$%d\r\n%s\r\n' % (len(a), a))
        self.s.sendall(b''.join(out))
    def _fill(self):
        d = self.s.recv(1 << 16)
        if not d: raise EOFError('server closed the connection')
        self.buf += d
    def _line(self):
        while b'\r\n' not in self.buf: self._fill()
        l, self.buf = self.buf.split(b'\r\n', 1); return l
    def read(self):
        l = self._line(); t, r = l[:1], l[1:]
        if t == b'+': return r.decode()
        if t == b'-': return 'ERR:' + r.decode()
        if t == b':': return int(r)
        if t == b'$':
            n = int(r)
            if n < 0: return None
            while len(self.buf) < n + 2: self._fill()
            v = self.buf[:n]; self.buf = self.buf[n + 2:]; return v
        if t == b'*':
            n = int(r); return None if n < 0 else [self.read() for _ in range(n)]
        raise ValueError(l)
    def cmd(self, *a):
        self.send(*a); return self.read()


def zadd_args(n):
    a = ['ZADD', 'z']
    for j in range(n): a += [j, 'm%06d' % j]
    return a


def verdict(c, n, reply, label):
    """after the deadline has certainly passed: the set must hold all n members or not exist"""
    card = c.cmd('ZCARD', 'z'); pttl = c.cmd('PTTL', 'z'); first = c.cmd('ZRANGE', 'z', 0, 0)
    ok = card in (0, n)
    print('%s: ZADD replied %r; afterwards ZCARD=%r PTTL=%r lowest member=%r -> %s'
          % (label, reply, card, pttl, first, 'ok' if ok else 'VIOLATION (neither all %d members nor none)' % n))
    return ok


def main():
    d = tempfile.mkdtemp(prefix='huntC04-d1-')
    port = free_port()
    p = subprocess.Popen([BIN, '--port', str(port), '--dir', d], stdout=subprocess.DEVNULL, stderr=subprocess.DEVNULL, cwd=d)
    violated = False
    try:
        for _ in range(200):
            try: socket.create_connection(('127.0.0.1', port), timeout=0.2).close(); break
            except OSError: time.sleep(0.05)
        c = Conn(port)

        # --- A: one plain ZADD (no transaction), deadline swept over the time the command takes
        n = 3000
        args = zadd_args(n)
        c.cmd('DEL', 'z'); t = time.time(); c.cmd(*args); total_ms = (time.time() - t) * 1000
        print('A: a plain ZADD of %d members takes %.1f ms from send to reply' % (n, total_ms))
        hits = 0
        trials = 0
        for rnd in range(3):
            for ttl in range(max(1, int(total_ms * 0.3)), int(total_ms * 1.2) + 3):
                c.cmd('DEL', 'z'); c.cmd('ZADD', 'z', -1, 'seed')
                c.cmd('PEXPIRE', 'z', ttl)
                t = time.time(); r = c.cmd(*args); dt = time.time() - t
                time.sleep(max(0.0, ttl / 1000.0 - dt) + 0.02)
                trials += 1
                card = c.cmd('ZCARD', 'z')
                if card not in (0, n):
                    hits += 1
                    if hits <= 3:
                        verdict(c, n, r, 'A  PEXPIRE z %d; ZADD z <%d pairs>' % (ttl, n))
            if hits: break
        print('A: %d of %d trials left a partial set' % (hits, trials))
        violated |= hits > 0

        # --- B: the same inside MULTI/EXEC, where the timing is under the server's control
        n = 30000
        args = zadd_args(n)
        for ttl in (20, 60, 100):
            c.cmd('DEL', 'z'); c.cmd('ZADD', 'z', -1, 'seed')
            c.cmd('MULTI'); c.cmd('PEXPIRE', 'z', ttl); c.cmd(*args)
            r = c.cmd('EXEC')
            time.sleep(0.3)
            violated |= not verdict(c, n, r, 'B  MULTI; PEXPIRE z %d; ZADD z <%d pairs>; EXEC' % (ttl, n))
    finally:
        p.kill(); p.wait(); shutil.rmtree(d, ignore_errors=True)
    print('RESULT:', 'property VIOLATED' if violated else 'property holds')
    sys.exit(1 if violated else 0)


main()
