#!/usr/bin/env python3
"""ZPOPMIN / ZPOPMAX that pop nothing (missing key, count 0) answer a NULL array (*-1) where Redis answers an EMPTY array (*0).  exit 1: violated."""
import os, shutil, socket, subprocess, sys, tempfile, time
BIN = sys.argv[1] if len(sys.argv) > 1 else '/tmp/hunt-C04/target/debug/ferrous'
def free_port():
    s = socket.socket(); s.bind(('127.0.0.1', 0)); p = s.getsockname()[1]; s.close(); return p
class Conn:
    def __init__(self, port):
        self.s = socket.create_connection(('127.0.0.1', port), timeout=20); self.buf = b''
    def send(self, *args):
        out = [b'*%d\r\n' % len(args)]
        for a in args:
            if not isinstance(a, bytes): a = str(a).encode()
            out.append(b'$%d\r\n%s\r\n' % (len(a), a))
        self.s.sendall(b''.join(out))
    def _fill(self):
        d = self.s.recv(1 << 16)
        if not d: raise EOFError('server closed the connection')
        self.buf += d
    def _line(self):
        while b'\r\n' not in self.buf: self._fill()
        l, self.buf = self.buf.split(b'\r\n', 1); return l
    def read(self):
        l = self._line(); t, r = l[:1], l[1:]
        if t == b'+': return r.decode()
        if t == b'-': return 'ERR:' + r.decode()
        if t == b':': return int(r)
        if t == b'$':
            n = int(r)
            if n < 0: return None
            while len(self.buf) < n + 2: self._fill()
            v = self.buf[:n]; self.buf = self.buf[n + 2:]; return v
        if t == b'*':
            n = int(r); return 'NULL-ARRAY(*-1)' if n < 0 else [self.read() for _ in range(n)]
        raise ValueError(l)
    def cmd(self, *a):
        self.send(*a); return self.read()
def with_server(body):
    d = tempfile.mkdtemp(prefix='huntC04-d-'); port = free_port()
    p = subprocess.Popen([BIN, '--port', str(port), '--dir', d], stdout=subprocess.DEVNULL, stderr=subprocess.DEVNULL, cwd=d)
    try:
        for _ in range(200):
            try: socket.create_connection(('127.0.0.1', port), timeout=0.2).close(); break
            except OSError: time.sleep(0.05)
        bad = body(Conn(port))
    finally:
        p.kill(); p.wait(); shutil.rmtree(d, ignore_errors=True)
    print('RESULT:', 'property VIOLATED' if bad else 'property holds')
    sys.exit(1 if bad else 0)
def body(c):
    bad = 0
    c.cmd('ZADD', 'z', 1, 'a', 2, 'b')
    for cmd in (['ZPOPMIN', 'nokey'], ['ZPOPMAX', 'nokey'], ['ZPOPMIN', 'nokey', 5], ['ZPOPMIN', 'z', 0], ['ZPOPMAX', 'z', 0]):
        r = c.cmd(*cmd); ok = r == []
        print(' '.join(map(str, cmd)), '->', r, '(Redis: empty array *0)', 'ok' if ok else 'VIOLATION'); bad += not ok
    c.cmd('MULTI'); c.cmd('ZPOPMIN', 'nokey'); r = c.cmd('EXEC'); ok = r == [[]]
    print('MULTI; ZPOPMIN nokey; EXEC ->', r, 'ok' if ok else 'VIOLATION'); bad += not ok
    r = c.cmd('EVAL', "local r = redis.call('ZPOPMIN','nokey'); return {type(r), tostring(r)}", 0)
    ok = r == [b'table', r[1]] if isinstance(r, list) else False
    print("EVAL type(redis.call('ZPOPMIN','nokey')) ->", r, '(Redis: table, an empty one; a null array becomes false)', 'ok' if ok else 'VIOLATION'); bad += not ok
    # the other commands of the family answer an empty array for a missing key
    print('ZRANGE nokey 0 -1 ->', c.cmd('ZRANGE', 'nokey', 0, -1), ' ZRANGEBYSCORE nokey 0 1 ->', c.cmd('ZRANGEBYSCORE', 'nokey', 0, 1))
    return bad
with_server(body)
