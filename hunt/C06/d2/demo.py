#!/usr/bin/env python3
"""C06 d2: a script that installs an endless __gc finalizer (newproxy) hangs the only command thread FOR EVER:
the finalizer runs when the per-script Lua state is closed, where the 5 s script time limit no longer applies.
usage: demo.py [path-to-ferrous-binary]      exit 1 = property violated, 0 = holds"""
import os, resource, shutil, socket, subprocess, sys, tempfile, time

BIN = sys.argv[1] if len(sys.argv) > 1 else "/tmp/hunt-C06/target/debug/ferrous"
SCRIPT = "getmetatable(newproxy(true)).__gc = function() while true do end end return 1"
WAIT = 25          # seconds; the script time limit is 5 s, so a bounded script is long over by then

def free_port():
    s = socket.socket(); s.bind(("127.0.0.1", 0)); p = s.getsockname()[1]; s.close(); return p

def enc(*args):
    out = b"*%d\r\n" % len(args)
    for a in args:
        a = a if isinstance(a, bytes) else str(a).encode()
        out += b"$%d\r\n%s\r\n" % (len(a), a)
    return out

def cmd(port, *args, timeout=5):
    try:
        s = socket.create_connection(("127.0.0.1", port), timeout=timeout); s.settimeout(timeout)
        s.sendall(enc(*args)); buf = b""
        while b"\r\n" not in buf:
            d = s.recv(65536)
            if not d: raise EOFError("connection closed without a reply")
            buf += d
        if buf[:1] == b"$" and not buf.startswith(b"$-1"):
            while buf.count(b"\r\n") < 2: buf += s.recv(65536)
            r = buf.split(b"\r\n")[1]
        else:
            r = buf.split(b"\r\n")[0]
        s.close(); return r.decode("latin1")
    except Exception as e:
        return "EXC %r" % (e,)

port = free_port(); d = tempfile.mkdtemp(prefix="c06d2-")
log = open(os.path.join(d, "server.log"), "wb")
cap = lambda: resource.setrlimit(resource.RLIMIT_AS, (3 << 30, 3 << 30))
p = subprocess.Popen([BIN, "--port", str(port), "--dir", d], stdout=log, stderr=subprocess.STDOUT, preexec_fn=cap)
violated = False
try:
    for _ in range(200):
        try: socket.create_connection(("127.0.0.1", port), timeout=1).close(); break
        except OSError: time.sleep(0.05)
    print("SET other data            ->", cmd(port, "SET", "other", "data"))
    # control: an ordinary endless script IS ended by the time limit and the server goes on
    t0 = time.time()
    print("EVAL 'while true do end'  ->", cmd(port, "EVAL", "while true do end", 0, timeout=15)[:70], "(%.1f s)" % (time.time() - t0))
    print("PING afterwards           ->", cmd(port, "PING"))
    # attack
    a = socket.create_connection(("127.0.0.1", port), timeout=5)
    a.sendall(enc("EVAL", SCRIPT, 0))
    t0 = time.time()
    print("EVAL %r sent" % SCRIPT)
    for k in range(WAIT // 5):
        time.sleep(5)
        r = cmd(port, "GET", "other", timeout=3)
        cpu = open("/proc/%d/stat" % p.pid).read().split()[13] if p.poll() is None else "-"
        print("t=%2.0f s  process alive=%s  utime ticks=%s  GET other on a new connection -> %s" % (time.time() - t0, p.poll() is None, cpu, r))
    a.settimeout(1)
    try: print("reply to the EVAL itself  ->", a.recv(100))
    except Exception as e: print("reply to the EVAL itself  -> none (%r)" % (e,))
    final = cmd(port, "GET", "other", timeout=3)
    violated = (p.poll() is not None) or final != "data"
finally:
    if p.poll() is None: p.kill()
    p.wait(); log.close(); shutil.rmtree(d, ignore_errors=True)
print()
if violated:
    print("PROPERTY VIOLATED: %d s and more after a one-line EVAL the server still answers nobody (command thread spins in the finalizer)" % WAIT)
    sys.exit(1)
print("property holds"); sys.exit(0)
