#!/usr/bin/env python3
"""C06 d3: a script that returns a table containing itself (or a very deeply nested table) overflows the stack of the
command thread in the Lua->RESP conversion: the server process aborts (SIGABRT, "has overflowed its stack").
usage: demo.py [path-to-ferrous-binary]      exit 1 = property violated, 0 = holds"""
import os, resource, shutil, socket, subprocess, sys, tempfile, time

BIN = sys.argv[1] if len(sys.argv) > 1 else "/tmp/hunt-C06/target/debug/ferrous"
SCRIPTS = [
    ("cyclic table", "local t = {} t[1] = t return t"),
    ("200000 levels of nesting", "local r = {} local t = r for i = 1, 200000 do local n = {} t[1] = n t = n end return r"),
    ("control: 100 levels", "local r = {} local t = r for i = 1, 100 do local n = {} t[1] = n t = n end return r"),
]

def free_port():
    s = socket.socket(); s.bind(("127.0.0.1", 0)); p = s.getsockname()[1]; s.close(); return p

def enc(*args):
    out = b"*%d\r\n" % len(args)
    for a in args:
        a = a if isinstance(a, bytes) else str(a).encode()
        out += b"$%d\r\n%s\r\n" % (len(a), a)
    return out

def cmd(port, *args, timeout=20):
    try:
        s = socket.create_connection(("127.0.0.1", port), timeout=timeout); s.settimeout(timeout)
        s.sendall(enc(*args)); buf = b""
        while b"\r\n" not in buf:
            d = s.recv(65536)
            if not d: raise EOFError("connection closed without a reply")
            buf += d
        if buf[:1] == b"$" and not buf.startswith(b"$-1"):
            while buf.count(b"\r\n") < 2: buf += s.recv(65536)
            r = buf.split(b"\r\n")[1]
        else:
            r = buf.split(b"\r\n")[0]
        s.close(); return r.decode("latin1")[:100]
    except Exception as e:
        return "EXC %r" % (e,)

violations = []
for name, script in SCRIPTS:
    port = free_port(); d = tempfile.mkdtemp(prefix="c06d3-")
    logpath = os.path.join(d, "server.log"); log = open(logpath, "wb")
    cap = lambda: resource.setrlimit(resource.RLIMIT_AS, (3 << 30, 3 << 30))
    p = subprocess.Popen([BIN, "--port", str(port), "--dir", d], stdout=log, stderr=subprocess.STDOUT, preexec_fn=cap)
    try:
        for _ in range(200):
            try: socket.create_connection(("127.0.0.1", port), timeout=1).close(); break
            except OSError: time.sleep(0.05)
        print("--- %s" % name)
        print("SET other data          ->", cmd(port, "SET", "other", "data"))
        print("EVAL %r 0" % script)
        print("                        ->", cmd(port, "EVAL", script, 0))
        time.sleep(0.5)
        alive = p.poll() is None
        print("server process alive    :", alive, "(exit status %s)" % p.poll())
        print("GET other (new conn)    ->", cmd(port, "GET", "other", timeout=3))
        log.flush()
        for l in open(logpath, "rb").read().decode("latin1").splitlines():
            if "overflowed" in l or "fatal runtime" in l or "panicked" in l: print("   server log:", l)
        if not alive and not name.startswith("control"):
            violations.append("%s: server process died" % name)
    finally:
        if p.poll() is None: p.kill()
        p.wait(); log.close(); shutil.rmtree(d, ignore_errors=True)
print()
if violations:
    print("PROPERTY VIOLATED:")
    for v in violations: print("  -", v)
    sys.exit(1)
print("property holds"); sys.exit(0)
