#!/usr/bin/env python3
"""C06 extras: further confirmed findings that did not get one of the four d<i> slots. Each case runs against a fresh
server (address space capped at 3 GiB). usage: repro.py [binary] [case ...]   (no case = all)"""
import os, resource, shutil, socket, subprocess, sys, tempfile, time
BIN = sys.argv[1] if len(sys.argv) > 1 else "/tmp/hunt-C06/target/debug/ferrous"
ONLY = sys.argv[2:]

def free_port():
    s = socket.socket(); s.bind(("127.0.0.1", 0)); p = s.getsockname()[1]; s.close(); return p
def enc(*args):
    out = b"*%d\r\n" % len(args)
    for a in args:
        a = a if isinstance(a, bytes) else str(a).encode()
        out += b"$%d\r\n%s\r\n" % (len(a), a)
    return out
def cmd(port, *args, timeout=10, raw=None):
    try:
        s = socket.create_connection(("127.0.0.1", port), timeout=timeout); s.settimeout(timeout)
        s.sendall(raw if raw is not None else enc(*args)); buf = b""
        while b"\r\n" not in buf:
            d = s.recv(65536)
            if not d: raise EOFError("closed without a reply")
            buf += d
        s.close(); return buf.split(b"\r\n")[0].decode("latin1")[:90]
    except Exception as e:
        return "EXC %r" % (e,)
class Server:
    def __init__(self, nofile=None):
        self.port = free_port(); self.dir = tempfile.mkdtemp(prefix="c06x-")
        self.logpath = os.path.join(self.dir, "log"); self.log = open(self.logpath, "wb")
        def pre():
            resource.setrlimit(resource.RLIMIT_AS, (3 << 30, 3 << 30))
            if nofile: resource.setrlimit(resource.RLIMIT_NOFILE, (nofile, nofile))
        self.p = subprocess.Popen([BIN, "--port", str(self.port), "--dir", self.dir], stdout=self.log, stderr=subprocess.STDOUT, preexec_fn=pre)
        for _ in range(200):
            try: socket.create_connection(("127.0.0.1", self.port), timeout=1).close(); break
            except OSError: time.sleep(0.05)
    def report(self, name):
        time.sleep(0.4); rc = self.p.poll()
        why = [l for l in open(self.logpath, "rb").read().decode("latin1").splitlines()
               if any(w in l for w in ("panicked", "overflowed", "Assertion", "allocation", "Error:", "range", "slice"))][:3]
        print("%-28s process alive=%s exit=%s  PING->%s" % (name, rc is None, rc, cmd(self.port, "PING", timeout=3)))
        for l in why: print("      log:", l[:200])
    def stop(self):
        if self.p.poll() is None: self.p.kill()
        self.p.wait(); self.log.close(); shutil.rmtree(self.dir, ignore_errors=True)

def case(name):
    return not ONLY or name in ONLY

if case("bitcount"):      # executor.rs execute_bit l.1752-1771: slice start..=end with start > end+1 panics (script-only command)
    s = Server(); cmd(s.port, "SET", "k", "hello")
    print("BITCOUNT k 4 1 via script ->", cmd(s.port, "EVAL", "return redis.call('BITCOUNT', KEYS[1], 4, 1)", 1, "k")); s.report("bitcount"); s.stop()
if case("setbit"):        # execute_bit l.1727-1738: data.resize(offset/8 + 1) with any offset up to 2^64-1: allocation failure -> abort
    s = Server()
    print("SETBIT k 2^63-2 0 via script ->", cmd(s.port, "EVAL", "return redis.call('SETBIT', 'k', '9223372036854775806', 0)", 0)); s.report("setbit"); s.stop()
if case("emfile"):        # listener.rs accept(): any error but WouldBlock is returned, Server::run propagates it with `?`, main exits(1)
    s = Server(nofile=1024); conns = []
    try:
        for i in range(1100): conns.append(socket.create_connection(("127.0.0.1", s.port), timeout=2))
    except Exception as e: print("connect #%d failed: %r" % (i, e))
    time.sleep(1); s.report("emfile (RLIMIT_NOFILE=1024)")
    for c in conns: c.close()
    s.stop()
if case("pcall_recursion"):   # debug build only: vendored Lua is built with api checks; lua_pushboolean in luaB_pcall asserts
    s = Server()
    print("recursive pcall ->", cmd(s.port, "EVAL", "local function f() return pcall(f) end return f()", 0)); s.report("pcall_recursion"); s.stop()
if case("pattern_recursion"): # lstrlib.c match() recurses once per optional item: C stack overflow (stock Lua 5.1 weakness)
    s = Server()
    print("string.find deep pattern ->", cmd(s.port, "EVAL", "return string.find(string.rep('a',300000), string.rep('a?',300000))", 0, timeout=30)); s.report("pattern_recursion"); s.stop()
if case("nested_reservation"): # parser.rs parse_map/parse_array: Vec::with_capacity(len.min(data.len())) at EACH of up to 128 levels, on every re-parse
    s = Server()
    payload = b"%100000000\r\n" * 120 + b":1\r\n" * 100000
    print("120 nested %%100000000 + 400 kB ->", cmd(s.port, raw=payload, timeout=10)); s.report("nested_reservation (3 GiB AS cap)"); s.stop()
if case("zpopmax_quadratic"):  # server.rs handle_zpopmax: one zrange(-1,-1) = O(n) level-0 walk per popped member
    s = Server(); N = 40000
    c = socket.create_connection(("127.0.0.1", s.port)); 
    for i in range(0, N, 1000):
        args = ["ZADD", "z"]
        for j in range(i, i + 1000): args += [j, "m%d" % j]
        c.sendall(enc(*args))
    time.sleep(2); t = time.time(); c.sendall(enc("ZPOPMAX", "z", N // 2))
    t2 = time.time(); r = cmd(s.port, "PING", timeout=120)
    print("ZPOPMAX z %d on %d members: another client's PING answered %s after %.1f s" % (N // 2, N, r, time.time() - t2)); s.stop()
if case("zset_leak"):          # skiplist.rs Drop l.562-580: Arc::try_unwrap(self.inner.clone()) can never succeed -> nodes are never freed
    s = Server(); c = socket.create_connection(("127.0.0.1", s.port)); c.settimeout(30)
    def rss(): return [l.split()[1] for l in open("/proc/%d/status" % s.p.pid) if l.startswith("VmRSS")][0]
    for rnd in range(5):
        for i in range(0, 100000, 1000):
            args = ["ZADD", "z"]
            for j in range(i, i + 1000): args += [j, "member-%d" % j]
            c.sendall(enc(*args))
        time.sleep(1.5)
        try:
            while True: c.settimeout(0.3); c.recv(1 << 20)
        except Exception: pass
        print("round %d: DEL z -> %s, VmRSS %s kB" % (rnd, cmd(s.port, "DEL", "z"), rss()))
    s.stop()
