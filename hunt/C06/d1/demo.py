#!/usr/bin/env python3
"""C06 d1: a key whose TTL is accepted but lies just below i64::MAX seconds makes SAVE and SYNC/PSYNC panic
(server process exits) and makes BGSAVE's thread panic (every later SAVE/BGSAVE is refused for ever).
usage: demo.py [path-to-ferrous-binary]      exit 1 = property violated, 0 = holds"""
import os, resource, shutil, socket, subprocess, sys, tempfile, time

BIN = sys.argv[1] if len(sys.argv) > 1 else "/tmp/hunt-C06/target/debug/ferrous"
TTL = "9223372036000000000"          # seconds; < i64::MAX - uptime, so Instant::checked_add succeeds (no saturation)

def free_port():
    s = socket.socket(); s.bind(("127.0.0.1", 0)); p = s.getsockname()[1]; s.close(); return p

def enc(*args):
    out = b"*%d\r\n" % len(args)
    for a in args:
        a = a if isinstance(a, bytes) else str(a).encode()
        out += b"$%d\r\n%s\r\n" % (len(a), a)
    return out

class Server:
    def __init__(self):
        self.port = free_port(); self.dir = tempfile.mkdtemp(prefix="c06d1-")
        self.logpath = os.path.join(self.dir, "server.log"); self.log = open(self.logpath, "wb")
        cap = lambda: resource.setrlimit(resource.RLIMIT_AS, (3 << 30, 3 << 30))
        self.p = subprocess.Popen([BIN, "--port", str(self.port), "--dir", self.dir], stdout=self.log,
                                  stderr=subprocess.STDOUT, preexec_fn=cap)
        for _ in range(200):
            try: socket.create_connection(("127.0.0.1", self.port), timeout=1).close(); break
            except OSError: time.sleep(0.05)
    def alive(self): return self.p.poll() is None
    def panic_lines(self):
        with open(self.logpath, "rb") as f:
            lines = f.read().decode("latin1").splitlines()
        out = []
        for i, l in enumerate(lines):
            if "panicked" in l: out += lines[i:i + 2]
        return out
    def stop(self):
        if self.p.poll() is None: self.p.kill()
        self.p.wait(); self.log.close(); shutil.rmtree(self.dir, ignore_errors=True)

def cmd(port, *args, timeout=5):
    """one command on a NEW connection; returns the first reply line (or an 'EXC ...' text)"""
    try:
        s = socket.create_connection(("127.0.0.1", port), timeout=timeout); s.settimeout(timeout)
        s.sendall(enc(*args)); buf = b""
        while b"\r\n" not in buf:
            d = s.recv(65536)
            if not d: raise EOFError("connection closed without a reply")
            buf += d
        if buf[:1] == b"$" and not buf.startswith(b"$-1"):
            while buf.count(b"\r\n") < 2: buf += s.recv(65536)
            r = buf.split(b"\r\n")[1]
        else:
            r = buf.split(b"\r\n")[0]
        s.close(); return r.decode("latin1")
    except Exception as e:
        return "EXC %r" % (e,)

violations = []
def scenario(name, setup, final, wait=1.0):
    srv = Server()
    try:
        print("--- scenario %s" % name)
        print("SET other data        ->", cmd(srv.port, "SET", "other", "data"))
        for c in setup: print("%-21s ->" % " ".join(c), cmd(srv.port, *c))
        print("TTL k                 ->", cmd(srv.port, "TTL", "k"))
        print("%-21s ->" % " ".join(final), cmd(srv.port, *final, timeout=3))
        time.sleep(wait)
        alive = srv.alive()
        print("server process alive  :", alive, "(exit status %s)" % srv.p.poll())
        print("GET other (new conn)  ->", cmd(srv.port, "GET", "other"))
        if alive:
            # a second save must still be possible once the first one is over
            time.sleep(2.0)
            r = cmd(srv.port, "SAVE")
            print("later SAVE            ->", r)
            if final[0] == "BGSAVE" and "in progress" in r:
                time.sleep(5.0); r = cmd(srv.port, "SAVE")
                print("SAVE 5 s later        ->", r)
            if not r.startswith("+OK"):
                violations.append("%s: persistence wedged (%s)" % (name, r))
        else:
            violations.append("%s: server process exited" % name)
        for l in srv.panic_lines(): print("   server log:", l)
    finally:
        srv.stop()

scenario("SAVE",   [("SET", "k", "v", "EX", TTL)], ("SAVE",))
scenario("EXPIRE+SAVE", [("SET", "k", "v"), ("EXPIRE", "k", TTL)], ("SAVE",))
scenario("SYNC",   [("SET", "k", "v", "EX", TTL)], ("SYNC",))
scenario("PSYNC",  [("SETEX", "k", TTL, "v")], ("PSYNC", "?", "-1"))
scenario("BGSAVE", [("SET", "k", "v", "EX", TTL)], ("BGSAVE",))

print()
if violations:
    print("PROPERTY VIOLATED:")
    for v in violations: print("  -", v)
    sys.exit(1)
print("property holds")
sys.exit(0)
