#!/usr/bin/env python3
"""C06 d4: the script sandbox leaves `loadstring` in place and it accepts PRECOMPILED chunks (string.dump output).
Lua 5.1 does not (and cannot) validate bytecode: a chunk patched by the script itself makes the VM dereference a
bad pointer and the server process dies with SIGSEGV.
usage: demo.py [path-to-ferrous-binary]      exit 1 = property violated, 0 = holds"""
import os, resource, shutil, socket, subprocess, sys, tempfile, time

BIN = sys.argv[1] if len(sys.argv) > 1 else "/tmp/hunt-C06/target/debug/ferrous"

# The victim function fails with "attempt to call local 'zzzzzz' (a nil value)". The script dumps it, replaces the
# debug-info NAME of that local (size_t 7 + "zzzzzz\0") by a string of size 0 - which lundump.c loads as a NULL
# TString* - and runs the patched chunk: building the error message then reads the name through the NULL pointer.
CRASH = r'''
local function victim() local zzzzzz; zzzzzz() end
local d = string.dump(victim)
local a, b = string.find(d, "\7\0\0\0\0\0\0\0zzzzzz\0", 1, true)
if not a then return "layout differs: name not found" end
local patched = d:sub(1, a - 1) .. "\0\0\0\0\0\0\0\0" .. d:sub(b + 1)
local f, err = loadstring(patched)
if not f then return "refused: " .. tostring(err) end
local ok, e = pcall(f)
return "survived: " .. tostring(e)
'''
PROBE = "local f = loadstring(string.dump(function() return 42 end)) if f then return f() else return 'refused' end"

def free_port():
    s = socket.socket(); s.bind(("127.0.0.1", 0)); p = s.getsockname()[1]; s.close(); return p

def enc(*args):
    out = b"*%d\r\n" % len(args)
    for a in args:
        a = a if isinstance(a, bytes) else str(a).encode()
        out += b"$%d\r\n%s\r\n" % (len(a), a)
    return out

def cmd(port, *args, timeout=10):
    try:
        s = socket.create_connection(("127.0.0.1", port), timeout=timeout); s.settimeout(timeout)
        s.sendall(enc(*args)); buf = b""
        while b"\r\n" not in buf:
            d = s.recv(65536)
            if not d: raise EOFError("connection closed without a reply")
            buf += d
        if buf[:1] == b"$" and not buf.startswith(b"$-1"):
            while buf.count(b"\r\n") < 2: buf += s.recv(65536)
            r = buf.split(b"\r\n")[1]
        else:
            r = buf.split(b"\r\n")[0]
        s.close(); return r.decode("latin1")[:120]
    except Exception as e:
        return "EXC %r" % (e,)

port = free_port(); d = tempfile.mkdtemp(prefix="c06d4-")
log = open(os.path.join(d, "server.log"), "wb")
cap = lambda: resource.setrlimit(resource.RLIMIT_AS, (3 << 30, 3 << 30))
p = subprocess.Popen([BIN, "--port", str(port), "--dir", d], stdout=log, stderr=subprocess.STDOUT, preexec_fn=cap)
violated = False
try:
    for _ in range(200):
        try: socket.create_connection(("127.0.0.1", port), timeout=1).close(); break
        except OSError: time.sleep(0.05)
    print("SET other data                         ->", cmd(port, "SET", "other", "data"))
    print("EVAL <loadstring(string.dump(f))()>    ->", cmd(port, "EVAL", PROBE, 0), " (42 = precompiled chunks are accepted)")
    print("EVAL <patched chunk> (see CRASH above) ->", cmd(port, "EVAL", CRASH, 0))
    time.sleep(0.5)
    rc = p.poll()
    print("server process alive                   :", rc is None, "(exit status %s%s)" % (rc, " = SIGSEGV" if rc == -11 else ""))
    print("GET other (new conn)                   ->", cmd(port, "GET", "other", timeout=3))
    violated = rc is not None
finally:
    if p.poll() is None: p.kill()
    p.wait(); log.close(); shutil.rmtree(d, ignore_errors=True)
print()
if violated:
    print("PROPERTY VIOLATED: a script crashed the server process through a crafted precompiled chunk")
    sys.exit(1)
print("property holds"); sys.exit(0)
