import socket, subprocess, tempfile, time, os, sys, shutil

BIN_DEFAULT = "/tmp/hunt-C01/target/debug/ferrous"

def free_port():
    s = socket.socket(); s.bind(("127.0.0.1", 0)); p = s.getsockname()[1]; s.close(); return p

class Server:
    def __init__(self, binary=BIN_DEFAULT, extra=(), d=None, port=None):
        self.dir = d or tempfile.mkdtemp(prefix="hc01-")
        self.port = port or free_port()
        self.log = open(os.path.join(self.dir, "server.log"), "ab")
        self.p = subprocess.Popen([binary, "--port", str(self.port), "--dir", self.dir] + list(extra),
                                  stdout=self.log, stderr=self.log, cwd=self.dir)
        t0 = time.time()
        while time.time() - t0 < 20:
            try:
                s = socket.create_connection(("127.0.0.1", self.port), timeout=1); s.close(); return
            except OSError:
                time.sleep(0.05)
        raise RuntimeError("server did not start")
    def stop(self, rm=True):
        try:
            self.p.kill(); self.p.wait(timeout=10)
        except Exception: pass
        self.log.close()
        if rm: shutil.rmtree(self.dir, ignore_errors=True)

class Err(Exception):
    pass

class E:
    def __init__(self, m): self.m = m
    def __repr__(self): return "E(%r)" % self.m
    def __eq__(self, o): return isinstance(o, E)
class S:
    def __init__(self, m): self.m = m
    def __repr__(self): return "S(%r)" % self.m
    def __eq__(self, o): return isinstance(o, S) and o.m == self.m

def enc(*args):
    out = b"*%d\r\n" % len(args)
    for a in args:
        if isinstance(a, str): a = a.encode()
        elif isinstance(a, int): a = str(a).encode()
        out += b"$%d\r\n%s\r\n" % (len(a), a)
    return out

class Client:
    def __init__(self, port, timeout=10):
        self.s = socket.create_connection(("127.0.0.1", port), timeout=timeout)
        self.s.settimeout(timeout)
        self.buf = b""
    def _fill(self):
        d = self.s.recv(1 << 16)
        if not d: raise EOFError("closed")
        self.buf += d
    def _line(self):
        while b"\r\n" not in self.buf: self._fill()
        l, self.buf = self.buf.split(b"\r\n", 1); return l
    def read(self):
        l = self._line()
        t, r = l[:1], l[1:]
        if t == b"+": return S(r)
        if t == b"-": return E(r)
        if t == b":": return int(r)
        if t == b"$":
            n = int(r)
            if n < 0: return None
            while len(self.buf) < n + 2: self._fill()
            v, self.buf = self.buf[:n], self.buf[n+2:]; return v
        if t == b"*":
            n = int(r)
            if n < 0: return None
            return [self.read() for _ in range(n)]
        raise ValueError("bad reply %r" % l)
    def cmd(self, *args):
        self.s.sendall(enc(*args)); return self.read()
    def raw(self, data, n):
        self.s.sendall(data); return [self.read() for _ in range(n)]
    def close(self):
        try: self.s.close()
        except Exception: pass
