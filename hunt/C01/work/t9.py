from rc import *
import time, socket
s = Server()
try:
    c = Client(s.port, timeout=60)
    n = 30*1024*1024
    print(c.cmd("SETRANGE","big", n-1, "x"))
    c2 = socket.create_connection(("127.0.0.1", s.port)); c2.settimeout(30)
    c2.sendall(enc("GET","big")+enc("QUIT"))
    time.sleep(1.0)
    tot = 0
    try:
        while True:
            d = c2.recv(1<<20)
            if not d: break
            tot += len(d)
    except Exception as e: print("exc", e)
    print("received", tot, "expected", n + len(b"$%d\r\n" % n) + 2 + 5)
finally:
    s.stop()
