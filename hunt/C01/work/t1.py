from rc import *
s = Server()
try:
    c = Client(s.port)
    print(c.cmd("SET","k","v"), c.cmd("GET","k"))
    print(c.cmd("LPUSH","l","a"), c.cmd("INCR","l"), c.cmd("GETSET","l","x"), c.cmd("TYPE","l"))
    print(c.cmd("SET","n","+5"), c.cmd("INCR","n"))
    print(c.cmd("KEYS","[z-a]"), c.cmd("SET","b","1"), c.cmd("KEYS","[c-a]"), c.cmd("KEYS","[abc"))
    print(c.cmd("SET", "k", "v", "EX", "9223372036854775807"), c.cmd("TTL","k"))
    print(c.cmd("RENAME","k","k"), c.cmd("RENAME","nokey","nokey"), c.cmd("RENAMENX","k","k"))
    print(c.cmd("ſet","uu","1"), c.cmd("GET","uu"))
finally:
    s.stop()
