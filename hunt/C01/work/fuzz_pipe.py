import random, sys, time
import fuzz
from fuzz import *
fuzz.MODE = "plain"
fuzz.VALS += [b"PING", b"*1\r\n$4\r\nPING\r\n", b" ", b"\r\n", b"\r", b"\n\n", b"PING\r\n", b"$-1\r\n", b"x"*9000, b"\r\n"*5000, b"PIN"]
fuzz.KEYS += [b"PING", b"\r\n", b" "]

def main(seed, rounds):
    r = random.Random(seed)
    srv = Server()
    nbad = 0
    try:
        c = Client(srv.port, timeout=20)
        m = Model()
        for rd in range(rounds):
            cmds = []
            while len(cmds) < r.randint(1, 60):
                a = gen(r)
                if any(lenient(x) for x in a[1:]): continue
                cmds.append(a)
            exps = []
            for a in cmds:
                try: exps.append(m.run(a))
                except Err as e: exps.append(E(str(e).encode()))
            data = b"".join(enc(*a) for a in cmds)
            # random segmentation
            pos = 0
            style = r.choice(["one", "bytes", "chunks"])
            if style == "one":
                c.s.sendall(data)
            else:
                while pos < len(data):
                    n = r.randint(1, 3) if style == "bytes" and len(data) < 3000 else r.randint(1, 5000)
                    c.s.sendall(data[pos:pos+n]); pos += n
                    if r.random() < 0.3: time.sleep(0.001)
            gots = []
            try:
                for _ in cmds: gots.append(c.read())
            except Exception as e:
                print("READ FAIL seed", seed, "round", rd, e, "got", len(gots), "of", len(cmds), cmds[len(gots)] if len(gots) < len(cmds) else None)
                return nbad + 1
            for a, e, g in zip(cmds, exps, gots):
                if not same(e, g):
                    print("REPLY MISMATCH seed", seed, "round", rd, a[:4], "expected", repr(e)[:80], "got", repr(g)[:80]); nbad += 1
            bad = dump(c, m)
            if bad:
                print("STATE MISMATCH seed", seed, "round", rd, repr(bad[:2])[:400]); return nbad + 1
            if nbad > 3: return nbad
    finally:
        srv.stop()
    return nbad

if __name__ == "__main__":
    s0 = int(sys.argv[1]); n = int(sys.argv[2]); rounds = int(sys.argv[3])
    tot = 0
    for s in range(s0, s0+n): tot += main(s, rounds)
    print("done, mismatches:", tot)
