from rc import *
import time, socket
s = Server()
try:
    c = Client(s.port, timeout=60)
    for n in (1<<20, 4<<20, 8<<20):
        c.cmd("DEL","big"); c.cmd("SETRANGE","big", n-1, "x")
        for tail, name in ((enc("QUIT"), "QUIT"), (b"garbage\r\n", "protocol error")):
            c2 = socket.create_connection(("127.0.0.1", s.port)); c2.settimeout(10)
            c2.sendall(enc("GET","big")+tail)
            tot = 0
            try:
                while True:
                    d = c2.recv(1<<20)
                    if not d: break
                    tot += len(d)
            except Exception as e: print("exc", e)
            print(n, name, "received", tot, "of about", n + 20, "(no client delay)")
finally:
    s.stop()
