from rc import *
s = Server()
try:
    c = Client(s.port, timeout=20)
    tests = [
        ("ZADD","k","nan","a"), ("ZADD","k","1","a","x","b"), ("ZINCRBY","k","nan","a"), ("ZINCRBY","k","abc","a"),
        ("HINCRBY","k","f","abc"), ("HINCRBY","k","f","9223372036854775808"), ("HSET","k","f"), ("HMSET","k","f"),
        ("LSET","k","0","v"), ("XADD","k","0-0","f","v"), ("XADD","k","abc","f","v"), ("XADD","k","1-1","f"), ("XADD","k","*","f"),
        ("XADD","k","18446744073709551616-0","f","v"),
        ("LPUSH","k"), ("SADD","k"), ("XGROUP","CREATE","k","g","$"), ("XGROUP","CREATE","k","g","bad","MKSTREAM"),
        ("XREADGROUP","GROUP","g","c","STREAMS","k",">"), ("XTRIM","k","MAXLEN","0"), ("XDEL","k","1-1"),
        ("SPOP","k","-1"), ("SRANDMEMBER","k","abc"), ("LREM","k","abc","x"), ("LTRIM","k","a","b"), ("ZPOPMIN","k","-1"),
        ("XCLAIM","k","g","c","0","1-1"), ("XACK","k","g","1-1"), ("XSETID","k","1-1"), ("XAUTOCLAIM","k","g","c","0","0"),
        ("SETRANGE","k","536870912","x"), ("SETRANGE","k","-1","x"), ("SETRANGE","k","0",""), ("INCRBY","k","abc"), ("DECRBY","k","-9223372036854775808"),
        ("SETEX","k","0","v"), ("PSETEX","k","-1","v"), ("SET","k","v","EX","0"), ("SET","k","v","PX","abc"), ("SET","k","v","NX","XX"),
        ("RENAME","nokey","k"), ("RENAMENX","nokey","k"), ("EXPIRE","k","100"), ("PERSIST","k"), ("GETSET","k"), ("APPEND","k"),
        ("EVAL","return redis.call('ZADD',KEYS[1],'nan','a')",1,"k"), ("EVAL","return redis.call('HINCRBY',KEYS[1],'f','x')",1,"k"),
        ("EVAL","return redis.call('XADD',KEYS[1],'0-0','f','v')",1,"k"), ("EVAL","return redis.call('ZINCRBY',KEYS[1],'nan','a')",1,"k"),
        ("EVAL","return redis.call('SETRANGE',KEYS[1],'536870912','a')",1,"k"), ("EVAL","return redis.call('LSET',KEYS[1],0,'a')",1,"k"),
        ("EVAL","return redis.call('SETBIT',KEYS[1],'abc','1')",1,"k"), ("EVAL","return redis.call('SETBIT',KEYS[1],'4294967296','1')",1,"k"),("EVAL","return redis.call('SETBIT',KEYS[1],'5','2')",1,"k"),
    ]
    for t in tests:
        r = c.cmd(*t)
        ex = (c.cmd("EXISTS","k"), c.cmd("TYPE","k"), c.cmd("DBSIZE"))
        flag = "  <<<<<< state left behind" if ex != (0, S(b"none"), 0) else ""
        print(t[:5], "->", repr(r)[:70], ex, flag)
        c.cmd("FLUSHALL")
finally:
    s.stop()
