from rc import *
s = Server()
try:
    c = Client(s.port)
    print("MSET null-bulk:", c.raw(b"*5\r\n$4\r\nMSET\r\n$1\r\na\r\n$1\r\n1\r\n$1\r\nb\r\n$-1\r\n", 1), c.cmd("GET","a"), c.cmd("GET","b"))
    print("MSET int elem:", c.raw(b"*5\r\n$4\r\nMSET\r\n$1\r\nc\r\n$1\r\n1\r\n$1\r\nd\r\n:5\r\n", 1), c.cmd("GET","c"))
    print("DEL skip:", c.raw(b"*3\r\n$3\r\nDEL\r\n$-1\r\n$1\r\na\r\n", 1), c.cmd("GET","a"))
    print(c.cmd("MULTI"), c.cmd("SET","t","1"), c.cmd("SET","t"), c.cmd("NOSUCH"), c.cmd("EXEC"), c.cmd("GET","t"))
    print("empty array:", c.raw(b"*0\r\n*1\r\n$4\r\nPING\r\n", 1))
    c.s.settimeout(0.5)
    try: print("extra", c.read())
    except Exception as e: print("no extra", e)
finally:
    s.stop()
