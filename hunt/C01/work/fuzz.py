import random, sys
from rc import *

I64MAX = 2**63-1; I64MIN = -2**63
MAXSTR = 512*1024*1024

def s2ll(b):
    # strict redis string2ll
    if not b or len(b) > 20: return None
    if b == b"0": return 0
    i = 0; neg = False
    if b[0:1] == b"-":
        neg = True; i = 1
        if len(b) == 1: return None
    if not (49 <= b[i] <= 57): return None
    for ch in b[i:]:
        if not (48 <= ch <= 57): return None
    v = int(b[i:])
    if neg: v = -v
    if v > I64MAX or v < I64MIN: return None
    return v

def lenient(b):
    # forms rust parses but redis does not: skip them in generation
    try:
        t = b.decode()
    except Exception: return False
    try:
        int(t)
    except Exception: return False
    if t.strip() != t or "_" in t: return False
    return s2ll(b) is None and I64MIN <= int(t) <= I64MAX and all(c in "+-0123456789" for c in t)

def glob(p, s):
    # port of redis stringmatchlen (nocase=0)
    pi = 0; si = 0
    pl = len(p); sl = len(s)
    while pi < pl and True:
        c = p[pi]
        if c == 0x2a: # *
            while pi + 1 < pl and p[pi+1] == 0x2a: pi += 1
            if pi + 1 == pl: return True
            while si <= sl:
                if glob(p[pi+1:], s[si:]): return True
                si += 1
                if si > sl: break
            return False
        elif c == 0x3f:
            if si >= sl: return False
            si += 1
        elif c == 0x5b:
            if si >= sl: return False   # redis: while(patternLen && stringLen)
            pi += 1
            neg = pi < pl and p[pi] == 0x5e
            if neg: pi += 1
            match = False
            while True:
                rem = pl - pi
                if rem >= 2 and p[pi] == 0x5c:
                    pi += 1
                    if p[pi] == s[si]: match = True
                elif rem >= 1 and p[pi] == 0x5d:
                    break
                elif rem <= 0:
                    pi -= 1
                    break
                elif rem >= 3 and p[pi+1] == 0x2d:
                    a = p[pi]; b = p[pi+2]
                    if a > b: a, b = b, a
                    pi += 2
                    if a <= s[si] <= b: match = True
                else:
                    if p[pi] == s[si]: match = True
                pi += 1
            if neg: match = not match
            if not match: return False
            si += 1
        else:
            if c == 0x5c and pl - pi >= 2:
                pi += 1
            if si >= sl: return False
            if p[pi] != s[si]: return False
            si += 1
        pi += 1
        if si >= sl:
            while pi < pl and p[pi] == 0x2a: pi += 1
            break
    return pi >= pl and si >= sl

class Model:
    def __init__(self):
        self.dbs = [dict() for _ in range(16)]
        self.db = 0
    @property
    def d(self): return self.dbs[self.db]
    def getstr(self, k):
        e = self.d.get(k)
        if e is None: return None
        if e[0] != "string": raise Err("WRONGTYPE")
        return e[1]
    def setstr(self, k, v, ttl=False):
        self.d[k] = ["string", v, ttl]
    def run(self, a):
        name = a[0].upper(); n = len(a)
        f = getattr(self, "c_" + name.decode().lower(), None)
        if f is None: raise Err("unknown")
        return f(a, n)
    def arity(self, ok):
        if not ok: raise Err("arity")
    def c_set(self, a, n):
        self.arity(n >= 3)
        nx = xx = False; ex = None; unit = None
        i = 3
        while i < n:
            o = a[i].upper()
            nxt = a[i+1] if i+1 < n else None
            if o == b"NX" and not xx: nx = True
            elif o == b"XX" and not nx: xx = True
            elif o == b"EX" and unit != "PX" and nxt is not None: unit = "EX"; ex = nxt; i += 1
            elif o == b"PX" and unit != "EX" and nxt is not None: unit = "PX"; ex = nxt; i += 1
            else: raise Err("syntax")
            i += 1
        if ex is not None:
            v = s2ll(ex)
            if v is None: raise Err("notint")
            if v <= 0: raise Err("invalid expire")
            if unit == "EX" and v > I64MAX // 1000: raise Err("invalid expire")
            if (v*1000 if unit == "EX" else v) + 1800000000000 > I64MAX: raise Err("invalid expire")
        k = a[1]
        if nx and k in self.d: return None
        if xx and k not in self.d: return None
        self.setstr(k, a[2], ex is not None)
        return S(b"OK")
    def c_get(self, a, n):
        self.arity(n == 2); return self.getstr(a[1])
    def c_mget(self, a, n):
        self.arity(n >= 2)
        out = []
        for k in a[1:]:
            e = self.d.get(k)
            out.append(e[1] if e and e[0] == "string" else None)
        return out
    def c_mset(self, a, n):
        self.arity(n >= 3 and n % 2 == 1)
        for i in range(1, n, 2): self.setstr(a[i], a[i+1])
        return S(b"OK")
    def c_getset(self, a, n):
        self.arity(n == 3)
        old = self.getstr(a[1]); self.setstr(a[1], a[2]); return old
    def c_setnx(self, a, n):
        self.arity(n == 3)
        if a[1] in self.d: return 0
        self.setstr(a[1], a[2]); return 1
    def _setex(self, a, n, unit):
        self.arity(n == 4)
        v = s2ll(a[2])
        if v is None: raise Err("notint")
        if v <= 0: raise Err("invalid expire")
        if unit == "EX" and v > I64MAX // 1000: raise Err("invalid expire")
        if (v*1000 if unit == "EX" else v) + 1800000000000 > I64MAX: raise Err("invalid expire")
        self.setstr(a[1], a[3], True); return S(b"OK")
    def c_setex(self, a, n): return self._setex(a, n, "EX")
    def c_psetex(self, a, n): return self._setex(a, n, "PX")
    def c_append(self, a, n):
        self.arity(n == 3)
        old = self.getstr(a[1])
        if old is None: self.setstr(a[1], a[2]); return len(a[2])
        self.d[a[1]][1] = old + a[2]; return len(old + a[2])
    def c_strlen(self, a, n):
        self.arity(n == 2); v = self.getstr(a[1]); return len(v) if v is not None else 0
    def c_getrange(self, a, n):
        self.arity(n == 4)
        st = s2ll(a[2]); en = s2ll(a[3])
        if st is None or en is None: raise Err("notint")
        v = self.getstr(a[1])
        if v is None: v = b""
        L = len(v)
        if st < 0 and en < 0 and st > en: return b""
        if st < 0: st += L
        if en < 0: en += L
        if st < 0: st = 0
        if en < 0: en = 0
        if en >= L: en = L - 1
        if st > en or L == 0: return b""
        return v[st:en+1]
    def c_setrange(self, a, n):
        self.arity(n == 4)
        off = s2ll(a[2])
        if off is None: raise Err("notint")
        if off < 0: raise Err("offset out of range")
        v = self.getstr(a[1])
        val = a[3]
        if v is None:
            if len(val) == 0: return 0
            if off + len(val) > MAXSTR: raise Err("too big")
            self.setstr(a[1], b"\0"*off + val); return off + len(val)
        if len(val) == 0: return len(v)
        if off + len(val) > MAXSTR: raise Err("too big")
        if len(v) < off + len(val): v = v + b"\0"*(off+len(val)-len(v))
        v = v[:off] + val + v[off+len(val):]
        self.d[a[1]][1] = v; return len(v)
    def _incr(self, k, by):
        v = self.getstr(k)
        cur = 0
        if v is not None:
            cur = s2ll(v)
            if cur is None: raise Err("notint")
        nv = cur + by
        if nv > I64MAX or nv < I64MIN: raise Err("overflow")
        if v is None: self.setstr(k, str(nv).encode())
        else: self.d[k][1] = str(nv).encode()
        return nv
    def c_incr(self, a, n): self.arity(n == 2); return self._incr(a[1], 1)
    def c_decr(self, a, n): self.arity(n == 2); return self._incr(a[1], -1)
    def c_incrby(self, a, n):
        self.arity(n == 3); by = s2ll(a[2])
        if by is None: raise Err("notint")
        return self._incr(a[1], by)
    def c_decrby(self, a, n):
        self.arity(n == 3); by = s2ll(a[2])
        if by is None: raise Err("notint")
        if by == I64MIN: raise Err("overflow")
        return self._incr(a[1], -by)
    def c_del(self, a, n):
        self.arity(n >= 2); c = 0
        for k in a[1:]:
            if k in self.d: del self.d[k]; c += 1
        return c
    def c_exists(self, a, n):
        self.arity(n >= 2); return sum(1 for k in a[1:] if k in self.d)
    def c_type(self, a, n):
        self.arity(n == 2); e = self.d.get(a[1]); return S(e[0].encode() if e else b"none")
    def c_rename(self, a, n):
        self.arity(n == 3)
        if a[1] not in self.d: raise Err("no such key")
        if a[1] == a[2]: return S(b"OK")
        self.d[a[2]] = self.d.pop(a[1]); return S(b"OK")
    def c_renamenx(self, a, n):
        self.arity(n == 3)
        if a[1] not in self.d: raise Err("no such key")
        if a[1] == a[2]: return 0
        if a[2] in self.d: return 0
        self.d[a[2]] = self.d.pop(a[1]); return 1
    def c_keys(self, a, n):
        self.arity(n == 2); return ("SET", sorted(k for k in self.d if glob(a[1], k)))
    def c_dbsize(self, a, n): self.arity(n == 1); return len(self.d)
    def c_randomkey(self, a, n):
        self.arity(n == 1); return ("ONEOF", set(self.d.keys()) if self.d else {None})
    def c_flushdb(self, a, n):
        self.arity(n == 1); self.d.clear(); return S(b"OK")
    def c_flushall(self, a, n):
        self.arity(n == 1)
        for d in self.dbs: d.clear()
        return S(b"OK")
    def c_select(self, a, n):
        self.arity(n == 2); v = s2ll(a[1])
        if v is None or v < 0 or v >= 16: raise Err("bad db")
        self.db = v; return S(b"OK")
    # helpers of other types
    def c_lpush(self, a, n):
        self.arity(n >= 3); e = self.d.get(a[1])
        if e and e[0] != "list": raise Err("WRONGTYPE")
        if not e: e = self.d[a[1]] = ["list", [], False]
        for v in a[2:]: e[1].insert(0, v)
        return len(e[1])
    def c_sadd(self, a, n):
        self.arity(n >= 3); e = self.d.get(a[1])
        if e and e[0] != "set": raise Err("WRONGTYPE")
        if not e: e = self.d[a[1]] = ["set", set(), False]
        c = 0
        for v in a[2:]:
            if v not in e[1]: e[1].add(v); c += 1
        return c
    def c_hset(self, a, n):
        self.arity(n >= 4 and n % 2 == 0); e = self.d.get(a[1])
        if e and e[0] != "hash": raise Err("WRONGTYPE")
        if not e: e = self.d[a[1]] = ["hash", {}, False]
        c = 0
        for i in range(2, n, 2):
            if a[i] not in e[1]: c += 1
            e[1][a[i]] = a[i+1]
        return c
    def c_expire(self, a, n):
        self.arity(n == 3); v = s2ll(a[2])
        if v is None: raise Err("notint")
        if a[1] not in self.d: return 0
        if v <= 0: del self.d[a[1]]; return 1
        if v > I64MAX // 1000 or v*1000 + 1800000000000 > I64MAX: raise Err("invalid expire")
        self.d[a[1]][2] = True; return 1
    def c_persist(self, a, n):
        self.arity(n == 2); e = self.d.get(a[1])
        if not e or not e[2]: return 0
        e[2] = False; return 1

KEYS = [b"", b"a", b"b", b"ab", b"\xff", b"k\r\n", b"[", b"a*", b"\\", b"aa", b"?", b"A"]
VALS = [b"", b"a", b"hello world", b"\x00\xff\r\n", b"0", b"1", b"-1", b"10", b"9223372036854775807", b"-9223372036854775808",
        b"9223372036854775806", b"9223372036854775808", b"-9223372036854775809", b" 1", b"1 ", b"1.0", b"1e3", b"0x10", b"12abc", b"\xd9\xa1", b"--1", b"-", b"99999999999999999999999"]
NUMS = [b"0", b"1", b"-1", b"2", b"5", b"-2", b"-5", b"100", b"-100", b"9223372036854775807", b"-9223372036854775808", b"9223372036854775808",
        b"-9223372036854775807", b"", b"abc", b"1.5", b" 1", b"3"]
OFFS = NUMS + [b"536870912", b"4294967296", b"18446744073709551615"]
EXPS = [b"1000000", b"100000000", b"0", b"-1", b"abc", b"9223372036854775808", b"", b"-9223372036854775808"]
PATS = [b"*", b"a*", b"?", b"??", b"[ab]", b"[^a]", b"a?", b"*a", b"\\*", b"a\\*", b"[a-c]*", b"", b"\\", b"*\xff*", b"[[]", b"\\[", b"\\?", b"a[*]", b"**", b"*?", b"?*b", b"[a-b][a-b]", b"k\r\n", b"[A-Z]", b"\\\\"]

def rk(r): return r.choice(KEYS)
def rv(r): return r.choice(VALS)

def gen(r):
    c = r.random()
    t = r.choice(["SET","SET","SETOPT","GET","MGET","MSET","GETSET","SETNX","SETEX","PSETEX","APPEND","STRLEN","GETRANGE","SETRANGE",
                  "INCR","DECR","INCRBY","DECRBY","DEL","EXISTS","TYPE","RENAME","RENAMENX","KEYS","DBSIZE","RANDOMKEY","FLUSHDB","FLUSHALL",
                  "OTHER","EXPIRE","PERSIST","SELECT","ARITY"])
    if t == "SET": return [b"SET", rk(r), rv(r)]
    if t == "SETOPT":
        a = [b"set", rk(r), rv(r)]
        for _ in range(r.randint(1, 3)):
            o = r.choice([b"NX", b"XX", b"EX", b"PX", b"nx", b"xx", b"ex", b"px", b"KEEPTTLX", b""])
            a.append(o)
            if o.upper() in (b"EX", b"PX") and r.random() < 0.9: a.append(r.choice(EXPS))
        if sum(1 for x in a[3:] if x.upper() in (b"EX", b"PX")) > 1: return [b"DBSIZE"]
        return a
    if t == "GET": return [b"GET", rk(r)]
    if t == "MGET": return [b"MGET"] + [rk(r) for _ in range(r.randint(1, 4))]
    if t == "MSET":
        a = [b"MSET"]
        for _ in range(r.randint(1, 3)): a += [rk(r), rv(r)]
        if r.random() < 0.1: a.append(rk(r))
        return a
    if t == "GETSET": return [b"GETSET", rk(r), rv(r)]
    if t == "SETNX": return [b"SETNX", rk(r), rv(r)]
    if t == "SETEX": return [b"SETEX", rk(r), r.choice(EXPS), rv(r)]
    if t == "PSETEX": return [b"PSETEX", rk(r), r.choice(EXPS), rv(r)]
    if t == "APPEND": return [b"APPEND", rk(r), rv(r)]
    if t == "STRLEN": return [b"STRLEN", rk(r)]
    if t == "GETRANGE": return [b"GETRANGE", rk(r), r.choice(NUMS), r.choice(NUMS)]
    if t == "SETRANGE":
        off = r.choice(OFFS)
        return [b"SETRANGE", rk(r), off, rv(r)]
    if t == "INCR": return [b"INCR", rk(r)]
    if t == "DECR": return [b"DECR", rk(r)]
    if t == "INCRBY": return [b"INCRBY", rk(r), r.choice(NUMS)]
    if t == "DECRBY": return [b"DECRBY", rk(r), r.choice(NUMS)]
    if t == "DEL": return [b"DEL"] + [rk(r) for _ in range(r.randint(1, 3))]
    if t == "EXISTS": return [b"EXISTS"] + [rk(r) for _ in range(r.randint(1, 3))]
    if t == "TYPE": return [b"TYPE", rk(r)]
    if t == "RENAME": return [b"RENAME", rk(r), rk(r)]
    if t == "RENAMENX": return [b"RENAMENX", rk(r), rk(r)]
    if t == "KEYS": return [b"KEYS", r.choice(PATS)]
    if t == "DBSIZE": return [b"DBSIZE"]
    if t == "RANDOMKEY": return [b"RANDOMKEY"]
    if t == "FLUSHDB": return [b"FLUSHDB"] if r.random() < 0.3 else [b"DBSIZE"]
    if t == "FLUSHALL": return [b"FLUSHALL"] if r.random() < 0.1 else [b"DBSIZE"]
    if t == "OTHER":
        return r.choice([[b"LPUSH", rk(r), rv(r)], [b"SADD", rk(r), rv(r)], [b"HSET", rk(r), rv(r), rv(r)]])
    if t == "EXPIRE": return [b"EXPIRE", rk(r), r.choice([b"100000", b"100", b"0", b"-1"])]
    if t == "PERSIST": return [b"PERSIST", rk(r)]
    if t == "SELECT": return [b"SELECT", r.choice([b"0", b"1", b"2", b"15", b"16", b"-1", b"abc"])]
    if t == "ARITY":
        name = r.choice([b"GET", b"SET", b"MGET", b"MSET", b"GETSET", b"SETNX", b"SETEX", b"PSETEX", b"APPEND", b"STRLEN", b"GETRANGE", b"SETRANGE", b"INCR", b"DECR",
                         b"INCRBY", b"DECRBY", b"DEL", b"EXISTS", b"TYPE", b"RENAME", b"RENAMENX", b"KEYS", b"DBSIZE", b"RANDOMKEY", b"FLUSHDB", b"FLUSHALL"])
        return [name] + [rk(r) for _ in range(r.randint(0, 5))]

def dump(c, m):
    # compare the dataset of every db used
    cur = m.db
    bad = []
    for db in (0, 1, 2, 15):
        c.cmd("SELECT", db)
        ks = sorted(c.cmd("KEYS", "*"))
        mk = sorted(m.dbs[db].keys())
        if ks != mk: bad.append(("keys", db, ks, mk)); continue
        for k in mk:
            e = m.dbs[db][k]
            t = c.cmd("TYPE", k)
            if t != S(e[0].encode()): bad.append(("type", db, k, t, e[0])); continue
            if e[0] == "string": v = c.cmd("GET", k); ok = v == e[1]
            elif e[0] == "list": v = c.cmd("LRANGE", k, 0, -1); ok = v == e[1]
            elif e[0] == "set": v = set(c.cmd("SMEMBERS", k)); ok = v == e[1]
            else:
                v = c.cmd("HGETALL", k); v = dict(zip(v[::2], v[1::2])); ok = v == e[1]
            if not ok: bad.append(("value", db, k, v, e[1]))
            ttl = c.cmd("TTL", k)
            if (ttl > 0) != e[2]: bad.append(("ttl", db, k, ttl, e[2]))
    c.cmd("SELECT", cur)
    return bad

def same(exp, got):
    if isinstance(exp, int) and isinstance(got, int) and abs(exp) > 2**53 and MODE != "plain": return True
    if isinstance(exp, tuple):
        if exp[0] == "SET": return isinstance(got, list) and sorted(got) == exp[1]
        if exp[0] == "ONEOF": return got in exp[1]
    return exp == got

def main(seed, steps):
    r = random.Random(seed)
    srv = Server()
    nbad = 0
    try:
        c = Client(srv.port)
        m = Model()
        hist = []
        for i in range(steps):
            a = gen(r)
            if any(lenient(x) for x in a[1:]): continue
            if MODE in ("lua", "mix") and a[0].upper() == b"SELECT" and r.random() < 2: 
                c.cmd(*a)
            try: exp = m.run(a)
            except Err as e: exp = E(str(e).encode())
            mode = MODE
            if mode == "mix": mode = r.choice(["plain", "multi", "lua"])
            if mode == "multi":
                if isinstance(exp, E) and exp.m in (b"arity", b"unknown"): 
                    continue
                r1 = c.cmd("MULTI"); r2 = c.cmd(*a); r3 = c.cmd("EXEC")
                if r1 != S(b"OK") or r2 != S(b"QUEUED") or not isinstance(r3, list) or len(r3) != 1:
                    print("MULTI ODD", a, r1, r2, r3); got = r3
                else: got = r3[0]
            elif mode == "lua":
                if a[0].upper() == b"SELECT": continue
                got = c.cmd("EVAL", "return redis.pcall(unpack(ARGV))", 0, *a)
                # lua conversions: status -> bulk, nil inside arrays truncates
                if isinstance(exp, S): exp = exp.m
                if isinstance(exp, list):
                    e2 = []
                    for x in exp:
                        if x is None: break
                        e2.append(x)
                    exp = e2
            else:
                got = c.cmd(*a)
            hist.append((mode, a))
            if not same(exp, got):
                print("REPLY MISMATCH seed", seed, "step", i, a, "expected", exp, "got", got, "recent", hist[-4:])
                nbad += 1
            if i % 25 == 0 or not same(exp, got):
                bad = dump(c, m)
                if bad:
                    print("STATE MISMATCH seed", seed, "step", i, "last", hist[-3:], bad[:3])
                    nbad += 1
                    return nbad
            if nbad > 5: return nbad
    finally:
        srv.stop()
    return nbad

if __name__ == "__main__":
    s0 = int(sys.argv[1]); n = int(sys.argv[2]); steps = int(sys.argv[3]); MODE = sys.argv[4] if len(sys.argv) > 4 else "plain"
    tot = 0
    for s in range(s0, s0+n):
        tot += main(s, steps)
    print("done, mismatches:", tot)
