from rc import *
import time
s = Server()
try:
    c = Client(s.port, timeout=120)
    t=time.time()
    print(c.cmd("SETRANGE", "k", 536870911, "x"), time.time()-t)
    t=time.time()
    print("APPEND at limit:", c.cmd("APPEND", "k", "y"), time.time()-t)
    print(c.cmd("STRLEN", "k"))
    print("SETRANGE beyond:", c.cmd("SETRANGE", "k", 536870912, "z"))
finally:
    s.stop()
