from rc import *
import os, time
s = Server()
try:
    c = Client(s.port, timeout=120)
    c.s.sendall(enc("SET","a","1")+enc("QUIT")+enc("SET","a","2"))
    try:
        print(c.read(), c.read(), c.read())
    except Exception as e: print("exc", e)
    c = Client(s.port, timeout=120)
    print("a =", c.cmd("GET","a"))
    # big value round trip
    v = os.urandom(100*1024*1024)
    t=time.time(); print(c.cmd("SET","big",v), time.time()-t)
    t=time.time(); g = c.cmd("GET","big"); print(g == v, time.time()-t)
    print(c.cmd("STRLEN","big"), c.cmd("GETRANGE","big",-5,-1) == v[-5:], c.cmd("APPEND","big","xyz"), c.cmd("GETRANGE","big",100*1024*1024-2, -1) == v[-2:]+b"xyz")
    print(c.cmd("RENAME","big","big2"), c.cmd("STRLEN","big2"), c.cmd("DEL","big2"))
finally:
    s.stop()
