from rc import *
import time
s = Server()
try:
    c = Client(s.port, timeout=20)
    cmds = [("GET","k"),("MGET","k","k"),("GETSET","k","n"),("SETNX","k","n"),("SET","k","n","NX"),("SET","k","n","XX"),("APPEND","k","n"),("STRLEN","k"),
            ("GETRANGE","k",0,-1),("SETRANGE","k",1,"n"),("INCR","k"),("DECR","k"),("INCRBY","k",5),("DECRBY","k",5),("DEL","k"),("EXISTS","k","k"),("TYPE","k"),
            ("RENAME","k","j"),("RENAMENX","k","j"),("RENAME","o","k"),("RENAMENX","o","k"),("KEYS","*"),("DBSIZE",),("RANDOMKEY",),("PERSIST","k"),("EXPIRE","k",100),("TTL","k"),("PTTL","k"),
            ("LPUSH","k","x"),("SADD","k","x"),("HSET","k","f","v"),("ZADD","k",1,"a"),("XADD","k","1-1","f","v"),
            ("EVAL","return redis.call('GET',KEYS[1])",1,"k"),("EVAL","return redis.call('INCR',KEYS[1])",1,"k"),("EVAL","return redis.call('EXISTS',KEYS[1])",1,"k"),
            ("EVAL","return redis.call('DBSIZE')",0),("EVAL","return redis.call('KEYS','*')",0),("EVAL","return redis.call('SETNX',KEYS[1],'n')",1,"k"),("EVAL","return redis.call('RENAMENX','o',KEYS[1])",1,"k"),
            ("EVAL","return redis.call('APPEND',KEYS[1],'n')",1,"k"),("EVAL","return redis.call('STRLEN',KEYS[1])",1,"k"),("EVAL","return redis.call('TYPE',KEYS[1])",1,"k"),("EVAL","return redis.call('RANDOMKEY')",0)]
    def state():
        out = {}
        for k in sorted(c.cmd("KEYS","*")):
            t = c.cmd("TYPE",k).m
            out[k] = (t, c.cmd("GET",k) if t == b"string" else None, c.cmd("TTL",k) > 0)
        return out
    for variant in ("plain", "multi"):
        for cmd in cmds:
            res = []
            for expired in (False, True):
                c.cmd("FLUSHALL")
                c.cmd("SET","o","5")
                if expired:
                    c.cmd("SET","k","7","PX",30)
                    time.sleep(0.06)
                if variant == "multi":
                    c.cmd("MULTI"); c.cmd(*cmd); r = c.cmd("EXEC")
                else:
                    r = c.cmd(*cmd)
                res.append((r, state()))
            if res[0] != res[1]:
                print(variant, cmd, "\n   missing:", res[0], "\n   expired:", res[1])
    print("done")
finally:
    s.stop()
