from rc import *
import time
s = Server()
try:
    c = Client(s.port, timeout=600)
    n = 512*1024*1024 + 1
    t = time.time()
    c.s.sendall(b"*3\r\n$3\r\nSET\r\n$1\r\nk\r\n$%d\r\n" % n)
    chunk = b"x" * (1 << 20)
    sent = 0
    while sent < n:
        m = min(len(chunk), n - sent)
        c.s.sendall(chunk[:m]); sent += m
    c.s.sendall(b"\r\n")
    print("sent", time.time() - t)
    print(c.read(), time.time() - t)
    print(c.cmd("STRLEN", "k"))
finally:
    s.stop()
