from rc import *
import os
s = Server()
d = s.dir; port = s.port
try:
    c = Client(s.port, timeout=60)
    vals = {}
    for i, n in enumerate([0,1,63,64,65,16383,16384,16385,65535,65536,1<<20,(1<<24)+3]):
        k = b"k%d" % n
        v = os.urandom(n)
        vals[k] = v
        assert c.cmd("SET", k, v) == S(b"OK")
    for k, v in [(b"", b"emptykey"), (b"\xff\x00\r\n", b"\r\n\x00"), (b"int", b"12345"), (b"neg", b"-1"), (b"big", b"9223372036854775807"), (b"lz", b"007"), (b"x"*70, b"y"), (b"z"*20000, b"longkey")]:
        vals[k] = v
        c.cmd("SET", k, v)
    c.cmd("SELECT", 3); c.cmd("SET", "db3", "v3"); c.cmd("SETEX", "ttl", 1000, "v"); c.cmd("SELECT", 0)
    print(c.cmd("SAVE"))
    s.stop(rm=False)
    s = Server(d=d, port=port)
    c = Client(s.port, timeout=60)
    bad = 0
    for k, v in vals.items():
        g = c.cmd("GET", k)
        if g != v:
            bad += 1; print("MISMATCH", k[:20], len(v), None if g is None else len(g))
    print("dbsize", c.cmd("DBSIZE"), len(vals), "bad", bad)
    c.cmd("SELECT", 3); print(c.cmd("GET", "db3"), c.cmd("TTL", "ttl"), c.cmd("DBSIZE"))
finally:
    s.stop()
