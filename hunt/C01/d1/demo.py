#!/usr/bin/env python3
"""d1: APPEND (and SET) let a string value grow beyond Redis's 512 MB limit.

usage: demo.py [path-to-ferrous-binary] [--big]
  --big : additionally send a SET with a 512 MB + 1 byte value over the wire (slow, ~20 s, ~2 GB of server memory)
exit 1 = property violated, 0 = holds
"""
import os, shutil, socket, subprocess, sys, tempfile, time

BIN = next((a for a in sys.argv[1:] if not a.startswith("--")), "/tmp/hunt-C01/target/debug/ferrous")
BIG = "--big" in sys.argv
LIMIT = 512 * 1024 * 1024


def free_port():
    s = socket.socket(); s.bind(("127.0.0.1", 0)); p = s.getsockname()[1]; s.close(); return p


def enc(*args):
    out = b"*%d\r\n" % len(args)
    for a in args:
        if isinstance(a, str): a = a.encode()
        elif isinstance(a, int): a = str(a).encode()
        out += b"$%d\r\n%s\r\n" % (len(a), a)
    return out


class Client:
    def __init__(self, port, timeout=120):
        self.s = socket.create_connection(("127.0.0.1", port), timeout=timeout); self.buf = b""
    def _fill(self):
        d = self.s.recv(1 << 16)
        if not d: raise EOFError("connection closed by server")
        self.buf += d
    def read(self):
        while b"\r\n" not in self.buf: self._fill()
        l, self.buf = self.buf.split(b"\r\n", 1)
        t, r = l[:1], l[1:]
        if t == b"+": return "+" + r.decode()
        if t == b"-": return "-" + r.decode()
        if t == b":": return int(r)
        if t == b"$":
            n = int(r)
            if n < 0: return None
            while len(self.buf) < n + 2: self._fill()
            v, self.buf = self.buf[:n], self.buf[n + 2:]; return v
        if t == b"*":
            n = int(r)
            return None if n < 0 else [self.read() for _ in range(n)]
        raise ValueError(l)
    def cmd(self, *a):
        self.s.sendall(enc(*a)); return self.read()


def is_err(r): return isinstance(r, str) and r.startswith("-")


def main():
    d = tempfile.mkdtemp(prefix="hunt-c01-d1-")
    port = free_port()
    log = open(os.path.join(d, "server.log"), "wb")
    p = subprocess.Popen([BIN, "--port", str(port), "--dir", d], stdout=log, stderr=log, cwd=d)
    violated = False
    try:
        for _ in range(200):
            try: socket.create_connection(("127.0.0.1", port), timeout=1).close(); break
            except OSError: time.sleep(0.05)
        c = Client(port)
        # a string of exactly 512 MB: allowed (the zero padding is not touched, so this is cheap)
        r = c.cmd("SETRANGE", "k", LIMIT - 1, "x")
        print("SETRANGE k %d x            -> %r   (512 MB exactly: allowed)" % (LIMIT - 1, r))
        r = c.cmd("SETRANGE", "k", LIMIT, "z")
        print("SETRANGE k %d z            -> %r   (control: SETRANGE knows the limit)" % (LIMIT, r))
        r = c.cmd("APPEND", "k", "y")
        n = c.cmd("STRLEN", "k")
        print("APPEND k y                        -> %r" % (r,))
        print("STRLEN k                          -> %r" % (n,))
        if not is_err(r) or n != LIMIT:
            print("VIOLATION: Redis refuses the APPEND ('string exceeds maximum allowed size') and leaves k at %d bytes;"
                  " here it answered %r and k now has %r bytes" % (LIMIT, r, n))
            violated = True
        # the same through a script and through MULTI/EXEC (same engine function)
        r = c.cmd("EVAL", "return redis.pcall('APPEND', KEYS[1], 'w')", 1, "k")
        print("EVAL redis.pcall('APPEND',k,'w')  -> %r, STRLEN %r" % (r, c.cmd("STRLEN", "k")))
        if not is_err(r): violated = True
        c.cmd("DEL", "k")
        if BIG:
            n = LIMIT + 1
            c.s.sendall(b"*3\r\n$3\r\nSET\r\n$1\r\nk\r\n$%d\r\n" % n)
            chunk = b"x" * (1 << 20); sent = 0
            try:
                while sent < n:
                    m = min(len(chunk), n - sent); c.s.sendall(chunk[:m]); sent += m
                c.s.sendall(b"\r\n")
                r = c.read()
            except (EOFError, OSError) as e:
                r = "-connection closed (%s)" % e
            print("SET k <512 MB + 1 byte>           -> %r   (Redis: protocol error 'invalid bulk length', connection closed)" % (r,))
            if not is_err(r): violated = True
    finally:
        p.kill(); p.wait(); log.close(); shutil.rmtree(d, ignore_errors=True)
    print("RESULT:", "property VIOLATED" if violated else "property holds")
    return 1 if violated else 0


if __name__ == "__main__":
    sys.exit(main())
