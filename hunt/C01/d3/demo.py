#!/usr/bin/env python3
"""d3: SET EX/PX, SETEX and PSETEX accept an expire time whose deadline overflows i64 milliseconds
(e.g. 9223372036854775807): they answer OK, overwrite the key and give it a ~100-year TTL, where Redis answers
'-ERR invalid expire time in ... command' and leaves the dataset alone.

usage: demo.py [path-to-ferrous-binary]      exit 1 = property violated, 0 = holds
"""
import os, shutil, socket, subprocess, sys, tempfile, time

BIN = sys.argv[1] if len(sys.argv) > 1 else "/tmp/hunt-C01/target/debug/ferrous"
I64MAX = 2 ** 63 - 1


def free_port():
    s = socket.socket(); s.bind(("127.0.0.1", 0)); p = s.getsockname()[1]; s.close(); return p


def enc(*args):
    out = b"*%d\r\n" % len(args)
    for a in args:
        if isinstance(a, str): a = a.encode()
        elif isinstance(a, int): a = str(a).encode()
        out += b"$%d\r\n%s\r\n" % (len(a), a)
    return out


class Client:
    def __init__(self, port, timeout=20):
        self.s = socket.create_connection(("127.0.0.1", port), timeout=timeout); self.buf = b""
    def _fill(self):
        d = self.s.recv(1 << 16)
        if not d: raise EOFError("closed")
        self.buf += d
    def read(self):
        while b"\r\n" not in self.buf: self._fill()
        l, self.buf = self.buf.split(b"\r\n", 1)
        t, r = l[:1], l[1:]
        if t == b"+": return "+" + r.decode()
        if t == b"-": return "-" + r.decode()
        if t == b":": return int(r)
        if t == b"$":
            n = int(r)
            if n < 0: return None
            while len(self.buf) < n + 2: self._fill()
            v, self.buf = self.buf[:n], self.buf[n + 2:]; return v
        if t == b"*":
            n = int(r)
            return None if n < 0 else [self.read() for _ in range(n)]
        raise ValueError(l)
    def cmd(self, *a):
        self.s.sendall(enc(*a)); return self.read()


def main():
    d = tempfile.mkdtemp(prefix="hunt-c01-d3-")
    port = free_port()
    log = open(os.path.join(d, "server.log"), "wb")
    p = subprocess.Popen([BIN, "--port", str(port), "--dir", d], stdout=log, stderr=log, cwd=d)
    violated = False
    try:
        for _ in range(200):
            try: socket.create_connection(("127.0.0.1", port), timeout=1).close(); break
            except OSError: time.sleep(0.05)
        c = Client(port)
        now_ms = int(time.time() * 1000)
        cases = [
            # Redis (t_string.c getExpireMillisecondsOrReply): seconds > LLONG_MAX/1000, or now + ms > LLONG_MAX -> refused
            ("SET", "k", "new", "EX", str(I64MAX)),
            ("SET", "k", "new", "PX", str(I64MAX)),
            ("SET", "k", "new", "EX", str(I64MAX // 1000 + 1)),          # smallest EX whose *1000 overflows
            ("SET", "k", "new", "PX", str(I64MAX - now_ms + 60000)),      # now + ms overflows by a minute
            ("SET", "k", "new", "XX", "EX", str(I64MAX)),
            ("SETEX", "k", str(I64MAX), "new"),
            ("PSETEX", "k", str(I64MAX), "new"),
            ("EVAL", "return redis.pcall('SET', KEYS[1], 'new', 'EX', ARGV[1])", 1, "k", str(I64MAX)),
        ]
        for case in cases:
            c.cmd("FLUSHALL")
            c.cmd("SET", "k", "old")
            r = c.cmd(*case)
            v, ttl = c.cmd("GET", "k"), c.cmd("TTL", "k")
            refused = isinstance(r, str) and r.startswith("-")
            ok = refused and v == b"old" and ttl == -1
            print("%-62s -> %-10r then GET k = %r, TTL k = %r   %s"
                  % (" ".join(x if len(x) < 30 else "<script>" for x in map(str, case)), r, v, ttl,
                     "ok (refused, dataset unchanged)" if ok else "VIOLATION (Redis: -ERR invalid expire time, k = old, TTL -1)"))
            if not ok: violated = True
        # control: the largest values Redis accepts are accepted
        c.cmd("FLUSHALL")
        r = c.cmd("SET", "k", "v", "PX", str(I64MAX - now_ms - 3600000))
        print("control: SET k v PX <i64max - now - 1h> -> %r (Redis: OK), TTL %r" % (r, c.cmd("TTL", "k")))
        # related, outside the property's command list: EXPIRE with the same boundary value
        c.cmd("SET", "e", "v")
        print("related: EXPIRE e %d -> %r, TTL e = %r (Redis: -ERR invalid expire time in 'expire' command, TTL -1)"
              % (I64MAX, c.cmd("EXPIRE", "e", str(I64MAX)), c.cmd("TTL", "e")))
    finally:
        p.kill(); p.wait(); log.close(); shutil.rmtree(d, ignore_errors=True)
    print("RESULT:", "property VIOLATED" if violated else "property holds")
    return 1 if violated else 0


if __name__ == "__main__":
    sys.exit(main())
