#!/usr/bin/env python3
"""d2: the reply to GET is cut short when QUIT follows in the same pipeline (the closing connection is dropped with
its unsent output); besides, the commands pipelined BEHIND QUIT are still executed.

usage: demo.py [path-to-ferrous-binary]      exit 1 = property violated, 0 = holds
"""
import os, shutil, socket, subprocess, sys, tempfile, time

BIN = sys.argv[1] if len(sys.argv) > 1 else "/tmp/hunt-C01/target/debug/ferrous"
SIZE = 32 * 1024 * 1024


def free_port():
    s = socket.socket(); s.bind(("127.0.0.1", 0)); p = s.getsockname()[1]; s.close(); return p


def enc(*args):
    out = b"*%d\r\n" % len(args)
    for a in args:
        if isinstance(a, str): a = a.encode()
        elif isinstance(a, int): a = str(a).encode()
        out += b"$%d\r\n%s\r\n" % (len(a), a)
    return out


def exchange(port, payload, expect_len, wait_eof):
    """send payload, then read until `expect_len` bytes arrived or the server closes / 20 s pass"""
    s = socket.create_connection(("127.0.0.1", port), timeout=20)
    s.sendall(payload)
    time.sleep(0.3)                      # an ordinary client that is not infinitely fast
    got = 0; head = b""; tail = b""; closed = False
    try:
        while wait_eof or got < expect_len:
            d = s.recv(1 << 20)
            if not d: closed = True; break
            if len(head) < 16: head += d[:16 - len(head)]
            tail = (tail + d)[-8:]
            got += len(d)
    except socket.timeout:
        pass
    s.close()
    return got, head, tail, closed


def one_line(port, *a):
    s = socket.create_connection(("127.0.0.1", port), timeout=20)
    s.sendall(enc(*a)); buf = b""
    while not buf.endswith(b"\r\n"): buf += s.recv(65536)
    s.close(); return buf


def main():
    d = tempfile.mkdtemp(prefix="hunt-c01-d2-")
    port = free_port()
    log = open(os.path.join(d, "server.log"), "wb")
    p = subprocess.Popen([BIN, "--port", str(port), "--dir", d], stdout=log, stderr=log, cwd=d)
    violated = False
    try:
        for _ in range(200):
            try: socket.create_connection(("127.0.0.1", port), timeout=1).close(); break
            except OSError: time.sleep(0.05)
        print("SETRANGE big %d x ->" % (SIZE - 1), one_line(port, "SETRANGE", "big", SIZE - 1, "x"))
        bulk = len(b"$%d\r\n" % SIZE) + SIZE + 2
        # control: GET alone
        got, head, tail, closed = exchange(port, enc("GET", "big"), bulk, wait_eof=False)
        print("control  'GET big'        : %d of %d reply bytes, starts %r" % (got, bulk, head[:11]))
        if got != bulk: print("  (control failed?)"); violated = True
        for i in range(3):
            want = bulk + len(b"+OK\r\n")
            got, head, tail, closed = exchange(port, enc("GET", "big") + enc("QUIT"), want, wait_eof=True)
            print("run %d    'GET big; QUIT'  : %d of %d reply bytes, starts %r, ends %r, closed by server: %s"
                  % (i + 1, got, want, head[:11], tail, closed))
            if got != want or not tail.endswith(b"x\r\n+OK\r\n"):
                violated = True
        if violated:
            print("VIOLATION: the bulk reply announced %d bytes but the connection was closed after a fraction of them;"
                  " Redis (close-after-reply) delivers the whole reply to GET and the +OK of QUIT before closing" % SIZE)
        # side effect of the same QUIT handling: commands behind QUIT are still executed
        s = socket.create_connection(("127.0.0.1", port), timeout=20)
        s.sendall(enc("SET", "a", "1") + enc("QUIT") + enc("SET", "a", "2"))
        time.sleep(0.3)
        rep = b""
        try:
            while True:
                x = s.recv(65536)
                if not x: break
                rep += x
        except socket.timeout: pass
        s.close()
        a = one_line(port, "GET", "a")
        print("'SET a 1; QUIT; SET a 2' replies %r ; GET a -> %r (Redis: 2 replies, a = 1)" % (rep, a))
        if a != b"$1\r\n1\r\n":
            print("VIOLATION: the SET pipelined behind QUIT was executed")
            violated = True
    finally:
        p.kill(); p.wait(); log.close(); shutil.rmtree(d, ignore_errors=True)
    print("RESULT:", "property VIOLATED" if violated else "property holds")
    return 1 if violated else 0


if __name__ == "__main__":
    sys.exit(main())
